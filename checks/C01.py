"""C01 — a committed transaction's changes appear all-or-nothing across every store.
TxnStore.tla is the oracle: API-level traces of random multi-store programs (commit / rollback / failing commit
under every injected backend fault) recorded from the real filesystem transaction are validated by TLC; after
every transaction end every store is observed by a fresh transaction and must equal the specified committed state."""
import collections, json, os, sys
sys.path.insert(0, os.path.dirname(os.path.abspath(__file__)))
import vlib, txnlib, _txncfg

META = dict(
    property_id="C01", engine="TxnStore",
    technique="TLA+ API-level transaction spec (TxnStore) + TLC trace validation of random multi-store programs and fault-injection runs of the real filesystem transaction",
    level="model_checking",
    level_text="TLC explores the API-level model exhaustively for small constants (atomic installation of all stores at the commit point, nothing installed on error/rollback), and validates every recorded implementation history against it: Observe after Commit=nil must equal the post-state for all stores, after Commit=error or Rollback the pre-state. Histories: random multi-store programs (1-3 stores, all value placements, slot lengths 2-8, commit/rollback) and every (call index, variant) fault position of the victims' commits.",
    level_note="Filesystem backend, in-memory L2, one process; observation by a fresh reader transaction in the same process (warm caches) — cold-cache/fresh-process observation is C19/C20's subject. Spurious commit failures (no fault) are not C01's business (Strict=FALSE here; C04/C07/C15 own them).",
    design_ref="C01",
)


def run(c):
    binp = c.build("txn")
    c.tlc_must_pass("TxnStoreMC", c.pick("TxnStoreMC.cfg", "TxnStoreMC_thorough.cfg"), workers=8, timeout=c.pick(300, 1500))
    # 1. random sequential multi-store programs (commit / rollback), strict
    g = _txncfg.gen(c, "a", MaxStores=3, MaxTxns=5, MaxOps=c.pick(14, 40), Keys=c.pick(12, 20), DupStores=True, Neighbour=True, ClearL2=15)
    seq = txnlib.run_driver(c, binp, "seq", _txncfg.cfg(c, "seq", c.pick(60, 600), g))
    rej = txnlib.validate(c, seq, "TxnStoreTrace.cfg")
    for r in rej:
        ev, raw = txnlib.describe(r)
        sig = "seq|%s|%s" % (raw.get("ev"), raw.get("op") or ("exists=%s" % raw.get("exists")))
        if raw.get("ev") == "OpError" and "no such file" in raw.get("note", ""):
            stores = {s["Name"]: s for s in (r["header"].get("program") or {}).get("stores", [])}
            sig += "|%s%s" % (stores.get(raw.get("s"), {}).get("Placement", "?"),
                              "|after-rolled-back-update" if txnlib.rolled_back_update(r["raw"], r["index"], raw.get("s")) else "")
        if raw.get("ev") == "ObserveError":
            stores = {s["Name"]: s for s in (r["header"].get("program") or {}).get("stores", [])}
            ends = [e for e in r["raw"][:r["index"]] if e.get("ev") in ("CommitEnd", "Rollback")]
            sig += "|%s|after-%s" % (stores.get(raw.get("s"), {}).get("Placement", "?"), "rollback" if ends and ends[-1].get("ev") == "Rollback" else "commit")
        if raw.get("ev") == "Op" and raw.get("op") in txnlib.READ_OPS:
            stores = {s["Name"]: s for s in (r["header"].get("program") or {}).get("stores", [])}
            empty = (raw.get("op") in ("Get",) and raw.get("ok") and raw.get("v") == "") or any(x.get("v") == "" for x in raw.get("items") or [])
            sig += "|intxn-read|%s|%s" % (stores.get(raw.get("s"), {}).get("Placement", "?"), "empty-value" if empty else "wrong-value")
        c.report(sig, "sequential program: event %d not explained by TxnStore: %s" % (r["index"], json.dumps(raw)[:300]),
                 dict(trace=r["trace"], program=r["header"].get("program"), rejected_index=r["index"], events=r["raw"]))
    # 2. fault injection at every backend call of the victim's commit (state claims only)
    gf = _txncfg.gen(c, "f", MaxTxns=3, MaxOps=10, Keys=10, Slots=[2, 4], Rollbacks=False)
    flt = txnlib.run_driver(c, binp, "fault", _txncfg.cfg(c, "fault", c.pick(1, 16), gf, max_fault=c.pick(24, 0), directed_max=c.pick(24, 0)),
                            timeout=c.pick(600, 3000))
    rej2 = txnlib.validate(c, flt, "TxnStoreTraceLax.cfg")
    classes = collections.Counter()
    for r in rej2:
        sig = txnlib.fault_signature(r)
        classes[sig] += 1
        ev, raw = txnlib.describe(r)
        c.report(sig, "fault %s: %s (event %d: %s)" % (r["header"].get("tag"), sig.split("|")[-1], r["index"], json.dumps(raw)[:300]),
                 dict(trace=r["trace"], program=r["header"].get("program"), fault=r["header"].get("tag"),
                      rejected_index=r["index"], events=r["raw"]))
    multi = sum(1 for _, h, _ in seq if len(h.get("program", {}).get("stores", [])) > 1)
    c.sample(dict(trace=seq[0][0], program=seq[0][1].get("program"), events=seq[0][2][:10]))
    c.cov.update(dict(evaluations=len(seq) + len(flt),
                      distinct_nontrivial=multi + len({h.get("tag", "").split("|", 1)[-1] for _, h, _ in flt}),
                      multi_store_programs=multi, fault_runs=len(flt), rejection_classes=dict(classes),
                      rule="sequential programs: non-trivial = touches more than one store; fault runs: distinct by (call kind @ commit step, variant)"))


if __name__ == "__main__":
    vlib.main(run, "C01")
