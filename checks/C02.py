"""C02 — successfully committed transactions are serializable.
Concurrent real transactions (read-modify-write, blind writes, read-only, with aborts) on overlapping keys of a
shared store are run under a deterministic gate scheduler (one transaction advances at a time, slices of 1..N
backend calls, seeded) and as free-running goroutines; each history (per transaction: operations with results,
commit outcome; contents before and after) is handed to TLC, which searches for a serial order of the committed
transactions explaining every value read, every presence answer a write acted on, and the final contents
(spec/TxnSerial.tla).  The design-level handle protocol is explored exhaustively by SopCommitMC."""
import collections, json, os, sys
sys.path.insert(0, os.path.dirname(os.path.abspath(__file__)))
import vlib, txnlib, conclib, _conc

META = dict(
    property_id="C02", engine="TxnSerial",
    technique="TLA+ serialisation search (TxnSerial) by TLC over histories recorded from real concurrent transactions under a seeded gate scheduler and free-running goroutines; SopCommitMC explores the commit protocol's interleavings",
    level="model_checking",
    level_text="For each recorded history TLC explores all orders of the committed transactions (memoised on (subset, state)) and accepts iff one explains all recorded reads and the final contents; any order is allowed (not only real-time order), exactly as the property states. Histories come from seeded schedules at backend-call granularity (2-4 transactions, overlapping keys) plus unscheduled goroutines.",
    level_note="Reads = values obtained and presence answers writes acted on (no phantom protection demanded); unique-key store, int keys; in-process transactions sharing L1/L2 caches; schedules are sampled, not exhaustive.",
    design_ref="C02",
)


def run(c):
    binp = c.build("txn")
    c.tlc_must_pass("SopCommitMC", c.pick("SopCommitMC.cfg", "SopCommitMC3.cfg"), workers=8, timeout=c.pick(300, 1500))
    total, nontrivial = 0, 0
    classes = collections.Counter()
    for sched, progs, txns in (("gate", c.pick(40, 300), 3), ("free", c.pick(30, 300), 4)):
        conc = dict(workload="mixed", txns=txns, keys=c.pick(5, 6), slot=4, sched=sched, max_step=8)
        traces, _ = _conc.run_conc(c, binp, "m" + sched, progs, conc)
        hists, outs = [], []
        for n, h, evs in traces:
            hh, out = conclib.history_of(evs)
            hists.append(hh); outs.append(out)
        bad = conclib.serial_check(c, hists)
        total += len(hists)
        nontrivial += sum(1 for hh in hists if sum(1 for t in hh["txns"] if any(o["op"] in ("Update", "Upsert", "Add", "Remove", "AddIfNotExist") for o in t["ops"])) >= 2)
        for i in sorted(bad):
            n, h, evs = traces[i]
            sig = "not-serializable|%s|%s" % (sched, conclib.classify_unserializable(hists[i]))
            classes[sig] += 1
            c.report(sig, "no serial order of the committed transactions explains the recorded reads and the final contents (%s)" % n,
                     dict(trace=n, schedule=h.get("sched"), program=h.get("program"), history=hists[i], outcomes=outs[i], events=evs))
        c.cov["traces_validated_against_impl"] += len(hists)
        if sched == "gate" and traces:
            c.sample(dict(schedule=traces[0][1].get("sched"), history=hists[0]))
    c.cov.update(dict(evaluations=total, distinct_nontrivial=nontrivial, rejection_classes=dict(classes),
                      rule="one case = one concurrent history; non-trivial = at least two committed transactions that wrote"))


if __name__ == "__main__":
    vlib.main(run, "C02")
