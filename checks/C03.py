"""C03 — uncommitted and rolled-back writes are never visible to other transactions.
The writer is paused before every backend call of its work and commit phases (gate in the decorators); while it is
paused a reader transaction (same process; and a child process with cold caches) reads every key, the count and a
full scan of every store; then the writer continues to completion or into an injected failure.  The API-level
trace is validated by TLC against TxnStore: whatever a reader gets must be the committed state, where the
writer's changes count as committed only from a linearization point inside a Commit that later returns success."""
import collections, json, os, sys
sys.path.insert(0, os.path.dirname(os.path.abspath(__file__)))
import vlib, txnlib, _txncfg

META = dict(
    property_id="C03", engine="TxnStore",
    technique="TLA+ API-level transaction spec (TxnStore, silent linearization step) + TLC trace validation of pause-the-writer sweeps over every backend call of the real commit, readers in and out of process",
    level="model_checking",
    level_text="For each explored writer shape the writer is stopped before every backend call (exhaustive in the thorough tier, seeded sample in the quick tier) and readers run to completion in the gap; TLC decides whether the readers' values, counts and scans are explainable by committed states only (the writer's effects may appear only atomically and only if its Commit later succeeds).",
    level_note="Filesystem backend, in-memory L2; the writer is paused at backend-call granularity (not inside a file write); child-process readers have their own L2 and L1 caches.",
    design_ref="C03",
)


def run(c):
    binp = c.build("txn")
    c.tlc_must_pass("TxnStoreMC", c.pick("TxnStoreMC.cfg", "TxnStoreMC_thorough.cfg"), workers=8, timeout=c.pick(300, 1500))
    g = _txncfg.gen(c, "w", MaxTxns=3, MaxOps=8, Keys=8, Slots=[2, 4], Rollbacks=False)
    cfg = _txncfg.cfg(c, "sweep", c.pick(3, 12), g, max_fault=c.pick(14, 0), child=c.pick(4, 3))
    traces = txnlib.run_driver(c, binp, "sweep", cfg, timeout=c.pick(900, 3000))
    parked = sum(1 for _, h, _ in traces if h.get("parked"))
    rej = txnlib.validate(c, traces, "TxnStoreTrace.cfg")
    classes = collections.Counter()
    for r in rej:
        sig = txnlib.sweep_signature(r)
        classes[sig] += 1
        ev, raw = txnlib.describe(r)
        c.report(sig, "writer paused at %s: %s (event %d: %s)" % (r["header"].get("tag"), sig.split("|")[-1], r["index"], json.dumps(raw)[:300]),
                 dict(trace=r["trace"], program=r["header"].get("program"), pause=r["header"].get("tag"),
                      rejected_index=r["index"], events=r["raw"]))
    c.sample(dict(trace=traces[-1][0], events=traces[-1][2][-14:]))
    c.cov.update(dict(evaluations=len(traces), distinct_nontrivial=len({h.get("tag", "").split("|", 1)[-1] for _, h, _ in traces if h.get("parked")}),
                      writer_parked=parked, rejection_classes=dict(classes), exhaustive=not c.quick,
                      rule="one case = (writer shape, pause position = backend call index from Begin, continuation continue|fail); non-trivial = the writer really parked there; distinct by (call kind @ commit step, continuation)"))


if __name__ == "__main__":
    vlib.main(run, "C03")
