"""C04 — concurrent transactions with disjoint changes to one store both commit.
2-3 writers add different new keys (interleaved so that they hit, split and merge the same leaves; also into an
empty store: competing first root) and update and remove disjoint existing keys, under seeded gate schedules and as free
goroutines, with a large commit time.  TLC (TxnSerial with required = all) accepts a history iff every writer
committed and the final contents are the serial union."""
import collections, json, os, sys
sys.path.insert(0, os.path.dirname(os.path.abspath(__file__)))
import vlib, txnlib, conclib, _conc, _txncfg

META = dict(
    property_id="C04", engine="TxnSerial",
    technique="TLA+ serialisation search (TxnSerial, all writers required to commit) by TLC over histories of real concurrent disjoint writers under seeded gate schedules and free goroutines; SopCommitMC explores the node-lock / refetch-and-merge retry protocol",
    level="model_checking",
    level_text="Every history of 2-3 disjoint writers (same leaf, splitting leaves with slot length 2-4, competing first root of an empty store) must be accepted by TLC: all commits succeeded and the final contents equal a serial execution (the union). Schedules are seeded samples at backend-call/API-call granularity plus real goroutine concurrency.",
    level_note="maxTime 30 s per commit; liveness is judged on the sampled schedules (a stalled lock holder is only stalled for bounded slices); the exhaustive SopCommitMC run checks safety of the retry protocol, not its liveness.",
    design_ref="C04",
)


def run(c):
    binp = c.build("txn")
    c.tlc_must_pass("SopCommitMC", c.pick("SopCommitMC.cfg", "SopCommitMC3.cfg"), workers=8, timeout=c.pick(300, 1500))
    total = 0
    classes = collections.Counter()
    variants = [("gate", 2, 4, False), ("gate", 4, 6, False), ("gate", 2, 0, True), ("free", 4, 6, False), ("free", 2, 0, True),
                ("gate", 4, 14, False), ("gate", 4, 6, False)]
    for vi, (sched, slot, keys, empty) in enumerate(variants):
        conc = dict(workload="disjoint", txns=(2 if empty else 2 + (vi % 2)), keys=keys, slot=slot, sched=sched, max_step=8, empty=empty)
        if vi >= 5:   # one writer adds a key, another adds eight neighbours (splits): the later committer merges into a changed structure
            conc.update(workload="split", txns=2 + (vi % 2), max_step=12)
        # the three-writer gate variant gets more histories: commits that need two refetch-and-merge rounds are rare
        nh = c.pick(25, 100) if (vi == 1) else c.pick(6, 60)
        traces, _ = _conc.run_conc(c, binp, "d%d%s" % (vi, sched), nh, conc, timeout=3000)
        hists, outs = [], []
        for n, h, evs in traces:
            hh, out = conclib.history_of(evs, require_all=True)
            hists.append(hh); outs.append(out)
        bad = conclib.serial_check(c, hists)
        total += len(hists)
        # Under the gate scheduler a transaction that waits for a lock of a PARKED transaction burns wall-clock time
        # inside its slice while the others' deadlines run out: commits that end in a timeout / context deadline there
        # are produced by the scheduler, not by SOP (the free-running variants keep them).  Such histories are
        # inconclusive and are skipped.
        def starved(evs):
            return sched == "gate" and not empty and any(e.get("ev") == "CommitEnd" and not e.get("ok") and
                       any(w in e.get("note", "").lower() for w in ("deadline", "timed out")) for e in evs)
        skip = {i for i, (n, h, evs) in enumerate(traces) if starved(evs)}
        c.cov["inconclusive_gate_timeouts"] = c.cov.get("inconclusive_gate_timeouts", 0) + len(skip)
        bad = [i for i in bad if i not in skip]
        # a traversal of the store must be in key order (an item merged into the wrong leaf shows up out of place)
        for i, (n, h, evs) in enumerate(traces):
            if i in skip or any(e.get("ev") == "CommitEnd" and not e.get("ok") for e in evs):
                continue    # a failed commit is classified below (commit-failed:...); what it leaves is C07's subject
            for e in evs:
                ks = [x["k"] for x in (e.get("items") or [])] if e.get("ev") == "Observe" else []
                if ks != sorted(ks) or (e.get("ev") == "Observe" and e.get("exists") and e.get("count") != len(ks)):
                    sig = "disjoint|%s|slot=%d|empty=%s|traversal-%s" % (sched, slot, empty, "out-of-order" if ks != sorted(ks) else "count-differs")
                    classes[sig] += 1
                    c.report(sig, "disjoint writers: traversal after the commits returns keys %s, count %s" % (ks, e.get("count")),
                             dict(trace=n, schedule=h.get("sched"), program=h.get("program"), events=evs))
                    break
        for i in sorted(bad):
            n, h, evs = traces[i]
            failed = sorted(t for t, o in outs[i].items() if o != "committed")
            notes = [e.get("note", "")[:120] for e in evs if e.get("ev") == "CommitEnd" and not e.get("ok")]
            def reason(n0):
                n0 = n0.lower()
                if "detected conflict" in n0: return "item-lock-conflict"
                if "deadline" in n0 or "timed out" in n0: return "deadline"
                if "retry limit" in n0: return "retry-limit"
                if "failed to merge" in n0: return "merge-add-failed"
                if "newer version" in n0: return "newer-version"
                return "other"
            why = ("commit-failed:" + ",".join(sorted({reason(x) for x in notes}))) if failed else ("union-differs:" + conclib.classify_unserializable(hists[i]))
            sig = "disjoint|%s|slot=%d|empty=%s|%s" % (sched, slot, empty, why)
            classes[sig] += 1
            c.report(sig, "disjoint writers: %s %s" % (why, notes[:2]),
                     dict(trace=n, schedule=h.get("sched"), program=h.get("program"), history=hists[i], outcomes=outs[i], events=evs))
        c.cov["traces_validated_against_impl"] += len(hists)
        if vi == 0 and traces:
            c.sample(dict(schedule=traces[0][1].get("sched"), history=hists[0]))
    # directed history (deterministic): T_a creates a store and adds key 1; T_b opens the new store, adds key 2 and commits
    # first; T_a commits: it lost the race for the first root and must merge.  Disjoint keys: both must commit.
    g = _txncfg.gen(c, "r", MaxTxns=1, MaxOps=1, Keys=2)
    dtr = txnlib.run_driver(c, binp, "stores", _txncfg.cfg(c, "directed", 0, g, faults=False))
    for n, h, evs in dtr:
        if not h.get("directed"):
            continue
        total += 1
        failed = [e for e in evs if e.get("ev") == "CommitEnd" and not e.get("ok")]
        obs = [e for e in evs if e.get("ev") == "Observe"]
        keys = sorted(x["k"] for x in (obs[-1].get("items") or [])) if obs else []
        place = h["program"]["stores"][0]["Placement"]
        if failed or keys != [1, 2]:
            why = ("commit-failed:%s" % ("store-not-found" if "not found" in failed[0].get("note", "") else "other")) if failed else "union-differs"
            sig = "disjoint|directed-creator-loses-first-root|%s|%s" % (place, why)
            classes[sig] += 1
            c.report(sig, "creator and opener of a new store add disjoint keys: %s; store holds %s (%s)" % (why, keys, [e.get("note", "")[:120] for e in failed]),
                     dict(trace=n, program=h.get("program"), events=evs))
    c.cov.update(dict(evaluations=total, distinct_nontrivial=total, rejection_classes=dict(classes),
                      rule="one case = one history of 2-3 concurrent disjoint writers; every one is non-trivial (all write)"))


if __name__ == "__main__":
    vlib.main(run, "C04")
