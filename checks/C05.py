"""C05 — a unique-key store never ends up with two items under the same key.
Concurrent transactions call Add / AddIfNotExist / Upsert on overlapping new keys of a unique store (also the very
first items of an empty store: competing first root) under seeded gate schedules and as free goroutines; the final
full scan (same process and fresh process) is validated by TLC: TxnStore's NoDupKeys invariant over the observed
contents, and TxnSerial requires the contents to be a serial outcome of the committed transactions."""
import collections, json, os, sys
sys.path.insert(0, os.path.dirname(os.path.abspath(__file__)))
import vlib, txnlib, conclib, _conc

META = dict(
    property_id="C05", engine="TxnSerial",
    technique="TLA+ serialisation search (TxnSerial: stores are maps) by TLC over histories of real concurrent transactions adding/upserting the same keys of a unique store; duplicate keys in the final scan make the map construction and the serial outcome impossible",
    level="model_checking",
    level_text="Each history's final ordered scan must be a function key->value that some serial order of the committed transactions produces (TLC search); scans carrying two items with equal keys are rejected before the search (not a map). Covers empty-store first-root races and leaf splits (slot 2-4).",
    level_note="Sampled schedules (seeded) at backend/API call granularity and goroutine concurrency; int keys.",
    design_ref="C05",
)


def run(c):
    binp = c.build("txn")
    c.tlc_must_pass("TxnStoreMC", "TxnStoreMC.cfg", workers=8, timeout=300)
    total, dup_free = 0, 0
    classes = collections.Counter()
    for vi, (sched, slot, keys, empty) in enumerate([("gate", 2, 3, False), ("gate", 4, 0, True), ("free", 2, 0, True), ("free", 4, 4, False)]):
        conc = dict(workload="uniqueadd", txns=(2 if empty else 3), keys=keys, slot=slot, sched=sched, max_step=8, empty=empty)
        traces, _ = _conc.run_conc(c, binp, "u%d%s" % (vi, sched), c.pick(8, 100), conc, child=1, timeout=3000)
        hists, outs, ok_idx = [], [], []
        for i, (n, h, evs) in enumerate(traces):
            dup = None
            for e in evs:
                if e.get("ev") == "Observe":
                    ks = [x["k"] for x in e["items"]]
                    if len(ks) != len(set(ks)):
                        dup = e
            if dup is not None:
                sig = "duplicate-keys|%s|empty=%s" % (sched, empty)
                classes[sig] += 1
                c.report(sig, "final scan of unique store %s holds two items with the same key: %s" % (dup["s"], [x["k"] for x in dup["items"]]),
                         dict(trace=n, schedule=h.get("sched"), program=h.get("program"), events=evs))
                continue
            hh, out = conclib.history_of(evs)
            hists.append(hh); outs.append(out); ok_idx.append(i)
        bad = conclib.serial_check(c, hists)
        total += len(traces)
        for j in sorted(bad):
            n, h, evs = traces[ok_idx[j]]
            sig = "unique-adds-not-serial|%s|empty=%s|%s" % (sched, empty, conclib.classify_unserializable(hists[j]))
            classes[sig] += 1
            c.report(sig, "contents of the unique store are not a serial outcome of the committed adds/upserts (%s)" % n,
                     dict(trace=n, schedule=h.get("sched"), program=h.get("program"), history=hists[j], outcomes=outs[j], events=evs))
        c.cov["traces_validated_against_impl"] += len(traces)
        if vi == 0 and traces:
            c.sample(dict(schedule=traces[0][1].get("sched"), history=hists[0] if hists else None))
    c.cov.update(dict(evaluations=total, distinct_nontrivial=total, rejection_classes=dict(classes),
                      rule="one case = one history of 3 concurrent transactions adding/upserting overlapping keys of a unique store"))


if __name__ == "__main__":
    vlib.main(run, "C05")
