"""C06 — a store's item count always equals the number of items it contains.
Rides on the TxnStore traces: every history (sequential programs with rollbacks, fault-injection runs incl. the
fault-free retries) ends each transaction with an Observe by a fresh transaction carrying Count() and the full
scan; TxnStore's Observe action requires count = |contents| = scan length.  Only Observe rejections whose count
differs from the scan length belong to this property (other rejections are C01/C07's)."""
import collections, json, os, sys
sys.path.insert(0, os.path.dirname(os.path.abspath(__file__)))
import vlib, txnlib, _txncfg

META = dict(
    property_id="C06", engine="TxnStore",
    technique="TLA+ API-level transaction spec (TxnStore: count = cardinality at every Observe) + TLC trace validation of sequential, rolled-back and fault-injected histories of the real filesystem transaction",
    level="model_checking",
    level_text="TLC validates recorded histories against TxnStore whose Observe action demands that the count reported by a fresh transaction equals the number of items its ordered scan returns and the specified cardinality; histories cover commits, rollbacks and every fault position of the explored shapes, with fault-free retries.",
    level_note="Quiescent observations only (between transactions), as the property states; concurrent histories are covered by the C02/C04 drivers' final Observe.",
    design_ref="C06",
)


def run(c):
    binp = c.build("txn")
    c.tlc_must_pass("TxnStoreMC", c.pick("TxnStoreMC.cfg", "TxnStoreMC_thorough.cfg"), workers=8, timeout=c.pick(300, 1500))
    g = _txncfg.gen(c, "a", MaxStores=2, MaxTxns=6, MaxOps=c.pick(14, 40), Keys=c.pick(12, 20), DupStores=True, Neighbour=True)
    seq = txnlib.run_driver(c, binp, "seq", _txncfg.cfg(c, "seq", c.pick(60, 500), g))
    gf = _txncfg.gen(c, "f", MaxTxns=3, MaxOps=10, Keys=10, Slots=[2, 4], Rollbacks=False)
    flt = txnlib.run_driver(c, binp, "fault", _txncfg.cfg(c, "fault", c.pick(1, 12), gf, max_fault=c.pick(24, 0), directed_max=c.pick(24, 0)),
                            timeout=c.pick(600, 3000))
    observes = 0
    classes = collections.Counter()
    for kind, traces in (("seq", seq), ("fault", flt)):
        observes += sum(1 for _, _, evs in traces for e in evs if e.get("ev") == "Observe" and e.get("exists"))
        pending = traces
        # keep validating past rejections that are not C06's: drop the offending trace's tail is not possible, so
        # such traces are simply not counted for C06
        for r in txnlib.validate(c, pending, "TxnStoreTraceLax.cfg"):
            ev, raw = txnlib.describe(r)
            if raw.get("ev") == "Observe" and raw.get("exists") and raw.get("count") != len(raw.get("items") or []):
                sig = (txnlib.fault_signature(r) if kind == "fault" else "seq|Observe|count-differs-from-scan")
                classes[sig] += 1
                c.report(sig, "count %s != scan length %d for store %s (%s)" % (raw.get("count"), len(raw.get("items") or []), raw.get("s"), r["header"].get("tag", r["trace"])),
                         dict(trace=r["trace"], program=r["header"].get("program"), rejected_index=r["index"], events=r["raw"]))
    # concurrent writers that merge (disjoint keys on shared nodes, gate schedules): after all have ended, Count() of a
    # fresh transaction must equal the length of its scan (the count baseline must follow refetch-and-merge)
    import _conc
    for vi, (wl, slot, keys) in enumerate((("disjoint", 4, 6), ("split", 4, 6))):
        conc = dict(workload=wl, txns=3, keys=keys, slot=slot, sched="gate", max_step=8)
        ctr, _ = _conc.run_conc(c, binp, "k%d" % vi, c.pick(12, 120), conc)
        for n, h, evs in ctr:
            if any(e.get("ev") == "CommitEnd" and not e.get("ok") and any(w in e.get("note", "").lower() for w in ("deadline", "timed out")) for e in evs):
                continue   # gate-induced timeout (a transaction waited for a parked one): inconclusive, see C04
            obs = [e for e in evs if e.get("ev") == "Observe" and e.get("exists")]
            observes += len(obs)
            if obs and obs[-1].get("count") != len(obs[-1].get("items") or []):
                okc = {e.get("t") for e in evs if e.get("ev") == "CommitEnd" and e.get("ok")}
                added = {e.get("k") for e in evs if e.get("ev") == "Op" and e.get("op") == "Add" and e.get("ok") and e.get("t") in okc}
                have = {x["k"] for x in obs[-1].get("items") or []}
                how = "count-exceeds-scan" if obs[-1].get("count") > len(have) else "count-below-scan"
                sig = "conc|%s|Observe|%s:%s" % (wl, how, "committed-key-missing" if added - have else "all-committed-keys-present")
                classes[sig] += 1
                c.report(sig, "after concurrent %s writers: count %s != scan length %d" % (wl, obs[-1].get("count"), len(obs[-1].get("items") or [])),
                         dict(trace=n, schedule=h.get("sched"), program=h.get("program"), events=evs))
    c.sample(dict(trace=seq[0][0], last_events=seq[0][2][-3:]))
    c.cov.update(dict(evaluations=len(seq) + len(flt), distinct_nontrivial=observes, observations=observes,
                      rejection_classes=dict(classes),
                      rule="one case = one Observe (Count() of a fresh transaction vs its ordered scan vs the specified contents) of an existing store after a transaction ended; all are counted"))


if __name__ == "__main__":
    vlib.main(run, "C06")
