"""C07 — a commit that fails on an I/O or lock error leaves no trace and no blockage.
Fault enumeration judged by the TxnStore specification: for random transaction shapes, the victim's commit is
run once per (backend call index, fault variant); TxnStoreTrace (Strict) requires: error => committed state
unchanged (Observe), and the fault-free retry of the same changes commits and yields the expected state."""
import collections, json, os, sys
sys.path.insert(0, os.path.dirname(os.path.abspath(__file__)))
import vlib, txnlib, _txncfg

META = dict(
    property_id="C07", engine="TxnStore",
    technique="TLA+ API-level transaction spec (TxnStore) + TLC trace validation of fault-injection runs of the real filesystem transaction (every backend call of commit/rollback failed in turn)",
    level="model_checking",
    level_text="Every backend call made by the commit (and by the rollback it triggers) of randomly shaped transactions is failed in turn (fail-before for all calls, effect-applied-then-error for storage calls); each run is recorded at the API level and validated by TLC against TxnStore with Strict=TRUE: an error return must leave the committed state untouched and the fault-free retry must commit. Exhaustive over the call positions of each explored shape (thorough) / a seeded sample (quick).",
    level_note="Faults are injected by decorators around sop.Registry/BlobStore/StoreRepository/TransactionLog/PriorityLog/L2Cache on the filesystem backend with the in-memory L2 cache; one fault per run; a blocked retry is recognised by its commit failing within a short maxTime (VERIF_MAXTIME_MS, default 5 s, no contention).",
    design_ref="C07",
)


def run(c):
    binp = c.build("txn")
    # design-level sanity of the API model (small constants)
    c.tlc_must_pass("TxnStoreMC", c.pick("TxnStoreMC.cfg", "TxnStoreMC_thorough.cfg"), workers=8, timeout=c.pick(300, 1500))
    progs = c.pick(1, 24)
    g = _txncfg.gen(c, "f", MaxTxns=3, MaxOps=10, Keys=10, Slots=[2, 4], Rollbacks=False)
    cfg = _txncfg.cfg(c, "fault", progs, g, max_fault=0, directed_max=c.pick(24, 0))
    os.environ["VERIF_MAXTIME_MS"] = "3000"   # a blocked retry is recognised by its commit not finishing within 3 s without contention
    traces = txnlib.run_driver(c, binp, "fault", cfg, timeout=c.pick(900, 6000))
    os.environ.pop("VERIF_MAXTIME_MS")
    reached = sum(1 for _, h, _ in traces if h.get("reached"))
    rej = txnlib.validate(c, traces, "TxnStoreTrace.cfg")
    classes = collections.Counter()
    for r in rej:
        sig = txnlib.fault_signature(r)
        classes[sig] += 1
        ev, raw = txnlib.describe(r)
        c.report(sig, "fault %s: %s (event %d: %s)" % (r["header"].get("tag"), sig.split("|")[-1], r["index"], json.dumps(raw)[:300]),
                 dict(trace=r["trace"], program=r["header"].get("program"), fault=r["header"].get("tag"),
                      rejected_index=r["index"], events=r["raw"]))
    distinct = len({h.get("tag", "").split("|", 1)[-1] for _, h, _ in traces})
    c.sample(dict(trace=traces[1][0], events=traces[1][2][:12]) if len(traces) > 1 else {})
    c.cov.update(dict(evaluations=len(traces), distinct_nontrivial=distinct, fault_reached=reached,
                      rejection_classes=dict(classes),
                      rule="one case = (transaction shape, backend call index of the commit, variant); non-trivial = the fault was reached; distinct by (call kind @ commit step, variant)",
                      exhaustive=not c.quick))
    c.assumptions += ["single fault per run", "filesystem backend, in-memory L2 cache, one process"]


if __name__ == "__main__":
    vlib.main(run, "C07")
