"""C08 — a crash during commit leaves all-or-nothing, with earlier commits intact.
A child process runs the program and exits (os.Exit inside a decorator) before backend call k of the victim's
commit, for every k (including the calls made inside the multi-handle registry flip); a fresh process with the
clock three hours ahead (past the 5-minute priority-log age, the one-hour reservation expiry and the transaction-log
age) then runs later transactions through the public API, retries the victim's changes and observes.  TLC
validates the whole API-level history against TxnStore: Crash(t) resolves to 'everything of t installed' or
'nothing of t', earlier commits stay, and the retry must commit."""
import collections, json, os, sys
sys.path.insert(0, os.path.dirname(os.path.abspath(__file__)))
import vlib, txnlib, _txncfg

META = dict(
    property_id="C08", engine="TxnStore",
    technique="TLA+ API-level transaction spec (TxnStore with a Crash action resolving to all-or-nothing) + TLC trace validation of crash-and-recover histories: child process killed at every backend call of the real commit, recovery and observation from fresh processes with the clock advanced",
    level="model_checking",
    level_text="Every backend call index of the victim's commit (exhaustive per shape in the thorough tier, a seeded sample in the quick tier) is a crash point of a real OS process; TLC decides whether what later transactions read, and what the retry of the same changes experiences, is explainable by exactly one of the two outcomes, for all stores at once, with earlier commits intact.",
    level_note="Crash = process exit between backend calls (including between the per-handle sector writes of the registry flip); torn writes inside one file write are BlockCow's subject (C22). Standalone mode (in-memory L2, lost with the process). Time is advanced by overriding sop.Now in the recovering process.",
    design_ref="C08",
)


def run_crash(c, binp, name="crash"):
    g = _txncfg.gen(c, "x", MaxTxns=3, MaxOps=8, Keys=8, Slots=[2, 4], Rollbacks=False)
    cfg = _txncfg.cfg(c, name, c.pick(2, 8), g, max_fault=c.pick(10, 0))
    traces = txnlib.run_driver(c, binp, "crash", cfg, timeout=c.pick(900, 3400))
    if not traces:
        # the seeded programs happened to contain no committing writer to crash: draw more of them
        cfg = _txncfg.cfg(c, name + "b", c.pick(10, 24), g, max_fault=c.pick(10, 0))
        traces = txnlib.run_driver(c, binp, "crash", cfg, timeout=c.pick(900, 3400))
    if not traces:
        raise vlib.InfraError("the crash driver produced no history")
    for n, h, evs in traces:
        for e in evs:
            if e.get("ev") == "HarnessError":
                raise vlib.InfraError("crash driver: %s: %s" % (n, e.get("note")))
    return traces


def run(c):
    binp = c.build("txn")
    c.tlc_must_pass("TxnStoreMC", "TxnStoreMC.cfg", workers=8, timeout=300)
    traces = run_crash(c, binp)
    t8 = [(n, h, [e for e in evs if e["ev"] != "Logs"]) for n, h, evs in traces]
    classes = collections.Counter()
    for r in txnlib.validate(c, t8, "TxnStoreTrace.cfg"):
        sig = txnlib.crash_signature(r)
        classes[sig] += 1
        ev, raw = txnlib.describe(r)
        c.report(sig, "crash at %s: %s (event %d: %s)" % (r["header"].get("tag"), sig.split("|")[-1], r["index"], json.dumps(raw)[:300]),
                 dict(trace=r["trace"], program=r["header"].get("program"), crash=r["header"].get("tag"), rejected_index=r["index"], events=r["raw"]))
    crashed = sum(1 for _, h, _ in traces if h.get("crashed"))
    c.sample(dict(trace=traces[0][0], events=traces[0][2][-10:]))
    c.cov.update(dict(evaluations=len(traces), distinct_nontrivial=len({h.get("tag", "").split("|")[1] for _, h, _ in traces if h.get("crashed")}),
                      crashed=crashed, rejection_classes=dict(classes), exhaustive=not c.quick,
                      rule="one case = (transaction shape, backend call index of the commit at which the process exits); non-trivial = the child really died there (exit code 77); distinct by call kind @ commit step"))


if __name__ == "__main__":
    vlib.main(run, "C08")
