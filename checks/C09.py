"""C09 — work left by a crashed transaction is recovered by later transactions.
Same crash-and-recover histories as C08 (child process killed at every backend call of the commit; later
transactions in a fresh process with the clock three hours ahead, through the public Begin path only), plus the
artefact listing: the trace carries Logs(n) = number of translogs/*.log|*.plg files left, and TxnStore requires
n = 0 once every transaction ended; the fault-free retry of the victim's changes must commit (nothing blocks)."""
import collections, json, os, sys
sys.path.insert(0, os.path.dirname(os.path.abspath(__file__)))
import vlib, txnlib, _txncfg
import importlib.util
spec = importlib.util.spec_from_file_location("c08", os.path.join(os.path.dirname(os.path.abspath(__file__)), "C08.py"))
c08 = importlib.util.module_from_spec(spec); spec.loader.exec_module(c08)

META = dict(
    property_id="C09", engine="TxnStore",
    technique="TLA+ API-level transaction spec (TxnStore: Crash, Logs(n) = 0 at quiescence, strict retry) + TLC trace validation of crash-and-recover histories driven through the public Begin path with the clock advanced",
    level="model_checking",
    level_text="For every explored crash point TLC checks that, after the documented ages and later transactions, no transaction/priority log file remains and the retry of the crashed transaction's changes commits; the recovery is whatever Begin/open/commit of later transactions trigger (no direct call of maintenance functions).",
    level_note="Standalone mode only (in-memory L2); the clustered (Redis) variant of the recovery is not exercised. Clock advanced by overriding sop.Now (+3 h).",
    design_ref="C09",
)


def run(c):
    binp = c.build("txn")
    c.tlc_must_pass("TxnStoreMC", "TxnStoreMC.cfg", workers=8, timeout=300)
    traces = c08.run_crash(c, binp, "crash9")
    classes = collections.Counter()

    def classify(r):
        sig = txnlib.crash_signature(r)
        ev, raw = txnlib.describe(r)
        return sig, "crash at %s: %s (event %d: %s)" % (r["header"].get("tag"), sig.split("|")[-1], r["index"], json.dumps(raw)[:300])
    # only C09's own claims: leftover logs and a blocked retry; state claims are C08's
    kept = []
    for n, h, evs in traces:
        kept.append((n, h, evs))
    rej = txnlib.validate(c, kept, "TxnStoreTrace.cfg")
    # a trace rejected earlier for a C08 reason is re-validated without the offending observation
    pending = []
    for r in rej:
        sig, what = classify(r)
        if sig.endswith("logs-left-after-recovery") or "retry-" in sig:
            classes[sig] += 1
            c.report(sig, what, dict(trace=r["trace"], crash=r["header"].get("tag"), rejected_index=r["index"], events=r["raw"]))
        else:
            # C08's business: keep only the Logs claim of this trace (drop reads/observations)
            evs = [e for e in r["raw"] if not (e["ev"] == "Observe" or (e["ev"] == "Op" and e.get("op") in txnlib.READ_OPS))]
            pending.append((r["trace"], r["header"], evs))
    for r in txnlib.validate(c, pending, "TxnStoreTraceLax.cfg") if pending else []:
        sig, what = classify(r)
        if sig.endswith("logs-left-after-recovery"):
            classes[sig] += 1
            c.report(sig, what, dict(trace=r["trace"], crash=r["header"].get("tag"), rejected_index=r["index"], events=r["raw"]))
    left = collections.Counter(e["n"] for _, _, evs in traces for e in evs if e["ev"] == "Logs")
    c.sample(dict(trace=traces[0][0], logs=[e for e in traces[0][2] if e["ev"] == "Logs"]))
    c.cov.update(dict(evaluations=len(traces), distinct_nontrivial=len({h.get("tag", "").split("|")[1] for _, h, _ in traces if h.get("crashed")}),
                      log_files_left_histogram={str(k): v for k, v in left.items()}, rejection_classes=dict(classes),
                      rule="one case = one crash point followed by later transactions in a fresh process with the clock advanced; distinct by call kind @ commit step"))


if __name__ == "__main__":
    vlib.main(run, "C09")
