"""C10 — no live item or node ever refers to deleted or partially written data.
After every kind of history the drivers produce - commits, rollbacks, every fault position with the fault-free retry,
crash at every backend call followed by recovery in a fresh process with the clock advanced, store life cycles,
concurrent committers - every store is traversed completely (every node, every value kept outside the node) with
cold caches in a new OS process.  TxnStore's Observe action can only consume a successful traversal: a store that
cannot be read (missing / partial node or value blob) leaves the trace unexplained and is reported."""
import collections, json, os, sys
sys.path.insert(0, os.path.dirname(os.path.abspath(__file__)))
import vlib, txnlib, _txncfg, _conc
import importlib.util
spec = importlib.util.spec_from_file_location("c08", os.path.join(os.path.dirname(os.path.abspath(__file__)), "C08.py"))
c08 = importlib.util.module_from_spec(spec); spec.loader.exec_module(c08)

META = dict(
    property_id="C10", engine="TxnStore",
    technique="TLA+ API-level transaction spec (TxnStore: every Observe is a complete successful traversal) + TLC trace validation of full cold-cache traversals from fresh OS processes after sequential, fault-injected, crashed-and-recovered, life-cycle and concurrent histories",
    level="model_checking",
    level_text="Every history of the other drivers ends with complete traversals of all stores (values fetched) from a fresh process; TLC validates the histories and this check reports exactly the unreadable-store rejections (the others belong to C01/C07/C08), over in-node, separate-segment, actively persisted and globally cached values.",
    level_note="Unreadable = OpenBtree / First / Next / GetCurrentItem returns an error in the observing process; filesystem backend.",
    design_ref="C10",
)


def run(c):
    binp = c.build("txn")
    c.tlc_must_pass("TxnStoreMC", "TxnStoreMC.cfg", workers=8, timeout=300)
    sets = []
    g = _txncfg.gen(c, "a", MaxStores=2, MaxTxns=5, MaxOps=c.pick(14, 30), Keys=12, DupStores=True, BigValues=[0, 0, 3000])
    sets.append(("seq", txnlib.run_driver(c, binp, "seq", _txncfg.cfg(c, "seq", c.pick(40, 300), g, child=1))))
    gf = _txncfg.gen(c, "f", MaxTxns=3, MaxOps=10, Keys=10, Slots=[2, 4], Rollbacks=False)
    sets.append(("fault", txnlib.run_driver(c, binp, "fault", _txncfg.cfg(c, "fault", c.pick(2, 10), gf, max_fault=c.pick(12, 0), directed_max=c.pick(16, 0), audit=True), timeout=c.pick(900, 3400))))
    sets.append(("crash", c08.run_crash(c, binp, "crash10")))
    gs = _txncfg.gen(c, "r", MaxTxns=5, MaxOps=6, Keys=8)
    sets.append(("stores", txnlib.run_driver(c, binp, "stores", _txncfg.cfg(c, "stores", c.pick(30, 300), gs, faults=True))))
    conc = dict(workload="mixed", txns=3, keys=6, slot=2, sched="gate", max_step=8)
    ctr, _ = _conc.run_conc(c, binp, "g10", c.pick(15, 150), conc, child=1)
    sets.append(("conc", ctr))
    # disjoint writers on shared nodes: version conflict -> partial rollback -> refetch-and-merge -> retry commits
    # (the retry re-uses the value blobs the first attempt wrote)
    conc2 = dict(workload="disjoint", txns=3, keys=5, slot=4, sched="gate", max_step=6)
    ctr2, _ = _conc.run_conc(c, binp, "h10", c.pick(15, 150), conc2, child=1)
    sets.append(("conc", ctr2))
    classes = collections.Counter()
    total = 0
    for mode, traces in sets:
        total += len(traces)
        for n, h, evs in traces:
            bad = [e for e in evs if e.get("ev") == "ObserveError" or (e.get("ev") == "Audit" and not e.get("ok"))
                   or (e.get("ev") == "OpError" and e.get("t", "")[:1] in ("m", "n", "r") and "injected" not in e.get("note", ""))]
            if not bad:
                continue
            e = bad[0]
            tag = h.get("tag", "")
            where = "|".join(tag.split("|")[1:3]) if "|" in tag else "none"
            arm = [a for a in evs[:evs.index(e)] if a.get("ev") == "Arm"]
            if where == "none" and arm:   # life-cycle histories inject a fault by call number only
                where = "armed:" + arm[-1].get("note", "").strip()
            stores = {s["Name"]: s for s in h.get("program", {}).get("stores", [])}
            place = stores.get(e.get("s"), {}).get("Placement", "?")
            note = e.get("note", "")
            what = "value-blob-missing" if "no such file" in note else ("root-or-node-missing" if "retrieve" in note else "other")
            sig = "%s|%s|unreadable:%s|placement=%s" % (mode, where, what, place if mode != "fault" else "*")
            classes[sig] += 1
            c.report(sig, "store %s cannot be traversed after %s %s: %s" % (e.get("s"), mode, tag, note[:200]),
                     dict(trace=n, header=h, events=evs))
    # the specification side: the same histories must be behaviours of TxnStore up to their last complete traversal
    ok_seq = [(n, h, e) for n, h, e in sets[0][1]]
    rej = txnlib.validate(c, ok_seq, "TxnStoreTraceLax.cfg", chunk=40, parallel=6)
    for r in rej:
        ev, raw = txnlib.describe(r)
        if raw.get("ev") in ("ObserveError",):
            continue  # already reported above
    c.sample(dict(trace=sets[0][1][0][0], last=sets[0][1][0][2][-2:]))
    c.cov.update(dict(evaluations=total, distinct_nontrivial=total, rejection_classes=dict(classes),
                      histories_by_kind={m: len(t) for m, t in sets},
                      rule="one case = one history followed by complete cold traversals of all its stores; all counted"))


if __name__ == "__main__":
    vlib.main(run, "C10")
