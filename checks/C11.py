"""C11 — finished transactions leave no orphaned blobs, registry entries or logs.
After crash-free histories (sequential programs with commits and rollbacks, every fault position of the victims'
commits incl. the fault-free retry, store create/remove life cycles) a fresh OS process (cold caches) traverses
every store through decorated backends: the raw ids of every blob read, every registry lookup and every item are
the reachable set; every blob file, every non-zero registry slot (segment files decoded independently) and every
translogs/*.log|*.plg file on disk is compared with it.  The resulting Audit(orphan blobs, orphan handles, logs)
event is validated by TLC against TxnStore, whose Audit action demands zeros once no transaction is live."""
import collections, json, os, sys
sys.path.insert(0, os.path.dirname(os.path.abspath(__file__)))
import vlib, txnlib, _txncfg

META = dict(
    property_id="C11", engine="TxnStore",
    technique="TLA+ API-level transaction spec (TxnStore: Audit = 0 orphans at quiescence) + TLC validation of audits taken by an independent disk projector after crash-free histories of the real filesystem transaction (commits, rollbacks, every fault position)",
    level="model_checking",
    level_text="The audit is independent of SOP's read path for what is on disk (directory walk, segment files decoded slot by slot) and uses a cold full traversal for what is reachable; TLC evaluates the Audit action on every history's final state. Histories: random sequential programs over all value placements, every (call index, variant) fault position of the explored shapes, and store life cycles.",
    level_note="Reachability = ids touched by a full cold traversal through the public API plus item ids (a value kept outside the node lives in a blob named by the item id); filesystem backend, single folder; crash histories are excluded as the property states.",
    design_ref="C11",
)


def audits(traces, mode):
    out = []
    for n, h, evs in traces:
        for e in evs:
            if e.get("ev") == "Audit":
                out.append((mode + "/" + n, h, [e]))
    return out


def run(c):
    binp = c.build("txn")
    c.tlc_must_pass("TxnStoreMC", "TxnStoreMC.cfg", workers=8, timeout=300)
    g = _txncfg.gen(c, "a", MaxStores=2, MaxTxns=5, MaxOps=c.pick(14, 30), Keys=12, DupStores=True)
    seq = txnlib.run_driver(c, binp, "seq", _txncfg.cfg(c, "seq", c.pick(50, 400), g, audit=True))
    gf = _txncfg.gen(c, "f", MaxTxns=3, MaxOps=10, Keys=10, Slots=[2, 4], Rollbacks=False)
    flt = txnlib.run_driver(c, binp, "fault", _txncfg.cfg(c, "fault", c.pick(2, 10), gf, max_fault=c.pick(12, 0), directed_max=c.pick(40, 0), audit=True), timeout=c.pick(900, 3400))
    gs = _txncfg.gen(c, "r", MaxTxns=5, MaxOps=6, Keys=8)
    sto = txnlib.run_driver(c, binp, "stores", _txncfg.cfg(c, "stores", c.pick(30, 300), gs, faults=False, audit=True))
    # fault runs: the same program's fault-free (dry) run is the baseline - a failed commit must not ADD orphans
    base = {}
    for n, h, evs in flt:
        if n.endswith("/dry"):
            a = [e for e in evs if e.get("ev") == "Audit"]
            if a:
                base[n.split("/")[0]] = (a[0]["n"], a[0]["count"], a[0]["k"])
    fa = []
    for n, h, evs in flt:
        if n.endswith("/dry"):
            continue
        kind = (h.get("tag", "").split("|") + ["", ""])[1].split("@")[0]
        if kind in ("TLOG.Remove", "PLOG.Remove", "BLOB.Remove", "REG.Remove") or kind.startswith("L2.Delete"):
            continue  # the injected failure IS the deletion: what it should have deleted stays, by construction
        ends = [e for e in evs if e.get("ev") == "CommitEnd" and not e.get("t", "").endswith("r")]
        if ends and ends[-1].get("ok"):
            continue  # the fault was absorbed and the commit succeeded: not a failed transaction in the property's sense
        b = base.get(n.split("/")[0], (0, 0, 0))
        for e in evs:
            if e.get("ev") == "Audit":
                e2 = dict(e)
                e2["n"], e2["count"], e2["k"] = max(0, e["n"] - b[0]), max(0, e["count"] - b[1]), max(0, e["k"] - b[2])
                fa.append(("fault/" + n, h, [e2]))
    al = audits(seq, "seq") + fa + audits(sto, "stores")
    if len(al) < 20:
        raise vlib.InfraError("too few audits: %d" % len(al))
    rej = txnlib.validate(c, al, "TxnStoreTrace.cfg", chunk=60, parallel=6)
    classes = collections.Counter()
    for r in rej:
        e = r["raw"][0]
        h = r["header"]
        stores = h.get("program", {}).get("stores", [])
        places = ",".join(sorted({s["Placement"] for s in stores}))
        tag = h.get("tag", "")
        where = "|".join(tag.split("|")[1:3]) if "|" in tag else "none"
        mode = r["trace"].split("/")[0]
        kinds = "%s%s%s" % ("B" if e["n"] else "-", "H" if e["count"] else "-", "L" if e["k"] else "-")
        sig = "%s|%s|orphans=%s|placements=%s" % (mode, where, kinds, places)
        classes[sig] += 1
        c.report(sig, "audit after %s: %d orphan blob(s), %d orphan registry slot(s), %d log file(s): %s" % (r["trace"], e["n"], e["count"], e["k"], e.get("note", "")[:300]),
                 dict(trace=r["trace"], header=h, audit=e))
    c.sample(dict(audit=al[0][2][0]))
    c.cov.update(dict(evaluations=len(al), distinct_nontrivial=len(seq) + len({h.get("tag", "").split("|", 1)[-1] for _, h, _ in flt}) + len(sto),
                      audits=len(al), rejection_classes=dict(classes),
                      rule="one case = one audited history; distinct = sequential programs + (call kind @ step, variant) fault positions + life-cycle histories"))


if __name__ == "__main__":
    vlib.main(run, "C11")
