"""C12 — creating and removing stores is transactional and complete.
TxnStore's catalogue: a store created by a transaction exists (owned by it) from NewBtree on and survives only if
the transaction commits; rollback, a failing commit and a failing operation drop it; RemoveStore deletes all of it;
a later creation under the same name starts empty with its own options (configuration digest).  Histories: random
create / populate / commit-or-abort (with injected faults) / remove / recreate-with-other-options sequences over
two store names, observed after every step (contents, count, configuration digest) and from a fresh process; and
concurrent NewBtree of the same name by 2-3 transactions as free-running goroutines (TxnSerial; a gate-parked creator would hold the store-list lock and stall the others for minutes)."""
import collections, json, os, sys
sys.path.insert(0, os.path.dirname(os.path.abspath(__file__)))
import vlib, txnlib, conclib, _conc, _txncfg

META = dict(
    property_id="C12", engine="TxnStore",
    technique="TLA+ API-level transaction spec (TxnStore catalogue: NewStoreBegin/NewStore/RemoveStore, created stores dropped on rollback/failure) + TLC trace validation of create/abort/remove/recreate histories with faults; TxnSerial for concurrent same-name creation",
    level="model_checking",
    level_text="TLC validates every step of random store life-cycle histories against the catalogue model (existence, contents, count and configuration digest after every step, also from a fresh OS process), and searches a serial explanation for histories in which several transactions create the same store concurrently (single store, contents = serial outcome).",
    level_note="Single-folder layout on the filesystem backend (the replicated layout is C27's); RemoveBtree is called between transactions; faults are single injected backend failures at random positions of the commit.",
    design_ref="C12",
)


def classify(r):
    raw = r["raw"][r["index"]] if 0 <= r["index"] < len(r["raw"]) else {}
    ev = raw.get("ev")
    prev = [e for e in r["raw"][:r["index"]] if e.get("ev") in ("Rollback", "CommitEnd", "RemoveStore", "OpError")]
    last = prev[-1] if prev else {}
    after = "%s%s" % (last.get("ev", "start"), "" if last.get("ev") != "CommitEnd" else (":ok" if last.get("ok") else ":failed"))
    arm = [e for e in r["raw"][:r["index"]] if e.get("ev") == "Arm"]
    failed = {e.get("t") for e in r["raw"][:r["index"]] if e.get("ev") == "CommitEnd" and not e.get("ok")}
    arm = [a for a in arm if a.get("t") in failed]
    if arm:   # a commit earlier in this history failed on an injected backend fault: what it left behind stays
        after += "(injected%s)" % arm[-1].get("note", "").rstrip()
    what = "event %d not explained by the catalogue model: %s" % (r["index"], json.dumps(raw)[:300])
    if ev == "Observe":
        if raw.get("exists") and not raw.get("items") and raw.get("count") == 0:
            kind = "store-exists-but-should-not-or-is-not-fresh"
        elif not raw.get("exists"):
            kind = "store-missing"
        else:
            kind = "contents-or-options"
        return ("lifecycle|after=%s|%s" % (after, kind), what)
    return ("lifecycle|after=%s|%s:%s" % (after, ev, raw.get("op", "")), what)


def run(c):
    binp = c.build("txn")
    c.tlc_must_pass("TxnStoreMC", "TxnStoreMC.cfg", workers=8, timeout=300)
    g = _txncfg.gen(c, "r", MaxTxns=5, MaxOps=6, Keys=8)
    cfg = _txncfg.cfg(c, "stores", c.pick(60, 600), g, faults=True)
    traces = txnlib.run_driver(c, binp, "stores", cfg)
    for n, h, evs in traces:
        if any(e.get("ev") == "HarnessError" for e in evs):
            raise vlib.InfraError("stores driver error in %s" % n)
    classes = txnlib.validate_skipping(c, traces, "TxnStoreTrace.cfg", classify)
    removes = sum(1 for _, _, evs in traces for e in evs if e["ev"] == "RemoveStore")
    # concurrent creation of the same store name
    total_c = 0
    for sched, txns in (("free", 2), ("free", 3)):
        conc = dict(workload="create", txns=txns, keys=0, slot=4, sched=sched, max_step=8)
        ctr, _ = _conc.run_conc(c, binp, "k%s%d" % (sched, txns), c.pick(12, 120), conc, child=1, timeout=2400)
        hists, outs = [], []
        for n, h, evs in ctr:
            errs = [e for e in evs if e.get("ev") == "ObserveError"]
            if errs:
                sig = "concurrent-create|%s|observe-error" % sched
                classes[sig] += 1
                c.report(sig, "after concurrent creation the store cannot be observed: %s" % errs[0].get("note"), dict(trace=n, events=evs))
            hh, out = conclib.history_of(evs)
            hists.append(hh); outs.append(out)
        for i in sorted(conclib.serial_check(c, hists)):
            n, h, evs = ctr[i]
            created = {e["t"] for e in evs if e.get("ev") == "NewStore" and e.get("ok")}
            aborted = {t for t, o in outs[i].items() if o != "committed"}
            loser = any(e.get("ev") == "NewStore" and not e.get("ok") for e in evs)
            how = "creator-did-not-commit" if created & aborted else ("loser-newbtree-error" if loser else "all-creators-committed")
            sig = "concurrent-create|%s|%s|%s" % (sched, conclib.classify_unserializable(hists[i]), how)
            classes[sig] += 1
            c.report(sig, "concurrent NewBtree of one name: final store is not a serial outcome of the committed creators (%s)" % n,
                     dict(trace=n, schedule=h.get("sched"), history=hists[i], outcomes=outs[i], events=evs))
        total_c += len(ctr)
        c.cov["traces_validated_against_impl"] += len(ctr)
    c.sample(dict(trace=traces[0][0], events=[e for e in traces[0][2] if e["ev"] in ("NewStore", "RemoveStore", "Rollback", "CommitEnd", "Observe")][:10]))
    c.cov.update(dict(evaluations=len(traces) + total_c, distinct_nontrivial=sum(1 for _, _, evs in traces if any(e["ev"] == "RemoveStore" for e in evs)) + total_c,
                      removes=removes, concurrent_create_histories=total_c, rejection_classes=dict(classes),
                      rule="life-cycle histories: non-trivial = contains at least one RemoveStore; plus every concurrent-creation history"))


if __name__ == "__main__":
    vlib.main(run, "C12")
