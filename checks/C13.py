"""C13 — committing changes never alters or corrupts a store's configuration.
TxnStore keeps, per store, the digest of the configuration it was created with (name, description, slot length,
flags, registry/blob tables, root id, cache configuration: everything except count and timestamp); NewStore/
OpenStore of an existing store and every Observe (fresh transaction, and fresh OS process reading
StoreRepository.Get from disk) must report exactly that digest and the specified count.  Store names and
descriptions are adversarial: equal to or quoting the metadata field names, JSON punctuation, unicode."""
import collections, json, os, sys
sys.path.insert(0, os.path.dirname(os.path.abspath(__file__)))
import vlib, txnlib, _txncfg

META = dict(
    property_id="C13", engine="TxnStore",
    technique="TLA+ API-level transaction spec (TxnStore: configuration digest constant across commits) + TLC trace validation of histories over stores with adversarial names/descriptions and all option combinations, observed from a fresh OS process",
    level="model_checking",
    level_text="Every reopen and every observation of every history must carry the configuration digest recorded at creation and the specified count (TLC rejects the trace otherwise); names/descriptions are drawn from a list built around the metadata field names (count, timestamp, slot_length, ...), escaped quotes, braces, colons, backslashes and unicode, crossed with value placements, slot lengths, uniqueness and load balancing; every third program is a tide program whose count rises and falls across 10 and 100 (12, 9, 10, 0, 100+x, 99, 100, 99, 9), observed from a fresh child process after every commit, so the persisted count gains and loses decimal digits both ways.",
    level_note="The digest covers the fields of sop.StoreInfo except Count/Timestamp; it is computed by the driver from StoreRepository.Get / GetStoreInfo; name and description inputs are a fixed adversarial list, not all strings.",
    design_ref="C13",
)


def classify(r):
    raw = r["raw"][r["index"]] if 0 <= r["index"] < len(r["raw"]) else {}
    stores = {s["Name"]: s for s in r["header"].get("program", {}).get("stores", [])}
    st = stores.get(raw.get("s"), {})
    created = next((e.get("opts") for e in r["raw"] if e.get("ev") == "NewStore" and e.get("s") == raw.get("s") and e.get("ok")), None)
    what = "event %d not explained: %s" % (r["index"], json.dumps(raw)[:300])
    if raw.get("ev") in ("Observe", "OpenStore", "NewStore") and raw.get("opts") != created:
        return ("config-changed|name=%s|desc=%s" % (st.get("Name"), st.get("Desc")), "store configuration differs from the one it was created with: created %s, now %s" % (created, raw.get("opts")))
    if raw.get("ev") == "Observe" and raw.get("exists") and raw.get("count") != len(raw.get("items") or []):
        return ("count-wrong|name=%s|desc=%s" % (st.get("Name"), st.get("Desc")), what)
    return ("seq|%s|%s|name=%s" % (raw.get("ev"), raw.get("op", ""), st.get("Name")), what)


def run(c):
    binp = c.build("txn")
    c.tlc_must_pass("TxnStoreMC", "TxnStoreMC.cfg", workers=8, timeout=300)
    g = _txncfg.gen(c, "n", MaxStores=3, MaxTxns=5, MaxOps=8, Keys=8, Adversarial=True, Rollbacks=True, Tide=True)
    seq = txnlib.run_driver(c, binp, "seq", _txncfg.cfg(c, "seq", c.pick(60, 600), g, child=1))
    classes = txnlib.validate_skipping(c, seq, "TxnStoreTrace.cfg", classify)
    names = {(s["Name"], s["Desc"]) for _, h, _ in seq for s in h.get("program", {}).get("stores", [])}
    c.sample(dict(stores=seq[0][1]["program"]["stores"], events=[e for e in seq[0][2] if e.get("opts")][:4]))
    c.cov.update(dict(evaluations=len(seq), distinct_nontrivial=len(names), rejection_classes=dict(classes),
                      rule="one case = one random program over stores with adversarial names/descriptions; distinct = (name, description) pairs exercised"))


if __name__ == "__main__":
    vlib.main(run, "C13")
