"""C14 — transaction modes and lifecycle are enforced.
TxnLife.tla: one transaction object of each mode receiving arbitrary sequences of Begin / Commit / Rollback /
Phase1 / Phase2 / Close / OpenBtree / NewBtree / Add / Get.  TLC explores the whole automaton (every call in every
reachable state, 3 modes), checks ReadOnlyNeverWrites / OnlyCommitInstalls / CommittedIsFinal on it and emits a
shortest call path to every state; the driver executes, for every state and every call of the alphabet, path + call
on a real transaction (plus seeded random longer sequences), logs each result and the persistent state a fresh
transaction sees afterwards; TxnLifeTrace validates every log (each result must be the one the automaton computes)."""
import collections, json, os, random, re, sys
sys.path.insert(0, os.path.dirname(os.path.abspath(__file__)))
import vlib, txnlib

META = dict(
    property_id="C14", engine="TxnLife",
    technique="TLA+ lifecycle automaton (TxnLife) explored exhaustively by TLC; every edge (state x call) replayed on a real transaction and every call log trace-validated by TLC",
    level="model_checking",
    level_text="All reachable automaton states x all 10 calls x 3 modes are executed against the real transaction objects (edge coverage of the labelled state graph) and validated, plus random sequences up to length 8 (quick) / 12 (thorough); the persistent outcome (key added? store created?) is observed by a fresh transaction after each sequence.",
    level_note="No faults and no concurrency here (a commit inside a begun transaction is expected to succeed); results the statement leaves open (Rollback of a never-begun transaction, Close) are accepted either way.",
    design_ref="C14",
)
CALLS = ["Begin", "Open", "New", "Add", "Get", "Commit", "Rollback", "P1", "P2", "Close"]
FIELDS = dict(mode="", call="", ok=False, k2=False, n=False)


def run(c):
    binp = c.build("txn")
    r = c.tlc_must_pass("TxnLife", "TxnLife_mc.cfg", workers=1, timeout=300, coverage=True)
    states = []
    for p in r.prints:
        m = re.match(r'<<"ST", (".*")>>$', p)
        if m:
            states.append(json.loads(vlib.tla_unquote(m.group(1))))
    if len(states) < 30:
        raise vlib.InfraError("too few automaton states emitted: %d" % len(states))
    progs = []
    for st in states:
        for call in CALLS:
            progs.append(dict(mode=st["mode"], calls=list(st["path"]) + [call]))
    rnd = random.Random(c.seed)
    for _ in range(c.pick(150, 1500)):
        progs.append(dict(mode=rnd.choice("wrn"), calls=["Begin"] * rnd.randint(0, 1) + [rnd.choice(CALLS) for _ in range(rnd.randint(2, c.pick(8, 12)))]))
    inp = os.path.join(c.scratch, "life.json")
    json.dump(progs, open(inp, "w"))
    out = os.path.join(c.scratch, "life.ndjson")
    cfgp = os.path.join(c.scratch, "life-cfg.json")
    json.dump({"in": inp, "out": out, "data": c.datadir("life-data")}, open(cfgp, "w"))
    c.run([binp, "life", cfgp], timeout=1500)
    traces = []
    for name, evs in vlib.split_traces(vlib.read_ndjson(out)):
        norm = []
        for e in evs:
            d = dict(FIELDS); d["ev"] = e["ev"]
            for k in FIELDS:
                if k in e:
                    d[k] = e[k]
            norm.append(d)
        traces.append((name, norm, evs))
    rej = c.validate_traces("TxnLifeTrace", "TxnLifeTrace.cfg", [(n, e) for n, e, _ in traces], chunk=100, parallel=6)
    raw = {n: e for n, _, e in traces}
    classes = collections.Counter()
    for x in rej:
        evs = raw[x["trace"]]
        ev = evs[x["index"]] if 0 <= x["index"] < len(evs) else {}
        mode = next((e["mode"] for e in evs if e["ev"] == "Mode"), "?")
        before = [e["call"] + (":ok" if e["ok"] else ":err") for e in evs[:x["index"]] if e["ev"] == "Call"]
        if ev.get("ev") == "Final":
            sig = "lifecycle|mode=%s|persistent-state:k2=%s:n=%s|calls=%s" % (mode, ev.get("k2"), ev.get("n"), ",".join(c2.split(":")[0] for c2 in before))
        else:
            sig = "lifecycle|mode=%s|%s:%s|after=%s" % (mode, ev.get("call"), "ok" if ev.get("ok") else "err", ",".join(before[-3:]))
        classes[sig] += 1
        c.report(sig, "mode %s: %s not allowed by the lifecycle automaton after %s (%s)" % (mode, json.dumps(ev), before, x.get("invariant")),
                 dict(trace=x["trace"], events=evs, rejected_index=x["index"]))
    c.sample(dict(program=progs[len(progs) // 3], log=traces[len(traces) // 3][2]))
    c.cov.update(dict(evaluations=len(traces), distinct_nontrivial=len(states) * len(CALLS), automaton_states=len(states),
                      exhaustive=True, rejection_classes=dict(classes),
                      rule="one case = one call sequence on one transaction object; distinct = (automaton state, call) edges, all of which are executed"))


if __name__ == "__main__":
    vlib.main(run, "C14")
