"""C15 — commits end within their time budget and never deadlock.
Real writers contend on overlapping node and item sets: opposite-order read-modify-write transactions as free
goroutines, and 'stall' schedules in which one transaction is held at a random backend call inside its commit
(holding whatever locks it has) - or dies there - while the others run; maxTime is 2 s and the callers' context
deadline 8 s, so the budget min(deadline, maxTime) is 2 s.  Every Commit's wall-clock duration is recorded; the trace
(TxnStoreTrace) requires duration <= budget + 1.5 s for every Commit, and the follow-up writer after everybody
returned (after the dead holder's lock TTL = maxTime has passed) must commit.  SopCommitMC explores the lock /
retry protocol (try-all-or-nothing node locks, expiry of dead owners' locks) exhaustively."""
import collections, json, os, sys
sys.path.insert(0, os.path.dirname(os.path.abspath(__file__)))
import vlib, txnlib, conclib, _conc

META = dict(
    property_id="C15", engine="TxnStore",
    technique="TLA+ trace validation (TxnStoreTrace: Commit duration <= budget + overhead, follow-up commits) of contended real commits under free goroutines and stall/die schedules; SopCommitMC explores the lock/retry protocol exhaustively",
    level="model_checking",
    level_text="Each recorded Commit of each contention history must satisfy the budget clause of the trace spec, and the follow-up transaction after a stalled or dead lock holder must commit; contention patterns: opposite-order access by 3-4 writers, a holder stalled at a random call of its commit, a holder that dies there. The exhaustive SopCommitMC run covers the design of the node-lock protocol with crashes and lock expiry.",
    level_note="Wall-clock measurement: overhead allowance fixed at 1.5 s (one jitter sleep <= 80 ms, one backend call, scheduling noise); schedules are seeded samples; in-memory L2 (lock TTL = maxTime).",
    design_ref="C15",
)


def run(c):
    binp = c.build("txn")
    c.tlc_must_pass("SopCommitMC", c.pick("SopCommitMC.cfg", "SopCommitMC3.cfg"), workers=8, timeout=c.pick(300, 1500))
    os.environ["VERIF_MAXTIME_MS"] = "2000"
    os.environ["VERIF_DEADLINE_EXTRA_MS"] = "6000"
    classes = collections.Counter()
    total = 0
    worst = 0
    for name, conc, progs in (
            ("free", dict(workload="contend", txns=4, keys=4, slot=4, sched="free", max_step=8, budget=True), c.pick(10, 100)),
            ("stall", dict(workload="contend", txns=3, keys=4, slot=4, sched="stall", max_step=8, budget=True), c.pick(8, 80)),
            ("empty", dict(workload="disjoint", txns=2, keys=0, slot=2, sched="gate", max_step=8, empty=True, budget=True), c.pick(6, 40)),
            ("die", dict(workload="contend", txns=3, keys=4, slot=4, sched="stall", die=True, max_step=8, budget=True), c.pick(5, 40))):
        traces, _ = _conc.run_conc(c, binp, "b" + name, progs, conc, timeout=3000)
        total += len(traces)
        # only the budget / liveness claims are C15's: reads and contents are C02's
        red = []
        for n, h, evs in traces:
            keep = [e for e in evs if e["ev"] in ("Begin", "CommitStart", "CommitEnd", "Rollback", "Crash", "OpError", "NewStoreBegin", "NewStore", "OpenStore")]
            worst = max([worst] + [e.get("ms", 0) for e in evs if e["ev"] == "CommitEnd"])
            red.append((n, h, keep))
        # after a holder that DIED the follow-up may legitimately be refused until the one-hour reservation expiry: only its
        # return within the budget is asserted there (Lax); after a stalled holder that resumed it must commit (Strict)
        for r in txnlib.validate(c, red, "TxnStoreTraceLax.cfg" if name in ("die", "empty") else "TxnStoreTrace.cfg", chunk=10, parallel=6):
            ev, raw = txnlib.describe(r)
            if raw.get("ev") == "CommitEnd" and raw.get("budget") and raw.get("ms", 0) > raw["budget"] + 1500:
                note = raw.get("note", "")
                why = "findAndAdd" if "findAndAdd" in note or "registryMap.add" in note else ("deadline" if "deadline" in note else ("ok" if raw.get("ok") else "other"))
                sig = "over-budget|%s|%s" % (name, why)
                what = "Commit of %s took %d ms with a budget of %d ms (%s)" % (raw.get("t"), raw.get("ms"), raw.get("budget"), note[:120])
            elif raw.get("ev") == "CommitEnd" and raw.get("t") == "fu":
                sig = "follow-up-blocked|%s" % name
                what = "the follow-up writer could not commit after everybody returned: %s" % raw.get("note", "")[:160]
            else:
                sig = "other|%s|%s" % (name, raw.get("ev"))
                what = json.dumps(raw)[:200]
            classes[sig] += 1
            c.report(sig, what, dict(trace=r["trace"], schedule=r["header"].get("sched"), events=r["raw"]))
    os.environ.pop("VERIF_MAXTIME_MS"); os.environ.pop("VERIF_DEADLINE_EXTRA_MS")
    c.sample(dict(worst_commit_ms=worst))
    c.cov.update(dict(evaluations=total, distinct_nontrivial=total, worst_commit_ms=worst, rejection_classes=dict(classes),
                      rule="one case = one contention history (free / stalled holder / dead holder); all counted"))


if __name__ == "__main__":
    vlib.main(run, "C15")
