"""C16 — external two-phase participants follow SOP's commit outcome.
Spec: spec/TwoPhaseParticipants.tla (+Trace).  Technique: TLC exhaustive enumeration of every failure script
for 0..MaxP participants; every behaviour replayed on the real sop.SinglePhaseTransaction; every behaviour of
the real wrapper (DFS over call outcomes) validated by the trace spec; the two behaviour sets must be equal;
real filesystem transaction in the SOP role for the 'SOP's changes are rolled back' clause."""
import json, os, re
import vlib

META = dict(
    property_id="C16", engine="TwoPhaseParticipants",
    technique="TLA+ spec of the wrapper's control flow; TLC-enumerated behaviours replayed on the real code and real call logs trace-validated by TLC (behaviour-set equality)",
    level="model_checking",
    level_text="TLC enumerates every failure position for 0..3 participants (exhaustive); each behaviour is executed against the real sop.SinglePhaseTransaction and the real wrapper's complete behaviour set (DFS over call outcomes) is validated against the spec, so spec and code are trace-equivalent within the bound. Invariants of C16 are checked by TLC on every state of both the design model and every implementation trace.",
    level_note="Participants are scripted objects; SOP's role is scripted in the exhaustive part and played by a real filesystem transaction in the store-contents part. Participant count bounded by 3.",
    design_ref="C16",
)


def behaviours_from(res):
    out = []
    for p in res.prints:
        m = re.match(r'<<"BEH", (".*")>>$', p)
        if m:
            out.append(json.loads(vlib.tla_unquote(m.group(1))))
    return out


def canon_spec(b):
    return json.dumps([b["n"]] + [[r["k"], r["who"], r["op"], r["ok"]] for r in b["log"]])


def canon_impl(evs):
    n = None
    out = []
    for e in evs:
        if e["ev"] == "Setup":
            n = e.get("n", 0)
        elif e["ev"] == "Call":
            out.append(["call", e["who"], e["op"], e["ok"]])
        elif e["ev"] == "Ret":
            out.append(["ret", 0, e["api"], e["ok"]])
    return json.dumps([n] + out)


def norm(evs):
    o = []
    for e in evs:
        e = dict(e)
        e.setdefault("n", 0); e.setdefault("who", 0); e.setdefault("ok", False)
        e.setdefault("api", ""); e.setdefault("op", "")
        e.pop("name", None)
        o.append(e)
    return o


def run(c):
    maxp = 3
    # 1. design level: exhaustive TLC, invariants + behaviour emission
    r = c.tlc_must_pass("TwoPhaseParticipants", "TwoPhaseParticipants_mc.cfg", workers=4, timeout=300,
                        coverage=not c.quick)
    spec_beh = behaviours_from(r)
    if len(spec_beh) < 100:
        raise vlib.InfraError("too few behaviours emitted by TLC: %d" % len(spec_beh))
    binp = c.build("c16")
    # 2. spec -> code: replay every TLC behaviour on the real wrapper
    bf = os.path.join(c.scratch, "beh.json")
    json.dump(spec_beh, open(bf, "w"))
    out1 = os.path.join(c.scratch, "replay.ndjson")
    c.run([binp, "replay", bf, out1])
    replayed = vlib.split_traces(vlib.read_ndjson(out1))
    mismatches = 0
    for b, (name, evs) in zip(spec_beh, replayed):
        if canon_spec(b) != canon_impl(evs):
            mismatches += 1
            c.report("replay-mismatch:" + first_diff(b, evs),
                     "real SinglePhaseTransaction diverges from the specified control flow",
                     dict(behaviour=b, implementation_log=evs))
            if mismatches > 3:
                break
    # 3. code -> spec: every behaviour of the real wrapper validated by the trace spec
    out2 = os.path.join(c.scratch, "explore.ndjson")
    c.run([binp, "explore", str(maxp), out2])
    explored = vlib.split_traces(vlib.read_ndjson(out2))
    rej = c.validate_traces("TwoPhaseParticipantsTrace", "TwoPhaseParticipantsTrace.cfg",
                            [(n, norm(e)) for n, e in explored], chunk=1000)
    for x in rej[:3]:
        ev = x["event"] or {}
        c.report("trace-rejected:%s:%s:%s" % (ev.get("ev"), ev.get("op") or ev.get("api"), ev.get("who")),
                 "call log of the real wrapper is not a behaviour of TwoPhaseParticipants (or breaks a C16 invariant) at event %d: %s" % (x["index"], json.dumps(ev)),
                 dict(trace=x["events"], rejected_index=x["index"], tlc=x["tlc_tail"]))
    sset = set(canon_spec(b) for b in spec_beh)
    iset = set(canon_impl(e) for _, e in explored)
    if not rej and not mismatches and sset != iset:
        only_impl = sorted(iset - sset)[:2]
        only_spec = sorted(sset - iset)[:2]
        c.report("behaviour-sets-differ", "spec and implementation behaviour sets differ",
                 dict(only_impl=only_impl, only_spec=only_spec))
    # 4. real SOP transaction in the SOP role
    outr = os.path.join(c.scratch, "real.json")
    c.run([binp, "real", c.datadir("c16data"), outr], timeout=600)
    real = json.load(open(outr))
    for x in real:
        if not x["match"]:
            c.report("real-store-mismatch:n=%d:fail=%d:%s" % (x["n"], x["fail_at"], x["user"]),
                     "store contents after Commit/Rollback with participants do not match (commit_ok=%s)" % x["commit_ok"],
                     x)
    c.sample(dict(spec_behaviour=spec_beh[len(spec_beh) // 2]))
    c.sample(dict(impl_trace=explored[len(explored) // 3][1]))
    c.cov.update(dict(
        exhaustive=True, behaviours_spec=len(sset), behaviours_impl=len(iset),
        behaviours_replayed=len(replayed), real_sop_runs=len(real),
        evaluations=len(replayed) + len(explored) + len(real), distinct_nontrivial=len(iset | sset),
        rule="one case = one complete behaviour (participant count, user program, outcome of every call); distinct by the full call log; all behaviours for 0..3 participants are enumerated by TLC and, independently, by DFS over the real wrapper",
        coverage_actions={k: v for k, v in r.coverage.items()} if r.coverage else None,
    ))
    c.assumptions += ["participants are scripted; at most 3 participants",
                      "a failed Begin is followed by a user Rollback (the wrapper itself does not roll back on Begin failure)"]


def first_diff(b, evs):
    a = json.loads(canon_spec(b)); i = json.loads(canon_impl(evs))
    for k in range(min(len(a), len(i))):
        if a[k] != i[k]:
            return "at%d:spec=%s:impl=%s" % (k, a[k], i[k])
    return "length:spec=%d:impl=%d" % (len(a), len(i))


if __name__ == "__main__":
    vlib.main(run, "C16")
