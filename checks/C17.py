"""C17 - a B-tree store behaves as a correctly ordered collection.
Spec: spec/OrderedStore.tla (+Trace, +Sim).  Every public call of btree.Btree is an action of the specification that
fixes result, Count and cursor effect; TLC checks the design exhaustively on tiny domains and then decides, line by line,
whether the call logs of real B-trees (slot lengths 2..24, unique / duplicate keys, leaf load balancing on / off, default
and custom comparer) are behaviours of that specification; contents are compared in full after every call."""
import os, sys
sys.path.insert(0, os.path.dirname(os.path.abspath(__file__)))
import vlib
import orderedstore_common as oc

META = dict(
    property_id="C17", engine="OrderedStore",
    technique="TLA+ specification of the B-tree's public API as an ordered multiset with a cursor; TLC exhaustive design check; "
              "trace validation by TLC of call logs of real btree.Btree instances (exhaustive short call sequences, "
              "TLC-simulated programs, seeded long random programs with delete-heavy phases)",
    level="model_checking",
    level_text="(Also: what the B-tree reports to its ItemActionTracker must be exactly the items a call added / changed / removed - TrkAgrees.) Every public call is an action of the specification with its result, count and cursor effect; TLC enumerates all "
               "call sequences of the model on tiny domains (invariants: sorted, unique, ids, cursor, range theorem) and validates "
               "each real call log line by line with full contents after every call. Assurance is bounded by the programs run: "
               "all sequences of 2-3 calls behind fixed prefixes at slot length 2/4, plus seeded random programs for slot lengths 2..24.",
    level_note="In-memory node repository owned by the driver; single-threaded; tree shape is not modelled, so shape-dependent choices "
               "(which duplicate, which side of a missing key, cursor after Add) are nondeterministic in the spec and pinned by observation.",
    design_ref="C17",
)


def run(c):
    design = oc.Background(oc.design_check, c)         # exhaustive design check runs while the real code is driven
    progs = oc.sim_programs(c, num=c.pick(6, 24), depth=c.pick(50, 80))
    binp = c.build("orderedstore")
    jobs = oc.c17_jobs(c, progs)
    traces, stats = oc.run_driver(c, binp, jobs, "c17")
    rej, seen, seen2 = oc.validate_and_report(c, traces)
    r, cov = design.result()
    for name, evs in traces[:1] + traces[len(traces) // 2: len(traces) // 2 + 1]:
        c.sample(dict(trace=name, setup=evs[0], calls=[oc.brief(e) for e in evs[1:14]]))
    oc.coverage(c, stats, traces, seen, dict(
        exhaustive=False, design_states=r.distinct, design_transitions=r.generated,
        design_action_coverage={k: v[1] for k, v in cov.items()},
        tlc_programs=len(progs), rejections_after_enabling_finding_actions=dict(seen2)))
    c.assumptions.append("exhaustive only within the bounds stated: model domains of OrderedStore_mc*.cfg; call sequences of depth 2-3 "
                         "over 2-3 keys behind 2-4 prefixes; everything else is sampled with VERIF_SEED")


if __name__ == "__main__":
    vlib.main(run, "C17")
