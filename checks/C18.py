"""C18 - key search positions the cursor so range scans return exactly the range.
Spec: spec/OrderedStore.tla: Find(k, first) / FindWithID / FindInDescendingOrder with hit and miss positioning,
Next / Previous, and inmemory.Range / RangeDesc as derived actions; the design model proves (TLC, all small contents x all
probe pairs) that the iterator algorithms started from EVERY cursor position a search may leave visit exactly the key range.
Real trees (slot lengths 2..24, unique / duplicates, balancing on / off; shapes reached by insert / delete sequences so that
nil children occur) are probed with every key from below the smallest to above the largest, and every call is validated."""
import os, sys
sys.path.insert(0, os.path.dirname(os.path.abspath(__file__)))
import vlib
import orderedstore_common as oc

META = dict(
    property_id="C18", engine="OrderedStore",
    technique="TLA+ specification of search positioning and range iteration over an ordered multiset; TLC exhaustive design check "
              "incl. the range theorem; trace validation by TLC of probe batteries (Find*, FindWithID, Next/Previous loops, "
              "inmemory.Range/RangeDesc for all probe pairs) run on real B-trees",
    level="model_checking",
    level_text="The specification fixes, for hit and miss, where the cursor may stand after each search call and what every scan "
               "from there returns; TLC checks the range theorem on all small contents and all probe pairs, and validates every "
               "call of the probe batteries on real trees (item under the cursor, each Next/Previous, each Range/RangeDesc result).",
    level_note="On a miss the specification allows predecessor or successor (the code's choice depends on the tree shape, which is "
               "not modelled); the observed choice is then tracked exactly. Range iterators are checked for plain int keys only.",
    design_ref="C18",
)


def run(c):
    design = oc.Background(oc.design_check, c)         # exhaustive design check runs while the real code is driven
    progs = oc.sim_programs(c, num=c.pick(4, 12), depth=c.pick(50, 80))
    binp = c.build("orderedstore")
    jobs = oc.c18_jobs(c, progs)
    traces, stats = oc.run_driver(c, binp, jobs, "c18")
    rej, seen, seen2 = oc.validate_and_report(c, traces)
    r, cov = design.result()
    searches = sum(1 for _, evs in traces for e in evs if e["ev"] in ("Find", "FindInDescendingOrder", "FindWithID"))
    ranges = sum(1 for _, evs in traces for e in evs if e["ev"] in ("RangeAsc", "RangeDesc"))
    steps = sum(1 for _, evs in traces for e in evs if e["ev"] in ("Next", "Previous"))
    probe = [t for t in traces if t[0].startswith("probe/")]
    for name, evs in probe[:1] + probe[len(probe) // 2: len(probe) // 2 + 1]:
        k = next((i for i, e in enumerate(evs) if e["ev"] == "RangeAsc"), 1)
        c.sample(dict(trace=name, setup=evs[0], calls=[oc.brief(e) for e in evs[max(1, k - 6): k + 4]]))
    oc.coverage(c, stats, traces, seen, dict(
        exhaustive=False, design_states=r.distinct, design_transitions=r.generated,
        design_action_coverage={k: v[1] for k, v in cov.items()},
        search_calls=searches, range_calls=ranges, cursor_steps=steps,
        tlc_programs=len(progs), rejections_after_enabling_finding_actions=dict(seen2)))
    c.assumptions.append("range theorem exhaustive for the model domains of OrderedStore_mc*.cfg; real trees are sampled with VERIF_SEED "
                         "(probe keys: every int from min-1 to max+1, stored keys even so that odd probes fall between keys)")


if __name__ == "__main__":
    vlib.main(run, "C18")
