"""C19 — persisted stores hold exactly what was written, under every storage option.
TxnStore.tla is the in-memory model (indifferent to value placement, slot length and value size — which is the
property).  Random operation sequences, batched into transactions in random ways, are applied to persisted stores
for every value placement x slot lengths {2..500} x value sizes {short .. 70 KB (1 MB thorough)}; after each
transaction a fresh transaction dumps every store and a fresh OS process (cold caches) dumps them again; TLC
validates the whole history (every operation result, every dump) against the model."""
import collections, json, os, sys
sys.path.insert(0, os.path.dirname(os.path.abspath(__file__)))
import vlib, txnlib, _txncfg

META = dict(
    property_id="C19", engine="TxnStore",
    technique="TLA+ map/multiset model of stores (TxnStore) + TLC trace validation of random programs over all storage options, with dumps from a fresh OS process",
    level="model_checking",
    level_text="Every operation result and every full dump (same process and fresh process with cold caches) of random programs over the storage-option matrix is validated by TLC against the model, which is independent of placement/slot length/value size; bulk-load programs reach three-level trees in the thorough tier.",
    level_note="Filesystem backend; int keys, string values (sizes up to 70 KB quick / 1 MB thorough); values are compared through a digest (length + SHA-1 prefix) computed by the driver.",
    design_ref="C19",
)


def classify(r):
    raw = r["raw"][r["index"]] if 0 <= r["index"] < len(r["raw"]) else {}
    stores = {s["Name"]: s for s in r["header"].get("program", {}).get("stores", [])}
    st = stores.get(raw.get("s"), {})
    ev, op = raw.get("ev"), raw.get("op", "")
    if ev == "Op" and op in ("Scan", "Get") and st.get("Placement") == "active":
        empties = [x for x in (raw.get("items") or []) if x["v"] == ""] if op == "Scan" else ([1] if raw.get("ok") and raw.get("v") == "" else [])
        if empties:
            return ("intxn-read|active|empty-value",
                    "a transaction on a store with actively persisted values reads back an EMPTY value for an item it wrote earlier in the same transaction (%s of key(s) %s)" % (op, [x["k"] for x in empties] if op == "Scan" else raw.get("k")))
    if ev == "CommitEnd" and not raw.get("ok"):
        note = raw.get("note", "")
        why = "findAndAdd-lock" if "findAndAdd" in note else ("timeout" if "time" in note.lower() else "other")
        bulk = "bulk" if r["header"].get("program", {}).get("txns", [{}])[0].get("ops", [{}])[0].get("v", "").startswith("b") else "random"
        slots = sorted({s["Slot"] for s in stores.values()})
        return ("commit-failed-without-fault|%s|slot=%s|%s" % (bulk, slots, why),
                "fault-free commit failed: %s" % note[:200])
    what = "event %d not explained by the model: %s" % (r["index"], json.dumps(raw)[:300])
    if ev == "Observe":
        cold = "cold" if r["index"] > 0 and r["raw"][r["index"] - 1].get("ev") == "Observe" else "warm"
        return ("dump-differs|%s|placement=%s" % (cold, st.get("Placement")), what)
    hist = "|after-rolled-back-update" if (ev in ("OpError", "ObserveError") and "no such file" in raw.get("note", "")
                                            and txnlib.rolled_back_update(r["raw"], r["index"], raw.get("s"))) else ""
    return ("seq|%s|%s|placement=%s%s" % (ev, op, st.get("Placement"), hist), what)


def run(c):
    binp = c.build("txn")
    c.tlc_must_pass("TxnStoreMC", "TxnStoreMC.cfg", workers=8, timeout=300)
    big = c.pick([0, 0, 100, 5000, 70000], [0, 0, 100, 5000, 70000, 1 << 20])
    g = _txncfg.gen(c, "c", MaxStores=2, MaxTxns=5, MaxOps=c.pick(40, 90), Keys=c.pick(30, 60), Slots=[2, 3, 4, 5, 7, 8, 9, 24, 64, 500], Neighbour=True, ClearL2=20,
                    BigValues=big, DupStores=True)
    seq = txnlib.run_driver(c, binp, "seq", _txncfg.cfg(c, "seq", c.pick(40, 200), g, child=c.pick(3, 2)), timeout=c.pick(900, 6000))
    classes = txnlib.validate_skipping(c, seq, "TxnStoreTrace.cfg", classify)
    nb = 0
    if True:   # bulk loads: the quick tier runs one program on the slot length where nodes get many children
        gb = _txncfg.gen(c, "d", MaxTxns=3, Slots=c.pick([24], [4, 8, 24, 64]), Bulk=400, Placements=["node", "segment"])
        os.environ["VERIF_MAXTIME_MS"] = "8000"
        bulk = txnlib.run_driver(c, binp, "seq", _txncfg.cfg(c, "bulk", c.pick(1, 8), gb, child=1), timeout=3000)
        os.environ.pop("VERIF_MAXTIME_MS")
        classes += txnlib.validate_skipping(c, bulk, "TxnStoreTrace.cfg", classify, chunk=2)
        nb = len(bulk)
    combos = {(s["Placement"], s["Slot"]) for _, h, _ in seq for s in h.get("program", {}).get("stores", [])}
    colds = sum(1 for _, _, evs in seq for i, e in enumerate(evs) if e.get("ev") == "Observe" and i > 0 and evs[i - 1].get("ev") == "Observe")
    c.sample(dict(trace=seq[0][0], stores=seq[0][1]["program"]["stores"], events=seq[0][2][:8]))
    c.cov.update(dict(evaluations=len(seq) + nb, distinct_nontrivial=len(combos), option_combinations=sorted(combos),
                      cold_process_dumps=colds, bulk_programs=nb, rejection_classes=dict(classes),
                      rule="one case = one random program over 1-2 stores; distinct = (value placement, slot length) combinations exercised"))


if __name__ == "__main__":
    vlib.main(run, "C19")
