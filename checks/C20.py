"""C20 — caches never serve stale data.
TxnStore is the oracle: whatever a transaction or a fresh observation reads is the committed state, and cache
eviction / expiry / clearing are not actions of the model at all (they change nothing).  Histories come from several
long-lived OS processes (each with its own L1 node and handle caches, some with L1 capacity shrunk to 4 entries) that
share the folders and - in clustered mode - one L2 cache (the Redis adapter talking to a RESP server with a virtual
clock run by the harness), with FLUSHALL / key eviction / clock advances (TTL expiry) between any two steps; and from a
single process in standalone mode (in-memory L2) with L2 clears.  TLC validates every operation result and every
full observation of every process."""
import collections, json, os, re, sys
sys.path.insert(0, os.path.dirname(os.path.abspath(__file__)))
import vlib, txnlib, _txncfg

META = dict(
    property_id="C20", engine="TxnStore",
    technique="TLA+ cache-protocol spec (CacheCoherence: registry version, shared L2, per-process L1 handle cache and node MRU, pre-commit fast path) model-checked by TLC, its shortest stale-read behaviour replayed on real OS processes; TLA+ API-level transaction spec (TxnStore; cache perturbations are stuttering) + TLC trace validation of multi-process histories (processes with private L1 caches sharing a RESP-served L2 with virtual-clock TTLs; standalone process with in-memory L2), with flushes, evictions and expiries between steps",
    level="model_checking",
    level_text="Design level: TLC proves ReadsLatest for one process and for 2 processes without the L1 fast path (exhaustive, versions <= 3-4, 1-2 nodes) and emits the shortest stale-read behaviour with the fast path, which is replayed on two real processes. Conformance: every read of every process in every history must equal the specified committed state (TLC rejects the trace at the first stale read); histories: 1 process (standalone) and 2-3 processes (clustered), 6 keys, all value placements, random cache perturbations, small L1 capacities.",
    level_note="The Redis side is a RESP2 server written for this harness (harness/lib/resp: SET NX/PX, GET, GETEX, MGET, DEL, EXPIRE..., virtual clock); sequential steps (one process acts at a time), so every stale read is a cache effect, not a race.",
    design_ref="C20",
)


def classify(r):
    raw = r["raw"][r["index"]] if 0 <= r["index"] < len(r["raw"]) else {}
    who = raw.get("name", "?")
    if raw.get("ev") == "WorkerDied":
        prev = [e for e in r["raw"][:r["index"]] if e.get("name")]
        who = prev[-1]["name"] if prev else "?"
    commits = [e for e in r["raw"][:r["index"]] if e.get("ev") == "CommitEnd" and e.get("ok")]
    last = commits[-1] if commits else None
    lastw = ",".join(sorted({e.get("name", "?") for e in commits}))
    mode = ("clustered" if r["header"].get("clustered") else "standalone") + ("/l1=4" if r["header"].get("small_l1") else "")
    rel = "no-commit-yet" if last is None else ("only-own-commits" if {e.get("name") for e in commits} <= {who} else "other-processes-committed")
    ev = raw.get("ev")
    if ev == "WorkerDied":
        note = raw.get("note", "")
        import re as _re
        m = _re.search(r"sop/(\w+)\.\(\*?(\w+)[^)]*\)\.(\w+)", note)
        site = "%s.%s.%s" % m.groups() if m else ("hang" if "hung" in note else "?")
        return ("%s|process-panic|%s|last-commit-by=%s|placement=%s|prev=?" % (mode, site, rel, (r["header"].get("stores") or [{}])[0].get("Placement", "?")),
                "a process died while executing a transaction (successful commits so far by %s): %s" % (lastw, note[:300]))
    if ev in ("Observe", "Op") and (ev == "Observe" or raw.get("op") in txnlib.READ_OPS):
        sym = "stale-read"
    elif ev == "CommitEnd" and not raw.get("ok"):
        note = raw.get("note", "").lower()
        sym = ("commit-failed-on-stale-view" if ("newer version" in note or "failed to merge" in note or "failed to find item" in note) else
               "commit-failed:retry-limit" if "retry limit" in note else
               "commit-failed:timeout" if ("timed out" in note or "deadline" in note) else
               "commit-failed:item-lock-conflict" if "detected conflict" in note else "commit-failed:other")
    else:
        sym = "other:%s:%s" % (ev, raw.get("op", ""))
    store = (r["header"].get("stores") or [{}])[0]
    ends = [e for e in r["raw"][:r["index"]] if e.get("ev") in ("CommitEnd", "Rollback")]
    prev = "rollback" if ends and ends[-1].get("ev") == "Rollback" else "commit"
    return ("%s|%s|last-commit-by=%s|placement=%s|prev=%s" % (mode, sym, rel, store.get("Placement", "?"), prev),
            "process %s: %s (successful commits so far by %s): %s" % (who, sym, lastw, json.dumps(raw)[:260]))


def design_level(c, binp, classes):
    """CacheCoherence.tla: the cache protocol itself.  One process (standalone) and any number of processes without the
    pre-commit L1 fast path satisfy ReadsLatest; with the fast path and two processes TLC produces the shortest
    stale-read behaviour, which is replayed on the real code (two OS processes sharing the RESP-served L2)."""
    c.tlc_must_pass("CacheCoherence", "CacheCoherence_one.cfg", workers=4, timeout=600)
    c.tlc_must_pass("CacheCoherence", c.pick("CacheCoherence_nofast.cfg", "CacheCoherence_nofast_thorough.cfg"), workers=8, timeout=c.pick(600, 1800))
    r = c.tlc("CacheCoherence", "CacheCoherence_cex.cfg", workers=1, timeout=300)
    m = re.search(r'<<"CEX", "(.*)">>', r.out)
    info = dict(design_counterexample=None, reproduced_on_code=None)
    if r.ok or not m:
        c.cov["cache_design"] = info
        return 0
    hist = json.loads(vlib.tla_unquote('"' + m.group(1) + '"'))
    info["design_counterexample"] = hist
    # model steps -> driver steps: read..commit of one process = one read-modify-write transaction; a read that is not
    # followed by that process's commit = an observation by a fresh reader transaction of that process
    steps = []
    for i, h in enumerate(hist):
        if h["a"] == "commit":
            steps.append("txn@" + h["p"])
        elif h["a"] in ("read", "readfast"):
            later = [x for x in hist[i + 1:] if x["p"] == h["p"] and x["a"] in ("commit", "end", "conflict")]
            if not (later and later[0]["a"] in ("commit", "conflict")):
                steps.append("observe@" + h["p"])
        elif h["a"] == "evictl2":
            steps.append("flushall")
    g = _txncfg.gen(c, "z", MaxTxns=1, MaxOps=1, Keys=6, Slots=[4], Placements=["node"])
    cfg = _txncfg.cfg(c, "cachecex", 1, g, clustered=True, script=steps)
    traces = txnlib.run_driver(c, binp, "cache", cfg, timeout=600)
    info["replayed_steps"] = steps
    got = txnlib.validate_skipping(c, traces, "TxnStoreTrace.cfg", classify, chunk=1, max_skips=2)
    info["reproduced_on_code"] = bool(got)
    classes += got
    c.cov["cache_design"] = info
    # directed standalone histories: an L2 clear followed by commits that touch several nodes, some of whose handles
    # are back in L2 and some not (partial hit of registry.Get at commit; found by the random histories, fixed by 73905dbc)
    n = len(traces)
    for slot, place, script in ((2, "segment", ["op@w0:Add:7", "clearl2", "op@w0:Upsert:4", "op@w0:Remove:3", "op@w0:Remove:2", "observe@w0"]),
                                (4, "segment", ["clearl2", "observe@w0", "op@w0:Update:6", "op@w0:Remove:3", "observe@w0"]),
                                (2, "node", ["op@w0:Add:7", "op@w0:Add:8", "clearl2", "op@w0:Update:5", "op@w0:Remove:1", "op@w0:Remove:4", "observe@w0"])):
        g = _txncfg.gen(c, "y", MaxTxns=1, MaxOps=1, Keys=6, Slots=[slot], Placements=[place])
        cfg = _txncfg.cfg(c, "cachedir%d%s" % (slot, place), 1, g, clustered=False, script=script)
        tr = txnlib.run_driver(c, binp, "cache", cfg, timeout=600)
        classes += txnlib.validate_skipping(c, tr, "TxnStoreTrace.cfg", classify, chunk=1, max_skips=2)
        n += len(tr)
    return n


def run(c):
    binp = c.build("txn")
    c.tlc_must_pass("TxnStoreMC", "TxnStoreMC.cfg", workers=8, timeout=300)
    classes = collections.Counter()
    total = design_level(c, binp, classes)
    for clustered, progs in ((False, c.pick(25, 250)), (True, c.pick(20, 200))):
        g = _txncfg.gen(c, "q", MaxTxns=8, MaxOps=4, Keys=6, Slots=[2, 4], Placements=["node", "segment", "global", "active"])
        cfg = _txncfg.cfg(c, "cache%d" % clustered, progs, g, clustered=clustered)
        traces = txnlib.run_driver(c, binp, "cache", cfg, timeout=2400)
        for n, h, evs in traces:
            if any(e.get("ev") == "HarnessError" for e in evs):
                raise vlib.InfraError("cache driver error in %s: %s" % (n, [e.get("note") for e in evs if e.get("ev") == "HarnessError"][:1]))
        total += len(traces)
        classes += txnlib.validate_skipping(c, traces, "TxnStoreTrace.cfg", classify, chunk=4, parallel=6, max_skips=6)
        if traces:
            c.sample(dict(clustered=clustered, steps=traces[0][1].get("steps"), workers=traces[0][1].get("workers")))
    c.cov.update(dict(evaluations=total, distinct_nontrivial=total, rejection_classes=dict(classes),
                      rule="one case = one multi-step history (commits and observations by 1-3 processes, cache perturbations in between); all counted"))


if __name__ == "__main__":
    vlib.main(run, "C20")
