"""C21 — the on-disk registry behaves as a map from id to handle.
Spec: spec/RegistryMap.tla (+RegistryMapTrace).  TLC explores every call sequence over colliding ids on shrunk
blocks (placement rules of the code: ideal slot, scan, overflow segment, zero on delete, update in place) and checks
the refinement to a map; every transition it prints is executed on the real fs.NewRegistry (real 66-slot blocks whose
other slots are kept full), seeded random long programs run on raw 66-slot blocks that overflow into further
segment files; every call, its result, a cold lookup and the raw projection of the segment files are validated line
by line by the trace specification, which follows the disk slot by slot."""
import json, os, re, sys, random
sys.path.insert(0, os.path.dirname(os.path.abspath(__file__)))
import vlib
import _registrymap as rm

META = dict(
    property_id="C21", engine="RegistryMap",
    technique="TLA+ model of the registry's slot placement refined to a map; TLC-enumerated call sequences replayed on the real registry, raw slot projection and cold lookups trace-validated by TLC",
    level="model_checking",
    level_text="TLC checks the map refinement (last written value returned, removed ids gone, one slot per id, present ids removable) on every reachable state of the placement model for colliding ids, hash modulus 1-2, 2-3 slot blocks, 2-3 segment files, 4-5 calls deep; every transition of that state graph is executed on the real registry and every real call (plus seeded long random programs on full 66-slot blocks, modulus 1,2,3,4,250) is accepted only if its result, the cold lookups and the decoded raw slots equal what the specification computes, with the invariants evaluated on every step.",
    level_note="Sequential histories only (one caller); ids restricted to hi, lo < 2^31 (TLC integers); the model's shrunk blocks are embedded in real blocks by keeping the remaining slots occupied; in-memory L2 cache, cleared before lookups; under a time budget the walk of the transition tree may be cut (counts in the evidence).",
    design_ref="C21",
)

FILL_HI = 900   # filler ids of the driver have hi >= mod * FILL_HI


def programs_from(res):
    out, seen = [], set()
    for p in res.prints:
        m = re.match(r'<<"PROG", (".*")>>$', p)
        if m:
            s = vlib.tla_unquote(m.group(1))
            if s not in seen:
                seen.add(s)
                out.append(json.loads(s))
    return out


def build_trees(progs, live, segs, ids, seed, tag):
    """Prefix trees of the programs, one per (modulus, first call), children in seeded order."""
    rng = random.Random(seed)
    roots = {}
    for p in progs:
        ops = p["ops"]
        key = (p["mod"], json.dumps(ops[0], sort_keys=True))
        node = roots.setdefault(key, dict(children={}))
        for op in ops:
            k = json.dumps(op, sort_keys=True)
            node = node["children"].setdefault(k, dict(op=op, children={}))

    def conv(n):
        ch = [conv(x) for x in n["children"].values()]
        rng.shuffle(ch)
        d = dict(children=ch)
        if "op" in n:
            d["op"] = n["op"]
        return d
    trees = []
    for (mod, _), root in sorted(roots.items()):
        trees.append(dict(name="%s-mod%d-%d" % (tag, mod, len(trees)), mod=mod, live=live, segs=segs, getall=ids,
                          root=conv(root)))
    rng.shuffle(trees)
    return trees


def norm(evs):
    out = []
    for e in evs:
        e = dict(e)
        e.pop("name", None); e.pop("err", None)
        for k, d in (("mod", 1), ("ids", []), ("vals", []), ("batch", False), ("res", "ok"), ("wrote", []),
                     ("erased", []), ("cells", []), ("found", []), ("nseg", 0), ("crcok", True), ("n", 0), ("save", False)):
            e.setdefault(k, d)
        out.append(e)
    return out


def classify(traces, N):
    """Counts for the evidence: distinct (placement of the ids under test, call) pairs whose call touched a displaced
    or overflowed record, failed, or hit an occupied ideal slot."""
    distinct, calls = set(), 0
    for name, evs in traces:
        cur, stack, mod = {}, [], 1
        for e in evs:
            ev = e["ev"]
            if ev == "Setup":
                mod = e["mod"]
                cur = {(c["s"], c["b"], c["i"]): tuple(c["id"]) for c in e["cells"]}
            elif ev == "Back":
                cur = stack.pop() if stack else {}
            elif ev in ("Add", "Set", "Remove"):
                if e["save"]:
                    stack.append(dict(cur))
                calls += 1
                shape = tuple(sorted((k, v) for k, v in cur.items() if v[0] < mod * FILL_HI))
                touched = e["wrote"] + e["erased"]
                hard = e["res"] != "ok" or any(c["s"] > 1 or c["i"] != c["id"][1] % N for c in touched)
                for c in e["erased"]:
                    cur.pop((c["s"], c["b"], c["i"]), None)
                for c in e["wrote"]:
                    cur[(c["s"], c["b"], c["i"])] = tuple(c["id"])
                if hard:
                    if name.startswith("random"):
                        cls = (ev, e["batch"], e["res"], len(e["ids"]), tuple(sorted((c["s"], c["i"] == c["id"][1] % N) for c in touched)))
                        distinct.add(("random", mod, cls))
                    else:
                        distinct.add((mod, shape, ev, json.dumps(e["ids"]), e["batch"]))
    return calls, len(distinct)


def run(c):
    binp = c.build("registrymap")
    k = rm.source_constants(c, binp)
    env = rm.driver_env(k)
    bad = rm.layout_violation(c, k)
    if bad:
        raise vlib.InfraError("layout constants of the source do not fit a block (%s): C24's business; C21 cannot run" % bad)
    cfg = rm.trace_cfg(k, ["TypeOK", "DiskIsMap", "OneRecordPerSlot", "CallResults"])

    # 1. design level: exhaustive placement model, refinement invariants, every transition printed as a program
    models = [("RegistryMap_mc.cfg", 2, 2, [[2, 0], [4, 0], [6, 1], [1, 0]], "tlc")]
    if not c.quick:
        models = [("RegistryMap_mc_thorough.cfg", 2, 2, [[2, 0], [4, 0], [6, 1], [1, 0]], "tlc"),
                  ("RegistryMap_mc_wide.cfg", 3, 3, [[2, 0], [4, 0], [6, 0], [8, 1], [10, 2], [1, 1]], "wide")]
    trees, nprogs, shortest_stale, coverage = [], 0, None, {}
    for cfgname, live, segs, ids, tag in models:
        r = c.tlc_must_pass("RegistryMap", cfgname, workers=4, timeout=c.pick(240, 900), coverage=not c.quick, heap="4g")
        progs = programs_from(r)
        if len(progs) < 1000:
            raise vlib.InfraError("too few programs printed by TLC (%d)" % len(progs))
        nprogs += len(progs)
        for p in progs:
            if p["stale"] and (shortest_stale is None or len(p["ops"]) < len(shortest_stale[0]["ops"])):
                shortest_stale = (p, live, segs, ids)
        trees += build_trees(progs, live, segs, ids, c.seed, tag)
        if r.coverage:
            coverage[cfgname] = {a: v for a, v in r.coverage.items() if a.startswith("MC") or a in ("Init", "Fetch")}
            dead = [a for a, v in coverage[cfgname].items() if v[1] == 0]
            if dead:
                raise vlib.InfraError("actions never taken in %s: %s" % (cfgname, dead))

    # 2. spec -> code: every printed transition executed on the real registry (prefix trees, each edge once)
    tf = os.path.join(c.scratch, "trees.json")
    json.dump(trees, open(tf, "w"))
    out1 = os.path.join(c.scratch, "tree.ndjson")
    budget = c.pick(35, 420)
    p = c.run([binp, "tree", tf, out1, c.datadir("tree"), str(budget)], env=env, timeout=budget * 3 + 300)
    walk = json.loads(p.stdout.strip().splitlines()[-1])
    tree_traces = [(n, norm(e)) for n, e in vlib.split_traces(vlib.read_ndjson(out1))]

    # 3. the shortest program in which the model needs the finding branch, on its own (is the defect still there?)
    cex_traces = []
    if shortest_stale:
        sp, live, segs, ids = shortest_stale
        pf = os.path.join(c.scratch, "cex.json")
        json.dump([dict(name="tlc-shortest-stale", mod=sp["mod"], live=live, segs=segs, ops=sp["ops"], getall=ids)], open(pf, "w"))
        out3 = os.path.join(c.scratch, "cex.ndjson")
        c.run([binp, "run", pf, out3, c.datadir("cex")], env=env)
        cex_traces = [(n, norm(e)) for n, e in vlib.split_traces(vlib.read_ndjson(out3)) if n.startswith("tlc-")]

    # 4. long random programs on raw 66-slot blocks, moduli 1,2,3,4,250, overflow into further segment files
    out2 = os.path.join(c.scratch, "random.ndjson")
    nrand, nops = c.pick(10, 40), c.pick(220, 400)
    c.run([binp, "random", out2, c.datadir("random"), str(nrand), str(nops)], env=env, timeout=c.pick(600, 2400))
    rnd_traces = [(n, norm(e)) for n, e in vlib.split_traces(vlib.read_ndjson(out2))]

    # 5. code -> spec
    all_traces = cex_traces + tree_traces + rnd_traces
    rej, stale = rm.validate(c, cfg, all_traces, timeout=c.pick(900, 2400))

    # a trace the placement model rejects gets a second opinion that judges only the statements of C21 on the disk as
    # observed: rejected there too = the property is broken; accepted there = this tree places records differently
    # from RegistryMap (the model is out of date for it), which is not a verdict
    mismatches = []
    if rej:
        first = {}
        for x in rej:
            first.setdefault(x["trace"], x)
        obs_cfg = rm.trace_cfg(k, ["ObsMap", "ObsResults", "OneRecordPerSlot"], observational=True)
        rej2, _ = rm.validate(c, obs_cfg, [(n, x["events"]) for n, x in first.items()], timeout=c.pick(900, 2400),
                              cfg_name="RegistryMapTrace_obs.cfg")
        second = {}
        for y in rej2:
            second.setdefault(y["trace"], y)
        nrep = 0
        stale_at = set((s[0], s[1]) for s in stale)
        for n, x in first.items():
            if n not in second or (n, second[n]["index"]) in stale_at:
                # accepted by the second opinion, or it stumbled over a step of the (separately reported) finding
                # before reaching the divergence: unclassified
                mismatches.append(x)
                continue
            y = second[n]
            ev = y["event"] or {}
            if nrep >= 5:
                continue
            nrep += 1
            if y["invariant"]:
                sig = "map-violated:%s:after-%s" % (y["invariant"], ev.get("ev"))
                what = "C21 statement %s fails on the real registry after event %d (%s) of trace %s" % (y["invariant"], y["index"], ev.get("ev"), n)
            else:
                sig = "map-violated:event-rejected:%s:%s" % (ev.get("ev"), ev.get("res"))
                what = "event %d (%s) of trace %s is impossible for a map" % (y["index"], ev.get("ev"), n)
            c.report(sig, what + ": " + json.dumps(ev)[:600],
                     dict(trace=n, rejected_index=y["index"], rejected_event=ev,
                          calls_leading_here=rm.linear_path(y["events"], y["index"]),
                          placement_model_rejected_at=x["index"], placement_model_event=x["event"], tlc=y["tlc_tail"]))
    violating = set()
    for name, ei, ev, evs in stale:
        sig = "stale-write-search:%s" % ev["ev"]
        if sig in violating:
            continue        # already reported as a violation once; known findings are counted occurrence by occurrence
        if c.report(sig, "%s of a present id whose record lies behind a freed slot does not find it (the search for writing stops at the free slot): %s"
                    % (ev["ev"], json.dumps(ev)[:400]),
                    dict(trace=name, index=ei, calls_leading_here=rm.linear_path(evs, ei))):
            violating.add(sig)

    if mismatches and not c.violations:
        x = mismatches[0]
        raise vlib.InfraError("the placement model RegistryMap does not describe this tree (map statements hold on the observed disk): "
                              "%d traces, first: trace %s event %d %s" % (len(mismatches), x["trace"], x["index"], json.dumps(x["event"])[:800]))
    calls, distinct = classify(all_traces, k["SlotsPerBlock"])
    c.sample(dict(tlc_program=trees[0]["root"]["children"][0]["op"], tree=trees[0]["name"]))
    if stale:
        c.sample(dict(finding_step=stale[0][2], calls_leading_here=rm.linear_path(stale[0][3], stale[0][1])))
    if rnd_traces:
        c.sample(dict(random_trace=rnd_traces[0][0], first_calls=[e for e in rnd_traces[0][1] if e["ev"] in ("Add", "Set", "Remove")][:3]))
    c.cov.update(dict(
        exhaustive=(walk["edges_skipped"] == 0),
        programs_printed_by_tlc=nprogs, tree_edges_total=walk["edges_total"], tree_edges_run=walk["edges_run"],
        tree_edges_skipped_budget=walk["edges_skipped"],
        random_programs=len(rnd_traces), random_calls=sum(1 for _, e in rnd_traces for x in e if x["ev"] in ("Add", "Set", "Remove")),
        lookups_checked=sum(1 for _, e in all_traces for x in e if x["ev"] == "Get"),
        evaluations=calls, distinct_nontrivial=distinct,
        finding_steps=len(stale),
        shortest_model_counterexample=shortest_stale[0] if shortest_stale else None,
        shortest_model_counterexample_reproduced=bool([s for s in stale if s[0] == "tlc-shortest-stale"]),
        layout_constants={a: k[a] for a in ("SlotsPerBlock", "HandleSize", "BlockSize", "CrcWidth")},
        coverage_actions=coverage or None,
        rule="one case = one mutating call (Add/Update/UpdateNoLocks/Remove, 1-2 ids) executed on the real registry in a known disk state and validated "
             "(result, raw slot delta, cold lookups) by TLC; non-trivial = the call failed or touched a record outside its id's ideal slot of segment 1 "
             "(displaced or overflowed); distinct = by (placement of all ids under test, call) for the TLC-enumerated part, by "
             "(modulus, call kind, batch, result, ids, segment/ideal pattern of touched records) for the random part",
    ))
    c.assumptions += ["sequential callers", "ids with hi, lo < 2^31", "in-memory L2 cache cleared before every lookup",
                      "shrunk model blocks embedded in real 66-slot blocks by filler records in the remaining slots"]


if __name__ == "__main__":
    vlib.main(run, "C21")
