"""C22 - registry block writes survive a crash as either the old or the new block, also with concurrent readers.

Spec: spec/BlockCow.tla (+ BlockCowTrace.tla).  Driver: harness/cmd/blockcow.
1. TLC checks the model exhaustively (1-2 writers x 1-3 readers x 1 crash x every torn prefix x every slot layout):
   invariant ReadIsOldOrNew on all behaviours that take no finding action.
2. spec -> code: the state graph of the model is exported, fused to the granularity of the gates the driver has
   in the real code (fs.DirectIOSim ReadAt/WriteAt, block lock), covered by paths, and every path is stepped through
   the real registry code (torn writes and crashes injected at the gates).
3. code -> spec: the observations of these runs, and of seeded random schedules beyond the exhaustive bounds
   (3 readers, restart writer), are validated by BlockCowTrace: every step must be the model's step and reproduce
   the raw block / backup-file classification and the lookup results.  The trace spec names the finding actions
   taken and the states in which the property is broken."""
import json, os, random, sys
sys.path.insert(0, os.path.dirname(os.path.abspath(__file__)))
import vlib
import blockcow_common as bc

META = dict(
    property_id="C22", engine="BlockCow",
    technique="TLA+ model of backup->write->delete-backup with torn writes, crash and lock-free readers; TLC state graph replayed edge by edge on the real code through fs.DirectIOSim gates; real runs trace-validated by TLC",
    level="model_checking",
    level_text="TLC explores every interleaving of a writer (optionally a restarting second writer), 1-3 lock-free readers, one crash at every control point and every torn prefix (quarters) for every position of the slot relative to the tear, and checks ReadIsOldOrNew in every state. Every edge of the gate-level state graph is executed against the real registry code and every real step is checked by TLC against the model including raw block bytes, backup file state and lookup results, so model and code agree on everything the model covers.",
    level_note="Bounds: 1 block (holding 5 other handles, or never written: first write into an all-zero block), 1 slot rewritten, <=2 writers (second starts after the first ended), <=3 readers, 1 crash, tear granularity 1 KiB; slot positions: inside each quarter and straddling the 1 KiB / 3 KiB boundaries. A block write by a live process is taken to be atomic for other processes (single 4 KiB O_DIRECT pwrite); a crash leaves a prefix. Crashes are goroutine abandonment at a gate; a crash inside os.WriteFile of the backup is emulated by killing the writer at the next gate and truncating the file. Steps between two gates (checksum decision, backup creation) cannot be interleaved in the real code; model edges that need it are counted as not realisable.",
    design_ref="C22",
)

ACTIONS = ["Begin", "ReadBlock", "VerifyCRC", "DeleteStaleBackup", "CheckBackup", "RestoreFromBackup", "ReturnRestored",
           "LockBlock", "CreateBackup", "WriteBlock", "DeleteBackup", "Unlock", "Crash"]


def run(c):
    rng = random.Random(c.seed)
    binp = c.build("blockcow")
    pr = bc.probe(c, binp)
    mode, rdel, rres = pr["corrupt_mode"], pr["reader_deletes"], pr["reader_restores"]
    vlib.log("tree variant: checksum mismatch without backup -> %s; lock-free reader deletes backup: %s, restores block: %s"
             % (mode, rdel, rres))
    kw = dict(corrupt_mode=mode, reader_deletes=rdel, allow_delete_fresh=True, reader_restores=rres)

    # ---- 1. design level + 2. export of the state graphs (independent TLC runs, three at a time) ------------
    # (readers, writers, layouts, init image); init image 0 = first write into a never-written (all-zero) block
    design = [(["r1", "r2"], 1, "LayoutsAll", 1), (["r1"], 2, "LayoutsSmall", 1), (["r1"], 1, "LayoutsInside", 0)]
    if not c.quick:
        design += [(["r1", "r2"], 2, "LayoutsAll", 1), (["r1", "r2", "r3"], 1, "LayoutsSmall", 1),
                   (["r1", "r2"], 2, "LayoutsInside", 0)]
    graphs = [(["r1"], 1, "LayoutsAll", 1, None), (["r1", "r2"], 1, "LayoutsSmall", 1, 400),
              (["r1"], 2, "LayoutsSmall", 1, 250), (["r1"], 1, "LayoutsInside", 0, None)] if c.quick else \
             [(["r1"], 1, "LayoutsAll", 1, None), (["r1", "r2"], 1, "LayoutsAll", 1, None),
              (["r1"], 2, "LayoutsAll", 1, None), (["r1", "r2"], 2, "LayoutsSmall", 1, 2500),
              (["r1", "r2"], 1, "LayoutsInside", 0, None), (["r1"], 2, "LayoutsInside", 0, None)]
    from concurrent.futures import ThreadPoolExecutor

    def design_run(a):
        i, (readers, nw, lays, img) = a
        return c.tlc_must_pass("BlockCow", "BlockCow_gen.cfg", workers=2, timeout=1500, coverage=True,
                               files={"BlockCow_gen.cfg": bc.mc_cfg(readers, nw, lays, init_img=img, **kw)}, tag="design%d" % i)

    def graph_run(a):
        i, (readers, nw, lays, img, cap) = a
        return bc.export_graph(c, bc.mc_cfg(readers, nw, lays, emit=True, init_img=img, **kw), workers=2, timeout=1500,
                               tag="emit%d" % i)

    with ThreadPoolExecutor(max_workers=3) as ex:
        dres = list(ex.map(design_run, list(enumerate(design))))
        gres = list(ex.map(graph_run, list(enumerate(graphs))))
    cover = {}
    for r in dres:
        for k, v in r.coverage.items():
            cover[k] = cover.get(k, 0) + v[0]
    dead = [a for a in ACTIONS if cover.get(a, 0) == 0]
    if dead:
        raise vlib.InfraError("vacuous model: actions never taken: %s (coverage %s)" % (dead, cover))

    # ---- 2. spec -> code ---------------------------------------------------------------------------------
    plans, gstats = [], []
    for gi, ((readers, nw, lays, img, cap), (states, edges, inits, r)) in enumerate(zip(graphs, gres)):
        macro, unreal = bc.fuse(states, edges, inits)
        paths, total, covered = bc.cover_paths(macro, inits, rng, max_paths=cap)
        for pi, p in enumerate(paths):
            plans.append(bc.plan_for(states, macro, p, "g%d-p%d" % (gi, pi)))
        gstats.append(dict(readers=len(readers), writers=nw, layouts=lays, init_img=img, states=len(states),
                           fine_edges=len(edges), gate_level_edges=total, gate_level_edges_replayed=covered,
                           paths=len(paths), fine_edges_not_realisable=unreal))
        if not cap and covered != total:
            raise vlib.InfraError("path cover incomplete: %d of %d" % (covered, total))
    planf = os.path.join(c.scratch, "plan.json")
    json.dump({"behaviours": plans}, open(planf, "w"))
    repf = os.path.join(c.scratch, "replay.ndjson")
    c.run([binp, "replay", c.datadir("replay"), planf, repf], timeout=1500)
    replayed = vlib.split_traces(vlib.read_ndjson(repf))
    if len(replayed) != len(plans):
        raise vlib.InfraError("driver returned %d traces for %d behaviours" % (len(replayed), len(plans)))
    diverged = 0
    for pl, (name, evs) in zip(plans, replayed):
        want = 1 + len(pl["steps"]) + 1
        if len(evs) != want or any(e["ev"] == "Stuck" for e in evs):
            diverged += 1
            if diverged <= 3:
                stuck = [e for e in evs if e["ev"] == "Stuck"]
                c.report("replay-diverged:%s" % (stuck[0].get("actor", "?")[:1] if stuck else "short"),
                         "a behaviour of the model could not be stepped through the real code: %s" % (stuck[:1] or "missing events"),
                         dict(plan=pl, events=evs))

    # ---- 3. code -> spec ---------------------------------------------------------------------------------
    rndf = os.path.join(c.scratch, "random.ndjson")
    c.run([binp, "random", c.datadir("random"), str(c.pick(150, 2500)), rndf], timeout=1500)
    rnd = vlib.split_traces(vlib.read_ndjson(rndf))
    traces = [(n, [bc.norm_event(e) for e in evs if e["ev"] != "Stuck"]) for n, evs in replayed + rnd]
    cfg = bc.trace_cfg(mode, rdel, True, reader_restores=rres)
    rej, notes = bc.validate_with_notes(c, traces, cfg, chunk=c.pick(250, 500), parallel=4)
    seen = set()
    for x in rej:
        if x["index"] < 0:      # beyond the first few rejected traces: counted, not diagnosed
            continue
        ev = x["event"] or {}
        sig = "trace-rejected:%s:%s:%s" % (ev.get("ev"), (ev.get("actor") or "?")[:1], ev.get("to") or ev.get("kind"))
        if sig in seen:
            continue
        seen.add(sig)
        c.report(sig, "real registry code takes a step the BlockCow model does not allow (event %d of %s): %s; previous: %s"
                 % (x["index"], x["trace"], json.dumps(ev), json.dumps(x["prev"])),
                 dict(trace=x["events"], rejected_index=x["index"], tlc=x["tlc_tail"]))
    kinds = {}
    for n in notes:
        used = bc.used_set(n["used"])
        if n["kind"] == "deletefresh":
            sig = "finding:reader-deletes-fresh-backup"
            what = "a lock-free reader that read the block before the writer created its backup deletes that backup as 'stale'"
        elif n["kind"] == "servecorrupt":
            sig = "finding:unverified-buffer-served"
            what = "checksum mismatch and no valid backup: the buffer is used as if it had verified"
        elif used:
            sig = "consequence:%s:%s" % (n["kind"], "+".join(used))
            what = "property broken after finding action(s) %s: %s" % (used, n["kind"])
        else:
            sig = "broken-without-finding:%s" % n["kind"]
            what = "C22 broken on a real run that takes no known finding action: %s" % n["kind"]
        kinds[sig] = kinds.get(sig, 0) + 1
        if kinds[sig] == 1:
            c.report(sig, what + " (trace %s, event %d)" % (n["trace"], n["index"]),
                     dict(trace=n["events"], at=n["index"], note=n["kind"], used=used))
            if n["kind"].startswith("bad"):
                c.sample(dict(broken=n["kind"], after=used, trace=n["trace"],
                              schedule=[[e["actor"], e["ev"], e.get("to") or e.get("kind"), e.get("p")] for e in n["events"][1:]]))
    c.sample(dict(replayed_behaviour=plans[len(plans) // 2]))
    c.cov.update(dict(
        exhaustive=True, tree_variant=dict(corrupt_mode=mode, reader_deletes=rdel, reader_restores=rres),
        graphs=gstats, traces_rejected=len(rej), behaviours_replayed=len(plans), replay_diverged=diverged, random_schedules=len(rnd),
        evaluations=len(traces), events_validated=sum(len(e) for _, e in traces),
        distinct_nontrivial=sum(g["gate_level_edges_replayed"] for g in gstats),
        rule="one case = one edge of the gate-level state graph of BlockCow (state x actor step or crash variant) executed on the real code inside a replayed path and accepted by the trace spec; edges are distinct by construction",
        notes=kinds, coverage_actions=cover,
    ))
    c.assumptions += ["a 4 KiB block write of a live process is atomic for other processes; a crash leaves a 1 KiB-granular prefix",
                      "one block, one rewritten slot, at most 2 writers (sequential), 3 readers, 1 crash",
                      "completed file writes are durable: process crash, not power loss (the code does not fsync the backup before the block write)",
                      "lookups use a read-write registry object (restore writes are possible) and a cold L2 cache"]


if __name__ == "__main__":
    vlib.main(run, "C22")
