"""C23 - corrupted registry data is reported, never served.

Spec: spec/BlockCow.tla (InitC23 / CorruptNeverDecoded / UnverifiedNeverRewritten / NothingBaked) + BlockCowTrace.tla.
Driver: harness/cmd/blockcow flips.
Every single-bit flip of a written 4096-byte registry block (32768) and seeded bursts of 2..32 bits, crossed with the
backup (.cow) file states none / empty / truncated / valid / full-size-but-invalid and the operations Get (through a
read-write and through a read-only registry), Update, Remove, Add, is applied to a real segment file; the real registry call is run and its result plus the raw bytes of
block and backup afterwards become trace events.  BlockCowTrace decides: checksum mismatch and no valid backup =>
error and block untouched; valid backup => its content is served / the block restored; a block that verifies =>
served, stale backup removed.  Identical abstract traces are validated once (their multiplicity is recorded)."""
import json, os, re, sys
sys.path.insert(0, os.path.dirname(os.path.abspath(__file__)))
import vlib
import blockcow_common as bc

META = dict(
    property_id="C23", engine="BlockCow",
    technique="TLA+ model of the registry block read procedure (checksum, backup check, restore); exhaustive input enumeration (every bit flip x backup states x operations) on the real registry, outcomes trace-validated by TLC",
    level="model_checking",
    level_text="TLC checks on the model, for every combination of corrupted/intact block and backup-file state and every interleaving of one writer and one reader, that no successful call was served an unverified buffer and that an unverifiable block is never written. The real code is run on every single-bit corruption of a real block (and seeded bursts) for every backup state and every registry operation, and TLC validates each real outcome (result, value, block bytes, backup file) against the model.",
    level_note="Corruptions are single bits, bursts <= 32 bits (always detected by CRC32) and four targeted ones (trailer zeroed / all ones, slot zeroed, data zeroed); the block holds 6 handles; operations Get (read-write and read-only registry), Update, Remove, Add; the quick tier runs the full bit sweep for Get without backup, every 4th bit for Update without backup and a seeded 1-in-16 sample for the other combinations; the thorough tier every bit for both Gets with every backup state and every 2nd bit for the writers; cold L2 cache.",
    design_ref="C23",
)

ACTIONS = ["Begin", "ReadBlock", "VerifyCRC", "DeleteStaleBackup", "CheckBackup", "RestoreFromBackup", "ReturnRestored",
           "CallerRejectsDecoded", "LockBlock", "CreateBackup", "WriteBlock", "DeleteBackup", "Unlock", "Crash"]


def c23_cfg(mode, rdel, rres, strict):
    return """SPECIFICATION SpecC23
CONSTANTS
  Readers = {"r1"}
  NWriters = 1
  Layouts <- LayoutsSmall
  TornPrefixes <- AllPrefixes
  MaxCrash = 1
  InitImg = 1
  CorruptMode = "%s"
  ReaderDeletes = %s
  ReaderRestores = %s
  AllowDeleteFresh = TRUE
  ReaderCrash = FALSE
  ROReaders = {}
CHECK_DEADLOCK FALSE
%s
""" % (mode, "TRUE" if rdel else "FALSE", "TRUE" if rres else "FALSE",
       "INVARIANTS TypeOK C23Holds CorruptNeverDecoded NothingBaked\nPROPERTIES UnverifiedNeverRewritten" if strict
       else "INVARIANTS TypeOK C23Holds")


def run(c):
    binp = c.build("blockcow")
    pr = bc.probe(c, binp)
    mode, rdel, rres = pr["corrupt_mode"], pr["reader_deletes"], pr["reader_restores"]
    vlib.log("tree variant: checksum mismatch without backup -> %s; lock-free reader deletes backup: %s, restores block: %s"
             % (mode, rdel, rres))
    # ---- design level: the property on the model ("report"), and the code-as-read variant for vacuity ("serve")
    cover = {}
    for m, strict in (("report", True), ("serve", False)):
        r = c.tlc_must_pass("BlockCow", "BlockCow_c23gen.cfg", workers=4, timeout=900, coverage=True,
                            files={"BlockCow_c23gen.cfg": c23_cfg(m, rdel, rres, strict)}, tag="c23-" + m)
        for k, v in r.coverage.items():
            cover[k] = cover.get(k, 0) + v[0]
    dead = [a for a in ACTIONS if cover.get(a, 0) == 0]
    if dead:
        raise vlib.InfraError("vacuous model: actions never taken: %s" % dead)

    # ---- the real code on every corruption
    outf = os.path.join(c.scratch, "flips.ndjson")
    p = c.run([binp, "flips", c.datadir("flips"), c.tier, outf], timeout=3000, env={"FLIPS_WORKERS": "8"})
    vlib.log(p.stderr.strip().splitlines()[-1] if p.stderr.strip() else "flips done")
    raw = vlib.split_traces(vlib.read_ndjson(outf))
    # counts live in the TraceStart lines
    meta = {}
    for line in open(outf):
        if '"TraceStart"' in line:
            e = json.loads(line)
            meta.setdefault(e["name"], []).append(e)
    stats = meta.pop("_stats")[0]
    traces, mult = [], []
    idx = {}
    for name, evs in raw:
        if name == "_stats":
            continue
        k = idx.get(name, 0)
        idx[name] = k + 1
        m = meta[name][k]
        tname = "%s#%d" % (name, k)
        traces.append((tname, [bc.norm_event(e) for e in evs]))
        mult.append((tname, m["count"], m.get("example", [])))
    multd = {n: (cnt, ex) for n, cnt, ex in mult}
    cfg = bc.trace_cfg(mode, rdel, True, reader_restores=rres)
    rej, notes = bc.validate_with_notes(c, traces, cfg, chunk=300, parallel=4, diagnose=0)
    seen = {}

    def opcow(tname):
        m = re.match(r"flip:lay\d+:(\w+):cow=(\w+):(\w+):(\w+)#", tname)
        return m.groups() if m else ("?", "?", "?", "?")

    for x in rej:
        op, ck, cor, reg = opcow(x["trace"])
        ev = x["event"] or {}
        sig = "trace-rejected:%s:cow=%s:%s:%s" % (op, ck, "corrupt" if cor != "none" else "intact", ev.get("res"))
        seen[sig] = seen.get(sig, 0) + multd[x["trace"]][0]
        if seen[sig] == multd[x["trace"]][0]:
            c.report(sig, "registry %s on a %s block (backup: %s) does what BlockCow does not allow: %s (inputs e.g. %s)"
                     % (op, "corrupted" if cor != "none" else "intact", ck, json.dumps(ev), multd[x["trace"]][1]),
                     dict(trace=x["events"], examples=multd[x["trace"]][1], tlc=x["tlc_tail"]))
    for n in notes:
        op, ck, cor, reg = opcow(n["trace"])
        if n["kind"] == "servecorrupt":
            sig = "corrupt-served:%s:cow=%s" % (op, ck)
        elif n["kind"] == "bad-baked":
            sig = "corrupt-rewritten:%s:cow=%s" % (op, ck)
        elif n["kind"] in ("bad-lookup", "bad-unrecoverable"):
            # consequence of the same step (an unverified buffer was served / the block has no valid backup by construction)
            if "servecorrupt" in n["used"] or n["kind"] == "bad-unrecoverable":
                continue
            sig = "broken-without-finding:%s:%s:cow=%s" % (n["kind"], op, ck)
        else:
            sig = "note:%s:%s:cow=%s" % (n["kind"], op, ck)
        first = sig not in seen
        seen[sig] = seen.get(sig, 0) + multd[n["trace"]][0]
        if first:
            ev = n["events"][-1]
            c.report(sig, "%s of a block whose checksum does not match (backup file: %s) returns res=%s val=%s instead of an error%s; inputs e.g. %s"
                     % (op, ck, ev.get("res"), ev.get("val"),
                        " and the block is rewritten with a fresh checksum" if n["kind"] == "bad-baked" else "",
                        multd[n["trace"]][1]),
                     dict(trace=n["events"], examples=multd[n["trace"]][1]))
            c.sample(dict(case=n["trace"], inputs=multd[n["trace"]][1], outcome={k: ev.get(k) for k in ("res", "val", "blk", "cow")}))
    total_cases = sum(cnt for _, cnt, _ in mult)
    classes = {}
    for n, cnt, _ in mult:
        op, ck, cor, reg = opcow(n)
        classes[(op, ck, cor, reg)] = classes.get((op, ck, cor, reg), 0) + cnt
    c.sample(dict(example_trace=traces[len(traces) // 2][1], multiplicity=mult[len(traces) // 2][1]))
    c.cov.update(dict(
        exhaustive=True, tree_variant=dict(corrupt_mode=mode, reader_deletes=rdel, reader_restores=rres),
        real_cases_run=total_cases, driver_reported_cases=stats.get("count"), skipped_crc_valid=stats.get("skipped_crc_valid"),
        abandoned_slow=stats.get("abandoned_slow"), traces_rejected=len(rej),
        distinct_abstract_traces=len(traces), evaluations=total_cases,
        distinct_nontrivial=len(classes),
        rule="real cases = (operation, backup state, corruption) triples run on the real registry; distinct_nontrivial counts distinct (operation, backup state, corruption kind, region of the block hit: slot/other slot/free/crc) classes; traces with identical abstract events are validated once",
        outcomes=seen, coverage_actions=cover,
    ))
    c.assumptions += ["corruptions are single-bit flips (all 32768) and bursts of at most 32 bits, i.e. always detected by CRC32",
                      "registry opened read-write, L2 cache cold; one corrupted block, other blocks intact"]


if __name__ == "__main__":
    vlib.main(run, "C23")
