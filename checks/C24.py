"""C24 — handle records round-trip and fit their disk block without overlap.
Spec: spec/RegistryMap.tla (layout ASSUMEs, LayoutSpec with WriteSlot/Codec, action property SlotIsolation) and
RegistryMapTrace.  The layout constants are read from the source of the tree under test at run time and become the
CONSTANTS of the specification, whose ASSUMEs state that slots and checksum are pairwise disjoint byte ranges inside
one block.  TLC enumerates edge-value handles x slot indexes; the driver replays every case on the real code (codec
round trip, and a real UpdateNoLocks into slot i of a full block followed by a byte comparison of all other slots,
the area outside slots and checksum, and the checksum's validity); the trace specification judges every observation."""
import json, os, random, re, sys
sys.path.insert(0, os.path.dirname(os.path.abspath(__file__)))
import vlib
import _registrymap as rm

META = dict(
    property_id="C24", engine="RegistryMap",
    technique="layout constants extracted from the source as TLA+ CONSTANTS with disjointness ASSUMEs; TLC-enumerated edge-value handles x slot indexes replayed on the real codec and the real registry write path, observations trace-validated by TLC",
    level="model_checking",
    level_text="TLC evaluates the layout ASSUMEs on the constants of the source (slots x record size + checksum <= block, ranges pairwise disjoint) and enumerates every (slot index, edge-value handle) pair and every edge-value handle; each case is executed on the real code and accepted only if the record has the fixed size, decodes (by SOP's codec and by an independent decoder) to the identical handle, the slot holds exactly the codec's bytes, no other slot and no byte outside slot i and the checksum changed, and the block checksum is valid; the measured capacity of a block must equal handlesPerBlock and the measured field ranges must tile the record.",
    level_note="Field values are edge values (ids nil/min/max/pattern, both flags, int32 and int64 extremes, -1, 0, 1), not the full ranges; the logical id of a slot write is the id that lives in that slot (edge logical ids go through the codec cases only); the checksum width is read from marshaldata.go by a regular expression; block size is the constant of the vendored directio library.",
    design_ref="C24",
)


def cases_from(res):
    out = []
    for p in res.prints:
        m = re.match(r'<<"CASE", (".*")>>$', p)
        if m:
            out.append(json.loads(vlib.tla_unquote(m.group(1))))
    return out


def run(c):
    binp = c.build("registrymap")
    k = rm.source_constants(c, binp)
    env = rm.driver_env(k)
    consts = {a: k[a] for a in ("SlotsPerBlock", "HandleSize", "BlockSize", "CrcWidth")}

    # 1. design level: layout ASSUMEs on the constants of the source; enumeration of the cases
    if c.quick:
        sets = (["nil", "max"], ["nil", "min", "max", "pat"], ["min32", "neg1", "max32"], ["min64", "neg1", "max64"])
    else:
        sets = (["nil", "min", "max", "pat"], ["nil", "min", "max", "pat", "hi1"],
                ["min32", "neg1", "zero", "one", "max32"], ["min64", "neg1", "zero", "one", "max64"])
    cfgname = "RegistryMap_layout_run.cfg"
    r = c.tlc("RegistryMap", cfgname, workers=4, timeout=c.pick(300, 1500), coverage=not c.quick, heap="6g",
              files={cfgname: rm.layout_cfg(k, *sets)})
    if r.timed_out:
        raise vlib.InfraError("TLC timed out on the layout enumeration")
    if r.violated == "assumption":
        c.report("layout-assume:%s" % ("fits" if rm.layout_violation(c, k) else "ranges"),
                 "the layout constants of the source violate the layout ASSUMEs of RegistryMap: %s" % (rm.layout_violation(c, k) or "ranges overlap"),
                 dict(constants=consts, tlc=r.out[-1500:]))
        c.cov.update(dict(evaluations=1, distinct_nontrivial=1, exhaustive=True, layout_constants=consts,
                          rule="layout ASSUMEs evaluated on the constants extracted from the source"))
        c.sample(dict(constants=consts))
        return
    if not r.ok:
        raise vlib.InfraError("TLC layout enumeration failed (violated=%s)\n%s" % (r.violated, r.out[-4000:]))
    c.cov["states"] += r.distinct
    c.cov["transitions"] += r.generated
    cases = cases_from(r)
    nwrite = sum(1 for x in cases if x["kind"] == "write")
    ncodec = sum(1 for x in cases if x["kind"] == "codec")
    if nwrite < k["SlotsPerBlock"] or ncodec < 100:
        raise vlib.InfraError("too few cases enumerated by TLC: %d writes, %d codec" % (nwrite, ncodec))
    if r.coverage:
        dead = [a for a, v in r.coverage.items() if a in ("LayoutNext", "LayoutInit") and v[1] == 0]
        if dead:
            raise vlib.InfraError("actions never taken: %s" % dead)

    # 2a. the record layout measured on the real codec (field ranges, encoded length) against the constants
    m = k["measured"]
    layout_ev = dict(ev="Layout", fields=m["fields"], len=m["encoded_len"])
    cfg = rm.trace_cfg(k, ["OneRecordPerSlot"])
    rej0, _ = rm.validate(c, cfg, [("layout-facts", [layout_ev])], par=1)
    if rej0:
        why = diagnose(layout_ev, k)
        c.report("layout-rejected:Layout:%s" % why,
                 "the record layout measured on the real codec is not the one the constants describe (%s): %s" % (why, json.dumps(layout_ev)),
                 dict(rejected_event=layout_ev, constants=consts))
        c.cov.update(dict(evaluations=1, distinct_nontrivial=1, exhaustive=False, layout_constants=consts,
                          rule="measured record layout against the constants extracted from the source (the slot-write cases were not run: records do not fit their slots)"))
        c.sample(dict(layout=layout_ev))
        return

    # 2. spec -> code: every case on the real codec / the real registry write path
    cf = os.path.join(c.scratch, "cases.json")
    # codec cases first, then the writes in seeded order
    wcases = [x for x in cases if x["kind"] == "write"]
    random.Random(c.seed).shuffle(wcases)      # the seed decides which record each write replaces
    json.dump([x for x in cases if x["kind"] == "codec"] + wcases, open(cf, "w"))
    out = os.path.join(c.scratch, "layout.ndjson")
    c.run([binp, "layout", cf, out, c.datadir("layout")], env=env, timeout=c.pick(900, 3600))
    evs = [e for e in vlib.read_ndjson(out) if e["ev"] != "TraceStart"]
    # one trace per chunk of events, each starting from the prepared block (Prepared + ObserveBlock hand-over)
    prepared = evs[0]
    if prepared["ev"] != "Prepared":
        raise vlib.InfraError("driver did not report the prepared block")
    rest = evs[1:]
    traces, cur = [], [layout_ev, prepared]
    for e in rest:
        cur.append(e)
    traces.append(("layout", cur))

    # 3. code -> spec
    if prepared.get("measured", 0) < k["SlotsPerBlock"]:
        raise vlib.InfraError("a block of this tree overflows after %s records, handlesPerBlock says %s: the slot-write cases cannot be placed"
                              % (prepared.get("measured"), k["SlotsPerBlock"]))
    rej, _ = rm.validate(c, cfg, traces, chunk_lines=10 ** 9, timeout=c.pick(900, 3000), par=1)
    for x in rej[:5]:
        ev = x["event"] or {}
        kind = ev.get("ev")
        why = diagnose(ev, k)
        c.report("layout-rejected:%s:%s" % (kind, why),
                 "observation of the real code is not accepted by RegistryMapTrace (%s) at event %d: %s" % (why, x["index"], json.dumps(ev)[:700]),
                 dict(rejected_index=x["index"], rejected_event=ev, constants=consts, tlc=x["tlc_tail"]))

    writes = [e for e in evs if e["ev"] == "WriteSlot"]
    codecs = [e for e in evs if e["ev"] == "Codec"]
    distinct = set()
    for e in writes:
        distinct.add(("w", e["slot"], json.dumps(e["h"], sort_keys=True)))
    for e in codecs:
        distinct.add(("c", json.dumps(e["h"], sort_keys=True)))
    c.sample(dict(layout=layout_ev))
    if writes:
        c.sample(dict(slot_write=writes[len(writes) // 2]))
    if codecs:
        c.sample(dict(codec=codecs[len(codecs) // 3]))
    c.cov.update(dict(
        exhaustive=True, evaluations=len(writes) + len(codecs) + 2, distinct_nontrivial=len(distinct),
        slot_writes=len(writes), slots_covered=len(set(e["slot"] for e in writes)), codec_round_trips=len(codecs),
        cases_enumerated_by_tlc=len(cases), layout_constants=consts, measured_block_capacity=prepared.get("measured"),
        measured_fields=m["fields"],
        coverage_actions={a: v for a, v in r.coverage.items() if a.startswith("Layout")} if r.coverage else None,
        rule="one case = one (slot index, edge-value handle) write into a full real block, or one edge-value handle through the codec, "
             "enumerated by TLC as the full product of the edge sets of the tier; all are non-trivial (every handle differs from the record it replaces "
             "except the base handle itself); distinct by (kind, slot, handle)",
    ))
    c.assumptions += ["edge values stand for the full field ranges", "slot writes keep the logical id of the slot",
                      "checksum width read from fs/marshaldata.go by a regular expression"]


def diagnose(ev, k):
    """Name the clause of TraceWriteSlot / TraceCodec / TracePrepared / TraceLayout the observation fails (for the signature)."""
    kind = ev.get("ev")
    if kind == "Layout":
        return "fields-do-not-tile" if ev.get("len") == k["HandleSize"] else "encoded-length"
    if kind == "Prepared":
        if ev.get("measured") != k["SlotsPerBlock"]:
            return "block-capacity"
        return "prepared-block"
    if kind in ("WriteSlot", "Codec"):
        if ev.get("res") != "ok":
            return "call-failed"
        if ev.get("len") != k["HandleSize"]:
            return "record-length"
        if ev.get("back") != ev.get("h"):
            return "round-trip"
        if kind == "WriteSlot":
            if ev.get("outside"):
                return "bytes-outside-slots"
            if not ev.get("crcvalid"):
                return "checksum-invalid"
            if [x for x in ev.get("changed", []) if x != ev.get("slot")]:
                return "other-slot-changed"
            if ev.get("nseg") != 2:
                return "not-in-place"
            return "slot-unchanged-or-crc"
    if kind == "ObserveBlock":
        return "block-content" if ev.get("crcvalid") else "checksum-invalid"
    return "other"


if __name__ == "__main__":
    vlib.main(run, "C24")
