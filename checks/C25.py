"""C25 — erasure-coded blobs survive up to p damaged shards; reads never crash; a write succeeds iff at most p shard
writes fail.
Spec: spec/ErasureBlob.tla (+Trace).  TLC enumerates, per (d,p), every set of failing shard writes (with what the failed
write leaves behind) and every assignment of a damage kind to every shard file; each is executed on the real
fs.BlobStoreWithEC (Add through a fault-injecting fs.FileIO; shard files damaged on disk; GetOne in a child process so
that a panic is observed as 'crash'); the observed results are validated by TLC against the specification."""
import json, os, sys
sys.path.insert(0, os.path.dirname(os.path.abspath(__file__)))
import vlib
import _erasureblob as eb

META = dict(
    property_id="C25", engine="ErasureBlob",
    technique="TLA+ model of one erasure-coded blob (per-shard damage class, write failures, read results); TLC-enumerated "
              "write-failure sets and damage assignments replayed on the real BlobStoreWithEC, results trace-validated by TLC",
    level="model_checking",
    level_text="TLC enumerates every subset of failing shard writes and every assignment of {ok, missing, truncated<17, "
               "truncated>=17, corrupt data, corrupt metadata} to the d+p shard files for (d,p) in {(1,1),(2,1),(2,2),(3,2)"
               ",(4,2)} (quick: (3,2) up to p+1 damaged shards, no (4,2)); every one is executed against the real code for "
               "blob sizes around the shard-count and 4 KB boundaries and the results are accepted or rejected by the "
               "specification, whose invariants are the clauses of C25.",
    level_note="Concrete damage variant (which byte, which length) is drawn per case from the seed, not enumerated; blob "
               "content is pseudo-random with a zero last byte; one blob per Add call; shard-write failures are injected at "
               "fs.FileIO.WriteFile (nothing written, or a prefix written) — a failed write that leaves a stale older "
               "version of the shard is outside the model. Bounds: d<=4, p<=2.",
    design_ref="C25",
)


def chunks(xs, n):
    return [xs[i:i + n] for i in range(0, len(xs), n)]


def damage_traces(c, mc, policy, per_trace=250):
    """policy: {(d,p): 'all' | k}  all sizes for every assignment, or k sizes per assignment (rotating with the seed)."""
    traces = []
    ncases = 0
    for (d, p), pol in sorted(policy.items()):
        cases = mc["cases"].get((d, p), [])
        sizes = eb.sizes_for(d)
        per_size = {s: [] for s in sizes}
        for k, rec in enumerate(cases):
            if pol == "all":
                for s in sizes:
                    per_size[s].append(rec)
            else:
                for t in range(pol):
                    per_size[sizes[(k + c.seed + t * 3) % len(sizes)]].append(rec)
        for s in sizes:
            for ci, part in enumerate(chunks(per_size[s], per_trace)):
                steps = [dict(op="write", fail=[], kind="missing"), dict(op="inspect")]
                for rec in part:
                    steps.append(dict(op="damage", kinds=rec["kinds"], fresh=True, skippable=True))
                    steps.append(dict(op="read"))
                    ncases += 1
                traces.append(dict(name="dmg/d%dp%d/s%d/%d" % (d, p, s, ci), d=d, p=p, repair=False, size=s, steps=steps))
    return traces, ncases


def big_traces(c, mc, configs, n_each):
    traces = []
    for (d, p) in configs:
        cases = mc["cases"].get((d, p), [])
        if not cases:
            continue
        step = max(1, len(cases) // n_each)
        pick = cases[(c.seed % step)::step][:n_each]
        for ci, part in enumerate(chunks(pick, 40)):
            steps = [dict(op="write", fail=[], kind="missing"), dict(op="inspect")]
            for rec in part:
                steps.append(dict(op="damage", kinds=rec["kinds"], fresh=True, skippable=True))
                steps.append(dict(op="read"))
            traces.append(dict(name="dmg/d%dp%d/s%d/%d" % (d, p, eb.BIG + 1, ci), d=d, p=p, repair=False,
                               size=eb.BIG + 1, steps=steps))
    return traces


def write_traces(c, mc, configs, nsizes):
    traces = []
    for (d, p) in configs:
        sizes = eb.sizes_for(d)
        for k, rec in enumerate(mc["writes"].get((d, p), [])):
            fail = [i + 1 for i, x in enumerate(rec["kinds"]) if x != "ok"]
            kind = next((x for x in rec["kinds"] if x != "ok"), "missing")
            for t in range(nsizes):
                s = sizes[(k + c.seed + t * 2) % len(sizes)]
                steps = [dict(op="write", fail=fail, kind=kind), dict(op="inspect")]
                if rec["stored"]:          # the model says the blob is stored: it must be readable
                    steps.append(dict(op="read"))
                traces.append(dict(name="wr/d%dp%d/s%d/%s/%s" % (d, p, s, "".join(map(str, fail)) or "none", kind),
                                   d=d, p=p, repair=False, size=s, steps=steps))
    return traces


def run(c):
    small = [(1, 1), (2, 1), (2, 2)]
    if c.quick:
        groups = [(small, 6), ([(3, 2)], 3)]
        policy = {(1, 1): "all", (2, 1): "all", (2, 2): 2, (3, 2): 2}
        wsizes = 2
    else:
        groups = [(small + [(3, 2)], 6), ([(4, 2)], 6)]
        policy = {(1, 1): "all", (2, 1): "all", (2, 2): "all", (3, 2): 2, (4, 2): 1}
        wsizes = 4
    import time
    t0 = time.time()
    mc = eb.run_mc(c, groups, coverage=not c.quick, workers=c.pick(4, 6))
    vlib.log("exhaustive model: %d states, %.1fs" % (mc["states"], time.time() - t0))
    eb.check_coverage(mc["coverage"])
    configs = sorted(policy)
    if not all(mc["cases"].get(k) and mc["writes"].get(k) for k in configs):
        raise vlib.InfraError("TLC emitted no cases for some configuration")
    binp = c.build("erasureblob")

    traces, ncases = damage_traces(c, mc, policy)
    if not c.quick:
        traces += big_traces(c, mc, [(2, 1), (3, 2), (4, 2)], 120)
    wtraces = write_traces(c, mc, configs, wsizes)
    t0 = time.time()
    got = eb.run_driver(c, binp, traces + wtraces, "c25", workers=8, timeout=c.pick(900, 3000),
                        crash_streak_limit=c.pick(40, 300), crash_resample=c.pick(25, 20))
    vlib.log("driver: %d traces, %d damage cases, %.1fs" % (len(got), ncases, time.time() - t0))
    t0 = time.time()

    reads = sum(1 for _, evs in got for e in evs if e["ev"] == "Read")
    crashes = sum(1 for _, evs in got for e in evs if e["ev"] == "Read" and e["res"] == "crash")
    devs = eb.validate(c, got)
    vlib.log("trace validation: %d deviation records, %.1fs" % (len(devs), time.time() - t0))

    seen = {}
    distinct = set()
    for name, evs in got:
        cur = None
        setup = evs[0]
        for e in evs:
            if e["ev"] == "Damage":
                cur = e
            elif e["ev"] == "Read" and cur is not None:
                distinct.add((setup["d"], setup["p"], setup["size"], tuple(cur["kinds"]),
                              tuple(eb.vclass(k, v) for k, v in zip(cur["kinds"], cur["variants"]))))
    for dv in devs:
        op = dv["rec"]["op"]
        if op == "read":
            sig, classes = eb.read_signature(dv)
            ev = dv["events"][dv["index"]]
            what = ("GetOne on d=%d p=%d with shard damage %s returned %s (%s), the specification requires %s"
                    % (dv["rec"]["d"], dv["rec"]["p"], [x or "ok" for x in classes],
                       "other bytes than stored" if ev["res"] == "ok" else ev["res"], (ev.get("detail") or "")[:120],
                       "the stored bytes" if dv["rec"]["want"] == "data" else "an error"))
        elif op == "write":
            sig = eb.write_signature(dv)
            ev = dv["events"][dv["index"]]
            what = "Add with failing shard writes %s (p=%d) reported %s" % (ev["fail"], dv["rec"]["p"], "success" if ev["ok"] else "an error")
        else:
            sig, _ = eb.inspect_signature(dv)
            what = "shard files are not in the state the specification says: %s" % sig
        seen.setdefault(sig, 0)
        seen[sig] += 1
        if seen[sig] == 1:
            c.report(sig, what, eb.replay_of(dv))
    c.sample(dict(trace=got[0][0], events=got[0][1][:6]))
    if devs:
        c.sample(dict(deviation_classes={k: v for k, v in sorted(seen.items())[:12]}))
    c.cov.update(dict(
        exhaustive=c.cov.get("reads_skipped_by_crash_gate", 0) == 0, exhaustive_enumeration=True, evaluations=reads, reads_in_child_process=reads, child_crashes_observed=crashes,
        writes_executed=len(wtraces), damage_cases=ncases, distinct_nontrivial=len(distinct),
        deviation_records=len(devs), deviation_classes=len(seen),
        rule="one case = (d, p, blob size, damage kind per shard file, concrete damage variant class per shard) read back "
             "through BlobStoreWithEC.GetOne; counted only when at least a Damage step preceded the read; all assignments of "
             "the six kinds to the d+p shard files are enumerated by TLC for the configurations of the tier",
        coverage_actions=mc["coverage"], model_states=mc["states"],
        configurations=["d=%d,p=%d:%s" % (d, p, policy[(d, p)]) for d, p in configs],
    ))
    c.assumptions += ["d <= 4, p <= 2", "concrete damage variants are sampled from the seed, one per case",
                      "a failed shard write leaves nothing or a prefix (no stale older shard)"]


if __name__ == "__main__":
    vlib.main(run, "C25")
