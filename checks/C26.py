"""C26 — shard auto-repair restores full redundancy.
Spec: spec/ErasureBlob.tla (+Trace): with repair enabled, a read that returns the data leaves every shard `ok`
(ReadData / invariant RepairRestoresFullRedundancy); a following damage step that hits exactly p shards is then within
parity again.  TLC enumerates every damage assignment within parity and every assignment damaging exactly p shards;
the driver runs them on the real fs.BlobStoreWithEC with RepairCorruptedShards=true: damage, read (child process),
inspection of every shard file (metadata, checksum, content), then fresh damage of p shards *without* restoring
anything, read, inspection, ...; the observations are validated by TLC."""
import json, os, sys, time
sys.path.insert(0, os.path.dirname(os.path.abspath(__file__)))
import vlib
import _erasureblob as eb

META = dict(
    property_id="C26", engine="ErasureBlob",
    technique="TLA+ model of one erasure-coded blob with repairing reads; TLC-enumerated within-parity damage assignments "
              "and p-shard follow-up damage replayed on the real BlobStoreWithEC (repair on), shard files inspected after "
              "every read, observations trace-validated by TLC",
    level="model_checking",
    level_text="TLC enumerates every assignment of the five damage kinds to at most p of the d+p shard files and every "
               "assignment to exactly p files for (d,p) in {(1,1),(2,1),(2,2),(3,2)} (thorough: also (4,2)); each first-level "
               "assignment is executed against the real code with repair enabled, every shard file is compared with its "
               "as-written image after the read, and second-level assignments are then applied on top of what the repair "
               "left (each first-level case gets several, all second-level assignments are used); TLC accepts or rejects "
               "the observations against the specification whose invariant RepairRestoresFullRedundancy is C26.",
    level_note="Pairs (first damage, second damage) are not exhaustive: every first-level and every second-level assignment "
               "is covered, pairs are chosen round-robin from the seed. Repair writes never fail in these runs. "
               "A first read that does not return the data (a C25 matter) voids the premise of C26 for that case; such "
               "cases are counted, not judged. Bounds: d<=4, p<=2.",
    design_ref="C26",
)


def chunks(xs, n):
    return [xs[i:i + n] for i in range(0, len(xs), n)]


def plan(c, mc, policy, k_second, per_trace=60):
    traces = []
    firsts = seconds = 0
    used_b = {}
    for (d, p), nsz in sorted(policy.items()):
        A = [r for r in mc["cases"].get((d, p), []) if r["within"]]
        B = mc["cases2"].get((d, p), [])
        if not A or not B:
            raise vlib.InfraError("TLC emitted no C26 cases for d=%d p=%d" % (d, p))
        sizes = eb.sizes_for(d)
        per_size = {s: [] for s in sizes}
        for j, a in enumerate(A):
            szs = sizes if nsz == "all" else [sizes[(j + c.seed + t * 3) % len(sizes)] for t in range(nsz)]
            for t, s in enumerate(szs):
                bs = [B[(j * k_second + i + (c.seed + t) * 7) % len(B)] for i in range(k_second)]
                per_size[s].append((a, bs))
        for s in sizes:
            for ci, part in enumerate(chunks(per_size[s], per_trace)):
                steps = [dict(op="write", fail=[], kind="missing"), dict(op="inspect")]
                for a, bs in part:
                    steps += [dict(op="damage", kinds=a["kinds"], fresh=True, skippable=True, span=3 + 3 * len(bs)),
                              dict(op="inspect"), dict(op="read"), dict(op="inspect")]
                    firsts += 1
                    for b in bs:
                        steps += [dict(op="damage", kinds=b["kinds"], fresh=False), dict(op="read"), dict(op="inspect")]
                        seconds += 1
                        used_b[(d, p, tuple(b["kinds"]))] = 1
                traces.append(dict(name="rep/d%dp%d/s%d/%d" % (d, p, s, ci), d=d, p=p, repair=True, size=s, steps=steps))
    return traces, firsts, seconds, len(used_b)


def run(c):
    small = [(1, 1), (2, 1), (2, 2)]
    if c.quick:
        groups = [(small + [(3, 2)], 2)]
        policy = {(1, 1): "all", (2, 1): 2, (2, 2): 1, (3, 2): 1}
        k2 = 2
    else:
        groups = [(small + [(3, 2), (4, 2)], 2)]
        policy = {(1, 1): "all", (2, 1): "all", (2, 2): "all", (3, 2): 3, (4, 2): 2}
        k2 = 5
    t0 = time.time()
    mc = eb.run_mc(c, groups, coverage=not c.quick, workers=c.pick(4, 6))
    vlib.log("exhaustive model: %d states, %.1fs" % (mc["states"], time.time() - t0))
    eb.check_coverage(mc["coverage"])
    binp = c.build("erasureblob")
    traces, firsts, seconds, used_b = plan(c, mc, policy, k2)
    t0 = time.time()
    got = eb.run_driver(c, binp, traces, "c26", workers=8, timeout=c.pick(900, 3000),
                        crash_streak_limit=c.pick(40, 200), crash_resample=c.pick(20, 15))
    vlib.log("driver: %d traces, %d first-level and %d second-level cases, %.1fs" % (len(got), firsts, seconds, time.time() - t0))
    t0 = time.time()
    devs = eb.validate(c, got)
    vlib.log("trace validation: %d deviation records, %.1fs" % (len(devs), time.time() - t0))

    # segment = the steps from one fresh Damage to the next; C26 judges a segment only if its first read returned the data
    by_trace = {}
    for dv in devs:
        by_trace.setdefault(dv["trace"], {})[dv["index"]] = dv
    seen = {}
    premise_failed = judged_segments = repaired_ok = 0
    inspections = 0
    for name, evs in got:
        dmap = by_trace.get(name, {})
        seg_ok, seg_clean, in_seg, first_read_done = True, True, False, False
        for i, e in enumerate(evs):
            if e["ev"] == "Damage" and e["fresh"]:
                in_seg, seg_ok, seg_clean, first_read_done = True, True, True, False
                continue
            dv = dmap.get(i)
            if e["ev"] == "Inspect":
                inspections += 1
            if e["ev"] == "Read" and in_seg and not first_read_done:
                first_read_done = True
                if dv is not None:                 # the repairing read itself failed: premise of C26 void (C25 matter)
                    seg_ok = False
                    premise_failed += 1
                else:
                    judged_segments += 1
                continue
            if dv is None:
                if e["ev"] == "Inspect" and in_seg and seg_ok and seg_clean and first_read_done and evs[i - 1]["ev"] == "Read":
                    repaired_ok += 1
                continue
            if not in_seg:
                sig, _ = eb.inspect_signature(dv) if dv["rec"]["op"] == "inspect" else (eb.write_signature(dv), None)
                what = "before any damage: %s" % sig
            elif not seg_ok or not seg_clean:
                continue                            # consequence of something already judged / of a void premise
            elif dv["rec"]["op"] == "inspect":
                sig, pre_classes = eb.inspect_signature(dv)
                seg_clean = False
                bad = [k + 1 for k, ok in enumerate(e["intact"]) if not ok]
                what = ("d=%d p=%d repair on: after a read that returned the data with shard damage %s, shard file(s) %s "
                        "are not intact" % (dv["rec"]["d"], dv["rec"]["p"], [x or "ok" for x in pre_classes], bad))
            else:
                sig, classes = eb.read_signature(dv)
                seg_clean = False
                what = ("d=%d p=%d repair on: every shard file was intact after the repairing read, then fresh damage %s "
                        "(p shards): GetOne returned %s (%s)" % (dv["rec"]["d"], dv["rec"]["p"], [x or "ok" for x in classes],
                                                                 "other bytes than stored" if e["res"] == "ok" else e["res"],
                                                                 (e.get("detail") or "")[:120]))
            seen[sig] = seen.get(sig, 0) + 1
            if seen[sig] == 1:
                c.report(sig, what, eb.replay_of(dv))
    reads = sum(1 for _, evs in got for e in evs if e["ev"] == "Read")
    used_b = len(set((evs[0]["d"], evs[0]["p"], tuple(e["kinds"])) for _, evs in got for e in evs
                     if e["ev"] == "Damage" and not e["fresh"]))
    firsts_run = sum(1 for _, evs in got for e in evs if e["ev"] == "Damage" and e["fresh"])
    c.sample(dict(trace=got[0][0], events=got[0][1][:9]))
    if seen:
        c.sample(dict(deviation_classes=dict(sorted(seen.items())[:12])))
    c.cov.update(dict(
        exhaustive=c.cov.get("reads_skipped_by_crash_gate", 0) == 0, exhaustive_enumeration=True, evaluations=reads, first_level_cases_planned=firsts, first_level_cases_run=firsts_run, second_level_cases_planned=seconds,
        second_level_assignments_used=used_b, premise_void_first_read_failed=premise_failed,
        segments_judged=judged_segments, inspections_after_repair_all_intact=repaired_ok, inspections=inspections,
        distinct_nontrivial=judged_segments, deviation_records=len(devs), deviation_classes=len(seen),
        rule="one case = (d, p, blob size, within-parity damage assignment with concrete variants) whose repairing read "
             "returned the data, followed by inspection of all shard files and by reads after fresh damage of p shards; "
             "all within-parity assignments and all exactly-p assignments are enumerated by TLC",
        coverage_actions=mc["coverage"], model_states=mc["states"],
        configurations=["d=%d,p=%d:%s" % (d, p, policy[(d, p)]) for d, p in sorted(policy)],
    ))
    c.assumptions += ["d <= 4, p <= 2", "repair writes do not fail", "pairs of first/second damage are sampled round-robin"]


if __name__ == "__main__":
    vlib.main(run, "C26")
