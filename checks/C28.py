"""C28 — a lock is held by at most one owner and only its owner can release it.

Spec: spec/L2Lock.tla (+L2LockTrace).  The specification models cache.L2InMemoryCache and the adapters/redis locker
access by access (one step = one atomic table access / one Redis command).  TLC checks MutualExclusion and
OnlyOwnerReleases over every interleaving of those steps and clock ticks (2 owners) and over every sequence of whole
calls and ticks (3 owners), capacities 1, 2, unbounded.  Binding: one shortest call sequence per distinct reachable
state of the model (emitted by TLC), seeded random programs, command-level interleavings (redis, scheduled through
the RESP server's gate) and concurrent goroutines (in-memory; simultaneous calls and races for an expired lock) are
executed on the real services; every call with arguments and result is validated by L2LockTrace, which evaluates the
C28 invariants after every event.

Findings.  The model contains three named finding actions (what the code does today, contradicting C28):
evict (in-memory insert into a full shard evicts a live lock), delete (redis Unlock deletes by key), shorten (redis
IsLockedTTL of a non-owner cuts the holder's TTL).  The trace spec accepts both the repaired and the as-is step and
reports, per trace, which finding actions an explanation of the trace needs; a trace that cannot be explained without
one is reported under the signature finding:<variant>:<action>; a trace that cannot be explained at all is
reported as unexplained:... ."""
import json, os, re, shutil, threading
from concurrent.futures import ThreadPoolExecutor
import vlib

META = dict(
    property_id="C28", engine="L2Lock",
    technique="TLA+ model of both lock services at table-access granularity; TLC exhaustive (interleavings x expiry x capacity); "
              "TLC-emitted behaviours (one per distinct state) + random/interleaved/concurrent programs run on the real services, "
              "every call validated by TLC against the spec",
    level="model_checking",
    level_text="TLC explores every interleaving of the table accesses of 2 owners over 2-3 keys and every sequence of whole calls "
               "of 3 owners over 2-3 keys, with ticks at any point, capacities 1, 2 and unbounded, both services.  The model is "
               "tied to the code by trace validation: for every distinct state of the whole-call model one shortest call sequence "
               "reaching it is executed on the real service and must produce exactly the results the specification computes; "
               "random, command-interleaved (redis) and concurrent (in-memory) executions are validated the same way.",
    level_note="Redis is played by harness/lib/resp (RESP2 server with a virtual clock): its fidelity for SET NX PX/GET/GETEX/DEL "
               "is trusted.  In-memory TTLs use real time with guarded windows (a trace with a call outside its window is re-run, "
               "never judged).  Table accesses inside one in-memory call cannot be scheduled from outside: those interleavings "
               "are covered by the model and by unscheduled concurrent runs only.  Redis server-side eviction is not modelled.  "
               "Bounds: 2-3 owners, 2-3 keys, TTL 1-2 units in exhaustive runs; up to 4 owners, 6 keys in validated executions.",
    design_ref="C28",
)

INF = 99
FIELDS = dict(o="-", op="", ks=[], ttl=0, ok=True, other="-", variant="", cap=INF, silent=False, cmd="", id=0)
ACTIONS = {"MBegin", "MStep", "FTick", "AStepNoHist", "AStep", "ATick"}
TAGS = ("evict", "delete", "shorten")
WHAT = dict(
    evict="in-memory lock table: inserting a key into a full shard evicts an unexpired lock of another owner",
    delete="redis Unlock deletes by key without comparing the owner: a late or repeated Unlock frees the next owner's lock",
    shorten="redis IsLockedTTL (GETEX) sets the TTL before comparing the owner: a non-owner's call cuts the holder's lock TTL",
)


def norm(evs):
    out = []
    for e in evs:
        d = dict(FIELDS)
        d.update({k: v for k, v in e.items() if k != "name"})
        out.append(d)
    return out


def setup_of(evs):
    for e in evs:
        if e.get("ev") == "Setup":
            return e.get("variant"), e.get("cap")
    return None, None


def behaviours_from(res):
    out = []
    for p in res.prints:
        m = re.match(r'<<"BEH", (".*")>>$', p)
        if m:
            out.append(json.loads(vlib.tla_unquote(m.group(1))))
    return out


def program_of(b, name, owners, nkeys):
    steps = [dict(o=h["o"], op=h["op"], ks=list(h["ks"]), ttl=h["ttl"]) for h in b["hist"]]
    return dict(name=name, variant=b["variant"], cap=b["cap"], owners=owners, nkeys=nkeys, steps=steps, probe=True)


_lock = threading.Lock()
_seq = [0]


MAX_REJ_PER_CHUNK = 3


def _validate_chunk(c, off, part, cfg, timeout):
    ends, rej, skipped = {}, [], []
    pending = [(off + j, t[0], norm(t[1]) + [dict(FIELDS, ev="End", id=off + j)]) for j, t in enumerate(part)]
    while pending:
        lines, index = [], []
        for ti, (gid, name, evs) in enumerate(pending):
            lines.append(json.dumps(dict(FIELDS, ev="Reset")))
            index.append((ti, -1))
            for ei, ev in enumerate(evs):
                lines.append(json.dumps(ev, sort_keys=True))
                index.append((ti, ei))
        with _lock:
            _seq[0] += 1
            tag = "trace%d" % _seq[0]
        r = c.tlc("L2LockTrace", cfg, workers=1, timeout=timeout, files={"trace.ndjson": "\n".join(lines) + "\n"}, tag=tag)
        if r.timed_out:
            raise vlib.InfraError("trace validation timed out")
        hwm = None
        for pr in r.prints:
            m = re.search(r'"HWM",\s*(\d+)', pr)
            if m:
                hwm = int(m.group(1))
            m = re.match(r'<<"END", (\d+), \{(.*)\}>>$', pr)
            if m:
                ends.setdefault(int(m.group(1)), []).append(frozenset(re.findall(r'"(\w+)"', m.group(2))))
        if hwm is None:
            raise vlib.InfraError("trace validation produced no HWM:\n%s" % r.out[-4000:])
        if r.violated not in (None, "postcondition"):
            # an invariant of C28 broken on an *untainted* explanation of an implementation trace, or a spec error
            raise vlib.InfraError("trace spec: %s violated\n%s" % (r.violated, r.out[-4000:]))
        with _lock:
            c.cov["states"] += r.distinct
            c.cov["transitions"] += r.generated
        shutil.rmtree(r.wd, ignore_errors=True)
        if hwm >= len(lines):
            with _lock:
                c.cov["traces_validated_against_impl"] += len(pending)
            pending = []
        else:
            ti, ei = index[hwm]
            gid, name, evs = pending[ti]
            rej.append(dict(i=gid, trace=name, index=ei, event=evs[ei] if ei >= 0 else None, events=evs))
            with _lock:
                c.cov["traces_validated_against_impl"] += ti
            pending = pending[ti + 1:]
            if len(rej) >= MAX_REJ_PER_CHUNK:
                # the verdict is settled (violations); the rest of this chunk is left unjudged rather than paying one
                # TLC run per further rejected trace
                for gid, name, evs in pending:
                    skipped.append(gid)
                pending = []
    return ends, rej, skipped


def validate(c, traces, cfg="L2LockTrace.cfg", chunk=None, timeout=1500, par=4):
    """traces: [(name, events)].  Chunks are validated by parallel TLC runs (one worker each); every trace ends with
    an End event carrying its index.  Returns (ends, rejections): ends[i] = list of taint sets (one per way TLC found
    to explain trace i); rejections = [dict(i=, index=, event=)] for traces no behaviour of the spec explains."""
    if not traces:
        return {}, []
    chunk = chunk or max(150, min(1500, (len(traces) + par - 1) // par))
    ends, rej = {}, []
    with ThreadPoolExecutor(max_workers=par) as ex:
        futs = [ex.submit(_validate_chunk, c, off, traces[off:off + chunk], cfg, timeout) for off in range(0, len(traces), chunk)]
        for f in futs:
            e, r, sk = f.result()
            ends.update(e)
            rej += r
            for gid in sk:
                ends[gid] = None          # not judged
    return ends, rej


def judge(c, traces, stats):
    """traces are named '<kind>:<name>'; returns stats[kind] = counts per verdict."""
    ends, rej = validate(c, traces)
    rejected = set(x["i"] for x in rej)
    for x in rej[:3]:
        kind = x["trace"].split(":")[0]
        variant, cap = setup_of(x["events"])
        ev = x["event"] or {}
        sig = "unexplained:%s:cap-%s:%s:%s:ok=%s" % (variant, "inf" if cap == INF else "finite", ev.get("ev"), ev.get("op"), ev.get("ok"))
        c.report(sig, "real %s lock service (cap %s) did something no behaviour of the specification explains, at event %d of %s: %s"
                 % (variant, cap, x["index"], x["trace"], json.dumps({k: ev.get(k) for k in ("ev", "o", "op", "ks", "ttl", "ok", "other", "cmd")})),
                 dict(kind=kind, trace=x["trace"], events=x["events"], rejected_index=x["index"]))
    for x in rej:
        st = stats.setdefault(x["trace"].split(":")[0], {})
        st["unexplained"] = st.get("unexplained", 0) + 1
    shown = {}
    for i, (name, evs) in enumerate(traces):
        st = stats.setdefault(name.split(":")[0], {})
        if i in rejected:
            continue
        if i in ends and ends[i] is None:
            st["not_judged_after_rejections"] = st.get("not_judged_after_rejections", 0) + 1
            continue
        sets = ends.get(i)
        if not sets:
            raise vlib.InfraError("no END record for accepted trace %s" % name)
        if frozenset() in sets:
            st["conforming"] = st.get("conforming", 0) + 1
            continue
        best = sorted(sorted(s) for s in sets if len(s) == min(len(t) for t in sets))[0]
        variant, cap = setup_of(evs)
        for tag in best:
            sig = "finding:%s:%s" % (variant, tag)
            st[sig] = st.get(sig, 0) + 1
            if shown.get(sig, 0) < 2:
                shown[sig] = shown.get(sig, 0) + 1
                c.report(sig, "%s  [%s: %s]" % (WHAT.get(tag, tag), name, brief(evs)),
                         dict(trace=name, events=evs, needs=best))
    return stats


def brief(evs):
    out = []
    for e in evs:
        if e.get("ev") == "Setup":
            out.append("%s cap=%s" % (e.get("variant"), e.get("cap")))
        elif e.get("ev") == "Call":
            out.append("%s.%s(%s%s)=%s" % (e["o"], e["op"], e["ks"], ",ttl=%d" % e["ttl"] if e.get("ttl") else "", "T" if e["ok"] else "F"))
        elif e.get("ev") in ("Tick", "Begin", "Return", "Step"):
            out.append(e["ev"] + (":" + e["o"] if e.get("o") else ""))
        if len(out) > 14:
            out.append("...")
            break
    return " ".join(out)


def apalache_bonus(c):
    """Inductive-invariant check of the key-level core (spec/L2LockInd.tla).  A bonus: recorded, never a verdict."""
    import subprocess
    wd = os.path.join(c.scratch, "apalache")
    os.makedirs(wd, exist_ok=True)
    shutil.copy(os.path.join(vlib.VERIF, "spec", "L2LockInd.tla"), wd)
    out = {}
    for name, args in (("init_implies_inv", ["--init=Init", "--inv=IndInv", "--length=0"]),
                       ("inv_is_inductive", ["--init=IndInit", "--inv=IndInv", "--length=1"]),
                       ("inv_implies_mutual_exclusion", ["--init=IndInit", "--inv=MutualExclusion", "--length=0"])):
        try:
            p = subprocess.run(["timeout", "400", "apalache-mc", "check", "--cinit=CInit", "--out-dir=" + os.path.join(wd, "out")] + args +
                               ["L2LockInd.tla"], cwd=wd, stdout=subprocess.PIPE, stderr=subprocess.STDOUT, text=True)
            m = re.search(r"The outcome is: (\w+)", p.stdout)
            out[name] = m.group(1) if m else "no outcome (rc=%d)" % p.returncode
        except Exception as e:          # tool missing etc.
            out[name] = "not run: %s" % e
    return out


def run(c):
    cov = c.cov
    # TLC unpacks its standard modules into java.io.tmpdir (/tmp/tlc-*) and never removes them: keep that in the scratch dir
    jtmp = os.path.join(c.scratch, "jtmp")
    os.makedirs(jtmp, exist_ok=True)
    os.environ["JAVA_TOOL_OPTIONS"] = (os.environ.get("JAVA_TOOL_OPTIONS", "") + " -Djava.io.tmpdir=" + jtmp).strip()
    # ------------------------------------------------------------------ 1. design level: TLC runs start now, in the background
    plan = c.pick(
        [("L2Lock_emit.cfg", 4, 900), ("L2Lock_mc_fine_quick.cfg", 4, 900)],
        [("L2Lock_mc.cfg", 5, 1750), ("L2Lock_mc_fine.cfg", 4, 1750), ("L2Lock_emit.cfg", 3, 1500), ("L2Lock_mc_fine3.cfg", 4, 1750),
         ("L2Lock_emit3.cfg", 3, 1500), ("L2Lock_mc_strict.cfg", 2, 1500)])
    pool = ThreadPoolExecutor(max_workers=3)
    futs = {cfg: pool.submit(c.tlc, "L2Lock", cfg, workers=w, timeout=to, coverage=True, tag=cfg[:-4]) for cfg, w, to in plan}
    cov["design_runs"] = {}

    def design(cfg):
        r = futs[cfg].result()
        if r.timed_out:
            raise vlib.InfraError("TLC timed out on L2Lock/%s" % cfg)
        if not r.ok:
            raise vlib.InfraError("TLC design check L2Lock/%s failed (violated=%s)\n%s" % (cfg, r.violated, r.out[-5000:]))
        with _lock:
            cov["states"] += r.distinct
            cov["transitions"] += r.generated
        acts = {a: list(r.coverage[a]) for a in r.coverage if a in ACTIONS}
        zero = [a for a, (d, t) in acts.items() if t == 0]
        if zero or not acts:
            raise vlib.InfraError("vacuous model: actions never taken in %s: %s" % (cfg, zero or "no coverage parsed"))
        cov["design_runs"][cfg] = dict(states=r.distinct, transitions=r.generated, depth=r.depth, actions=acts, wall_s=round(r.wall, 1))
        return r

    try:
        _run(c, design, plan)
    finally:
        pool.shutdown(wait=True, cancel_futures=True)


def _run(c, design, plan):
    cov = c.cov
    binp = c.build("l2lock")
    stats = {}
    ntr = 0

    def drive(mode, inp, name):
        fin = os.path.join(c.scratch, name + ".json")
        fout = os.path.join(c.scratch, name + ".ndjson")
        json.dump(inp, open(fin, "w"))
        p = c.run([binp, mode, fin, fout], timeout=1500)
        info = json.loads(p.stdout.strip().splitlines()[-1])
        tr = vlib.split_traces(vlib.read_ndjson(fout))
        return tr, info

    # ------------------------------------------------------------------ 2. code -> spec: random serial programs
    rnd = dict(count=c.pick(300, 4000), maxlen=14, variants=["mem", "redis"], caps=[1, 2, 3, 6, INF], owners=4, keys=6,
               maxttl=3, tickpct=18, seed=c.seed)
    tr_rnd, info = drive("random", rnd, "rnd")
    if info["timing_dropped"] > max(3, rnd["count"] // 50):
        raise vlib.InfraError("too many in-memory traces could not be timed reliably: %s" % info)
    cov["random"] = info
    # ------------------------------------------------------------------ 3. redis: command-level interleavings
    ilv = dict(count=c.pick(150, 1500), maxlen=3, variants=["redis"], caps=[INF], owners=3, keys=3, maxttl=2, tickpct=8,
               seed=c.seed + 1000)
    tr_ilv, info = drive("interleave", ilv, "ilv")
    # the model's steps are the Redis commands of the adapter as it is (SET NX / GET / GETEX / DEL); an adapter that talks
    # to Redis differently (e.g. WATCH/MULTI/EXEC) cannot be matched command by command: such traces are not judged here
    # (the same calls are judged at whole-call granularity by the serial phases)
    known_cmds = {"SET", "GET", "GETEX", "DEL"}
    n_all = len(tr_ilv)
    tr_ilv = [(n, e) for n, e in tr_ilv if all(x.get("cmd") in known_cmds for x in e if x.get("ev") == "Step")]
    cov["interleaved_not_judged_other_command_protocol"] = n_all - len(tr_ilv)
    # ------------------------------------------------------------------ 4. mem: concurrent goroutines
    strs = dict(count=c.pick(100, 1000), maxlen=4, variants=["mem"], caps=[1, 2, INF], owners=3, keys=3, maxttl=2, tickpct=0,
                seed=c.seed + 2000, race=c.pick(40, 400), rounds=25)
    tr_str, info = drive("stress", strs, "str")
    cov["stress"] = info
    if info.get("race_timing_dropped", 0) > max(3, strs["race"] // 4):
        raise vlib.InfraError("too many expiry-race traces could not be timed reliably: %s" % info)
    # one validation batch for the three kinds (fewer JVM starts), judged per kind
    groups = (("random", tr_rnd), ("interleaved", tr_ilv), ("concurrent", tr_str))
    merged = [(kind + ":" + n, e) for kind, tr in groups for n, e in tr]
    stats.update(judge(c, merged, {}))
    ntr += len(merged)
    for kind, tr in groups:
        if tr:
            c.sample(dict(kind=kind, trace=tr[0][1][:16]))
    # ------------------------------------------------------------------ 5. spec -> code: one behaviour per distinct state
    progs, reach = [], {t: 0 for t in TAGS}
    for cfg, owners, nkeys in (("L2Lock_emit.cfg", ["A", "B", "C"], 2), ("L2Lock_emit3.cfg", ["A", "B"], 3)):
        if cfg not in [p[0] for p in plan]:
            continue
        r = design(cfg)
        seen = set()
        for b in behaviours_from(r):
            key = json.dumps([b["variant"], b["cap"], [[h["o"], h["op"], h["ks"], h["ttl"]] for h in b["hist"]]])
            if key in seen or not b["hist"]:
                continue
            seen.add(key)
            for t in b.get("taints", []):
                reach[t] += 1
            progs.append(program_of(b, "beh-%s-%d" % (cfg[7:-4], len(progs)), owners, nkeys))
    if len(progs) < 1000:
        raise vlib.InfraError("too few behaviours emitted by TLC: %d" % len(progs))
    if min(reach.values()) == 0:
        raise vlib.InfraError("a finding action of the model is unreachable: %s" % reach)
    cov["behaviours_emitted"] = len(progs)
    cov["behaviours_executed"] = len(progs)
    cov["finding_steps_in_emitted_behaviours"] = reach
    tr, info = drive("replay", progs, "beh")
    if info["timing_dropped"] > len(progs) // 50:
        raise vlib.InfraError("too many in-memory traces could not be timed reliably: %s" % info)
    cov["replay"] = info
    stats.update(judge(c, [("tlc-behaviour:" + n, e) for n, e in tr], {}))
    ntr += len(tr)
    c.sample(dict(kind="tlc-behaviour", trace=tr[len(tr) // 2][1][:12]))
    # ------------------------------------------------------------------ the remaining design runs
    for cfg, _, _ in plan:
        if cfg not in cov["design_runs"]:
            design(cfg)
    cov["exhaustive"] = True
    if not c.quick:
        cov["apalache_bonus_L2LockInd"] = apalache_bonus(c)
    # ------------------------------------------------------------------ evidence
    cov["trace_verdicts"] = stats
    conforming = sum(s.get("conforming", 0) for s in stats.values())
    cov.update(dict(
        evaluations=ntr, distinct_nontrivial=len(progs),
        rule="one case = one executed call sequence; distinct_nontrivial counts the executed TLC-emitted behaviours only: one "
             "shortest call sequence per distinct state (modulo owner renaming) of the whole-call model, "
             "each executed on the real service and validated; evaluations adds the random, interleaved and concurrent traces",
        traces_conforming_to_repaired_model=conforming,
    ))
    c.assumptions += ["harness/lib/resp stands in for Redis (virtual clock; SET NX PX, GET, GETEX, DEL semantics as documented)",
                      "in-memory expiry is driven by real time inside guarded windows",
                      "exhaustive bounds: 2 owners (interleaved table accesses) / 3 owners (whole calls), 2-3 keys, TTL 1-2 units"]


if __name__ == "__main__":
    vlib.main(run, "C28")
