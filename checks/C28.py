"""C28 — a lock is held by at most one owner and only its owner can release it.
Spec: spec/L2Lock.tla (+L2LockTrace).  The specification models cache.L2InMemoryCache and the adapters/redis
locker access by access (one step = one atomic table access / one Redis command).  TLC checks MutualExclusion and
OnlyOwnerReleases over every interleaving of those steps and clock ticks for small constants, and over whole calls
for larger ones.  Binding: TLC-generated behaviours (one shortest call sequence per distinct reachable state),
seeded random programs, command-level interleavings (redis, scheduled through the RESP server's gate) and concurrent
goroutines (in-memory) are executed against the real services; every call with arguments and result is validated by
L2LockTrace, which evaluates the C28 invariants after every event."""
import json, os, re
import vlib

META = dict(
    property_id="C28", engine="L2Lock",
    technique="TLA+ model of both lock services at table-access granularity; TLC exhaustive (interleavings x expiry x capacity); "
              "TLC behaviours + random/interleaved/concurrent programs run on the real services, traces validated by TLC",
    level="model_checking",
    level_text="TLC explores every interleaving of the table accesses of 2 owners over 2 keys (and every sequence of whole calls of "
               "3 owners over 3 keys) with ticks at any point, capacities 1, 2 and unbounded, both services; the model is tied to "
               "the code by trace validation of real executions (serial, command-interleaved for redis, concurrent for in-memory) "
               "whose results must be exactly those the specification computes.",
    level_note="Redis is played by harness/lib/resp (RESP2 server with a virtual clock): its fidelity for SET NX PX/GET/GETEX/DEL is "
               "trusted.  In-memory TTLs use real time with guarded windows (traces with a call outside its window are re-run, not "
               "judged).  In-memory table accesses inside one call cannot be scheduled from outside: interleavings inside calls are "
               "covered by the model and by unscheduled concurrent runs only.  Redis server-side eviction is not modelled.",
    design_ref="C28",
)

INF = 99
FIELDS = dict(o="-", op="", ks=[], ttl=0, ok=True, other="-", variant="", cap=INF, silent=False, cmd="")

STRICT = "L2LockTrace.cfg"
FINDING_CFGS = [  # (cfg that switches exactly one finding action on, finding tag)
    ("mem", "L2LockTrace_EvictLive.cfg", "mem:insert-into-full-table-evicts-live-lock"),
    ("redis", "L2LockTrace_ForeignDelete.cfg", "redis:unlock-deletes-lock-of-other-owner"),
    ("redis", "L2LockTrace_ForeignShorten.cfg", "redis:islockedttl-of-non-owner-shortens-ttl"),
    ("redis", "L2LockTrace_RedisAll.cfg", "redis:unlock-deletes-lock-of-other-owner+islockedttl-of-non-owner-shortens-ttl"),
]


def norm(evs):
    out = []
    for e in evs:
        d = dict(FIELDS)
        d.update({k: v for k, v in e.items() if k != "name"})
        out.append(d)
    return out


def variant_of(evs):
    for e in evs:
        if e.get("ev") == "Setup":
            return e.get("variant"), e.get("cap")
    return None, None


def behaviours_from(res, tag="BEH"):
    out = []
    for p in res.prints:
        m = re.match(r'<<"%s", (".*")>>$' % tag, p)
        if m:
            out.append(json.loads(vlib.tla_unquote(m.group(1))))
    return out


def program_of(b, name, owners, nkeys):
    steps = [dict(o=h["o"], op=h["op"], ks=list(h["ks"]), ttl=h["ttl"]) for h in b["hist"]]
    return dict(name=name, variant=b["variant"], cap=b["cap"], owners=owners, nkeys=nkeys, steps=steps, probe=True)


def judge(c, traces, kind):
    """Validate traces strictly; classify every rejected trace: explained by exactly one known finding action
    (then the rest of the trace is still validated with that action switched on) or unexplained."""
    traces = [(n, norm(e)) for n, e in traces]
    rej = c.validate_traces("L2LockTrace", STRICT, traces, chunk=400)
    stats = dict(rejected=len(rej))
    reported = 0
    for x in rej:
        variant, cap = variant_of(x["events"])
        ev = x["event"] or {}
        explained = None
        for v, cfg, tag in FINDING_CFGS:
            if v != variant:
                continue
            r2 = c.validate_traces("L2LockTrace", cfg, [(x["trace"], x["events"])])
            if not r2:
                explained = tag
                break
        capname = "inf" if cap == INF else "finite"
        if explained:
            sig = "finding:%s" % explained
            what = ("%s: real %s lock service, trace %s, first strict rejection at event %d %s; the trace is a behaviour of the "
                    "model with that finding action enabled" % (explained, variant, x["trace"], x["index"], json.dumps(ev)))
        else:
            sig = "unexplained:%s:cap-%s:%s:%s:ok=%s" % (variant, capname, ev.get("ev"), ev.get("op"), ev.get("ok"))
            what = ("real %s lock service (cap %s) did something the specification does not allow at event %d of trace %s: %s"
                    % (variant, cap, x["index"], x["trace"], json.dumps(ev)))
        if reported < 6 or not explained:
            c.report(sig, what, dict(kind=kind, trace=x["trace"], events=x["events"], rejected_index=x["index"],
                                     tlc=x.get("tlc_tail", "")))
            reported += 1
        stats[sig] = stats.get(sig, 0) + 1
    return stats


def run(c):
    quick = c.quick
    cov = c.cov
    # ------------------------------------------------------------------ 1. design level
    design = []
    for cfg, workers, to in c.pick(
            [("L2Lock_mc.cfg", 4, 600), ("L2Lock_mc_code.cfg", 4, 600)],
            [("L2Lock_mc.cfg", 4, 900), ("L2Lock_mc_code.cfg", 4, 900), ("L2Lock_mc_fine.cfg", 6, 1500),
             ("L2Lock_mc_fine_code.cfg", 6, 1500)]):
        r = c.tlc_must_pass("L2Lock", cfg, workers=workers, timeout=to, coverage=True)
        design.append((cfg, r))
        zero = [a for a, (d, t) in r.coverage.items() if t == 0 and a in ACTIONS]
        if zero:
            raise vlib.InfraError("vacuous model: actions never taken in %s: %s" % (cfg, zero))
    cov["design_runs"] = {cfg: dict(states=r.distinct, transitions=r.generated, depth=r.depth,
                                    actions={a: r.coverage[a] for a in r.coverage if a in ACTIONS}) for cfg, r in design}
    cov["exhaustive"] = True


ACTIONS = {"MBegin", "MStep", "FTick", "AStepNoHist", "ATickNoHist", "AStep", "ATick"}

if __name__ == "__main__":
    vlib.main(run, "C28")
