"""C29 — built-in key comparison is a total order consistent with the natural order.
Spec: spec/KeyOrder.tla part 1 (Reflexive / Antisymmetric / Transitive / AgreesWith over a sign matrix) and
KeyOrderTrace.tla (TraceMatrix).  The driver evaluates btree.Compare and btree.CoerceComparer(v) on every pair of an
edge-value set per supported key type and logs the sign matrix plus the independently computed natural rank of every
value; TLC checks the four axioms over all pairs and triples of every matrix."""
import json, os
import vlib, keyorder_lib as kl

META = dict(
    property_id="C29", engine="KeyOrder",
    technique="order axioms stated in TLA+ and evaluated by TLC over sign matrices exported from btree.Compare / btree.CoerceComparer on edge values (trace validation of a pure function)",
    level="model_checking",
    level_text="Modest: the comparison is a pure function, so the specification's job is small. TLC checks reflexivity, antisymmetry, transitivity (all triples) and agreement with an independently computed natural rank on the complete sign matrix of every supported key type over a finite edge-value set (min/max/0/+-1 of every integer width, NaN with two payloads, +-0, +-Inf, subnormals, empty/unicode/prefix/invalid-UTF-8 strings, UUIDs, equal instants in different zones, monotonic-clock readings, nil/empty/prefix slices, composite and nested []any) plus seeded random values; at design level TLC checks the same axioms on an abstract model of the type switch (one kind: total order; mixed kinds: not antisymmetric). This is exhaustive over the exported matrices only, not over the value space of the types.",
    level_note="Rank oracle is a second implementation in the driver (math/big, IEEE bit patterns, byte loops, Unix sec/nsec) because TLA+ cannot hold floats/times/128-bit values. []any keys are exercised with one dynamic type per position (composite keys); nil elements and mixed types at one position are outside the claim (btree.Compare is not antisymmetric there, e.g. Compare(nil,0)=-1 but Compare(0,nil)=0).",
    design_ref="C29",
)


def run(c):
    # design level: ASSUMEs of KeyOrder (abstract type switch: per kind a total order agreeing with the natural rank;
    # mixed kinds not antisymmetric) are evaluated by TLC when the module is loaded; the run below also covers them.
    consts = kl.design_consts(["n1", "sa"], 1, [], "indexspec", "memory", [1], 1, "none")
    r = c.tlc_must_pass("KeyOrder", "KeyOrder_c29.cfg", workers=2, timeout=300,
                        files={"KeyOrder_c29.cfg": kl.cfg_text("Spec", consts, invariants=["TypeOK"])})
    binp = kl.build(c)
    out = os.path.join(c.scratch, "matrix.ndjson")
    c.run([binp, "matrix", out])
    traces = vlib.split_traces(vlib.read_ndjson(out))
    labels = {}
    norm = []
    for name, evs in traces:
        e = dict(evs[0])
        labels[name] = e.pop("labels")
        e.pop("name", None)
        norm.append((name, [e]))
    res, index = kl.run_traces(c, kl.trace_consts(1, [], "indexspec", "open"), norm, "c29", timeout=c.pick(600, 1500))
    if res.hwm < res.nlines:
        ti, ei = index[res.hwm]
        raise vlib.InfraError("matrix trace not consumed at line %d (%s)\n%s" % (res.hwm + 1, norm[ti][0], res.out[-3000:]))
    c.cov["traces_validated_against_impl"] += len(norm)
    pairs = triples = 0
    for name, evs in norm:
        n = len(evs[0]["m"])
        pairs += n * n
        triples += n * n * n
    nviol = 0
    for (recs,) in kl.printed(res, "VIOL"):
        for v in recs:
            ti, ei = index[v["l"] - 1]
            name, evs = norm[ti]
            e = evs[0]
            lab = labels[name]
            idx = [i for i in (v["w1"], v["w2"], v["exp"] if v["ax"] == "transitivity" else 0) if i > 0]
            vals = [lab[i - 1] for i in idx]
            m = e["m"]
            detail = dict(group=e["grp"], function=e["fn"], axiom=v["ax"], values=vals,
                          signs={"%d,%d" % (a, b): m[a - 1][b - 1] for a in idx for b in idx},
                          ranks=[e["rank"][i - 1] for i in idx])
            nviol += 1
            c.report("%s:%s:%s" % (e["grp"], e["fn"], v["ax"]),
                     "btree.%s on %s breaks %s for %s" % (e["fn"], e["grp"], v["ax"], ", ".join(vals)),
                     dict(detail=detail, labels=lab, matrix=m, rank=e["rank"]))
    c.sample(dict(group=norm[24][1][0]["grp"], function=norm[24][1][0]["fn"], values=labels[norm[24][0]][:8],
                  first_rows=[row[:8] for row in norm[24][1][0]["m"][:8]], ranks=norm[24][1][0]["rank"][:8]))
    c.sample(dict(group=norm[-4][1][0]["grp"], values=labels[norm[-4][0]], matrix=norm[-4][1][0]["m"]))
    distinct = set()
    for name, evs in norm:
        for i, lbl in enumerate(labels[name]):
            distinct.add((evs[0]["grp"], lbl))
    c.cov.update(dict(
        exhaustive=False, matrices=len(norm), pairs_checked=pairs, triples_checked=triples,
        evaluations=pairs, distinct_nontrivial=len(distinct),
        rule="one evaluation = one ordered pair (v_i, v_j) of edge values of one key type compared by btree.Compare or by btree.CoerceComparer(v_i); distinct_nontrivial counts distinct (type group, value) edge values; every matrix is checked by TLC for reflexivity, antisymmetry, transitivity over all triples and agreement with the independent rank",
        design_states=r.distinct,
    ))
    c.assumptions += ["natural rank computed by an independent implementation in the Go driver",
                      "[]any keys hold one dynamic type per position and no nil elements",
                      "finite edge-value sets + %d seeded random values per scalar type" % (3 if c.quick else 14)]


if __name__ == "__main__":
    vlib.main(run, "C29")
