"""C30 — JSON map-key stores order keys consistently, regardless of history.
Spec: spec/KeyOrder.tla part 2 (comparer object with per-field kind memory, instances, finding action CmpMismatch)
and KeyOrderTrace.tla.  TLC enumerates comparison histories / memory states of the model of the jsondb comparers;
every behaviour is executed on fresh real comparer objects (IndexSpecification.Comparer, JsonDBMapKey.proxyComparer
= defaultComparer) and the logged answers are validated by TLC at property level (one consistent total preorder over
all instances and times, natural order where defined).  Contradictions are classified by a second validation against
the model of what /repo does.  Store-level scenarios run every transaction in its own child process."""
import json, os, random, re
import vlib, keyorder_lib as kl

META = dict(
    property_id="C30", engine="KeyOrder",
    technique="TLA+ state machine of the map-key comparer (per-field kind memory, field-list memory), TLC-enumerated histories replayed on the real jsondb comparers, property-level trace validation of all answers across instances, store scenarios in child processes",
    level="model_checking",
    level_text="TLC explores every memory state of the comparer model and every comparison from it (1-2 index fields, histories <= 3, JSON-typed values null/missing/bool/number/string, ascending and descending fields, index-specification and default comparer) for two instances and checks SameAnswer / natural order on uniform steps (and, for the repaired design, unconditionally); every enumerated behaviour, every SameAnswer witness of the model and seeded random programs over 3 instances are run on the real comparers and TLC validates the logged answers against the property itself (same answer for the same pair across instances and time, antisymmetry, transitivity, reflexivity, natural order for same-kind pairs).",
    level_note="Bounded: value pool of 17 ids, <= 3 fields, histories <= 3 in the exhaustive part. defaultComparer/proxyComparer are unexported and reached through a go build -overlay file (no tree edit); store scenarios use only the public API. For pairs of different JSON kinds (and two different booleans) any consistent order is accepted.",
    design_ref="C30",
)

V5 = ["null", "n1", "n2", "sa", "sb"]
V6 = ["null", "T", "n1", "n2", "sa", "sb"]
V8 = ["null", "F", "T", "n1", "n2", "n1h", "sa", "sb"]
VD = ["miss", "null", "n1", "n2", "sa"]
VD7 = ["miss", "null", "T", "n1", "n2", "sa", "sb"]
KIND = {"null": "nil", "miss": "nil", "F": "bool", "T": "bool", "i0": "int", "i1": "int", "i2": "int",
        "nm1": "float", "n0": "float", "n1": "float", "n1h": "float", "n2": "float", "n10": "float",
        "se": "string", "s10": "string", "sa": "string", "sb": "string"}   # labels for signatures only


def fields_of(nf, desc):
    return [dict(name=kl.FIELD_NAMES[f - 1], desc=(f in desc)) for f in range(1, nf + 1)]


class Cfg:
    def __init__(self, tag, mode, nf, desc):
        self.tag, self.mode, self.nf, self.desc = tag, mode, nf, sorted(desc)

    def key(self):
        return (self.mode, self.nf, tuple(self.desc))


def design(c, name, consts, invariants, view, workers=4, timeout=900, coverage=False):
    cfgname = "KeyOrder_%s.cfg" % name
    return c.tlc_must_pass("KeyOrder", cfgname, workers=workers, timeout=timeout, coverage=coverage,
                           files={cfgname: kl.cfg_text("Spec", consts, invariants=invariants, view=view)}, tag=name)


def beh_to_ops(b, inst):
    ops = [dict(op="new", i=inst)]
    for h in b["h"]:
        ops.append(dict(op="cmp", i=inst, x=h["x"], y=h["y"]))
    ops.append(dict(op="cmp", i=inst, x=b["x"], y=b["y"]))
    return ops


def wit_to_ops(w):
    ops = []
    for i, h in enumerate(w["hs"], start=1):
        ops.append(dict(op="new", i=i))
        for e in h:
            ops.append(dict(op="cmp", i=i, x=e["x"], y=e["y"]))
    for i in range(1, len(w["hs"]) + 1):
        ops.append(dict(op="cmp", i=i, x=w["x"], y=w["y"]))
    return ops


def random_traces(rng, cfg, ntraces, length):
    """Seeded random programs: 3 instances, interleaved, values drawn per field from a small random subset of the
    whole pool so that ties on leading fields (which let later fields be reached) are frequent."""
    out = []
    pool = [v for v in kl.ALL_VALS if cfg.mode == "default" or v != "miss"]
    for _ in range(ntraces):
        per_field = []
        for f in range(cfg.nf):
            style = rng.random()
            if style < 0.35:      # one JSON kind only (uniformly typed field)
                k = rng.choice(["float", "string", "number"])
                cand = [v for v in pool if KIND[v] == k or (k == "number" and KIND[v] in ("int", "float"))]
            else:
                cand = pool
            per_field.append(rng.sample(cand, min(len(cand), rng.randint(2, 4))))
        keys = [[rng.choice(per_field[f]) for f in range(cfg.nf)] for _ in range(rng.randint(3, 7))]
        ops = [dict(op="new", i=i) for i in (1, 2, 3)]
        for _ in range(length):
            if rng.random() < 0.04:
                ops.append(dict(op="new", i=rng.randint(1, 3)))
            else:
                ops.append(dict(op="cmp", i=rng.randint(1, 3), x=rng.choice(keys), y=rng.choice(keys)))
        out.append(ops)
    return out


def norm_events(evs):
    out = []
    for e in evs:
        e = dict(e)
        e.pop("name", None)
        if e["ev"] == "New":
            e = dict(ev="New", i=e["i"])
        elif e["ev"] == "Cmp":
            e = dict(ev="Cmp", i=e["i"], x=e["x"], y=e["y"], r=e["r"])
        elif e["ev"] in ("Scan", "Find", "EndStore"):
            e = dict(ev=e["ev"], i=e.get("i", 0), keys=e.get("keys") or [], x=e.get("x") or [], found=bool(e.get("found")),
                     at=e.get("at") or [])
        out.append(e)
    return out


def classify(c, cfg, label, traces, stats, known_store=None):
    """Property-level validation of implementation traces; contradictions are explained (or not) by the memory model."""
    if not traces:
        return
    tag = "%s-%s" % (cfg.tag, label)
    res, index = kl.run_traces(c, kl.trace_consts(cfg.nf, cfg.desc, cfg.mode, "open"), traces, tag + "-open",
                               timeout=c.pick(600, 1800))
    if res.hwm < res.nlines:
        ti, ei = index[res.hwm]
        raise vlib.InfraError("trace %s not consumed at event %d: %s\n%s" %
                              (traces[ti][0], ei, traces[ti][1][ei] if ei >= 0 else None, res.out[-3000:]))
    c.cov["traces_validated_against_impl"] += len(traces)
    stats["events"] += sum(len(e) for _, e in traces)
    viols = [v for (recs,) in kl.printed(res, "VIOL") for v in recs]
    stats["contradictions"] += len(viols)
    if not viols:
        return
    # second opinion: is the contradiction what the model of /repo (kind memory) predicts?
    resm, _ = kl.run_traces(c, kl.trace_consts(cfg.nf, cfg.desc, cfg.mode, "memory"), traces, tag + "-mem",
                            timeout=c.pick(600, 1800))
    if resm.hwm < resm.nlines:
        raise vlib.InfraError("memory-model validation did not consume the trace (%s)\n%s" % (tag, resm.out[-3000:]))
    mism = {v[0]: v[1] for v in kl.printed(resm, "MISM")}
    diff = {v[0]: (v[1], v[2]) for v in kl.printed(resm, "DIFF")}
    stats["model_diffs"] += len(diff)
    by_sig = {}
    for v in viols:
        ti, ei = index[v["l"] - 1]
        name, evs = traces[ti]
        ev = evs[ei]
        lines = [v["l"]] + [w for w in (v["w1"], v["w2"]) if w > 0 and v["ax"] not in ("scan-order", "scan-disagree")]
        if ev["ev"] != "Cmp":
            # store level: classified by scenario (the memory model has no B-tree)
            sig = "store:%s:%s" % (name, v["ax"])
        elif any(l in diff for l in lines) or not any(l in mism for l in lines):
            kinds = ",".join("%s/%s" % (KIND[a], KIND[b]) for a, b in zip(ev["x"], ev["y"]))
            sig = "unexplained:%s:%s:nf=%d:%s" % (v["ax"], cfg.mode, cfg.nf, kinds)
        else:
            l = max(l for l in lines if l in mism)
            m = sorted(mism[l])[0]             # [field, remembered kind, kind of x, kind of y]
            later = m[2] if m[2] != m[1] else m[3]
            if m[1] == "absent":
                sig = "field-list-memory:first-key-lacks-field:later=%s" % later
            else:
                sig = "field-kind-memory:first=%s:later=%s" % (m[1], later)
        d = by_sig.setdefault(sig, dict(count=0, axioms={}, example=None))
        d["count"] += 1
        d["axioms"][v["ax"]] = d["axioms"].get(v["ax"], 0) + 1
        if d["example"] is None:
            lo = max(0, min(index[l - 1][1] for l in lines if index[l - 1][0] == ti) - 6)
            d["example"] = dict(config=dict(mode=cfg.mode, fields=fields_of(cfg.nf, cfg.desc)), trace=name, violation=v,
                                events=evs[lo:ei + 1] if ev["ev"] == "Cmp" else evs,
                                involved_events=[traces[index[l - 1][0]][1][index[l - 1][1]] for l in lines],
                                model_mismatch={str(l): mism.get(l) for l in lines},
                                model_diff={str(l): diff.get(l) for l in lines})
    for sig in sorted(by_sig):
        d = by_sig[sig]
        ex = d["example"]
        what = "%s contradicted %d times (%s); e.g. %s" % (
            sig, d["count"], ", ".join("%s x%d" % kv for kv in sorted(d["axioms"].items())),
            json.dumps(ex["involved_events"])[:400])
        c.report(sig, what, d)
        stats["signatures"][sig] = stats["signatures"].get(sig, 0) + d["count"]


# ---------------------------------------------------------------------------------------------- store scenarios
def store_scenarios(rng, thorough):
    def st(i, *ops):
        return dict(i=i, ops=[dict(op=o) if isinstance(o, str) else dict(op="add", x=o) for o in ops])

    def two_orders(name, mode, nf, desc, keys_a, keys_b, slot=4):
        """An empty committed store; two processes add the same keys in different orders inside their own
        (rolled back) transactions, scan and look every key up."""
        return dict(name=name, mode=mode, fields=fields_of(nf, desc), slot=slot, nf=nf, desc=desc, steps=[
            st(1, "create", "commit"),
            st(2, "open", *keys_a, "scan", "findall", "rollback"),
            st(3, "open", *keys_b, "scan", "findall", "rollback")])

    def two_commits(name, mode, nf, desc, keys_a, keys_b, slot=4):
        """Two transactions of different processes add keys and commit; a third process scans and looks up."""
        return dict(name=name, mode=mode, fields=fields_of(nf, desc), slot=slot, nf=nf, desc=desc, steps=[
            st(1, "create", *keys_a, "commit"),
            st(2, "open", *keys_b, "commit"),
            st(3, "open", "scan", "findall", "rollback")])

    nums = [["nm1"], ["n0"], ["n1"], ["n1h"], ["n2"], ["n10"]]
    strs = [["se"], ["s10"], ["sa"], ["sb"]]
    sh = lambda xs: rng.sample(xs, len(xs))
    out = [
        # controls: uniformly typed fields, any insertion order must give one order
        two_orders("uniform-numbers", "indexspec", 1, [], sh(nums), sh(nums)),
        two_orders("uniform-strings-desc", "indexspec", 1, [1], sh(strs), sh(strs)),
        two_commits("uniform-numbers-2txn", "indexspec", 1, [], sh(nums)[:3], sh(nums)[3:]),
        two_orders("uniform-2fields", "indexspec", 2, [2],
                   sh([[g, k] for g in ("n1", "n2", "n10") for k in ("sa", "sb", "se")]),
                   sh([[g, k] for g in ("n1", "n2", "n10") for k in ("sa", "sb", "se")])),
        two_orders("uniform-default-2fields", "default", 2, [],
                   sh([[g, k] for g in ("sa", "sb") for k in ("nm1", "n1", "n2")]),
                   sh([[g, k] for g in ("sa", "sb") for k in ("nm1", "n1", "n2")])),
        # mixed kinds in one field: the first stored key compared fixes the comparer
        two_orders("mixed-string-first-vs-number-first", "indexspec", 1, [],
                   [["sa"], ["n2"], ["n1"], ["nm1"], ["sb"]], [["n2"], ["n1"], ["sb"], ["nm1"], ["sa"]]),
        two_commits("mixed-2txn-string-then-numbers", "indexspec", 1, [],
                    [["sa"], ["n2"], ["n1"]], [["nm1"], ["n10"], ["sb"], ["n1h"]]),
        two_orders("mixed-second-field", "indexspec", 2, [],
                   [["n1", "sa"], ["n1", "n2"], ["n1", "n1"], ["n1", "sb"]], [["n1", "n2"], ["n1", "sa"], ["n1", "n1"], ["n1", "sb"]]),
        two_orders("default-first-key-lacks-field", "default", 2, [],
                   [["n1", "miss"], ["n1", "n2"], ["n1", "n1"], ["n2", "n1"]], [["n1", "n2"], ["n1", "miss"], ["n1", "n1"], ["n2", "n1"]]),
    ]
    if thorough:
        big = [[g, k] for g in ("nm1", "n0", "n1", "n1h", "n2", "n10") for k in ("se", "s10", "sa", "sb")]
        out += [two_orders("uniform-2fields-24keys", "indexspec", 2, [1], sh(big), sh(big)),
                two_commits("uniform-2fields-24keys-2txn", "indexspec", 2, [], sh(big)[:12], sh(big)[12:]),
                two_orders("uniform-default-24keys", "default", 2, [], sh(big), sh(big), slot=6)]
    return out


def run(c):
    rng = random.Random(c.seed)
    stats = dict(events=0, contradictions=0, model_diffs=0, signatures={})
    # ------------------------------------------------------------------ 1. design level (TLC exhaustive)
    vals2 = c.pick(V5, V8)
    if c.quick:
        r_mc = design(c, "mc", kl.design_consts(vals2, 2, [2], "indexspec", "memory", [1, 2], 3, "wit"),
                      ["TypeOK", "SameAnswerUniform", "NaturalOnUniform", "EmitWitness"], "View")
    else:   # the committed configuration, with coverage
        r_mc = c.tlc_must_pass("KeyOrder", "KeyOrder_mc.cfg", workers=6, timeout=1500, coverage=True, tag="mc")
        zero = [a for a, (d, t) in r_mc.coverage.items() if t == 0 and a in ("New", "CmpUniform", "CmpMismatch", "Init")]
        if zero:
            raise vlib.InfraError("vacuity: actions never taken in KeyOrder_mc.cfg: %s" % zero)
    r_mcd = design(c, "mcdef", kl.design_consts(c.pick(VD, VD7), 2, [], "default", "memory", [1, 2], 3, "wit"),
                   ["TypeOK", "SameAnswerUniform", "NaturalOnUniform", "EmitWitness"], "View")
    # repaired design: SameAnswer and natural order hold unconditionally, no finding action needed
    for mode, vs in (("indexspec", V8), ("default", VD7)):
        design(c, "dyn" + mode, kl.design_consts(vs, 2, [2] if mode == "indexspec" else [], mode, "dynamic", [1, 2], 2, "none"),
               ["TypeOK", "SameAnswer", "NaturalAlways", "SameAnswerUniform"], "View", workers=2)
    # full histories <= 3 of one instance: per-instance preorder + behaviours
    hist_runs = [("h1asc", Cfg("h1asc", "indexspec", 1, []), c.pick(V5, V6), 3),
                 ("h1desc", Cfg("h1desc", "indexspec", 1, [1]), c.pick(V5, V8), 2)]
    view_runs = [("b2", Cfg("b2", "indexspec", 2, [2]), vals2, 3),
                 ("bdef", Cfg("bdef", "default", 2, []), c.pick(VD, VD7), 3)]
    if not c.quick:
        hist_runs.append(("h1def", Cfg("h1def", "default", 1, []), ["miss", "null", "T", "n1", "n2", "sa", "sb"], 2))
        view_runs.append(("b2asc", Cfg("b2asc", "indexspec", 2, []), V8, 3))
    sessions = []
    distinct = set()
    nbeh = 0
    sample_beh = None
    for name, cfg, vs, mh in hist_runs + view_runs:
        is_hist = (name, cfg, vs, mh) in hist_runs
        r = design(c, name, kl.design_consts(vs, cfg.nf, cfg.desc, cfg.mode, "memory", [1], mh, "beh"),
                   ["TypeOK", "InstancePreorder"], None if is_hist else "View")
        behs = [b[0] for b in kl.printed(r, "BEH")]
        if is_hist:   # every behaviour is a prefix of a maximal one
            behs = [b for b in behs if len(b["h"]) == mh - 1]
        if len(behs) < 20:
            raise vlib.InfraError("too few behaviours from TLC for %s: %d" % (name, len(behs)))
        nbeh += len(behs)
        sample_beh = sample_beh or behs[len(behs) // 2]
        ops = []
        for n, b in enumerate(behs):
            ops += beh_to_ops(b, 1 + n % 2)
            if b["x"] != b["y"]:
                distinct.add(json.dumps([cfg.key(), b["h"], b["x"], b["y"]]))
        sessions.append((cfg, "beh", dict(name=name, mode=cfg.mode, fields=fields_of(cfg.nf, cfg.desc), traces=[ops])))
    # SameAnswer witnesses of the two-instance model (design-level counterexamples to the full SameAnswer)
    for name, r, cfg in (("wit2", r_mc, Cfg("wit2", "indexspec", 2, [2])), ("witdef", r_mcd, Cfg("witdef", "default", 2, []))):
        wits = [w[0] for w in kl.printed(r, "WIT")]
        if not wits:
            raise vlib.InfraError("no SameAnswer witness printed by %s" % name)
        for w in wits:
            distinct.add(json.dumps([cfg.key(), w["hs"], w["x"], w["y"]]))
        sessions.append((cfg, "wit", dict(name=name, mode=cfg.mode, fields=fields_of(cfg.nf, cfg.desc),
                                          traces=[wit_to_ops(w) for w in wits])))
    # seeded random programs over the whole pool
    rcfgs = [Cfg("r1", "indexspec", 1, []), Cfg("r2", "indexspec", 2, [1]), Cfg("r3", "indexspec", 3, [2]), Cfg("rd2", "default", 2, []),
             Cfg("rd3", "default", 3, [])]
    for cfg in rcfgs:
        trs = random_traces(rng, cfg, c.pick(40, 400), c.pick(40, 60))
        sessions.append((cfg, "rnd", dict(name=cfg.tag, mode=cfg.mode, fields=fields_of(cfg.nf, cfg.desc), traces=trs)))
    # ------------------------------------------------------------------ 2. run everything on the real comparers
    binp = kl.build(c)
    sf = os.path.join(c.scratch, "sessions.json")
    json.dump([s for _, _, s in sessions], open(sf, "w"))
    out = os.path.join(c.scratch, "replay.ndjson")
    c.run([binp, "replay", sf, out], timeout=600)
    got = vlib.split_traces(vlib.read_ndjson(out))
    pos = 0
    ncmp = 0
    for cfg, label, s in sessions:
        trs = [(n, norm_events(e)) for n, e in got[pos:pos + len(s["traces"])]]
        pos += len(s["traces"])
        ncmp += sum(1 for _, e in trs for x in e if x["ev"] == "Cmp")
        if label == "rnd":
            for _, e in trs:
                for x in e:
                    if x["ev"] == "Cmp" and x["x"] != x["y"]:
                        distinct.add(json.dumps([cfg.key(), x["x"], x["y"]]))
        # 3. code -> spec
        classify(c, cfg, label, trs, stats)
        if label == "rnd" and cfg.tag == "r2":
            c.sample(dict(random_program_prefix=trs[0][1][:12]))
    # ------------------------------------------------------------------ 4. store level, one child process per transaction
    scs = store_scenarios(rng, not c.quick)
    scf = os.path.join(c.scratch, "scenarios.json")
    json.dump(scs, open(scf, "w"))
    outs = os.path.join(c.scratch, "store.ndjson")
    c.run([binp, "store", scf, c.datadir("stores"), outs], timeout=900)
    sgot = vlib.split_traces(vlib.read_ndjson(outs))
    groups = {}
    for sc, (name, evs) in zip(scs, sgot):
        cfg = Cfg("st", sc["mode"], sc["nf"], sc["desc"])
        groups.setdefault(cfg.key(), (cfg, []))[1].append((name, norm_events(evs)))
    nscan = 0
    for k in sorted(groups):
        cfg, trs = groups[k]
        cfg.tag = "st%d%s%s" % (cfg.nf, cfg.mode[0], "".join(map(str, cfg.desc)))
        nscan += sum(1 for _, e in trs for x in e if x["ev"] == "Scan")
        classify(c, cfg, "store", trs, stats)
    c.sample(dict(store_scenario=scs[5]["name"], events=[e for e in norm_events(sgot[5][1]) if e["ev"] == "Scan"]))
    c.sample(dict(tlc_behaviour=sample_beh))
    c.cov.update(dict(
        exhaustive=True, behaviours_from_tlc=nbeh, comparisons_on_real_code=ncmp, store_scenarios=len(scs), store_scans=nscan,
        evaluations=ncmp + nscan, distinct_nontrivial=len(distinct),
        events_validated=stats["events"], contradictions_found=stats["contradictions"],
        contradictions_by_signature=stats["signatures"], model_vs_code_differences=stats["model_diffs"],
        rule="one evaluation = one Compare(x, y) answered by a real jsondb comparer object (or one store scan); a case is a (comparer configuration, history, probe pair) and is non-trivial when the two probe keys differ; distinct by the full JSON of configuration, history and probe. Exhaustive = every memory state of the model and every comparison from it within the stated constants.",
        coverage_actions={k: v for k, v in r_mc.coverage.items()} if r_mc.coverage else None,
    ))
    c.assumptions += ["value pool of 17 ids; <= 3 index fields; histories <= 3 in the exhaustive part",
                      "unexported jsondb comparers reached through a go build -overlay export file",
                      "for keys of different JSON kinds any consistent order is accepted"]


if __name__ == "__main__":
    vlib.main(run, "C30")
