"""C30 — JSON map-key stores order keys consistently, regardless of history.
Spec: spec/KeyOrder.tla part 2 (comparer object with per-field kind memory, instances, finding action CmpMismatch)
and KeyOrderTrace.tla.  TLC enumerates comparison histories / memory states of the model of the jsondb comparers;
every behaviour is executed on fresh real comparer objects (IndexSpecification.Comparer, JsonDBMapKey.proxyComparer
= defaultComparer) and the logged answers are validated by TLC at property level (one consistent total preorder over
all instances and times, natural order where defined).  Contradictions are classified by a second validation against
the model of what /repo does.  Store-level scenarios run every transaction in its own child process."""
import json, os, random
import vlib, keyorder_lib as kl

META = dict(
    property_id="C30", engine="KeyOrder",
    technique="TLA+ state machine of the map-key comparer (per-field kind memory, field-list memory), TLC-enumerated histories replayed on the real jsondb comparers, property-level trace validation of all answers across instances, store scenarios in child processes",
    level="model_checking",
    level_text="TLC explores every memory state of the comparer model and every comparison from it (1-2 index fields, histories <= 3, JSON-typed values null/missing/bool/number/string, ascending and descending fields, index-specification and default comparer) for two instances and checks SameAnswer / natural order on uniform steps (and, for the repaired design, unconditionally); every enumerated behaviour, every SameAnswer witness of the model and seeded random programs over 3 instances are run on the real comparers and TLC validates the logged answers against the property itself (same answer for the same pair across instances and time, antisymmetry, transitivity, reflexivity, natural order for same-kind pairs).",
    level_note="Bounded: value pool of 17 ids, <= 3 fields, histories <= 3 in the exhaustive part. defaultComparer/proxyComparer are unexported and reached through a go build -overlay file (no tree edit); store scenarios use only the public API. For pairs of different JSON kinds (and two different booleans) any consistent order is accepted.",
    design_ref="C30",
)

V4 = ["null", "n1", "n2", "sa"]
V4S = ["null", "n1", "sa", "sb"]
V6 = ["null", "T", "n1", "n2", "sa", "sb"]
V8 = ["null", "F", "T", "n1", "n2", "n1h", "sa", "sb"]
VD4 = ["miss", "null", "n1", "sa"]
VD6 = ["miss", "null", "n1", "n2", "sa", "sb"]
VD7 = ["miss", "null", "T", "n1", "n2", "sa", "sb"]
V5T = ["null", "T", "n1", "sa", "sb"]
KIND = {"null": "nil", "miss": "nil", "F": "bool", "T": "bool", "i0": "int", "i1": "int", "i2": "int",
        "nm1": "float", "n0": "float", "n1": "float", "n1h": "float", "n2": "float", "n10": "float",
        "se": "string", "s10": "string", "sa": "string", "sb": "string"}   # labels for signatures only

# Trace validation always runs with NF = 3 and field 2 descending.  A comparer with fewer index fields is embedded by
# leaving the unused positions absent ("miss") in every key: two absent values compare equal under every semantics,
# so the padded positions never decide and never mismatch.
TRACE_NF, TRACE_DESC = 3, [2]
MAX_REPORTS = 6        # distinct unexplained signatures written out as replay files per run


class Sess:
    """One comparer configuration: mode + sort direction of each real index field."""
    def __init__(self, tag, mode, descs):
        self.tag, self.mode, self.descs = tag, mode, list(descs)
        pos, p = [], 0
        for d in self.descs:
            p += 1
            if mode == "indexspec":
                while (p in TRACE_DESC) != d:
                    p += 1
            pos.append(p)
        assert pos and pos[-1] <= TRACE_NF, (tag, pos)
        self.pos = pos
        self.traces = []           # list of (label, ops)

    @property
    def nf(self):
        return len(self.descs)

    def fields(self):
        return [dict(name=kl.FIELD_NAMES[p - 1], desc=bool(d)) for p, d in zip(self.pos, self.descs)]

    def pad(self, key):
        full = ["miss"] * TRACE_NF
        for p, v in zip(self.pos, key):
            full[p - 1] = v
        return full

    def key(self):
        return (self.mode, tuple(self.descs))


def design(c, name, consts, invariants, view, workers=4, timeout=900, coverage=False):
    cfgname = "KeyOrder_%s.cfg" % name
    return c.tlc_must_pass("KeyOrder", cfgname, workers=workers, timeout=timeout, coverage=coverage,
                           files={cfgname: kl.cfg_text("Spec", consts, invariants=invariants, view=view)}, tag=name)


def action_coverage(res):
    """<Action line .. of module KeyOrder (..)>: distinct:total  (vlib's parser misses the form with a location suffix)"""
    import re
    out = {}
    for m in re.finditer(r"^<(\w+) line \d+, col \d+ to line \d+, col \d+ of module KeyOrder(?: \([\d ]+\))?>: (\d+):(\d+)", res.out, re.M):
        out[m.group(1)] = (int(m.group(2)), int(m.group(3)))
    return out


def beh_to_ops(b, inst):
    ops = [dict(op="new", i=inst)]
    for h in b["h"]:
        ops.append(dict(op="cmp", i=inst, x=h["x"], y=h["y"]))
    ops.append(dict(op="cmp", i=inst, x=b["x"], y=b["y"]))
    return ops


def wit_to_ops(w):
    ops = []
    for i, h in enumerate(w["hs"], start=1):
        ops.append(dict(op="new", i=i))
        for e in h:
            ops.append(dict(op="cmp", i=i, x=e["x"], y=e["y"]))
    for i in range(1, len(w["hs"]) + 1):
        ops.append(dict(op="cmp", i=i, x=w["x"], y=w["y"]))
    return ops


def random_traces(rng, s, ntraces, length):
    """Seeded random programs: 3 instances, interleaved, values drawn per field from a small random subset of the
    whole pool so that ties on leading fields (which let later fields be reached) are frequent."""
    out = []
    pool = [v for v in kl.ALL_VALS if s.mode == "default" or v != "miss"]
    for _ in range(ntraces):
        per_field = []
        for f in range(s.nf):
            if rng.random() < 0.35:      # one JSON kind only (uniformly typed field)
                k = rng.choice(["float", "string", "number"])
                cand = [v for v in pool if KIND[v] == k or (k == "number" and KIND[v] in ("int", "float"))]
            else:
                cand = pool
            per_field.append(rng.sample(cand, min(len(cand), rng.randint(2, 4))))
        keys = [[rng.choice(per_field[f]) for f in range(s.nf)] for _ in range(rng.randint(3, 7))]
        ops = [dict(op="new", i=i) for i in (1, 2, 3)]
        for _ in range(length):
            if rng.random() < 0.04:
                ops.append(dict(op="new", i=rng.randint(1, 3)))
            else:
                ops.append(dict(op="cmp", i=rng.randint(1, 3), x=rng.choice(keys), y=rng.choice(keys)))
        out.append(ops)
    return out


def norm_events(s, evs):
    out = []
    for e in evs:
        if e["ev"] == "New":
            out.append(dict(ev="New", i=e["i"]))
        elif e["ev"] == "Cmp":
            out.append(dict(ev="Cmp", i=e["i"], x=s.pad(e["x"]), y=s.pad(e["y"]), r=e["r"]))
        elif e["ev"] in ("Scan", "Find", "EndStore"):
            out.append(dict(ev=e["ev"], i=e.get("i", 0), keys=[s.pad(k) for k in (e.get("keys") or [])],
                            x=s.pad(e["x"]) if e.get("x") else [], found=bool(e.get("found")),
                            at=s.pad(e["at"]) if e.get("at") else []))
    return out


def classify(c, mode, traces, sess_of, stats):
    """Property-level validation of implementation traces (TraceSem = "open"); contradictions are then explained,
    or not, by validating the same traces against the model of /repo (TraceSem = "memory")."""
    if not traces:
        return
    res, index = kl.run_traces(c, kl.trace_consts(TRACE_NF, TRACE_DESC, mode, "open"), traces, mode + "-open",
                               timeout=c.pick(900, 2400), heap=c.pick(None, "6g"))
    if res.hwm < res.nlines:
        ti, ei = index[res.hwm]
        raise vlib.InfraError("trace %s not consumed at event %d: %s\n%s" %
                              (traces[ti][0], ei, traces[ti][1][ei] if ei >= 0 else None, res.out[-3000:]))
    c.cov["traces_validated_against_impl"] += len(traces)
    stats["events"] += sum(len(e) for _, e in traces)
    viols = [v for (recs,) in kl.printed(res, "VIOL") for v in recs]
    stats["contradictions"] += len(viols)
    if not viols:
        return
    bad = sorted(set(index[v["l"] - 1][0] for v in viols))
    sub = [traces[ti] for ti in bad]
    resm, indexm = kl.run_traces(c, kl.trace_consts(TRACE_NF, TRACE_DESC, mode, "memory"), sub, mode + "-mem",
                                 timeout=c.pick(900, 2400), heap=c.pick(None, "6g"))
    if resm.hwm < resm.nlines:
        raise vlib.InfraError("memory-model validation did not consume the traces (%s)\n%s" % (mode, resm.out[-3000:]))
    # line numbers of the second run -> (trace, event)
    mism = {(bad[indexm[v[0] - 1][0]], indexm[v[0] - 1][1]): v[1] for v in kl.printed(resm, "MISM")}
    diff = {(bad[indexm[v[0] - 1][0]], indexm[v[0] - 1][1]): (v[1], v[2]) for v in kl.printed(resm, "DIFF")}
    stats["model_diffs"] += len(diff)
    by_sig = {}
    for v in viols:
        ti, ei = index[v["l"] - 1]
        name, evs = traces[ti]
        s = sess_of[name]
        ev = evs[ei]
        store = ev["ev"] != "Cmp"
        where = [(ti, ei)] + ([] if store else [index[w - 1] for w in (v["w1"], v["w2"]) if w > 0])
        if store:
            # store level: classified by scenario (the memory model has no B-tree)
            sig = "store:%s:%s" % (name, v["ax"])
        elif any(w in diff for w in where) or not any(w in mism for w in where):
            # kinds of the first field in which the two keys differ (for x = y: of the first field)
            dif = [(a, b) for a, b in zip(ev["x"], ev["y"]) if a != b] or [(ev["x"][s.pos[0] - 1], ev["y"][s.pos[0] - 1])]
            sig = "unexplained:%s:%s:%s:%s/%s" % (v["ax"], s.mode, "".join("d" if d else "a" for d in s.descs),
                                                  KIND[dif[0][0]], KIND[dif[0][1]])
        else:
            m = sorted(mism[max(w for w in where if w in mism)])[0]   # [field, remembered kind, kind of x, kind of y]
            later = m[2] if m[2] != m[1] else m[3]
            if m[1] == "absent":
                sig = "field-list-memory:first-key-lacks-field:later=%s" % later
            else:
                sig = "field-kind-memory:first=%s:later=%s" % (m[1], later)
        d = by_sig.setdefault(sig, dict(count=0, axioms={}, example=None))
        d["count"] += 1
        d["axioms"][v["ax"]] = d["axioms"].get(v["ax"], 0) + 1
        if d["example"] is None:
            lo = max(0, min(e for t, e in where if t == ti) - 6)
            d["example"] = dict(config=dict(mode=s.mode, fields=s.fields(), positions=s.pos), trace=name, violation=v,
                                events=evs if store else evs[lo:ei + 1],
                                involved_events=[traces[t][1][e] for t, e in where],
                                model_mismatch=[mism.get(w) for w in where], model_diff=[diff.get(w) for w in where])
    for sig in sorted(by_sig, key=lambda g: (-by_sig[g]["count"], g)):
        d = by_sig[sig]
        stats["signatures"][sig] = stats["signatures"].get(sig, 0) + d["count"]
        if stats["reported"] >= MAX_REPORTS and not sig.startswith(("field-kind-memory:", "field-list-memory:", "store:")):
            stats["suppressed"] += 1          # already a violation; keep the number of replay files small
            continue
        what = "%s contradicted %d times (%s); e.g. %s" % (
            sig, d["count"], ", ".join("%s x%d" % kv for kv in sorted(d["axioms"].items())),
            json.dumps(d["example"]["involved_events"])[:400])
        if c.report(sig, what, d):
            stats["reported"] += 1


# ---------------------------------------------------------------------------------------------- store scenarios
def store_scenarios(rng, thorough):
    def st(i, *ops):
        return dict(i=i, ops=[dict(op=o) if isinstance(o, str) else dict(op="add", x=o) for o in ops])

    def two_orders(name, mode, descs, keys_a, keys_b, slot=4):
        """An empty committed store; two processes add the same keys in different orders inside their own
        (rolled back) transactions, scan and look every key up."""
        return (Sess(name, mode, descs), dict(name=name, slot=slot, steps=[
            st(1, "create", "commit"),
            st(2, "open", *keys_a, "scan", "findall", "rollback"),
            st(3, "open", *keys_b, "scan", "findall", "rollback")]))

    def two_commits(name, mode, descs, keys_a, keys_b, slot=4):
        """Two transactions of different processes add keys and commit; a third process scans and looks up."""
        return (Sess(name, mode, descs), dict(name=name, slot=slot, steps=[
            st(1, "create", *keys_a, "commit"),
            st(2, "open", *keys_b, "commit"),
            st(3, "open", "scan", "findall", "rollback")]))

    nums = [["nm1"], ["n0"], ["n1"], ["n1h"], ["n2"], ["n10"]]
    strs = [["se"], ["s10"], ["sa"], ["sb"]]
    sh = lambda xs: rng.sample(xs, len(xs))
    gk = [[g, k] for g in ("n1", "n2", "n10") for k in ("sa", "sb", "se")]
    kg = [[g, k] for g in ("sa", "sb") for k in ("nm1", "n1", "n2")]
    out = [
        # controls: uniformly typed fields, any insertion order must give one order
        two_orders("uniform-numbers", "indexspec", [0], sh(nums), sh(nums)),
        two_orders("uniform-strings-desc", "indexspec", [1], sh(strs), sh(strs)),
        two_commits("uniform-numbers-2txn", "indexspec", [0], sh(nums)[:3], sh(nums)[3:]),
        two_orders("uniform-2fields", "indexspec", [0, 1], sh(gk), sh(gk)),
        two_orders("uniform-default-2fields", "default", [0, 0], sh(kg), sh(kg)),
        # mixed kinds in one field: the first stored key compared fixes the comparer
        two_orders("mixed-string-first-vs-number-first", "indexspec", [0],
                   [["sa"], ["n2"], ["n1"], ["nm1"], ["sb"]], [["n2"], ["n1"], ["sb"], ["nm1"], ["sa"]]),
        two_commits("mixed-2txn-string-then-numbers", "indexspec", [0],
                    [["sa"], ["n2"], ["n1"]], [["nm1"], ["n10"], ["sb"], ["n1h"]]),
        two_orders("mixed-second-field", "indexspec", [0, 0],
                   [["n1", "sa"], ["n1", "n2"], ["n1", "n1"], ["n1", "sb"]], [["n1", "n2"], ["n1", "sa"], ["n1", "n1"], ["n1", "sb"]]),
        two_orders("default-first-key-lacks-field", "default", [0, 0],
                   [["n1", "miss"], ["n1", "n2"], ["n1", "n1"], ["n2", "n1"]], [["n1", "n2"], ["n1", "miss"], ["n1", "n1"], ["n2", "n1"]]),
    ]
    if thorough:
        big = [[g, k] for g in ("nm1", "n0", "n1", "n1h", "n2", "n10") for k in ("se", "s10", "sa", "sb")]
        out += [two_orders("uniform-2fields-24keys", "indexspec", [0, 1], sh(big), sh(big)),
                two_commits("uniform-2fields-24keys-2txn", "indexspec", [0, 0], sh(big)[:12], sh(big)[12:]),
                two_orders("uniform-default-24keys", "default", [0, 0], sh(big), sh(big), slot=6)]
    return out


def run(c):
    rng = random.Random(c.seed)
    stats = dict(events=0, contradictions=0, model_diffs=0, signatures={}, reported=0, suppressed=0)
    inv_mc = ["TypeOK", "SameAnswerUniform", "NaturalOnUniform", "InstancePreorder", "EmitWitness"]
    # ------------------------------------------------------------------ 1. design level (TLC exhaustive)
    if c.quick:
        r_mc = design(c, "mc", kl.design_consts(V4, 2, [2], "indexspec", "memory", [1, 2], 3, "both"), inv_mc, "View")
    else:   # the committed configuration (8 values), with coverage
        r_mc = c.tlc_must_pass("KeyOrder", "KeyOrder_mc.cfg", workers=6, timeout=2400, coverage=True, tag="mc")
        cov = action_coverage(r_mc)
        zero = [a for a in ("Init", "New", "CmpUniform", "CmpMismatch") if cov.get(a, (0, 0))[1] == 0]
        if zero:
            raise vlib.InfraError("vacuity: actions never taken in KeyOrder_mc.cfg: %s (%s)" % (zero, cov))
        r_mc.coverage = cov
    # default comparer: two instances in the thorough tier; one instance (behaviours only) in the quick tier, where
    # cross-instance agreement is still decided on the real answers by the property-level trace validation
    r_mcd = design(c, "mcdef", kl.design_consts(c.pick(VD4, VD6), 2, [], "default", "memory", c.pick([1], [1, 2]), 3, "both"),
                   inv_mc, "View")
    # repaired design: SameAnswer and natural order hold unconditionally, the finding action is never enabled
    dyn = [("indexspec", V8, [2])] + ([] if c.quick else [("default", VD7, [])])
    for mode, vs, desc in dyn:
        design(c, "dyn" + mode, kl.design_consts(vs, 2, desc, mode, "dynamic", [1, 2], 2, "none"),
               ["TypeOK", "SameAnswer", "NaturalAlways", "SameAnswerUniform"], "View", workers=2)
    sessions = []
    distinct = set()
    nbeh = 0
    sample_beh = None

    def add_behaviours(s, behs, maximal_len=None):
        nonlocal nbeh, sample_beh
        if maximal_len is not None:     # full history enumeration: every behaviour is a prefix of a maximal one
            behs = [b for b in behs if len(b["h"]) == maximal_len]
        if len(behs) < 20:
            raise vlib.InfraError("too few behaviours from TLC for %s: %d" % (s.tag, len(behs)))
        nbeh += len(behs)
        sample_beh = sample_beh or behs[len(behs) // 2]
        ops = []
        for n, b in enumerate(behs):
            ops += beh_to_ops(b, 1 + n % 2)
            if b["x"] != b["y"]:
                distinct.add(json.dumps([s.key(), b["h"], b["x"], b["y"]]))
        s.traces.append((s.tag, ops))        # ONE trace: answers of all these instances must form one order
        sessions.append(s)

    # behaviours of one comparer object from every memory state (representative history + every probe)
    add_behaviours(Sess("beh2", "indexspec", [0, 1]), [b[0] for b in kl.printed(r_mc, "BEH")])
    add_behaviours(Sess("behdef", "default", [0, 0]), [b[0] for b in kl.printed(r_mcd, "BEH")])
    # full histories <= MaxHist of one instance, one field: per-instance preorder checked by TLC on every history
    hist_runs = [("h1asc", "indexspec", [0], c.pick(V4S, V5T), 3)]
    if not c.quick:
        hist_runs += [("h1desc", "indexspec", [1], V8, 2), ("h1def", "default", [0], VD7, 2)]
    for name, mode, descs, vs, mh in hist_runs:
        r = design(c, name, kl.design_consts(vs, 1, [1] if descs[0] else [], mode, "memory", [1], mh, "beh"),
                   ["TypeOK", "InstancePreorder"], None)
        add_behaviours(Sess(name, mode, descs), [b[0] for b in kl.printed(r, "BEH")], maximal_len=mh - 1)
    # SameAnswer witnesses of the two-instance model (design-level counterexamples to the unconditional SameAnswer)
    for name, r, s in (("wit2", r_mc, Sess("wit2", "indexspec", [0, 1])), ("witdef", r_mcd, Sess("witdef", "default", [0, 0]))):
        wits = [w[0] for w in kl.printed(r, "WIT")]
        if not wits and name == "witdef" and c.quick:
            continue
        if not wits:
            raise vlib.InfraError("no SameAnswer witness printed by %s" % name)
        for n, w in enumerate(wits):
            distinct.add(json.dumps([s.key(), w["hs"], w["x"], w["y"]]))
            s.traces.append(("%s#%d" % (name, n), wit_to_ops(w)))
        sessions.append(s)
    # seeded random programs over the whole pool
    for s in (Sess("r1", "indexspec", [0]), Sess("r1d", "indexspec", [1]), Sess("r2", "indexspec", [1, 0]), Sess("r2a", "indexspec", [0, 0]),
              Sess("r3", "indexspec", [0, 1, 0]), Sess("rd2", "default", [0, 0]), Sess("rd3", "default", [0, 0, 0])):
        for n, ops in enumerate(random_traces(rng, s, c.pick(25, 150), c.pick(40, 60))):
            s.traces.append(("%s#%d" % (s.tag, n), ops))
        sessions.append(s)
    # ------------------------------------------------------------------ 2. run everything on the real comparers
    binp = kl.build(c)
    sf = os.path.join(c.scratch, "sessions.json")
    json.dump([dict(name=s.tag, mode=s.mode, fields=s.fields(), traces=[ops for _, ops in s.traces]) for s in sessions], open(sf, "w"))
    out = os.path.join(c.scratch, "replay.ndjson")
    c.run([binp, "replay", sf, out], timeout=600)
    got = vlib.split_traces(vlib.read_ndjson(out))
    by_mode = {"indexspec": [], "default": []}
    sess_of = {}
    pos = ncmp = 0
    for s in sessions:
        for (name, _), (_, evs) in zip(s.traces, got[pos:pos + len(s.traces)]):
            evs = norm_events(s, evs)
            by_mode[s.mode].append((name, evs))
            sess_of[name] = s
            ncmp += sum(1 for x in evs if x["ev"] == "Cmp")
            if s.tag.startswith("r"):
                for x in evs:
                    if x["ev"] == "Cmp" and x["x"] != x["y"]:
                        distinct.add(json.dumps([s.key(), x["x"], x["y"]]))
        pos += len(s.traces)
    if pos != len(got):
        raise vlib.InfraError("driver returned %d traces, expected %d" % (len(got), pos))
    # ------------------------------------------------------------------ 3. store level, one child process per transaction
    scs = store_scenarios(rng, not c.quick)
    scf = os.path.join(c.scratch, "scenarios.json")
    json.dump([dict(sc, mode=s.mode, fields=s.fields()) for s, sc in scs], open(scf, "w"))
    outs = os.path.join(c.scratch, "store.ndjson")
    c.run([binp, "store", scf, c.datadir("stores"), outs], timeout=900)
    sgot = vlib.split_traces(vlib.read_ndjson(outs))
    nscan = 0
    sample_store = None
    for (s, sc), (name, evs) in zip(scs, sgot):
        evs = norm_events(s, evs)
        by_mode[s.mode].append((sc["name"], evs))
        sess_of[sc["name"]] = s
        nscan += sum(1 for x in evs if x["ev"] == "Scan")
        if sc["name"].startswith("mixed-string-first"):
            sample_store = dict(store_scenario=sc["name"], steps=sc["steps"], scans=[x["keys"] for x in evs if x["ev"] == "Scan"])
    # ------------------------------------------------------------------ 4. code -> spec
    for mode in ("indexspec", "default"):
        classify(c, mode, by_mode[mode], sess_of, stats)
    c.sample(dict(tlc_behaviour=sample_beh))
    c.sample(dict(random_program_prefix=[t for t in by_mode["indexspec"] if t[0] == "r2#0"][0][1][:12]))
    c.sample(sample_store)
    c.cov.update(dict(
        exhaustive=True, behaviours_from_tlc=nbeh, comparisons_on_real_code=ncmp, store_scenarios=len(scs), store_scans=nscan,
        evaluations=ncmp + nscan, distinct_nontrivial=len(distinct),
        events_validated=stats["events"], contradictions_found=stats["contradictions"],
        contradictions_by_signature=stats["signatures"], model_vs_code_differences=stats["model_diffs"],
        violation_signatures_not_written_out=stats["suppressed"],
        rule="one evaluation = one Compare(x, y) answered by a real jsondb comparer object (or one store scan); a case is a (comparer configuration, history, probe pair) and is non-trivial when the two probe keys differ; distinct by the full JSON of configuration, history and probe. Exhaustive = every memory state of the model and every comparison from it within the stated constants.",
        coverage_actions={k: v for k, v in r_mc.coverage.items()} if r_mc.coverage else None,
    ))
    c.assumptions += ["value pool of 17 ids; <= 3 index fields; histories <= 3 in the exhaustive part",
                      "unexported jsondb comparers reached through a go build -overlay export file",
                      "for keys of different JSON kinds any consistent order is accepted"]


if __name__ == "__main__":
    vlib.main(run, "C30")
