"""C31 — streamed values read back exactly as written; update replaces completely; remove deletes that entry only.
Spec: spec/Stream.tla (+StreamTrace).  The design model is checked exhaustively by TLC (every interleaving of
writer sessions, removes and readers with every sequence of Read capacities, small constants).  The real
streamingdata package (filesystem backend) is then driven by harness/cmd/stream; every call on the store, the
Encoder, the json.Decoder and the reader underneath it is logged and the logs are validated line by line by TLC
against the same actions (StreamTrace): TLC decides how many bytes each Read returns, which value each Decode
yields, when EOF comes and what a scan of the underlying B-tree shows after every program."""
import json, os, re, hashlib
import vlib

META = dict(
    property_id="C31", engine="Stream",
    technique="TLA+ spec of chunk store / writer / reader; TLC exhaustive on small constants; Read/Decode/Encode/Remove call logs of the real package and B-tree scans trace-validated by TLC",
    level="model_checking",
    level_text="TLC enumerates all behaviours of the writer/reader state machine for 2 keys, <=3 chunks per entry, chunk lengths {1,3}, every Read-capacity sequence, writers and a reader interleaved (exhaustive within the constants) and checks the read-back, update-replaces and contiguity invariants in every state; the same actions then accept or reject, event by event, call logs recorded from the real code for values from 2 bytes to megabytes (chunks far beyond the json.Decoder buffer), exhaustive small Read-capacity patterns on the real reader, add/update/remove programs over four keys and seeded random programs, with the invariants evaluated on every step of every implementation trace.",
    level_note="Byte equality of payloads is outside TLA+: every value carries its own id and is regenerated from (id, kind, size) on the Go side and compared with the decoded value; TLC decides which id, which lengths, which EOF. The io.Reader inside the json.Decoder is reached by reflection (field r) to log its Read calls and to drive it with chosen capacities. One chunk = one Encoder.Encode call (how the package writes); AddChunk/UpdateChunk/RemoveChunk (raw chunk API) and concurrent transactions are not exercised. Filesystem backend with in-memory L2 cache, three value placements (separate segment, globally cached, actively persisted); commits are stuttering steps of the specification, so a scan after Commit must show what the calls before it produced. The trace configuration keeps the finding action ReadPendingLastStuck (reader defect repaired by bce4f3ae) enabled next to the intended action; a trace counts as held only if TLC finds an explanation that does not use it, any trace that needs it is reported (signature reader:chunk-redelivered-after-partial-read). After 8 rejected traces the remaining traces of a run are not validated (each rejection costs a TLC run).",
    design_ref="C31",
)

STUCK_SIG = "reader:chunk-redelivered-after-partial-read"


def norm(evs):
    out = []
    for e in evs:
        e = dict(e)
        e.pop("note", None)
        out.append(e)
    return out


def validate(c, traces, chunk_lines=5000, parallel=3, max_rejections=8):
    """Validate traces with StreamTrace.  Returns (ends, rejections): ends[name] = set of booleans
    ('this explanation used the finding action'), rejections as in vlib.validate_traces."""
    from concurrent.futures import ThreadPoolExecutor
    ends, rej = {}, []
    batches, cur, n = [], [], 0
    for t in traces:
        if cur and n + len(t[1]) > chunk_lines:
            batches.append(cur); cur, n = [], 0
        cur.append(t); n += len(t[1]) + 2
    if cur:
        batches.append(cur)

    total_rej = [0]

    def one(bi):
        pending = list(batches[bi])
        e, rj, st, tr, nv, k = {}, [], 0, 0, 0, 0
        while pending and total_rej[0] < max_rejections:
            lines, index = [], []
            for ti, (name, evs) in enumerate(pending):
                lines.append(json.dumps({"ev": "Reset", "trace": name})); index.append((ti, -1))
                for ei, ev in enumerate(evs):
                    lines.append(json.dumps(ev, sort_keys=True)); index.append((ti, ei))
            k += 1
            r = c.tlc("StreamTrace", "StreamTrace.cfg", workers=1, timeout=1500,
                      files={"trace.ndjson": "\n".join(lines) + "\n"}, tag="trace-b%d-%d" % (bi, k))
            if r.timed_out:
                raise vlib.InfraError("trace validation timed out (StreamTrace)")
            hwm = None
            for pr in r.prints:
                m = re.search(r'"HWM",\s*(\d+)', pr)
                if m:
                    hwm = int(m.group(1))
                m = re.match(r'<<"END", "(.*)", (TRUE|FALSE)>>', pr)
                if m:
                    e.setdefault(m.group(1), set()).add(m.group(2) == "TRUE")
            if hwm is None and r.violated not in (None, "postcondition"):
                # an invariant failed in the state reached by consuming line l-1: that event is the offender
                ls = re.findall(r"/\\ l = (\d+)", r.out)
                if ls:
                    hwm = max(0, int(ls[-1]) - 2)
            if hwm is None:
                raise vlib.InfraError("trace validation produced no HWM (StreamTrace):\n%s" % r.out[-5000:])
            st += r.distinct; tr += r.generated
            if hwm >= len(lines):
                if r.violated and r.violated != "postcondition":
                    raise vlib.InfraError("trace spec error: %s\n%s" % (r.violated, r.out[-4000:]))
                nv += len(pending)
                pending = []
            else:
                ti, ei = index[hwm]
                name, evs = pending[ti]
                inv = r.violated if r.violated not in (None, "postcondition") else None
                total_rej[0] += 1
                rj.append(dict(trace=name, index=ei, event=evs[ei] if ei >= 0 else None, events=evs, invariant=inv,
                               tlc_tail=r.out[-1500:] if inv else ""))
                for nm, _ in pending[ti:]:
                    e.pop(nm, None)
                nv += ti
                pending = pending[ti + 1:]
        return e, rj, st, tr, nv

    with ThreadPoolExecutor(max_workers=parallel) as ex:
        for e, rj, st, tr, nv in ex.map(one, range(len(batches))):
            ends.update(e); rej += rj
            c.cov["states"] += st; c.cov["transitions"] += tr
            c.cov["traces_validated_against_impl"] += nv
    return ends, rej, total_rej[0] >= max_rejections


def compact(e):
    return {k: v for k, v in e.items() if v not in ("", 0, False, []) or k in ("ok", "n", "eof")}


def suite_of(name):
    name = name.split("@")[0]
    return re.sub(r"[-0-9s]+$", "", re.sub(r"-\d+(-\w+)?$", "", name)) or name


LOST_REMOVE_SIG = "actively-persisted-store:remove-only-transaction-not-persisted"


def remove_only_tx_before(name, evs, idx):
    """History class of a rejected trace: the store keeps values actively persisted and, before the rejected
    event, a writing transaction was committed whose only effective calls were successful Remove()s.
    (Conservative: any Update/Upsert session or successful Encode counts as another kind of change.)"""
    if not name.endswith("@active"):
        return False
    removes = others = 0
    for e in evs[:idx]:
        k = e["ev"]
        if k == "Tx":
            if removes and not others and e["ok"]:
                return True
            removes = others = 0
        elif k == "Remove" and e["ok"]:
            removes += 1
        elif (k == "Encode" and e["ok"]) or (k == "Begin" and e["got"] and e["api"] in ("Update", "Upsert")):
            others += 1
    return False


def action_coverage(out):
    """last -coverage block: action name -> (distinct, taken)"""
    cov = {}
    for m in re.finditer(r"^<(\w+) line [^>]*>: (\d+):(\d+)", out, re.M):
        cov[m.group(1)] = (int(m.group(2)), int(m.group(3)))
    return cov


def run(c):
    # 1. design level
    cfg = "Stream_mc.cfg" if c.quick else "Stream_mc_thorough.cfg"
    r = c.tlc_must_pass("Stream", cfg, workers=4, timeout=c.pick(400, 1500), coverage=True)
    cover = action_coverage(r.out)
    mcacts = ["MCBegin", "MCEncode", "MCClose", "MCRemove", "MCOpen", "MCReadEOF", "MCReadFetch", "MCReadPendingMore",
              "MCReadPendingLast", "MCDecodeValue", "MCDecodeEOF", "MCDone"]
    zero = [a for a in mcacts if cover.get(a, (0, 0))[1] == 0]
    if zero:
        raise vlib.InfraError("vacuity: actions never taken in %s: %s" % (cfg, zero))
    # the finding action switched on: TLC must refute the read-back property (and only that one)
    rs = c.tlc("Stream", "Stream_mc_stuck.cfg", workers=2, timeout=300, coverage=True)
    if rs.violated != "DecodedInOrderAll":
        raise vlib.InfraError("Stream_mc_stuck.cfg: expected TLC to refute DecodedInOrderAll with the finding action enabled, got %s\n%s"
                              % (rs.violated, rs.out[-3000:]))
    c.cov["states"] += rs.distinct
    c.cov["transitions"] += rs.generated

    # 2. real code -> traces
    binp = c.build("stream")
    traces, stats = [], []
    for suite in ("sizes", "programs", "repro", "readers", "random"):
        out = os.path.join(c.scratch, suite + ".ndjson")
        p = c.run([binp, "run", c.datadir("data-" + suite), out, suite], timeout=c.pick(600, 3000))
        try:
            stats.append(dict(suite=suite, **json.loads(p.stdout.strip().splitlines()[-1])))
        except Exception:
            raise vlib.InfraError("driver printed no summary: %s" % p.stdout[-500:])
        traces += vlib.split_traces(vlib.read_ndjson(out))
    full = {n: e for n, e in traces}
    ends, rej, capped = validate(c, [(n, norm(e)) for n, e in traces], parallel=c.pick(3, 5))

    # 3. verdicts
    for x in rej[:5]:
        ev = x["event"] or {}
        what = "call log of the real streamingdata code is not a behaviour of Stream at event %d of trace %s: %s" % (
            x["index"], x["trace"], json.dumps(compact(full[x["trace"]][x["index"]]) if x["index"] >= 0 else None)[:1200])
        if x["invariant"]:
            what += " (invariant %s)" % x["invariant"]
        sig = "trace-rejected:%s:%s%s" % (suite_of(x["trace"]), ev.get("ev"), ":" + x["invariant"] if x["invariant"] else "")
        if x["index"] >= 0 and remove_only_tx_before(x["trace"], full[x["trace"]], x["index"]):
            sig = LOST_REMOVE_SIG
        c.report(sig,
                 what, dict(trace=x["trace"], events=full[x["trace"]][:x["index"] + 1][-60:], rejected_index=x["index"], tlc=x["tlc_tail"]))
    stuck = sorted(n for n, s in ends.items() if s == {True})
    for n in stuck[:5]:
        evs = full[n]
        # first place where a value comes out twice
        seen, where = {}, None
        for i, e in enumerate(evs):
            if e["ev"] == "Open":
                seen[e["r"]] = []
            if e["ev"] == "Decode" and e["ok"]:
                if e["id"] in seen.get(e["r"], []):
                    where = i
                    break
                seen.setdefault(e["r"], []).append(e["id"])
        lo = max(0, (where or 0) - 25)
        c.report(STUCK_SIG,
                 "trace %s is a behaviour of Stream only with the finding action ReadPendingLastStuck: after a chunk was consumed in "
                 "several Reads the reader serves the same chunk index again (value decoded twice at event %s)" % (n, where),
                 dict(trace=n, events=evs[lo:(where or 0) + 3], duplicate_at=where))
    missing = [n for n, _ in traces if n not in ends and n not in [x["trace"] for x in rej]]
    if missing and not capped:      # (after max_rejections rejections the remaining traces are not validated)
        raise vlib.InfraError("traces without END marker: %s" % missing[:5])

    # 4. evidence
    reads = partial = decodes = observes = 0
    maxlen = 0
    distinct = set()
    for n, evs in traces:
        nt = False
        for e in evs:
            if e["ev"] == "Read":
                reads += 1
                if e["n"] == e["cap"] and not e["eof"]:
                    partial += 1
                    nt = True
            elif e["ev"] == "Decode" and e["ok"]:
                decodes += 1
            elif e["ev"] == "Observe":
                observes += 1
            elif e["ev"] == "Encode":
                maxlen = max(maxlen, e["len"])
        if nt:
            distinct.add(hashlib.sha1(json.dumps(norm(evs), sort_keys=True).encode()).hexdigest())
    c.sample(dict(trace=traces[0][0], first_events=[{k: v for k, v in e.items() if v not in ("", 0, False, [])} for e in traces[0][1][:14]]))
    big = next((t for t in traces if t[0].startswith("size-5000")), traces[-1])
    c.sample(dict(trace=big[0], reads=[[e["cap"], e["n"], e["eof"]] for e in big[1] if e["ev"] == "Read"][:12],
                  decoded_ids=[e["id"] for e in big[1] if e["ev"] == "Decode"][:12]))
    c.sample(dict(driver_summaries=stats))
    c.cov.update(dict(
        exhaustive=False, evaluations=len(traces), distinct_nontrivial=len(distinct),
        rule="one case = one program on a fresh store (writes, removes, reads, scans) logged as one trace and validated by TLC; "
             "non-trivial = contains at least one Read that filled the caller's buffer (a chunk consumed in pieces); distinct by hash of the event list",
        reads=reads, reads_filling_buffer=partial, values_decoded=decodes, btree_scans=observes, max_chunk_bytes=maxlen,
        traces_clean=len([1 for s in ends.values() if False in s]), traces_needing_finding_action=len(stuck),
        design_model=dict(cfg=cfg, states=r.distinct, transitions=r.generated, depth=r.depth,
                          coverage_actions={k: list(v) for k, v in cover.items() if k.startswith("MC")}),
        finding_model=dict(cfg="Stream_mc_stuck.cfg", refuted=rs.violated,
                           coverage_stuck_action=list(action_coverage(rs.out).get("MCReadPendingLastStuck", (0, 0)))),
    ))
    c.assumptions += ["one chunk = one Encoder.Encode call; raw chunk API (AddChunk/UpdateChunk/RemoveChunk) not exercised",
                      "single process, one transaction at a time; filesystem backend, in-memory L2 cache",
                      "payload byte equality decided on the Go side from self-identifying values",
                      "encoding/json.Decoder field r reached by reflection to trace/drive the package's reader"]


if __name__ == "__main__":
    vlib.main(run, "C31")
