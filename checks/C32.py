"""C32 — text search returns exactly the matching documents, ranked by BM25.
Spec: spec/TextIndex.tla (+TextIndexTrace).  Design level: TLC enumerates every way of indexing small corpora
over transactions (commit / rollback) with a vocabulary in which terms are prefixes of other terms and ids may
contain the postings separator, and checks that the statistics are what their names say and that the prefix scan
over the sorted postings keys returns exactly the documents containing the term.  Conformance: the real
search.Index is driven by harness/cmd/textindex; TLC validates every event: documents (token lists of the real
tokenizer), the four B-trees read back, and the id list of every search.  The BM25 number is compared on the Go
side with the documented formula evaluated over the integers TLC has just validated."""
import json, os, re, hashlib
import vlib

META = dict(
    property_id="C32", engine="TextIndex",
    technique="TLA+ spec of the index statistics, transactions and the postings prefix scan; TLC exhaustive on small constants; Add/Search/commit call logs and read-back of the four stores trace-validated by TLC; BM25 numbers by reference function over the validated integers",
    level="model_checking",
    level_text="TLC enumerates all behaviours for up to 2 (quick) / 3 (thorough) documents out of 4 ids, 4 terms (a term that is a prefix of two others, a non-ASCII letter sorting after the separator, ids containing the separator), documents and queries of up to 2 tokens, any split into committed / rolled back transactions, and checks in every state that N, total length, document lengths and document frequencies equal their definitions over tf, that postings keys are injective and that the code's prefix scan yields exactly the documents containing the term (so Search = the matching set).  Every event recorded from the real search.Index is then accepted or rejected by the same actions: AddDoc with the real tokenizer's tokens, Observe with the four B-trees read back (postings, term_stats, doc_stats, global) which must equal the model's integers, Search with the returned ids which must be the model's match set, each once.",
    level_note="The numeric half of C32 is NOT decided by TLC: log and floating point are outside TLA+. The driver evaluates the formula documented in search/index.go (idf = ln((N-n+0.5)/(n+0.5)+1), k1=1.2, b=0.75, summed over query tokens with multiplicity) over the integers of the latest Observe event, which the trace specification has validated against the model, and compares with the returned scores (relative tolerance 1e-9) and checks the non-increasing order; the outcome enters the trace as booleans that the Search action requires to be TRUE. 'Contains a query term' is relative to the real tokenizer (its output is logged, not re-implemented). The index's B-tree handles are reached by reflection for the read-back. Documents are distinct (premise of the property). Filesystem backend, in-memory L2 cache, one process, one transaction at a time; postings tree beyond one node (slot length 5000) only in the thorough tier.",
    design_ref="C32",
)


def norm(evs):
    out = []
    for e in evs:
        e = dict(e)
        for k in ("note", "text", "scores", "ref", "name"):
            e.pop(k, None)
        out.append(e)
    return out


def suite_of(name):
    m = re.match(r"(fixed-[a-z\-]+?)-(tx\d+|rollback)$", name)
    if m:
        return m.group(1)
    return "random"


def classify(ev):
    """stable description of a rejected event"""
    if ev is None:
        return "start"
    k = ev.get("ev")
    if k == "Search":
        if not ev.get("ok"):
            return "Search:error"
        if not ev.get("scores_ok"):
            return "Search:score-differs-from-formula"
        if not ev.get("order_ok"):
            return "Search:not-descending"
        return "Search:wrong-document-set"
    if k == "Observe":
        return "Observe:stores-differ-from-model" if ev.get("ok") else "Observe:unreadable"
    return "%s:%s" % (k, "ok" if ev.get("ok") else "failed")


def action_coverage(out):
    """last -coverage block: action name -> (distinct, taken)"""
    cov = {}
    for m in re.finditer(r"^<(\w+) line [^>]*>: (\d+):(\d+)", out, re.M):
        cov[m.group(1)] = (int(m.group(2)), int(m.group(3)))
    return cov


def run(c):
    cfg = "TextIndex_mc.cfg" if c.quick else "TextIndex_mc_thorough.cfg"
    r = c.tlc_must_pass("TextIndex", cfg, workers=4, timeout=c.pick(500, 1700), coverage=True)
    acts = ["TxBegin", "TxCommit", "TxRollback", "MCAddDoc", "Search"]
    cover = action_coverage(r.out)
    zero = [a for a in acts if cover.get(a, (0, 0))[1] == 0]
    if zero:
        raise vlib.InfraError("vacuity: actions never taken in %s: %s" % (cfg, zero))

    binp = c.build("textindex")
    traces, stats = [], []
    for suite in ("fixed", "random"):
        out = os.path.join(c.scratch, suite + ".ndjson")
        p = c.run([binp, "run", c.datadir("data-" + suite), out, suite], timeout=c.pick(600, 2400))
        try:
            stats.append(dict(suite=suite, **json.loads(p.stdout.strip().splitlines()[-1])))
        except Exception:
            raise vlib.InfraError("driver printed no summary: %s" % p.stdout[-500:])
        traces += vlib.split_traces(vlib.read_ndjson(out))
    full = dict(traces)
    rej, normed, step = [], [(n, norm(e)) for n, e in traces], c.pick(13, 10)
    for off in range(0, len(normed), step):
        rej += c.validate_traces("TextIndexTrace", "TextIndexTrace.cfg", normed[off:off + step], chunk=step, timeout=1500)
        if len(rej) >= 6:      # enough to report; every further rejection costs another TLC run
            break
    seen = set()
    for x in rej:
        ev = full[x["trace"]][x["index"]] if x["index"] >= 0 else None
        sig = "trace-rejected:%s:%s" % (suite_of(x["trace"]), classify(ev))
        if sig in seen and len(seen) > 8:
            continue
        seen.add(sig)
        lo = max(0, x["index"] - 30)
        c.report(sig, "event %d of trace %s (real search.Index) is not a step of TextIndex: %s" % (
            x["index"], x["trace"], json.dumps(ev, ensure_ascii=False)[:1500]),
                 dict(trace=x["trace"], events=full[x["trace"]][lo:x["index"] + 1], rejected_index=x["index"], tlc=x["tlc_tail"]))

    searches = hits = multi = observes = docs = 0
    distinct = set()
    for n, evs in traces:
        ctx = []
        for e in evs:
            if e["ev"] == "AddDoc":
                docs += 1
                ctx.append((e["d"], tuple(e["toks"])))
            elif e["ev"] in ("TxCommit", "TxRollback", "TxBegin"):
                ctx.append(e["ev"])
            elif e["ev"] == "Observe":
                observes += 1
            elif e["ev"] == "Search":
                searches += 1
                hits += len(e["ids"])
                if e["ids"]:
                    multi += 1
                    distinct.add(hashlib.sha1(json.dumps([ctx, e["q"]], ensure_ascii=False).encode()).hexdigest())
    sample_tr = next((t for t in traces if t[0].startswith("fixed-prefix-terms-tx2")), traces[0])
    c.sample(dict(trace=sample_tr[0], events=[{k: v for k, v in e.items() if v not in ("", 0, False, [])}
                                              for e in sample_tr[1] if e["ev"] != "Observe"][:12]))
    ob = next((e for e in sample_tr[1] if e["ev"] == "Observe" and e["post"]), None)
    if ob:
        c.sample(dict(observe=dict(post=ob["post"][:8], df=ob["df"][:8], dl=ob["dl"], n=ob["n"], tl=ob["tl"])))
    c.sample(dict(driver_summaries=stats))
    c.cov.update(dict(
        exhaustive=False, evaluations=searches, distinct_nontrivial=len(distinct),
        rule="one case = one Search on an index built by a logged history of transactions; non-trivial = returns at least one document; "
             "distinct by (history of AddDoc token lists and transaction boundaries so far, query tokens)",
        searches=searches, searches_with_hits=multi, documents_returned=hits, documents_indexed=docs, store_readbacks=observes,
        corpora=len(traces),
        design_model=dict(cfg=cfg, states=r.distinct, transitions=r.generated, depth=r.depth,
                          coverage_actions={k: list(v) for k, v in cover.items() if k in acts}),
    ))
    c.assumptions += ["BM25 scores and their order are compared by a Go reference function over TLC-validated integer statistics (tolerance 1e-9 relative)",
                      "tokens are those of the real tokenizer; documents are distinct",
                      "single process, one transaction at a time; filesystem backend, in-memory L2 cache"]


if __name__ == "__main__":
    vlib.main(run, "C32")
