"""C33 — the vector store returns live items and correctly ranked query hits; Optimize never loses, duplicates or
resurrects items.
Spec: spec/VectorStore.tla (+Trace).  Technique:
 1. TLC explores the complete state graph of the store model (3 ids x 3-4 equal-norm integer vectors x 2 payload
    tags, call sequences of any length, <= 2-3 optimizations, with and without the ingestion buffer) and checks C33 on
    every state and on every result Query may return (VectorStore_mc*.cfg); a second run explores the model with the
    named deviations of the pinned commit switched on and lists the programs that break C33 there (VectorStore_asis*).
 2. spec -> code: one program per reachable model state is emitted; a seeded stratified sample of them (and of the
    deviation witnesses) is executed on the real ai/vector store (filesystem backend, in-memory L2 cache) under every
    UsageMode, ingestion-buffer mode and transaction policy; stores larger than the batch sizes of Optimize and
    Consolidate and seeded random long programs (10 ids, 6 vectors, repeated ids in batches) are added.
 3. code -> spec: after each mutating call the driver reads Get on every id and Query on the probes; TLC validates
    every call log against VectorStoreTrace (strict constants).  A rejected log is validated again with the deviation
    constants: only if they explain the whole log is it attributed to a named deviation (known finding); the unpacked
    log names the exact call.  The spec is the only oracle.
 4. white box, no verdict: dumps of the Content / Vectors / TempVectors trees must equal the concrete model state."""
import concurrent.futures, hashlib, json, os, re, time
import vlib

META = dict(
    property_id="C33", engine="VectorStore",
    technique="TLA+ model of the store's trees (Content keys with tombstones, Vectors entries, TempVectors, version) checked exhaustively by TLC; one program per reachable model state replayed on the real ai/vector store and every call log (Upsert/UpsertBatch/Delete/Optimize, then Get on all ids and Query on all probes) trace-validated by TLC; seeded random long programs likewise",
    level="model_checking",
    level_text="TLC visits every reachable state of the model for 3 ids x 4 vectors x 2 payloads (unbounded call sequences, bounded number of optimizations) and evaluates the C33 invariants on each state and on every result Query may return; the model is bound to the code in both directions: TLC-generated programs are executed on the real store and all real call logs must be behaviours of the model (exact Get results; Query hits distinct, live, filtered, ranked by the integer dot products TLC computes itself).",
    level_note="Cosine ranking is decided exactly because all vectors have equal norm (score * |v|^2 rounded to the integer dot product in the driver). Query recall is not demanded (nprobe = 2 makes the search approximate; C33 says 'at most k'), so changes that only lose hits are not detected. Single client, no crash or cancellation inside Optimize (the clean-up / grace-period branch of a previously failed optimization is not reached), filesystem backend with the in-memory cache; deduplication left enabled (disabling it is documented to allow ghost vectors). The replayed programs are a sample of the model's behaviours (all states are checked by TLC, one program per state is available). UsageMode DynamicWithVectorCountTracking and always-on ingestion buffer are isolated input classes because of recorded defects.",
    design_ref="C33",
)

CLASS_TEXT = {
    "uNb0": "UsageMode BuildOnceQueryMany/Dynamic, no ingestion buffer",
    "uNb1": "UsageMode BuildOnceQueryMany/Dynamic, ingestion buffer on every open",
    "uNb2": "UsageMode BuildOnceQueryMany/Dynamic, ingestion buffer until the first Optimize",
    "uTb0": "UsageMode DynamicWithVectorCountTracking, no ingestion buffer",
    "uTb1": "UsageMode DynamicWithVectorCountTracking, ingestion buffer on every open",
    "uTb2": "UsageMode DynamicWithVectorCountTracking, ingestion buffer until the first Optimize",
}


def cls_of(usage, buf):
    return "u%sb%d" % ("T" if usage == 1 else "N", buf)


def parse_prints(res):
    vecs, beh, cex = None, [], []
    for p in res.prints:
        m = re.match(r'<<"(VECS|BEH|CEX)", (".*")>>$', p)
        if not m:
            continue
        val = json.loads(vlib.tla_unquote(m.group(2)))
        if m.group(1) == "VECS":
            vecs = val
        elif m.group(1) == "BEH":
            beh.append(val)
        else:
            cex.append(val)
    return vecs, beh, cex


def steps_of(b):
    out = []
    for o in b["ops"]:
        if o["op"] == "Upsert":
            out.append(dict(op="Upsert", id=o["id"], v=o["v"], p=o["p"]))
        elif o["op"] == "UpsertBatch":
            out.append(dict(op="UpsertBatch", items=[list(x) for x in o["items"]]))
        elif o["op"] == "Delete":
            out.append(dict(op="Delete", id=o["id"]))
        elif o["op"] == "Optimize":
            out.append(dict(op="Optimize"))
    return out


def hkey(seed, b):
    return hashlib.sha1(("%d|" % seed + json.dumps(b, sort_keys=True)).encode()).hexdigest()


def select(behs, n, seed):
    """Seeded sample of n behaviours, stratified by (buffer mode, number of Optimize calls, has a Delete before
    an Optimize): longer programs first inside a stratum (the driver reads the store after every step, so a
    program also exercises all its prefixes)."""
    strata = {}
    for b in behs:
        ops = [o["op"] for o in b["ops"]]
        if not ops:
            continue
        nopt = ops.count("Optimize")
        dbo = any(o == "Delete" and "Optimize" in ops[i + 1:] for i, o in enumerate(ops))
        strata.setdefault((b["buf"], nopt, dbo, "UpsertBatch" in ops), []).append(b)
    for k in strata:
        strata[k].sort(key=lambda b: (-len(b["ops"]), hkey(seed, b)))
    out, i = [], 0
    keys = sorted(strata)
    while len(out) < n and any(strata.values()):
        k = keys[i % len(keys)]
        i += 1
        if strata[k]:
            out.append(strata[k].pop(0))
    return out


NEEDS = dict(Setup=("usage", "buf"), Upsert=("id", "v", "p", "ok"), UpsertBatch=("items", "ok"), Delete=("id", "ok"),
             Optimize=("ok",), Get=("id", "ok", "v", "p"), Query=("q", "k", "f", "ok", "hits"), CommitFailed=(),
             Inspect=("ver", "content", "idx", "tmp"))
DEFAULT = dict(usage=0, buf=0, id=0, v=0, p=0, items=[], q=0, k=0, f=0, hits=[], ok=False, ver=0, content=[], idx=[], tmp=[])


def norm(e):
    """The fields VectorStoreTrace reads from a line of this kind, in the compact encoding (hit = [id, sd, p]);
    ndJsonDeserialize is slow, so nothing else is written."""
    o = {"ev": e["ev"]}
    for k in NEEDS.get(e["ev"], ()):
        o[k] = e.get(k, DEFAULT[k])
    if "hits" in o:
        o["hits"] = [[h["id"], h["sd"], h["p"]] for h in (o["hits"] or [])]
    if "items" in o:
        o["items"] = [list(x) for x in (o["items"] or [])]
    for k in ("content", "idx", "tmp"):
        if k in o:
            o[k] = [list(x) for x in (o[k] or [])]
    return o


def pack(evs):
    """Pack every run of Get/Query lines into one Observe line (same content, far fewer TLC steps)."""
    out, cur = [], None
    for e in evs:
        if e["ev"] in ("Get", "Query"):
            if cur is None:
                cur = {"ev": "Observe", "gets": [], "queries": []}
                out.append(cur)
            if e["ev"] == "Get":
                cur["gets"].append([e["id"], e["ok"], e["v"], e["p"]])
            else:
                cur["queries"].append([e["q"], e["k"], e["f"], e["ok"], e["hits"]])
        else:
            cur = None
            out.append(e)
    return out


def kind_of(ev):
    t = ev["ev"]
    raw = ev.get("_raw", {})
    if raw.get("panic"):
        return "panic"
    err = raw.get("err", "")
    if t in ("CommitFailed", "Optimize") and "MarshalJSON" in err and ("invalid character" in err or "unsupported value" in err):
        return "nonfinite-centroid"     # a commit (Optimize commits first) could not serialise an Inf/NaN centroid
    if t == "Get":
        return "err" if not ev["ok"] else ("ok-v0" if ev["v"] == 0 else "ok-vec")
    if t == "Query":
        if not ev["ok"]:
            return "err"
        return "score-not-from-table" if any(h[1] == -99 for h in ev["hits"]) else "hits"
    if t == "CommitFailed":
        return "other"
    return "ok" if ev["ok"] else "err"


def run(c):
    quick = c.quick
    # ---- 1. design level -------------------------------------------------------------------------------
    r = c.tlc_must_pass("VectorStore", c.pick("VectorStore_mc.cfg", "VectorStore_mc_thorough.cfg"),
                        workers=c.pick(4, 6), timeout=c.pick(600, 1500), coverage=not quick)
    vecs, behs, _ = parse_prints(r)
    if not vecs or len(behs) < 1000:
        raise vlib.InfraError("TLC emitted no vector table / too few behaviours (%d)" % len(behs))
    cover = {}
    if not quick:
        # per-action (distinct, total) of the exhaustive run; TLC lists the Query disjunct under the name Next
        for mm in re.finditer(r"^<(\w+) line \d+, col \d+ to line \d+, col \d+ of module VectorStore(?: \([\d ]+\))?>: (\d+):(\d+)",
                              r.out, re.M):
            nm = "Query" if mm.group(1) == "Next" else mm.group(1)
            cover[nm] = (int(mm.group(2)), int(mm.group(3)))
        missing = [a for a in ("Upsert", "UpsertBatch", "Delete", "Optimize", "Get", "Query") if cover.get(a, (0, 0))[1] == 0]
        if missing:
            raise vlib.InfraError("vacuous exhaustive model: actions never taken: %s" % missing)
    # the model of what the code does at the pinned commit (named deviations switched on): it is expected to break
    # C33; TLC lists the programs that reach a violating state (CEX) and all others (BEH)
    ra = c.tlc_must_pass("VectorStore", c.pick("VectorStore_asis.cfg", "VectorStore_asis_thorough.cfg"), workers=c.pick(4, 6), timeout=c.pick(600, 1500))
    _, behs_asis, cex_asis = parse_prints(ra)

    # ---- 2. programs --------------------------------------------------------------------------------------
    progs = []
    combos = [(0, "each"), (2, "one"), (2, "each"), (0, "one")]
    nsel = c.pick(160, 2000)
    sel = select(behs, nsel, c.seed)
    probe = dict(qs=c.pick([1, 2, 3], [1, 2, 3, 4]), ks=[1, 3], fs=[0, 1, 2])
    for i, b in enumerate(sel):
        todo = [combos[i % 4]] if quick else [combos[i % 4], combos[(i + 1) % 4]]
        if i % c.pick(6, 3) == 0:
            todo = todo + [(1, "each" if i % 2 else "one")]
        for usage, policy in todo:
            progs.append(dict(name="b%d_u%d%s" % (i, usage, policy[0]), usage=usage, buffer=b["buf"], policy=policy,
                              steps=steps_of(b), inspect=(usage != 1 and b["buf"] != 1), **probe))
    # witnesses of the named deviations and other as-is behaviours (buffer modes 1 and 2)
    wsel = select(cex_asis, c.pick(24, 240), c.seed) + select(behs_asis, c.pick(12, 120), c.seed + 1)
    for i, b in enumerate(wsel):
        usage, policy = combos[i % 4]
        progs.append(dict(name="w%d_u%d%s" % (i, usage, policy[0]), usage=usage, buffer=b["buf"], policy=policy,
                          steps=steps_of(b), inspect=(b["buf"] != 1), **probe))
    gen_main = dict(count=c.pick(8, 160), len=c.pick(25, 60), nids=10, nv=6, np=2, configs=[[0, 0], [2, 0], [2, 2], [0, 2]],
                    ks=[0, 1, 3, 12], p_optimize=0.1, probe_every=1, probe_sample=8, inspect=True)
    gen_side = dict(count=c.pick(6, 60), len=c.pick(20, 40), nids=6, nv=6, np=2, configs=[[1, 0], [2, 1], [1, 2], [0, 1]],
                    ks=[1, 3, 12], p_optimize=0.12, probe_every=1, probe_sample=8)

    # stores larger than the batch sizes of Optimize (200 vectors per transaction) and Consolidate (100)
    def big(name, usage, buf, n, tail):
        items = [[i, 1 + (i * 7 + i // 6) % 6, 1 + i % 2] for i in range(1, n + 1)]
        steps = [dict(op="UpsertBatch", items=items[:n // 2]), dict(op="UpsertBatch", items=items[n // 2:]),
                 dict(op="Optimize")] + tail
        return dict(name=name, usage=usage, buffer=buf, policy="one", steps=steps, qs=[1, 2, 3, 4], ks=[n + 10], fs=[0, 1],
                    nids=n)
    tail = ([dict(op="Delete", id=i) for i in (1, 200, 201, 450)] +
            [dict(op="Upsert", id=i, v=1 + i % 6, p=2) for i in (2, 200, 399)] + [dict(op="Optimize")])
    bigs = [big("big_u2b0", 2, 0, 450, tail), big("big_u0b2", 0, 2, 150, [])]
    if not quick:
        bigs += [big("big_u0b0", 0, 0, 450, tail), big("big_u1b0", 1, 0, 450, tail), big("big_u2b2", 2, 2, 450, tail)]

    binp = c.build("vectorstore")
    shards = c.pick(6, 8)
    plans = []
    for s in range(shards):
        plan = dict(vecs=vecs, nids=3, programs=progs[s::shards])
        plans.append(plan)
    plans.append(dict(vecs=vecs, nids=3, programs=bigs))
    ng = c.pick(2, 4)
    for g in range(ng):
        plans.append(dict(vecs=vecs, nids=3, programs=[], prefix="rm%d_" % g,
                          gen=dict(gen_main, count=max(1, gen_main["count"] // ng), seed_add=g)))
    plans.append(dict(vecs=vecs, nids=3, programs=[], gen=dict(gen_side, seed_add=99), prefix="rs"))

    def drive(i):
        pf = os.path.join(c.scratch, "plan%d.json" % i)
        of = os.path.join(c.scratch, "out%d.ndjson" % i)
        json.dump(plans[i], open(pf, "w"))
        c.run([binp, "run", pf, c.datadir("data%d" % i), of], timeout=c.pick(900, 3000))
        return vlib.split_traces(vlib.read_ndjson(of))

    t0 = time.time()
    with concurrent.futures.ThreadPoolExecutor(max_workers=c.pick(6, 8)) as ex:
        results = list(ex.map(drive, range(len(plans))))
    vlib.log("drivers: %d plans in %.1fs" % (len(plans), time.time() - t0))
    traces = []
    for part in results:
        traces += part

    # ---- 3. code -> spec ------------------------------------------------------------------------------------
    calls = 0
    whitebox = {}
    items = []       # (name, cls, normalised events, raw events)
    distinct = set()
    for name, evs in traces:
        for e in evs:
            if e["ev"] == "DriverError":
                raise vlib.InfraError("driver could not run program %s: %s" % (name, e.get("err")))
        nevs, wb = [], []
        for e in evs:
            n = norm(e)
            if e["ev"] == "Inspect":
                wb.append(n)          # white-box dump: kept out of the verdict traces
                continue
            n["_raw"] = e
            nevs.append(n)
            wb.append({k: v for k, v in n.items() if k != "_raw"})
        if len(wb) > len(nevs):
            whitebox[name] = wb
        calls += len(nevs)
        setup = nevs[0]
        cl = cls_of(setup["usage"], setup["buf"])
        distinct.add(json.dumps([cl] + [[e["ev"], e.get("id"), e.get("v"), e.get("p"), e.get("items")] for e in nevs
                                        if e["ev"] not in ("Get", "Query", "Setup")]))
        items.append((name, cl, nevs))

    def strip(evs):
        return [{k: v for k, v in e.items() if k != "_raw"} for e in evs]

    by_name = {name: (cl, nevs) for name, cl, nevs in items}
    if len(by_name) != len(items):
        raise vlib.InfraError("duplicate program names")
    isbig = lambda n: n.startswith("big")
    packed = [(name, pack(strip(nevs))) for name, cl, nevs in items if not isbig(name)]
    packed_big = [(name, pack(strip(nevs))) for name, cl, nevs in items if isbig(name)]
    # strict validation of everything, a few TLC processes side by side
    par = c.pick(4, 6)
    jobs = [("VectorStoreTraceBulk.cfg", packed[i::par], "bulk%d" % i) for i in range(par)]
    jobs.append(("VectorStoreTraceBig.cfg", packed_big, "big"))
    t0 = time.time()
    with concurrent.futures.ThreadPoolExecutor(max_workers=par + 1) as ex:
        res = list(ex.map(lambda j: bulk_validate(c, *j), jobs))
    rejected = sorted(set(n for part in res for n, _ in part))
    vlib.log("strict validation of %d traces: %d rejected, %.1fs" % (len(items), len(rejected), time.time() - t0))
    # is the whole log of a rejected trace explained by the named deviations of the pinned commit?
    # (all three deviations as at the pinned commit; then, for what is left, the subsets that remain when the
    # repair of Consolidate or of the buffer-blind reads has been applied to the tree under test)
    unexplained = set(n for n in rejected if by_name[n][0][3] != "0")
    explained_by = {}
    for cfg, sel_big in (("VectorStoreTraceAsIsBulk.cfg", False), ("VectorStoreTraceAsIsBig.cfg", True),
                         ("VectorStoreTraceAsIsBlindOnlyBulk.cfg", False),
                         ("VectorStoreTraceAsIsConsolidateOnlyBulk.cfg", False)):
        cand = [(n, pack(strip(by_name[n][1]))) for n in sorted(unexplained) if isbig(n) == sel_big]
        if cand:
            still = set(n for n, _ in bulk_validate(c, cfg, cand, "asis"))
            for n, _ in cand:
                if n not in still:
                    explained_by[n] = cfg
            unexplained = (unexplained - set(n for n, _ in cand)) | still
    explained = set(explained_by)
    # which call exactly: the unpacked logs of the rejected traces
    where = {}
    for cfg, sel_big in (("VectorStoreTraceBulk.cfg", False), ("VectorStoreTraceBig.cfg", True)):
        flat = [(n, strip(by_name[n][1])) for n in rejected if isbig(n) == sel_big]
        if flat:
            where.update(dict(bulk_validate(c, cfg, flat, "flat")))
    per_class = {}
    for name in rejected:
        cl, nevs = by_name[name]
        if name not in where:
            raise vlib.InfraError("packed trace rejected but unpacked accepted: %s" % name)
        idx = where[name]
        ev = nevs[idx]
        mode = "asis" if name in explained else "strict"
        sig = "%s:%s:%s:%s" % (mode, cl, ev["ev"], kind_of(ev))
        per_class[sig] = per_class.get(sig, 0) + 1
        if per_class[sig] > 2:
            continue        # same signature: counted, not reported again
        prog = [e["_raw"] for e in nevs if e["ev"] not in ("Get", "Query")]
        what = ("%s: after %s the real store answered %s, which %s" % (
            CLASS_TEXT[cl], describe(nevs, idx), json.dumps(slim(ev)),
            "only the model with the named deviations (Consolidate migrates tombstones / buffer-blind reads) allows"
            if mode == "asis" else "VectorStore does not allow"))
        c.report(sig, what, dict(program=prog, rejected_index=idx, rejected_event=ev.get("_raw"),
                                 cls=cl, trace_tail=[e["_raw"] for e in nevs[:idx + 1]][-60:]))
    c.cov["traces_validated_against_impl"] += len(items) - len(rejected)

    # the same judgement through the stop-at-first-rejection protocol of vlib (VectorStoreTrace.cfg), on a few traces
    okay = [(n, tr) for n, tr in packed if n not in rejected][:3]
    if okay and c.validate_traces("VectorStoreTrace", "VectorStoreTrace.cfg", okay, chunk=3):
        raise vlib.InfraError("bulk mode and stop-at-first-rejection mode of VectorStoreTrace disagree")
    c.cov["traces_validated_against_impl"] -= len(okay)     # already counted above

    # ---- 3b. white box (no verdict): the trees behind the store equal the concrete state of the model ----------
    t0 = time.time()
    wb_mismatch = []
    wjobs = []
    acc = [(n, pack(whitebox[n])) for n in sorted(whitebox) if n not in rejected and not isbig(n)]
    exp = [(n, pack(whitebox[n])) for n in sorted(whitebox) if n in explained and not isbig(n)]
    for i in range(par):
        if acc[i::par]:
            wjobs.append(("VectorStoreTraceBulk.cfg", acc[i::par], "wb%d" % i))
    for k, cfg in enumerate(sorted(set(explained_by[n] for n, _ in exp))):
        wjobs.append((cfg, [(n, t) for n, t in exp if explained_by[n] == cfg], "wbasis%d" % k))
    with concurrent.futures.ThreadPoolExecutor(max_workers=par + 1) as ex:
        for part in ex.map(lambda j: bulk_validate(c, *j), wjobs):
            wb_mismatch += part
    ninspect = sum(1 for n in whitebox for e in whitebox[n] if e["ev"] == "Inspect")
    for n, i in wb_mismatch[:5]:
        vlib.log("white-box mismatch (no verdict): program %s, line %s of its white-box trace" % (n, i))
    vlib.log("white box: %d dumps of %d programs compared, %d programs with a mismatch, %.1fs" %
             (ninspect, len(acc) + len(exp), len(wb_mismatch), time.time() - t0))

    # ---- 4. the as-is model is itself bound: every witness log must be a behaviour of it -------------------
    c.sample(dict(model_program=sel[len(sel) // 2]))
    if traces:
        nm, ev0 = traces[0]
        c.sample(dict(impl_trace_prefix=[e for e in ev0[:12]]))
    if cex_asis:
        c.sample(dict(asis_model_witness=cex_asis[0]))
    c.cov.update(dict(
        exhaustive=True, model_states=r.distinct, model_transitions=r.generated,
        behaviours_emitted=len(behs), behaviours_replayed=len(sel), asis_witnesses=len(cex_asis),
        asis_witnesses_replayed=len(wsel), programs_run=len(traces), api_calls_validated=calls,
        evaluations=calls, distinct_nontrivial=len(distinct),
        rule="one case = one program (configuration class, sequence of mutating calls with arguments) executed on the real store with Get on every id and Query on every probe after every call; distinct by (class, call sequence); evaluations = API calls whose result TLC checked",
        whitebox_dumps_compared=ninspect, whitebox_programs_with_mismatch=len(wb_mismatch),
        rejections=len(rejected), rejections_explained_by_named_deviations=len(explained), rejection_signatures=per_class,
        coverage_actions=cover or None,
    ))
    c.assumptions += [
        "single client; no crash inside Optimize; filesystem backend, in-memory L2 cache; deduplication enabled",
        "Query recall is not required (approximate search, nprobe = 2): any subset of the eligible items in rank order is accepted",
        "vectors of equal norm so that cosine order is integer dot-product order",
    ]


def bulk_validate(c, cfg, traces, tag):
    """One TLC run over many traces (bulk mode of VectorStoreTrace: a line that is not a step of the model is
    reported and the rest of that trace skipped).  Returns [(trace name, index of the rejected event)]."""
    lines, index = [], []
    for ti, (name, evs) in enumerate(traces):
        lines.append(json.dumps({"ev": "Reset", "trace": name}))
        index.append((ti, -1))
        for ei, ev in enumerate(evs):
            lines.append(json.dumps(ev, sort_keys=True))
            index.append((ti, ei))
    r = c.tlc("VectorStoreTrace", cfg, workers=1, timeout=c.pick(900, 2400), tag=tag,
              files={"trace.ndjson": "\n".join(lines) + "\n"})
    if r.timed_out:
        raise vlib.InfraError("trace validation timed out (%s, %d lines)" % (cfg, len(lines)))
    hwm, rej = None, []
    for pr in r.prints:
        m = re.search(r'"HWM",\s*(\d+)', pr)
        if m:
            hwm = int(m.group(1))
        m = re.search(r'"REJ",\s*(\d+)', pr)
        if m:
            rej.append(int(m.group(1)))
    if hwm is None or hwm < len(lines) or r.violated not in (None, "postcondition"):
        raise vlib.InfraError("bulk trace validation did not reach the end (%s): hwm=%s of %d, violated=%s\n%s" %
                              (cfg, hwm, len(lines), r.violated, r.out[-3000:]))
    c.cov["states"] += r.distinct
    c.cov["transitions"] += r.generated
    out = []
    for ln in rej:
        ti, ei = index[ln - 1]
        out.append((traces[ti][0], ei))
    return out


def slim(ev):
    raw = dict(ev.get("_raw") or {})
    for k in ("usage", "buf", "items", "score", "ver"):
        if k in raw and (k != "items" or not raw[k]):
            raw.pop(k)
    if raw.get("ev") != "Query":
        raw.pop("hits", None)
        for k in ("q", "k", "f"):
            raw.pop(k, None)
    return raw


def describe(nevs, idx):
    out = []
    for e in nevs[:idx + 1]:
        t = e["ev"]
        if t == "Upsert":
            out.append("U(%d,v%d,p%d)" % (e["id"], e["v"], e["p"]))
        elif t == "UpsertBatch":
            its = e["items"]
            out.append("B(%s%s)" % (",".join("%d:v%d:p%d" % tuple(x) for x in its[:4]),
                                    ",... %d items" % len(its) if len(its) > 4 else ""))
        elif t == "Delete":
            out.append("D(%d)" % e["id"])
        elif t == "Optimize":
            out.append("Optimize")
    s = " ".join(out[-14:])
    return ("... " if len(out) > 14 else "") + s


if __name__ == "__main__":
    vlib.main(run, "C33")
