"""C34 — access-control decisions respect system, ownership and grant rules; the UI capability map agrees.
Spec: spec/Rbac.tla (+RbacTrace).  TLC enumerates the whole finite abstract domain of cases (caller x resource
name x ACL), checks every clause of the statement on the model and prints every case; the Go driver evaluates
each case on the real sop.Authorize / CheckPolicy / EnforcePolicy / CanPerformAction / ResolveRBACMap for all
actions; TLC (RbacTrace) then decides every recorded outcome against Decision, the function written from the
statement.  Seeded random cases from a wider value domain (odd role names, case variants, duplicate roles,
junk grants) are judged the same way."""
import json, os, re
import vlib

META = dict(
    property_id="C34", engine="Rbac",
    technique="TLA+ decision function from the statement; TLC enumerates the whole abstract domain, every case is evaluated on the real rbac entry points and judged by TLC trace validation",
    level="model_checking",
    level_text="Exhaustive over the finite abstract domain (8 (quick) / 16 (thorough) role sets x 3 users x system flag x 3 names x 4 visibilities x 2 owners x role/user grant maps x 5 actions): TLC enumerates every case, the real code is run on every one of them, and TLC compares every outcome (Authorize, CheckPolicy, EnforcePolicy, CanPerformAction, UI capability map) with the specification's Decision.",
    level_note="Abstract domain: other role names / users / grant strings behave like the representatives (additionally sampled at random). Blueprints without evaluator only (the evaluator hook is application code). 'Public' includes the empty visibility string, as the code defines it. Equality with Decision is demanded in both directions (also 'entitled => allowed').",
    design_ref="C34",
)


def cases_from(res):
    out = []
    for p in res.prints:
        m = re.match(r'<<"CASE", (".*")>>$', p)
        if m:
            out.append(vlib.tla_unquote(m.group(1)))
    return out


def judge(c, events, chunk=60000):
    """Run RbacTrace over the events; returns list of (event, expected-json) for lines TLC marked BAD."""
    bad = []
    for off in range(0, len(events), chunk):
        part = events[off:off + chunk]
        r = c.tlc("RbacTrace", "RbacTrace.cfg", workers=4, timeout=1200, heap="6g",
                  files={"trace.ndjson": "\n".join(part) + "\n"}, tag="trace")
        if r.timed_out:
            raise vlib.InfraError("RbacTrace timed out")
        for pr in r.prints:
            m = re.match(r'<<"BAD", (\d+), (".*")>>$', pr)
            if m:
                bad.append((json.loads(part[int(m.group(1)) - 1]), json.loads(vlib.tla_unquote(m.group(2)))))
        if r.distinct != 2 * len(part) or not r.ok:
            raise vlib.InfraError("RbacTrace did not judge every line (%d states for %d lines, violated=%s):\n%s" %
                                  (r.distinct, len(part), r.violated, r.out[-4000:]))
        c.cov["states"] += r.distinct
        c.cov["transitions"] += r.generated
        c.cov["traces_validated_against_impl"] += len(part)
    return bad


def describe(ev, exp):
    """Stable signature of a disagreement: which entry point, which rule of the statement is involved."""
    diffs = []
    ui = {p["k"]: p["v"] for p in ev["ui"]}
    caps = {"read": "can_read", "write": "can_edit", "delete": "can_delete", "ai_select": "can_ai_select", "list": "list"}
    for a in ("read", "write", "delete", "list", "ai_select"):
        r = ev["res"][a]
        if r["authz"] != exp["authz"][a]:
            diffs.append("Authorize:%s:impl=%s" % (a, r["authz"]))
        if r["can"] != exp["policy"][a] or (r["policy"] == "nil") != exp["policy"][a] or r["enforce"] != r["policy"]:
            diffs.append("Policy:%s:impl=%s/%s/%s" % (a, r["can"], r["policy"], r["enforce"]))
    eui = exp["ui"] if isinstance(exp["ui"], dict) else {}
    if ui != eui:
        ks = sorted(k for k in set(ui) | set(eui) if ui.get(k) != eui.get(k))
        diffs.append("UiMap:%s" % ",".join("%s=%s" % (k, ui.get(k)) for k in ks))
    ctx = "vis=%s:core=%s:admin=%s:system=%s:owner=%s" % (
        ev["vis"] or "empty", ev["name"] in ("SOP", "LongTermMemory"), "Admin" in ev["roles"], ev["system"],
        ev["owner"] != "" and ev["owner"] == ev["user"])
    return "; ".join(diffs[:3]) + " @ " + ctx, diffs


def run(c):
    # 1. design level + enumeration of the domain
    mc = c.tlc_must_pass("Rbac", c.pick("Rbac_mc.cfg", "Rbac_mc_thorough.cfg"), workers=4, timeout=c.pick(300, 1500),
                         coverage=False, heap="6g")
    cases = cases_from(mc)
    if len(cases) * 2 != mc.distinct or len(set(cases)) != len(cases):
        raise vlib.InfraError("TLC printed %d cases (%d distinct) for %d states" % (len(cases), len(set(cases)), mc.distinct))
    cf = os.path.join(c.scratch, "cases.ndjson")
    open(cf, "w").write("\n".join(cases) + "\n")
    # 2. the real code on every case, plus seeded random cases from a wider value domain
    binp = c.build("rbac")
    out1, out2 = os.path.join(c.scratch, "replay.ndjson"), os.path.join(c.scratch, "random.ndjson")
    c.run([binp, "replay", cf, out1], timeout=900)
    nrand = c.pick(10000, 90000)
    c.run([binp, "random", str(nrand), out2], timeout=900)
    ev1 = [l for l in open(out1).read().split("\n") if l]
    ev2 = [l for l in open(out2).read().split("\n") if l]
    if len(ev1) < len(cases) or len(ev2) != nrand:
        raise vlib.InfraError("driver wrote %d/%d events for %d/%d cases" % (len(ev1), len(ev2), len(cases), nrand))
    # 3. TLC judges every outcome
    bad = judge(c, ev1) + judge(c, ev2)
    seen = set()
    for ev, exp in bad:
        sig, diffs = describe(ev, exp)
        if sig in seen:
            continue
        seen.add(sig)
        c.report(sig, "real rbac outcome differs from the specification's Decision: %s; case roles=%s user=%r system=%s name=%r vis=%r owner=%r role_grants=%s user_grants=%s asset=%s" %
                 ("; ".join(diffs), ev["roles"], ev["user"], ev["system"], ev["name"], ev["vis"], ev["owner"],
                  json.dumps(ev["rg"]), json.dumps(ev["ug"]), ev["asset"]),
                 dict(case=ev, expected=exp))
        if len(seen) >= 8:
            break
    # 4. evidence
    distinct = set()
    allowed = denied = 0
    for l in ev1 + ev2:
        e = json.loads(l)
        distinct.add(json.dumps([sorted(set(e["roles"])), e["user"], e["system"], e["name"], e["vis"], e["owner"], e["rg"],
                                 e["ug"], e["bp"], e["nil_access"]]))
        for a, r in e["res"].items():
            allowed += r["can"]
            denied += not r["can"]
    c.sample(json.loads(ev1[len(ev1) // 3]))
    c.sample(json.loads(ev2[len(ev2) // 2]))
    c.cov.update(dict(
        exhaustive=True, cases_enumerated_by_tlc=len(cases), events_domain=len(ev1), events_random=len(ev2),
        evaluations=(len(ev1) + len(ev2)) * 5, distinct_nontrivial=len(distinct),
        decisions_allowed=allowed, decisions_denied=denied, disagreements=len(bad),
        rule="one evaluation = one (case, action) decision of the real code compared by TLC with Decision (5 per event, each through "
             "Authorize, CheckPolicy, EnforcePolicy, CanPerformAction and the UI map); distinct non-trivial = distinct "
             "(caller, resource, ACL, blueprint) cases; the abstract domain is enumerated completely by TLC, random cases come from a wider value domain",
        design_model=mc.summary(),
        coverage_actions={k: list(v) for k, v in mc.coverage.items()} if mc.coverage else None,
    ))
    c.assumptions += [
        "blueprints without Evaluator (the Evaluator hook is application code, e.g. tools/httpserver/main.go)",
        "core system resources are the names the code lists (SOP, LongTermMemory, exact match); empty visibility = public (Go zero value), as the code defines",
        "an unregistered asset type yields an empty capability map (documented safety fallback), modelled as a blueprint without actions",
    ]


if __name__ == "__main__":
    vlib.main(run, "C34")
