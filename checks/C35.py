"""C35 — session tokens cannot be forged, outlive expiry, or survive logout.
Spec: spec/Session.tla (+SessionTrace).  TLC (a) checks the design model exhaustively (the property clauses are
invariants of the model without deviations), (b) generates call programs by simulation of the model with the
recorded deviations switched on (so programs also reach the states only the unchanged code reaches).  The
programs are executed against the real SessionStore of tools/httpserver (package main, reached with a
`go test -overlay` file, short real TTLs, calls aligned inside wall-clock seconds); every call and result is
validated by TLC against SessionTrace with Findings = {} (= the property).  A rejected line is a behaviour of
the real code that contradicts C35; traces that exhibit a recorded finding are validated again with the
deviations allowed, so that everything else in them is still checked."""
import json, os, re, random, subprocess, time
import vlib

META = dict(
    property_id="C35", engine="Session",
    technique="TLA+ model of the session store; TLC-simulated call programs replayed on the real SessionStore through a go test -overlay file; call logs trace-validated by TLC",
    level="model_checking",
    level_text="TLC checks the C35 clauses exhaustively on the design model (quick: <= 4 tokens, clock 0..5; thorough: <= 6 tokens, clock 0..6; secret change, one access-only token) and is the oracle for every call of the real SessionStore: each recorded call/result line must be a step of the model without deviations. Programs are TLC simulation walks (create/refresh/revoke/validate/forge/secret change/clock), with 15 kinds of token modification chosen by the driver.",
    level_note="Real time: one tick = one wall-clock second, TTLs 2.5 s / 4.5 s, calls placed >= 150 ms away from every expiry boundary and re-run when a call leaves its window. The driver is compiled into package main of tools/httpserver (overlay, no tree edit) and calls SessionStore directly, not through HTTP. Token strings are abstracted to ids; signature forgery is limited to what an outsider knowing the source can compute.",
    design_ref="C35",
)

FIELDS = dict(tok=0, mut=False, ok=False, acc=0, ref=0, fresh=False, k=0, kind="", who="none")
KEEP = set(FIELDS) | {"ev"}


def norm(evs):
    out = []
    for e in evs:
        if e["ev"] == "Abort":
            break
        d = {k: v for k, v in e.items() if k in KEEP}
        for k, v in FIELDS.items():
            d.setdefault(k, v)
        if d["who"].startswith("mismatch"):
            d["who"] = "mismatch"
        out.append(d)
    return out


def programs_from(res):
    out, seen = [], set()
    for p in res.prints:
        m = re.match(r'<<"PROG", (".*")>>$', p)
        if not m:
            continue
        hist = json.loads(vlib.tla_unquote(m.group(1)))
        key = json.dumps([[s["op"], s["tok"], s["mut"], s["k"], s["kind"], s["n"]] for s in hist])
        if key in seen:
            continue
        seen.add(key)
        out.append(hist)
    return out


def features(hist):
    f = set()
    for s in hist:
        if s["op"] in ("Validate", "Refresh", "Revoke", "Forge"):
            f.add((s["op"], tuple(sorted(s["st"])), s["mut"]))
    return f


def select(cands, k, rng, rounds=3):
    """Order programs so that every (call, labels, modified) class TLC attached to a step is covered as early
    as possible: greedy set cover, repeated `rounds` times, then random fill.  (The driver runs the programs
    in this order and may not get through all of them on a loaded machine.)"""
    rng.shuffle(cands)
    feats = [features(h) for h in cands]
    chosen, used = [], set()
    for _ in range(rounds):
        need = set().union(*feats) if feats else set()
        while need and len(chosen) < k:
            best, gain = None, 0
            for i, f in enumerate(feats):
                if i in used:
                    continue
                g = len(f & need)
                if g > gain:
                    best, gain = i, g
            if best is None:
                break
            used.add(best)
            chosen.append(cands[best])
            need -= feats[best]
    for i, h in enumerate(cands):
        if len(chosen) >= k:
            break
        if i not in used:
            chosen.append(h)
    return chosen


def build_driver(c):
    """go test -c with an overlay that adds our _test.go to package main of tools/httpserver."""
    repo = vlib.REPO
    ov = os.path.join(c.scratch, "overlay.json")
    json.dump({"Replace": {os.path.join(repo, "tools/httpserver/verif_session_test.go"):
                           os.path.join(vlib.VERIF, "harness/overlay/verif_session_test.go")}}, open(ov, "w"))
    out = os.path.join(c.scratch, "bin", "httpserver.test")
    os.makedirs(os.path.dirname(out), exist_ok=True)
    env = dict(os.environ)
    env["GOFLAGS"] = ""
    env["GOPROXY"] = "off"
    env.pop("GOSUMDB", None)
    if env.get("GOTOOLCHAIN") == "local":
        env.pop("GOTOOLCHAIN")
    t = time.time()
    p = subprocess.run(["go", "test", "-c", "-tags", "verif", "-overlay=" + ov, "-o", out, "./tools/httpserver"],
                       cwd=repo, env=env, stdout=subprocess.PIPE, stderr=subprocess.STDOUT, text=True, timeout=900)
    if p.returncode != 0 or not os.path.exists(out):
        raise vlib.InfraError("go test -c (overlay) failed:\n" + p.stdout[-4000:])
    vlib.log("built httpserver test binary with overlay in %.1fs" % (time.time() - t))
    return out


def run_driver(c, binp, progs, nproc, budget):
    shards = [progs[i::nproc] for i in range(nproc)]
    procs = []
    for i, sh in enumerate(shards):
        if not sh:
            continue
        d = os.path.join(c.scratch, "drv%d" % i)
        os.makedirs(os.path.join(d, "tmp"), exist_ok=True)
        json.dump(dict(ttl_ms=2500, refresh_ttl_ms=4500, budget_s=budget, programs=sh), open(os.path.join(d, "programs.json"), "w"))
        env = dict(os.environ)
        env.update(TMPDIR=os.path.join(d, "tmp"), VERIF_SEED=str(c.seed + i),
                   VERIF_SESSION_PROGRAMS=os.path.join(d, "programs.json"),
                   VERIF_SESSION_TRACE=os.path.join(d, "trace.ndjson"))
        env.pop("SOP_SESSION_SECRET", None)
        lf = open(os.path.join(d, "log.txt"), "w")
        procs.append((d, lf, subprocess.Popen([binp, "-test.run", "^TestVerifSession$", "-test.count=1", "-test.v",
                                               "-test.timeout", "40m"], cwd=d, env=env, stdout=lf,
                                              stderr=subprocess.STDOUT)))
    traces, summ = [], []
    deadline = time.time() + c.pick(600, 2400)
    for d, lf, p in procs:
        try:
            rc = p.wait(timeout=max(5, deadline - time.time()))
        except subprocess.TimeoutExpired:
            for _, _, q in procs:
                q.kill()
            raise vlib.InfraError("session driver timed out")
        lf.close()
        log = open(os.path.join(d, "log.txt")).read()
        if rc != 0 or "--- PASS: TestVerifSession" not in log:
            raise vlib.InfraError("session driver failed rc=%s:\n%s" % (rc, log[-3000:]))
        evs = vlib.read_ndjson(os.path.join(d, "trace.ndjson"))
        summ += [e for e in evs if e["ev"] == "Summary"]
        dropped = [e for e in evs if e["ev"] == "TraceDropped"]
        if dropped:
            vlib.log("programs dropped for timing (never judged):", len(dropped))
        traces += vlib.split_traces([e for e in evs if e["ev"] not in ("Summary", "TraceDropped")])
    return traces, summ




def validate(c, cfg, traces, chunk=1500):
    """One TLC run judges all traces of a chunk: SessionTrace can abandon a trace at any line and keeps a
    high-water mark per trace.  Returns (rejections, notes); notes = the <<"ST", ...>> labels TLC computed
    for the Validate/Refresh/Forge lines it tried, keyed by (trace name, event index)."""
    rej, notes = [], {}
    for off in range(0, len(traces), chunk):
        part = traces[off:off + chunk]
        lines, index, resets = [], [], []
        for ti, (name, evs) in enumerate(part):
            resets.append(len(lines) + 1)
            lines.append(None)
            index.append((ti, -1))
            for ei, ev in enumerate(evs):
                lines.append(json.dumps(ev, sort_keys=True))
                index.append((ti, ei))
        for n, r in enumerate(resets):
            nxt = resets[n + 1] if n + 1 < len(resets) else len(lines) + 1
            lines[r - 1] = json.dumps({"ev": "Reset", "trace": part[n][0], "next": nxt})
        r = c.tlc("SessionTrace", cfg, workers=1, timeout=900, files={"trace.ndjson": "\n".join(lines) + "\n"},
                  tag="trace")
        if r.timed_out:
            raise vlib.InfraError("trace validation timed out")
        hwm = {}
        for pr in r.prints:
            m = re.match(r'<<"HWM", (\d+), (\d+)>>', pr)
            if m:
                hwm[int(m.group(1))] = int(m.group(2))
            if pr.startswith('"{') and '\\"st\\":' in pr:
                n = json.loads(vlib.tla_unquote(pr))
                ti, ei = index[n["st"] - 1]
                new = (n["ev"], tuple(sorted(n["labels"])), n["mut"], n["ok"], n["fresh"])
                # the model may hold several candidate states at a line (allowed alternatives): keep all notes
                lst = notes.setdefault((part[ti][0], ei), [])
                if new not in lst:
                    lst.append(new)
                    lst.sort(key=lambda v: (len(v[1]), v[1]))
        if len(hwm) != len(resets) or not r.ok:
            raise vlib.InfraError("trace validation failed (%s, violated=%s):\n%s" % (cfg, r.violated, r.out[-5000:]))
        c.cov["states"] += r.distinct
        c.cov["transitions"] += r.generated
        for n, rl in enumerate(resets):
            nxt = resets[n + 1] if n + 1 < len(resets) else len(lines) + 1
            name, evs = part[n]
            if hwm[rl] >= nxt:
                c.cov["traces_validated_against_impl"] += 1
                continue
            ti, ei = index[hwm[rl] - 1]        # first line of the trace that no step of the model matches
            rej.append(dict(trace=name, index=ei, event=evs[ei] if ei >= 0 else None, events=evs,
                            note=notes.get((name, ei)), tlc_tail=""))
    return rej, notes


def signatures(x):
    """Candidate signatures of a rejection, one per candidate state of the model at that line (smallest label
    set first).  The line is rejected in every candidate state; it is a recorded finding if it is one in some."""
    ev, cand = x["event"] or {}, x["note"]
    if not cand:
        return ["%s:unlabelled:ok=%s" % (ev.get("ev"), ev.get("ok"))]
    out = []
    for name, labels, mut, ok, fresh in cand:
        who = "" if ev.get("who") in ("none", "match") or not ok else ":who=" + str(ev.get("who"))
        out.append("%s:%s:mut=%s:ok=%s:fresh=%s%s" % (name, "+".join(labels), mut, ok, fresh, who))
    return out


def signature(c, x):
    sigs = signatures(x)
    for sg in sigs:
        for k in c._known:
            if k.get("status", "known") == "known" and re.fullmatch(k["signature"], sg):
                return sg
    return sigs[0]


def run(c):
    rng = random.Random(c.seed)
    # 1. design level
    mc = c.tlc_must_pass("Session", c.pick("Session_mc.cfg", "Session_mc_thorough.cfg"), workers=6,
                         timeout=c.pick(400, 1500), coverage=True)
    acts = re.findall(r"^<(\w+) line (\d+), col \d+ to line \d+, col \d+ of module Session(?: \((\d+) \d+ \d+ \d+\))?>: (\d+):(\d+)", mc.out, re.M)
    dead = ["%s@%s" % (n, sub or ln) for n, ln, sub, d, t in acts if int(t) == 0]
    if dead or len(acts) < 8:
        raise vlib.InfraError("actions never taken in the exhaustive model (or no coverage output): %s" % dead)
    action_cov = {"%s@%s" % (n, sub or ln): [int(d), int(t)] for n, ln, sub, d, t in acts}
    # 2. programs from TLC simulation
    walks = c.pick(260, 900)
    sim = c.tlc("Session", "Session_sim.cfg", simulate="num=%d" % walks, depth=20, deadlock=False, timeout=600,
                tag="sim")
    if sim.timed_out or (sim.violated is not None) or "Error:" in sim.out:
        raise vlib.InfraError("TLC simulation failed:\n" + sim.out[-3000:])
    cands = programs_from(sim)
    want = c.pick(260, 2600)
    if len(cands) < want // 2:
        raise vlib.InfraError("too few programs from TLC simulation: %d" % len(cands))
    chosen = select(cands, want, rng)
    progs = []
    for i, h in enumerate(chosen):
        assert h[0]["op"] == "Start"
        progs.append(dict(name="p%04d" % i, secret=h[0]["k"],
                          steps=[dict(op=s["op"], tok=s["tok"], mut=s["mut"], k=s["k"], kind=s["kind"], n=s["n"])
                                 for s in h[1:]]))
    # 3. the real code
    binp = build_driver(c)
    raw, summ = run_driver(c, binp, progs, nproc=6, budget=c.pick(55, 600))
    traces = [(n, norm(e)) for n, e in raw]
    raw_by = dict(raw)
    if len(traces) < 40:
        raise vlib.InfraError("only %d of %d programs completed inside the time budget (machine too loaded)" % (len(traces), len(progs)))
    # 4. strict validation = the property
    rej, notes = validate(c, "SessionTrace.cfg", traces)
    again = []
    tby = dict(traces)
    reported = 0
    for x in rej:
        sig = signature(c, x)
        ev = x["event"] or {}
        rawev = raw_by[x["trace"]][x["index"]] if x["index"] >= 0 else {}
        fresh = c.report(sig, "SessionStore call contradicts the session model at event %d of %s: %s (token state %s)" %
                         (x["index"], x["trace"], json.dumps(rawev, sort_keys=True), [v[1] for v in x["note"]] if x["note"] else "?"),
                         dict(program=next(p for p in progs if p["name"] == x["trace"]), trace=raw_by[x["trace"]],
                              rejected_index=x["index"], tlc=x["tlc_tail"]))
        if not fresh:
            again.append((x["trace"], tby[x["trace"]]))
        else:
            reported += 1
            if reported >= 5:
                break
    # 5. traces that hit a recorded finding: validate the whole trace with the recorded deviations allowed
    if again and reported < 5:
        rej2, notes2 = validate(c, "SessionTrace_known.cfg", again)
        for k, v in notes2.items():
            notes[k] = sorted(set(notes.get(k, [])) | set(v), key=lambda n: (len(n[1]), n[1]))
        for x in rej2[:3]:
            rawev = raw_by[x["trace"]][x["index"]] if x["index"] >= 0 else {}
            c.report("beyond-known:" + signatures(x)[0],
                     "SessionStore call is not explained even by the recorded deviations, event %d of %s: %s" %
                     (x["index"], x["trace"], json.dumps(rawev, sort_keys=True)),
                     dict(program=next(p for p in progs if p["name"] == x["trace"]), trace=raw_by[x["trace"]],
                          rejected_index=x["index"], tlc=x["tlc_tail"]))
    # 6. evidence
    classes = {}
    for (tn, ei), vs in notes.items():
        for v in vs:
            classes[v] = classes.get(v, 0) + 1
    mutkinds = {}
    nev = 0
    for n, evs in raw:
        for e in evs:
            nev += 1
            if e.get("mut"):
                mutkinds[e.get("mutkind")] = mutkinds.get(e.get("mutkind"), 0) + 1
    essential = {
        "validate live": lambda n, l, m, o, f: n == "Validate" and "acc" in l and "stored" in l and not m and "expired" not in l and "oldsecret" not in l,
        "validate expired": lambda n, l, m, o, f: n == "Validate" and "acc" in l and "expired" in l and not m,
        "validate revoked unexpired": lambda n, l, m, o, f: n == "Validate" and "acc" in l and "revoked" in l and "expired" not in l and not m,
        "validate rotated unexpired": lambda n, l, m, o, f: n == "Validate" and "acc" in l and "rotated" in l and "expired" not in l and not m,
        "validate after secret change": lambda n, l, m, o, f: n == "Validate" and "oldsecret" in l and not m,
        "validate modified": lambda n, l, m, o, f: n == "Validate" and m,
        "refresh live": lambda n, l, m, o, f: n == "Refresh" and "stored" in l and not m and "accexpired" not in l,
        "refresh after access expiry": lambda n, l, m, o, f: n == "Refresh" and "accexpired" in l and not m,
        "refresh with used token": lambda n, l, m, o, f: n == "Refresh" and "rotated" in l and not m,
        "refresh with revoked token": lambda n, l, m, o, f: n == "Refresh" and "revoked" in l and not m,
        "forge with public constant, no secret configured": lambda n, l, m, o, f: n == "Forge" and "default" in l and "nosecret" in l,
        "forge with public constant, secret configured": lambda n, l, m, o, f: n == "Forge" and "default" in l and "nosecret" not in l,
    }
    hit = {k: sum(cnt for v, cnt in classes.items() if fn(*v)) for k, fn in essential.items()}
    missing = [k for k, v in hit.items() if v == 0]
    if missing and not c.violations:
        # the seeded selection of programs did not reach some situation: recorded in the evidence, not a verdict and
        # not a reason to fail the run (another seed / the thorough tier reaches it)
        vlib.log("note: no program of this run reached: %s" % missing)
    c.cov["situations_not_reached"] = missing
    c.sample(dict(program=progs[0], trace=raw[0][1][:14]))
    c.sample(dict(program=progs[len(progs) // 2]))
    c.cov.update(dict(
        exhaustive=False, programs=len(progs), programs_completed=len(traces), candidate_programs=len(cands),
        evaluations=nev, distinct_nontrivial=len(classes),
        rule="one evaluation = one call of the real SessionStore (with its result) checked by TLC against the model; "
             "distinct non-trivial = distinct (call, token state labels computed by TLC, modified?, accepted?, fresh?) classes among "
             "the Validate/Refresh/Forge calls; programs are TLC simulation walks of Session (12 steps), selected to cover every "
             "(call, token state) class TLC reached at least 3 times",
        situations=hit, modification_kinds=mutkinds, design_model=mc.summary(),
        coverage_actions=action_cov,
        driver=summ, strict_rejections=len(rej),
    ))
    c.assumptions += [
        "one logical tick = one wall-clock second; calls are executed >= 150 ms away from every expiry boundary and a program whose call leaves its window is re-run, never judged",
        "SessionStore is driven directly (package main via go test -overlay), not through the HTTP handlers",
        "behaviour C35 is silent about is modelled as the code does it: a refresh key is accepted by ValidateToken through the store fallback; expired records are deleted on sight; the refresh lifetime is not extended",
        "an outsider knows the source code (hence the built-in default signing constant) but no configured secret",
    ]


if __name__ == "__main__":
    vlib.main(run, "C35")
