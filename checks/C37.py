"""C37 — the commit protocol never installs two successors of one node version.
SopCommit.tla is the handle protocol; SopCommitMC explores every interleaving of 2-3 committers over 1-2 shared
nodes with crashes, expiry of dead owners' locks, ageing of work-in-progress marks and priority rollback, checking
NoTwoSuccessors / ActiveIsComplete / VersionMonotone; SopCommitTrace validates registry-call traces (full handle
images) of the real code: sequential programs, every fault position (rollback paths), and concurrent committers
under the gate scheduler.  Each registry write must be the protocol's write, enabled in the model state."""
import collections, json, os, sys
sys.path.insert(0, os.path.dirname(os.path.abspath(__file__)))
import vlib, txnlib, conclib, _conc, _txncfg

META = dict(
    property_id="C37", engine="SopCommit",
    technique="TLA+ handle-protocol spec (SopCommit) model-checked exhaustively by TLC (SopCommitMC) + TLC trace validation of registry/blob/lock call traces recorded by decorators from sequential, fault-injected and gate-scheduled concurrent real commits",
    level="model_checking",
    level_text="Exhaustive: 2 transactions x 2 nodes (quick) / 3 transactions x 2 nodes x 2 crashes x lock expiry of dead owners x ageing x priority rollback (thorough, ~280k states). Binding: every REG.Get/Add/UpdateNoLocks/Remove, BLOB.Add/Remove, PLOG.Add/Remove and lock call of the recorded runs must be an enabled action of the spec with exactly the logged handle images; the invariants are evaluated at every step of every implementation trace.",
    level_note="Lock expiry of a LIVE but stalled owner and recovery later than the one-hour reservation expiry are outside the checked configuration (they break the protocol in the model; see DESIGN.md); traces are recorded at backend-call granularity through the injected interfaces.",
    design_ref="C37",
)


def run(c):
    binp = c.build("txn")
    r = c.tlc_must_pass("SopCommitMC", "SopCommitMC.cfg", workers=8, timeout=300, coverage=not c.quick)
    if not c.quick:
        c.tlc_must_pass("SopCommitMC", "SopCommitMC3.cfg", workers=12, timeout=1800)
    btraces = []
    g = _txncfg.gen(c, "a", MaxStores=2, MaxTxns=5, MaxOps=14, Keys=12, ClearL2=25, Neighbour=True)
    cfg = _txncfg.cfg(c, "seq", c.pick(40, 300), g, backend_out=os.path.join(c.scratch, "seq-backend.ndjson"))
    txnlib.run_driver(c, binp, "seq", cfg)
    btraces += [("seq/" + n, h, e) for n, h, e in conclib.load_backend(cfg["backend_out"])]
    gf = _txncfg.gen(c, "f", MaxTxns=3, MaxOps=10, Keys=10, Slots=[2, 4], Rollbacks=False)
    cfgf = _txncfg.cfg(c, "fault", c.pick(2, 10), gf, max_fault=c.pick(12, 0), directed_max=c.pick(16, 0), backend_out=os.path.join(c.scratch, "fault-backend.ndjson"))
    txnlib.run_driver(c, binp, "fault", cfgf, timeout=c.pick(600, 3000))
    btraces += [("fault/" + n, h, e) for n, h, e in conclib.load_backend(cfgf["backend_out"])]
    for wl, txns in (("mixed", 3), ("disjoint", 3)):
        conc = dict(workload=wl, txns=txns, keys=5, slot=2 if wl == "disjoint" else 4, sched="gate", max_step=6)
        _, bt = _conc.run_conc(c, binp, "g" + wl, c.pick(25, 250), conc, backend=True)
        btraces += [("conc-%s/%s" % (wl, n), h, e) for n, h, e in bt]
    rej = c.validate_traces("SopCommitTrace", "SopCommitTrace.cfg", [(n, e) for n, _, e in btraces], chunk=40, parallel=6)
    classes = collections.Counter()
    for x in rej:
        ev = x["event"] or {}
        kind = x["trace"].split("/")[0]
        sig = "protocol|%s|%s|%s" % (kind, ev.get("ev"), x.get("invariant") or "not-enabled")
        if kind == "fault" and "|" in x["trace"]:
            sig += "|" + x["trace"].split("|")[1]      # the injected fault: <call kind>@<commit step>
        classes[sig] += 1
        c.report(sig, "registry-call trace leaves the handle protocol at event %d: %s" % (x["index"], json.dumps(ev)[:300]),
                 dict(trace=x["trace"], rejected_index=x["index"], invariant=x.get("invariant"), events=x["events"][:x["index"] + 1][-40:]))
    flips = sum(1 for _, _, e in btraces for x in e if x["ev"] == "REG.Flip")
    c.sample(dict(trace=btraces[-1][0], events=[x for x in btraces[-1][2] if x["ev"].startswith("REG.")][:6]))
    c.cov.update(dict(evaluations=len(btraces), distinct_nontrivial=sum(1 for _, _, e in btraces if any(x["ev"] == "REG.Flip" for x in e)),
                      flips_validated=flips, rejection_classes=dict(classes), exhaustive=True,
                      mc_coverage={k: v for k, v in r.coverage.items()} if r.coverage else None,
                      rule="one case = one registry-call trace; non-trivial = contains at least one commit point (flip)"))


if __name__ == "__main__":
    vlib.main(run, "C37")
