"""C38 — values returned by reads are private to the caller.
TxnStore has the environment action Scribble(t) - the caller mutates in place a value or item it got from a read -
which is stuttering: nothing anybody reads later may change.  The driver stores reference-typed values ([]byte,
map[string]int, []int, *struct, struct with slice/map fields) under every value placement, reads them
(GetCurrentValue and GetCurrentItem), scribbles, ends the transaction without writing (rollback / commit), and reads
again from later transactions of the same process (shared L1 / L2 / MRU caches); TLC validates the history."""
import collections, json, os, sys
sys.path.insert(0, os.path.dirname(os.path.abspath(__file__)))
import vlib, txnlib

META = dict(
    property_id="C38", engine="TxnStore",
    technique="TLA+ API-level transaction spec (TxnStore with a stuttering Scribble action) + TLC trace validation of read / mutate-in-place / read-again histories of the real filesystem transaction over reference-typed values",
    level="model_checking",
    level_text="TLC checks every later read against the committed state, which Scribble leaves untouched: 5 value types x 4 value placements x 2 read paths x 2 endings, each followed by two later transactions in the same process.",
    level_note="Same-process later transactions only (that is where caches are shared); value digests are JSON renderings computed by the driver.",
    design_ref="C38",
)


def run(c):
    binp = c.build("txn")
    c.tlc_must_pass("TxnStoreMC", "TxnStoreMC.cfg", workers=8, timeout=300)
    cfg = dict(out=os.path.join(c.scratch, "priv.ndjson"), data=c.datadir("priv-data"), seed=c.seed)
    traces = txnlib.run_driver(c, binp, "privacy", cfg)
    for n, h, evs in traces:
        if any(e.get("ev") == "HarnessError" for e in evs):
            raise vlib.InfraError("privacy driver error in %s" % n)
    classes = collections.Counter()
    for r in txnlib.validate(c, traces, "TxnStoreTrace.cfg", chunk=4, parallel=8):
        ev, raw = txnlib.describe(r)
        kind, place, item, end = (r["trace"].split("|") + ["?"] * 4)[:4]
        scribbled = any(e.get("ev") == "Scribble" for e in r["raw"][:r["index"]])
        if raw.get("ev") == "Op" and raw.get("op") == "Get" and raw.get("t") in ("t3", "t4") and scribbled:
            sig = "scribble-visible-to-later-transaction|%s|%s|%s|%s" % (kind, place, item, end)
        else:
            sig = "privacy-other|%s|%s|%s" % (kind, raw.get("ev"), raw.get("op", ""))
        classes[sig] += 1
        c.report(sig, "%s: later read of key %s returns %s after the earlier reader mutated its copy in place" % (r["trace"], raw.get("k"), raw.get("v")),
                 dict(trace=r["trace"], rejected_index=r["index"], events=r["raw"]))
    c.sample(dict(trace=traces[0][0], events=traces[0][2][4:14]))
    c.cov.update(dict(evaluations=len(traces), distinct_nontrivial=len(traces), rejection_classes=dict(classes), exhaustive=True,
                      rule="one case = (value type, value placement, read path value|item, ending rollback|commit); all are enumerated"))


if __name__ == "__main__":
    vlib.main(run, "C38")
