"""Shared runner for the concurrent-history checks."""
import json, os
import vlib, txnlib, conclib


def run_conc(c, binp, name, programs, conc, child=0, backend=False, timeout=1800):
    cfg = dict(out=os.path.join(c.scratch, name + ".ndjson"), data=c.datadir(name + "-data"), seed=c.seed,
               programs=programs, child=child, gen=dict(Prefix=name[:1]), conc=conc)
    if backend:
        cfg["backend_out"] = os.path.join(c.scratch, name + "-backend.ndjson")
    os.environ.setdefault("VERIF_MAXTIME_MS", "15000")
    traces = txnlib.run_driver(c, binp, "conc", cfg, timeout=timeout)
    for n, h, evs in traces:
        for e in evs:
            if e.get("ev") == "HarnessError":
                raise vlib.InfraError("driver reported a harness error in %s: %s" % (n, e.get("note")))
    btr = conclib.load_backend(cfg["backend_out"]) if backend else []
    return traces, btr
