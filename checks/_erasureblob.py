"""Shared by C25.py and C26.py: exhaustive TLC run of spec/ErasureBlob.tla (emits write-failure sets and damage
assignments), plan generation for harness/cmd/erasureblob, trace validation with ErasureBlobTrace (tolerant mode:
finding actions print DEV records), signatures."""
import json, os, re
import vlib

SIZES_BASE = [1, -1, 0, +1]          # relative to d: 1, d-1, d, d+1 (added below), then 4095, 4096, 4097
BIG = 1 << 20

INVARIANTS = ("TypeOK WriteSucceedsIffTolerable WithinParityReadReturnsStoredBytes BeyondParityNeverWrongBytes "
              "ReadNeverCrashes RepairRestoresFullRedundancy")


def sizes_for(d):
    s = [1, d - 1, d, d + 1, 4095, 4096, 4097]
    out = []
    for x in s:
        if x > 0 and x not in out:
            out.append(x)
    return out


def mc_cfg(configs, maxdamaged):
    return ("SPECIFICATION Spec\nCONSTANTS\n  Configs = {%s}\n  MaxDamaged = %d\n  Tolerant = TRUE\n"
            "INVARIANTS %s EmitWrite EmitCase EmitCase2\nCHECK_DEADLOCK FALSE\n"
            % (", ".join(str(10 * d + p) for d, p in configs), maxdamaged, INVARIANTS))


def run_mc(c, groups, coverage=False, workers=4, timeout=1500):
    """groups: list of (configs, maxdamaged).  Returns dict with writes/cases/cases2 per (d,p) and coverage."""
    out = dict(writes={}, cases={}, cases2={}, coverage={}, states=0)
    for gi, (configs, md) in enumerate(groups):
        name = "ErasureBlob_gen%d.cfg" % gi
        r = c.tlc_must_pass("ErasureBlob", name, files={name: mc_cfg(configs, md)}, workers=workers,
                            timeout=timeout, coverage=coverage, tag="mc%d" % gi)
        for pr in r.prints:
            m = re.match(r'<<"(WRITE|CASE|CASE2)", (".*")>>$', pr)
            if not m:
                continue
            rec = json.loads(vlib.tla_unquote(m.group(2)))
            key = (rec["d"], rec["p"])
            tgt = {"WRITE": out["writes"], "CASE": out["cases"], "CASE2": out["cases2"]}[m.group(1)]
            tgt.setdefault(key, []).append(rec)
        for k, v in r.coverage.items():
            a = out["coverage"].get(k, (0, 0))
            out["coverage"][k] = (a[0] + v[0], a[1] + v[1])
        out["states"] += r.distinct
    for t in ("writes", "cases", "cases2"):
        for k in out[t]:
            out[t][k].sort(key=lambda r: json.dumps(r["kinds"]))
    return out


def check_coverage(cov):
    """every action of the exhaustive model must have been taken"""
    need = ["MCWrite", "MCDamage", "MCDamageAfterRepair", "MCRead", "MCInspect"]
    missing = [a for a in need if cov and cov.get(a, (0, 0))[1] == 0]
    if missing:
        raise vlib.InfraError("exhaustive model: actions never taken: %s" % missing)


# ---------------------------------------------------------------------------------------------------------------
def run_driver(c, binp, traces, tag, workers=8, timeout=3000, crash_streak_limit=0, crash_resample=0):
    """Returns [(name, events)], with the driver's Skipped markers (crash gate, see worker.go) removed and counted in
    c.cov['reads_skipped_by_crash_gate']."""
    if not traces:
        return []
    pl = dict(root=c.datadir("ecdata-" + tag), seed=c.seed, workers=workers, traces=traces,
              crash_streak_limit=crash_streak_limit, crash_resample=crash_resample)
    pf = os.path.join(c.scratch, "plan-%s.json" % tag)
    of = os.path.join(c.scratch, "out-%s.ndjson" % tag)
    with open(pf, "w") as f:
        json.dump(pl, f)
    c.run([binp, "replay", pf, of], timeout=timeout)
    got = vlib.split_traces(vlib.read_ndjson(of))
    if len(got) != len(traces):
        raise vlib.InfraError("driver returned %d traces for %d planned" % (len(got), len(traces)))
    skipped = 0
    out = []
    for name, evs in got:
        keep = [e for e in evs if e["ev"] != "Skipped"]
        skipped += len(evs) - len(keep)
        out.append((name, keep))
    c.cov["reads_skipped_by_crash_gate"] = c.cov.get("reads_skipped_by_crash_gate", 0) + skipped
    return out


KEEP = dict(Setup=("d", "p", "repair"), Write=("fail", "kind", "ok"), Damage=("kinds", "fresh"),
            Read=("res", "eq"), Inspect=("intact",))


def slim(ev):
    o = {"ev": ev["ev"]}
    for k in KEEP[ev["ev"]]:
        o[k] = ev[k]
    return o


def validate(c, traces, max_lines=60000, strict=False):
    """Trace validation in tolerant mode.  Returns list of deviations: dict(trace=name, index=i, rec=DEV record,
    events=[...]).  A trace line nobody can consume is a harness/model problem -> InfraError."""
    devs = []
    cfg = "ErasureBlobTraceStrict.cfg" if strict else "ErasureBlobTrace.cfg"
    i = 0
    while i < len(traces):
        lines, index, j = [], [], i
        while j < len(traces) and (j == i or len(lines) + len(traces[j][1]) + 1 <= max_lines):
            name, evs = traces[j]
            lines.append(json.dumps({"ev": "Reset"}))
            index.append((j, -1))
            for ei, ev in enumerate(evs):
                lines.append(json.dumps(slim(ev), sort_keys=True))
                index.append((j, ei))
            j += 1
        r = c.tlc("ErasureBlobTrace", cfg, workers=1, timeout=1800, files={"trace.ndjson": "\n".join(lines) + "\n"},
                  tag="trace", heap="6g")
        if r.timed_out:
            raise vlib.InfraError("trace validation timed out")
        hwm = None
        for pr in r.prints:
            m = re.search(r'"HWM",\s*(\d+)', pr)
            if m:
                hwm = int(m.group(1))
        if hwm is None:
            raise vlib.InfraError("trace validation produced no HWM:\n%s" % r.out[-4000:])
        if r.violated and r.violated != "postcondition":
            raise vlib.InfraError("trace spec: %s violated on an implementation trace\n%s" % (r.violated, r.out[-5000:]))
        if hwm < len(lines):
            tj, ei = index[hwm]
            name, evs = traces[tj]
            if strict:
                devs.append(dict(trace=name, index=ei, rec=None, events=evs))
                c.cov["traces_validated_against_impl"] += tj - i
                i = tj + 1
                c.cov["states"] += r.distinct
                c.cov["transitions"] += r.generated
                continue
            raise vlib.InfraError("trace %s: line %d is not consumable by ErasureBlobTrace (harness or model problem): %s\n%s"
                                  % (name, ei, json.dumps(evs[ei] if ei >= 0 else None), r.out[-3000:]))
        for pr in r.prints:
            m = re.match(r'<<"DEV", (".*")>>$', pr)
            if m:
                rec = json.loads(vlib.tla_unquote(m.group(1)))
                tj, ei = index[rec["line"] - 1]
                devs.append(dict(trace=traces[tj][0], index=ei, rec=rec, events=traces[tj][1]))
        c.cov["states"] += r.distinct
        c.cov["transitions"] += r.generated
        c.cov["traces_validated_against_impl"] += j - i
        i = j
    return devs


# ---------------------------------------------------------------------------------------------------------------
def vclass(kind, variant):
    if kind == "truncLong":
        return "truncLong17" if variant.endswith("len17") else "truncLong"
    if kind == "corruptMeta":
        if variant == "padLow":
            return "metaPadLow"
        if variant in ("padHigh", "padFF"):
            return "metaPadHigh"
        return "metaSum"
    return kind


def damage_classes(events, index, model_kinds):
    """Per shard: class of the damage present according to the model at event `index`, using the variants logged by
    the most recent Damage (or Write) event; damage left over from earlier steps is marked '(left)'."""
    last = None
    for k in range(index, -1, -1):
        if events[k]["ev"] in ("Damage", "Write"):
            last = events[k]
            break
    n = len(model_kinds)
    out = [""] * n
    for i in range(n):
        mk = model_kinds[i]
        if mk == "ok":
            continue
        if last and last["ev"] == "Damage" and last["kinds"][i] != "ok":
            out[i] = vclass(last["kinds"][i], last["variants"][i])
        elif last and last["ev"] == "Write" and (i + 1) in last["fail"]:
            v = last["variants"][last["fail"].index(i + 1)]
            out[i] = vclass(last["kind"], v.split(":")[-1])
        else:
            out[i] = mk + "(left)"
    return out


def pad_position(classes, model_kinds):
    """Position class of a corrupted pad count.  The decoder takes the pad count from one shard's metadata:
    'file'  = the lowest-numbered shard file that can be read at all has a corrupted pad count,
    'valid' = the lowest-numbered shard file that is self-consistent (complete, checksum matches, pad count in range)
              has a corrupted (in-range) pad count.   Returns e.g. 'metaPadHigh@file+metaPadLow@valid' or ''."""
    where = []
    for i, mk in enumerate(model_kinds):
        if mk in ("missing", "truncShort"):
            continue
        if classes[i].startswith("metaPad"):
            where.append(classes[i] + "@file")
        break
    for i, mk in enumerate(model_kinds):
        if mk == "ok" or classes[i] == "metaPadLow":
            if classes[i] == "metaPadLow":
                where.append("metaPadLow@valid")
            break
    return "+".join(where)


def norm_detail(s):
    s = s or ""
    m = re.search(r"panic: (?:runtime error: )?([^|]*)", s)
    if m:
        t = m.group(1).strip()
        t = re.sub(r"\[(\d*):(\d+)\]", lambda mm: "[%s:N]" % mm.group(1), t)
        t = re.sub(r"\[\d+\] with length \d+", "[N] with length N", t)
        t = re.sub(r"with capacity \d+", "with capacity N", t)
        return t
    s = re.sub(r"/[^\s:]+", "<path>", s)
    s = re.sub(r"\d+", "N", s)
    return s[:80]


def read_signature(dev):
    rec, evs, idx = dev["rec"], dev["events"], dev["index"]
    ev = evs[idx]
    classes = damage_classes(evs, idx, rec["kinds"])
    within = rec["nd"] <= rec["p"]
    if ev["res"] == "ok":
        got = "wrong-bytes"
    else:
        got = "%s[%s]" % (ev["res"], norm_detail(ev.get("detail")))
    sig = "%s:want=%s:got=%s:%s:kinds=%s" % ("read2" if rec["rounds"] >= 2 else "read", rec["want"], got,
                                            "within" if within else "beyond",
                                            "+".join(sorted(set(x for x in classes if x))))
    pp = pad_position(classes, rec["kinds"])
    if pp:
        sig += ":pad=" + pp
    return sig, classes


def inspect_signature(dev):
    rec, evs, idx = dev["rec"], dev["events"], dev["index"]
    ev = evs[idx]
    # what the model expected to be intact but is not, by the damage class it had before the read
    pre_classes = damage_classes(evs, idx, rec["pre"])
    bad = []
    for i, ok in enumerate(ev["intact"]):
        expect = rec["kinds"][i] == "ok"
        if expect and not ok:
            bad.append(pre_classes[i] or "was-intact")
        elif ok and not expect:
            bad.append("unexpectedly-intact")
    prev = evs[idx - 1]["ev"] if idx > 0 else ""
    ctx = {"Read": "after-repairing-read", "Write": "after-write", "Damage": "after-damage"}.get(prev, "after-" + prev)
    return "inspect:%s:not-intact=%s" % (ctx, "+".join(sorted(set(bad)))), pre_classes


def write_signature(dev):
    rec, evs, idx = dev["rec"], dev["events"], dev["index"]
    ev = evs[idx]
    nf = len(ev["fail"])
    rel = "le-p" if nf <= rec["p"] else "gt-p"
    return "write:failed-shard-writes=%s:leaves=%s:reported=%s" % (rel, ev["kind"], "ok" if ev["ok"] else "error")


def replay_of(dev):
    evs, idx = dev["events"], dev["index"]
    lo = 0
    # enough to reproduce: setup + write + the steps since the last fresh damage
    for k in range(idx, -1, -1):
        if evs[k]["ev"] == "Damage" and evs[k].get("fresh"):
            lo = k
            break
    head = [e for e in evs[:3] if e["ev"] in ("Setup", "Write")]
    return dict(trace=dev["trace"], model=dev["rec"], head=head, steps=evs[max(lo, len(head)):idx + 1])
