"""Shared by checks/C21.py and checks/C24.py (spec RegistryMap / RegistryMapTrace, driver registrymap)."""
import json, os, re
import vlib


def source_constants(c, binp):
    """Layout constants of the tree under test, read from its source at run time (plus what the driver measures)."""
    def grab(path, rx, what):
        try:
            txt = open(os.path.join(vlib.REPO, path)).read()
        except OSError as e:
            raise vlib.InfraError("cannot read %s: %s" % (path, e))
        m = re.search(rx, txt, re.M)
        if not m:
            raise vlib.InfraError("cannot find %s in %s" % (what, path))
        return int(m.group(1))
    k = dict(
        SlotsPerBlock=grab("fs/hashmap.go", r"^\s*handlesPerBlock\s*=\s*(\d+)", "handlesPerBlock"),
        HandleSize=grab("handle.go", r"^\s*HandleSizeInBytes\s*=\s*(\d+)", "HandleSizeInBytes"),
        CrcWidth=grab("fs/marshaldata.go", r"dataLen\s*:=\s*len\(block\)\s*-\s*(\d+)", "checksum width (marshalData)"),
    )
    p = c.run([binp, "consts"])
    m = json.loads(p.stdout)
    k["BlockSize"] = int(m["BlockSize"])            # directio.BlockSize, a constant of the vendored library
    if int(m["HandleSizeInBytes"]) != k["HandleSize"]:
        raise vlib.InfraError("HandleSizeInBytes: source text says %s, compiled constant is %s" % (k["HandleSize"], m["HandleSizeInBytes"]))
    k["measured"] = m
    return k


def driver_env(k):
    return dict(RM_SLOTS=str(k["SlotsPerBlock"]), RM_HANDLE=str(k["HandleSize"]), RM_BLOCK=str(k["BlockSize"]),
                RM_CRC=str(k["CrcWidth"]))


def trace_cfg(k, invariants, observational=False):
    return """SPECIFICATION TraceSpec
CONSTANTS
  SlotsPerBlock = %(SlotsPerBlock)d
  HandleSize = %(HandleSize)d
  BlockSize = %(BlockSize)d
  CrcWidth = %(CrcWidth)d
  HashMods = {1}
  Ids <- NoIds
  Vals = {1}
  MaxOps = 0
  MaxSeg = 0
  StaleSearch = TRUE
  KeepHist = FALSE
  Observational = %(obs)s
  EdgeIds = {"nil"}
  WriteIds = {"nil"}
  EdgeVers = {"zero"}
  EdgeStamps = {"zero"}
  CaseSlots = {0}
INVARIANTS %(inv)s
CONSTRAINT HighWater
POSTCONDITION TraceAccepted
CHECK_DEADLOCK FALSE
""" % dict(k, inv=" ".join(invariants), obs="TRUE" if observational else "FALSE")


def layout_cfg(k, write_ids, codec_ids, vers, stamps):
    q = lambda xs: "{" + ", ".join('"%s"' % x for x in xs) + "}"
    return """\\* C24: every (slot, edge handle) write and every edge handle through the codec, with the layout constants of the source
SPECIFICATION LayoutSpec
CONSTANTS
  SlotsPerBlock = %(SlotsPerBlock)d
  HandleSize = %(HandleSize)d
  BlockSize = %(BlockSize)d
  CrcWidth = %(CrcWidth)d
  HashMods = {1}
  Ids <- NoIds
  Vals = {1}
  MaxOps = 0
  MaxSeg = 1
  StaleSearch = FALSE
  KeepHist = FALSE
  EdgeIds = %(codec_ids)s
  WriteIds = %(write_ids)s
  EdgeVers = %(vers)s
  EdgeStamps = %(stamps)s
  CaseSlots = {%(slots)s}
INVARIANTS LayoutTypeOK OneRecordPerSlot
PROPERTIES SlotIsolation
CHECK_DEADLOCK FALSE
""" % dict(k, codec_ids=q(codec_ids), write_ids=q(write_ids), vers=q(vers), stamps=q(stamps),
           slots=", ".join(str(i) for i in range(k["SlotsPerBlock"])))


def layout_violation(c, k):
    """The layout ASSUMEs of the specification evaluated on the constants of the source.  Returns None or text."""
    need = k["SlotsPerBlock"] * k["HandleSize"] + k["CrcWidth"]
    return None if need <= k["BlockSize"] else "%d slots x %d bytes + %d checksum bytes = %d > block of %d" % (
        k["SlotsPerBlock"], k["HandleSize"], k["CrcWidth"], need, k["BlockSize"])


def validate(c, cfg_text, traces, chunk_lines=60000, timeout=1500, cfg_name="RegistryMapTrace_run.cfg", par=4, max_rej=2):
    """Trace validation with RegistryMapTrace.  traces: [(name, [event, ...])].
    Returns (rejections, stale): rejections as vlib.validate_traces does; stale = [(trace name, event index, event,
    events)] for every step that needed the finding branch of the specification.
    The traces are split into `par` groups validated by as many single-worker TLC processes at the same time.
    A group stops after max_rej rejected traces (every rejection costs one more TLC run; a handful is enough for a
    verdict); the traces it did not get to are not counted as validated."""
    from concurrent.futures import ThreadPoolExecutor
    groups = [[] for _ in range(max(1, min(par, len(traces))))]
    load = [0] * len(groups)
    for t in sorted(traces, key=lambda t: -len(t[1])):
        g = load.index(min(load))
        groups[g].append(t); load[g] += len(t[1]) + 1
    with ThreadPoolExecutor(len(groups)) as ex:
        futs = [ex.submit(_validate_group, c, cfg_text, g, chunk_lines, timeout, cfg_name, "trace%d" % n, max_rej)
                for n, g in enumerate(groups)]
        res = [f.result() for f in futs]
    rejections, stale = [], []
    for rj, st, states, trans, ok in res:
        rejections += rj; stale += st
        c.cov["states"] += states; c.cov["transitions"] += trans; c.cov["traces_validated_against_impl"] += ok
    return rejections, stale


def _validate_group(c, cfg_text, traces, chunk_lines, timeout, cfg_name, tag, max_rej):
    rejections, stale, states, trans, ok = [], [], 0, 0, 0
    i = 0
    while i < len(traces) and len(rejections) < max_rej:
        part, n = [], 0
        while i < len(traces) and (not part or n + len(traces[i][1]) + 1 <= chunk_lines):
            part.append(traces[i]); n += len(traces[i][1]) + 1; i += 1
        pending = part
        while pending and len(rejections) < max_rej:
            lines, index = [], []
            for ti, (name, evs) in enumerate(pending):
                lines.append(json.dumps({"ev": "Reset"})); index.append((ti, -1))
                for ei, ev in enumerate(evs):
                    lines.append(json.dumps(ev, sort_keys=True)); index.append((ti, ei))
            r = c.tlc("RegistryMapTrace", cfg_name, workers=1, timeout=timeout, tag=tag,
                      files={"trace.ndjson": "\n".join(lines) + "\n", cfg_name: cfg_text})
            if r.timed_out:
                raise vlib.InfraError("trace validation timed out")
            hwm = None
            for pr in r.prints:
                m = re.search(r'"HWM",\s*(\d+)', pr)
                if m:
                    hwm = int(m.group(1))
            inv = None
            if r.violated not in (None, "postcondition", "deadlock", "assumption", "temporal"):
                # an invariant failed in the state reached by consuming line l-1 (TLC then evaluates the postcondition
                # without the high-water mark, so the HWM it prints is meaningless)
                ls = re.findall(r"^/\\ l = (\d+)", r.out, re.M)
                if ls:
                    inv = r.violated
                    hwm = int(ls[-1]) - 2          # lines accepted before the offending one
            if hwm is None:
                raise vlib.InfraError("trace validation produced no HWM:\n%s" % r.out[-5000:])
            states += r.distinct
            trans += r.generated
            for pr in r.prints:
                m = re.match(r'<<"STALE",\s*(\d+),\s*"(\w+)">>', pr)
                if m and int(m.group(1)) <= len(index):
                    ti, ei = index[int(m.group(1)) - 1]
                    stale.append((pending[ti][0], ei, pending[ti][1][ei], pending[ti][1]))
            if hwm >= len(lines) and not inv:
                if r.violated and r.violated != "postcondition":
                    raise vlib.InfraError("trace spec error: %s\n%s" % (r.violated, r.out[-4000:]))
                ok += len(pending)
                pending = []
            else:
                ti, ei = index[hwm]
                name, evs = pending[ti]
                rejections.append(dict(trace=name, index=ei, event=evs[ei] if ei >= 0 else None, events=evs,
                                       invariant=inv, tlc_tail=r.out[-1500:] if inv else ""))
                ok += ti
                pending = pending[ti + 1:]
    return rejections, stale, states, trans, ok


def linear_path(evs, upto):
    """The calls that lead to event index `upto` of a tree-walk trace (Save/Back removed)."""
    cur, stack = [], []
    for e in evs[:upto + 1]:
        if e["ev"] == "Back":
            cur = stack.pop() if stack else []
        elif e["ev"] in ("Add", "Set", "Remove", "Get"):
            if e.get("save"):
                stack.append(list(cur))
            cur.append({k: e[k] for k in ("ev", "ids", "vals", "batch", "res", "wrote", "erased", "found", "nseg") if k in e})
    return [x for x in cur if x["ev"] != "Get"][-12:] + [x for x in cur[-1:] if x["ev"] == "Get"]
