"""Shared generator configurations for checks bound to TxnStore through harness/cmd/txn."""
import os


def gen(c, prefix, **over):
    g = dict(MaxStores=2, MaxTxns=4, MaxOps=12, Keys=12, Slots=[2, 4, 8], Placements=["node", "segment", "active", "global"],
             BigValues=[0], DupStores=False, Rollbacks=True, Prefix=prefix)
    g.update(over)
    return g


def cfg(c, name, programs, gen_cfg, **over):
    d = dict(out=os.path.join(c.scratch, name + ".ndjson"), data=c.datadir(name + "-data"), seed=c.seed,
             programs=programs, gen=gen_cfg, max_fault=0)
    d.update(over)
    return d
