"""Shared by checks/C22.py and checks/C23.py (spec module BlockCow, driver harness/cmd/blockcow)."""
import json, os, re
import vlib

NILC = {"q": [-2, -2, -2, -2], "x": "nil"}

LAYOUT_SETS = {"LayoutsInside": [[2, 2], [4, 4]], "LayoutsAll": [[1, 1], [1, 2], [2, 2], [3, 3], [3, 4], [4, 4]], "LayoutsSmall": [[1, 2], [2, 2], [4, 4]]}


def norm_event(e):
    """Every field the trace spec may read must be present in every event."""
    e = dict(e)
    e.pop("err", None)
    e.pop("name", None)
    e.setdefault("actor", "")
    e.setdefault("to", "")
    e.setdefault("res", "")
    e.setdefault("val", 0)
    e.setdefault("img", 0)
    e.setdefault("kind", "")
    e.setdefault("p", 0)
    e.setdefault("lay", [1, 1])
    e.setdefault("init_img", 0)
    e.setdefault("blk", NILC)
    e.setdefault("cow", {"k": "none", "c": NILC})
    return e


def trace_cfg(corrupt_mode, reader_deletes, allow_delete_fresh, readers=("r1", "r2", "r3", "fin", "ro"), nwriters=2,
              init_img=1, reader_restores=True):
    return """SPECIFICATION TraceSpec
CONSTANTS
  Readers = {%s}
  NWriters = %d
  Layouts <- LayoutsAll
  TornPrefixes <- AllPrefixes
  MaxCrash = 1
  InitImg = %d
  CorruptMode = "%s"
  ReaderDeletes = %s
  ReaderRestores = %s
  AllowDeleteFresh = %s
  ReaderCrash = TRUE
  ROReaders = {"ro"}
CONSTRAINT HighWater
POSTCONDITION TraceAccepted
CHECK_DEADLOCK FALSE
""" % (", ".join('"%s"' % r for r in readers), nwriters, init_img, corrupt_mode,
       "TRUE" if reader_deletes else "FALSE", "TRUE" if reader_restores else "FALSE",
       "TRUE" if allow_delete_fresh else "FALSE")


def mc_cfg(readers, nwriters, layouts, corrupt_mode, reader_deletes, allow_delete_fresh, reader_crash=True,
           emit=False, invariants=("TypeOK", "ReadIsOldOrNew"), max_crash=1, reader_restores=True, init_img=1):
    s = """SPECIFICATION Spec
CONSTANTS
  Readers = {%s}
  NWriters = %d
  Layouts <- %s
  TornPrefixes <- AllPrefixes
  MaxCrash = %d
  InitImg = %d
  CorruptMode = "%s"
  ReaderDeletes = %s
  ReaderRestores = %s
  AllowDeleteFresh = %s
  ReaderCrash = %s
  ROReaders = {}
CHECK_DEADLOCK FALSE
""" % (", ".join('"%s"' % r for r in readers), nwriters, layouts, max_crash, init_img, corrupt_mode,
       "TRUE" if reader_deletes else "FALSE", "TRUE" if reader_restores else "FALSE",
       "TRUE" if allow_delete_fresh else "FALSE",
       "TRUE" if reader_crash else "FALSE")
    inv = list(invariants)
    if emit:
        inv.append("EmitState")
        s += "ACTION_CONSTRAINT EmitEdge\n"
    s += "INVARIANTS " + " ".join(inv) + "\n"
    return s


def probe(c, binp):
    """Which variant of the read procedure does the tree implement?  Selects the model variant the tree is
    compared with (the findings themselves are established by the checks, not by the probe)."""
    out = os.path.join(c.scratch, "probe.json")
    c.run([binp, "probe", c.datadir("probe"), out], timeout=120)
    p = json.load(open(out))
    serves = p["corrupt_lookup"]["res"] == "ok"
    deletes = bool(p["lookup_deletes_backup"])
    if p.get("backup_seen_at_pre_write") != "full":
        raise vlib.InfraError("driver does not see the backup file the code creates: %s" % p)
    gates = p["writer_gates"].split()
    if gates != "pre_read post_read pre_lock pre_read post_read pre_write post_write pre_unlock done".split():
        # the gate sequence of an uncontended update is what the model's control points are mapped to
        vlib.log("note: writer gate sequence differs from the modelled one:", gates)
    return dict(corrupt_mode="serve" if serves else "report", reader_deletes=deletes,
                reader_restores=bool(p["lookup_restores_block"]), raw=p)


# ------------------------------------------------------------------------------------------------
# spec -> code: export of the state graph of the exhaustive model, fused to the granularity of the gates

NON_STOPPING = {"delstale", "checkcow", "mkcow"}


def export_graph(c, cfg_text, workers=4, timeout=900, tag="emit"):
    """Run TLC with EmitState/EmitEdge and return (states: key -> record, edges: [(u, v)], inits, TLCResult)."""
    r = c.tlc_must_pass("BlockCow", "BlockCow_emit.cfg", files={"BlockCow_emit.cfg": cfg_text}, workers=workers,
                        timeout=timeout, tag=tag)
    states, edges = {}, []
    ids = {}
    for p in r.prints:
        if not p.startswith('"S|#|') and not p.startswith('"E|#|'):
            continue
        s = vlib.tla_unquote(p)
        parts = s.split("|#|")
        if parts[0] == "S":
            k = ids.setdefault(parts[1], len(ids))
            states[k] = json.loads(parts[2])
        else:
            edges.append((ids.setdefault(parts[1], len(ids)), ids.setdefault(parts[2], len(ids))))
    edges = sorted(set(edges))
    if len(states) != r.distinct:
        raise vlib.InfraError("state graph export incomplete: %d records for %d distinct states" % (len(states), r.distinct))
    inits = [k for k, v in states.items() if v["act"]["n"] == "Init"]
    return states, edges, inits, r


def stable(rec):
    return all(p not in NON_STOPPING for p in rec["pc"].values())


def fuse(states, edges, inits):
    """Macro steps: from a state in which every actor stands at a gate, one actor runs until it stands at a gate
    again (or is dead).  Returns macro edges (u, v, [fine states visited]) and the number of fine edges that
    interleave another actor inside such a step (not realisable through the DirectIOSim seam)."""
    out = {}
    for u, v in edges:
        out.setdefault(u, []).append(v)
    macro, unreal = {}, 0
    seen, todo = set(inits), list(inits)
    while todo:
        u = todo.pop()
        ms = []
        for v in out.get(u, []):
            a = states[v]["act"]["a"]
            stack = [(v, [v])]
            while stack:
                x, path = stack.pop()
                if stable(states[x]):
                    ms.append((x, path))
                    continue
                for y in out.get(x, []):
                    if states[y]["act"]["a"] == a:
                        stack.append((y, path + [y]))
                    else:
                        unreal += 1
        macro[u] = ms
        for x, _ in ms:
            if x not in seen:
                seen.add(x)
                todo.append(x)
    return macro, unreal


def cover_paths(macro, inits, rng, max_paths=None):
    """Greedy cover of all macro edges by paths from an initial state."""
    from collections import deque
    parent = {}
    dq = deque(inits)
    for i in inits:
        parent[i] = None
    order = []
    while dq:
        u = dq.popleft()
        order.append(u)
        for idx, (v, _) in enumerate(macro.get(u, [])):
            if v not in parent:
                parent[v] = (u, idx)
                dq.append(v)
    uncovered = {(u, idx) for u in macro for idx in range(len(macro[u]))}
    total = len(uncovered)

    def prefix(u):
        p = []
        while parent[u] is not None:
            pu, idx = parent[u]
            p.append((pu, idx))
            u = pu
        return list(reversed(p))

    paths = []
    targets = [(u, idx) for u in order for idx in range(len(macro.get(u, [])))]
    if max_paths:
        rng.shuffle(targets)   # capped: a seeded sample of the edges instead of the shallow ones
    for (u, idx) in targets:
        if True:
            if (u, idx) not in uncovered:
                continue
            path = prefix(u) + [(u, idx)]
            cur = macro[u][idx][0]
            while True:
                cand = [i for i in range(len(macro.get(cur, []))) if (cur, i) in uncovered and (cur, i) not in path]
                if not cand:
                    break
                i = cand[rng.randrange(len(cand))]
                path.append((cur, i))
                cur = macro[cur][i][0]
            for e in path:
                uncovered.discard(e)
            paths.append(path)
            if max_paths and len(paths) >= max_paths:
                return paths, total, total - len(uncovered)
    return paths, total, total - len(uncovered)


def plan_for(states, macro, path, name):
    """Scheduler commands for one path of macro edges (no expectations: those stay in the spec)."""
    u0 = path[0][0]
    rec0 = states[u0]
    steps = []
    for (u, idx) in path:
        v, fine = macro[u][idx]
        first, last = states[fine[0]]["act"], states[v]["act"]
        a = first["a"]
        if last["n"] == "Crash":
            arg = last["arg"]
            st = {"a": a, "c": "crash", "kind": "plain", "p": 0}
            pre = states[fine[-2]] if len(fine) >= 2 else states[u]
            if 1 <= arg <= 3:
                st.update(kind="torn", p=arg)
            elif arg in (10, 11):
                st.update(kind="cowempty" if arg == 10 else "cowpartial", fix="empty" if arg == 10 else "partial")
            if pre["pc"][a] == "mkcow":
                # the writer died inside the ungated stretch that creates the backup file: let it reach the next gate,
                # kill it there and put the backup file into the state the interrupted system call leaves behind
                st["preadv"] = True
                if "fix" not in st:
                    st["fix"] = "prior" if states[v]["cow"] == states[u]["cow"] else \
                        ("none" if states[v]["cow"]["k"] == "none" else "prior")
            if st.get("preadv") or len(fine) == 1:
                if a.startswith("w"):
                    st.update(op="update", img=states[v]["wimg"][a])
                steps.append(st)
                continue
            raise vlib.InfraError("unexpected crash inside a fused step: %s" % [states[x]["act"] for x in fine])
        st = {"a": a, "c": "adv"}
        if a.startswith("w"):
            st.update(op="update", img=states[v]["wimg"][a])
        steps.append(st)
    return {"name": name, "lay": rec0["lay"], "init_img": rec0["blk"]["q"][3], "steps": steps, "final": True}


# ------------------------------------------------------------------------------------------------
# code -> spec with notes

def _run_trace_chunk(c, pending, cfg_text, timeout, tag):
    """One TLC run over the traces in `pending`.  Returns (accepted: set of trace positions, notes, hwm, TLCResult)."""
    lines, index, last = [], [], []
    for ti, (name, evs) in enumerate(pending):
        lines.append({"ev": "Reset", "trace": name})
        index.append((ti, -1))
        for ei, ev in enumerate(evs):
            lines.append(dict(ev))
            index.append((ti, ei))
        last.append(len(lines))           # 1-based number of the last line of this trace
    # nr: 1-based line number of the next Reset after this line (or one past the end)
    nxt = len(lines) + 1
    for i in range(len(lines) - 1, -1, -1):
        lines[i]["nr"] = nxt
        if lines[i]["ev"] == "Reset":
            nxt = i + 1
    text = "\n".join(json.dumps(x, sort_keys=True) for x in lines) + "\n"
    r = c.tlc("BlockCowTrace", "T.cfg", workers=1, timeout=timeout, tag=tag,
              files={"trace.ndjson": text, "T.cfg": cfg_text})
    if r.timed_out:
        raise vlib.InfraError("trace validation timed out")
    hwm, ok_lines, notes = None, set(), []
    for pr in r.prints:
        m = re.search(r'"HWM",\s*(\d+)', pr)
        if m:
            hwm = int(m.group(1))
            continue
        s = vlib.tla_unquote(pr)
        if not isinstance(s, str):
            continue
        if s.startswith("OK|"):
            ok_lines.add(int(s[3:]))
        elif s.startswith("NOTE|"):
            f = s.split("|")
            ln = int(f[1]) - 1
            if 0 <= ln < len(index):
                ti, ei = index[ln]
                notes.append(dict(trace=pending[ti][0], index=ei, kind=f[2], used=f[3] if len(f) > 3 else "",
                                  events=pending[ti][1]))
    if hwm is None or (r.violated and r.violated != "postcondition") or r.rc != 0 and not r.prints:
        raise vlib.InfraError("trace validation failed to run (%s):\n%s" % (r.violated, r.out[-5000:]))
    accepted = {ti for ti in range(len(pending)) if last[ti] in ok_lines}
    return accepted, notes, hwm, r


def validate_with_notes(c, traces, cfg_text, chunk=400, timeout=900, parallel=4, diagnose=6):
    """Trace validation with BlockCowTrace.  A rejected trace does not stop the run (TraceSkip); a trace is accepted
    iff the spec printed OK|<its last line>.  The first `diagnose` rejected traces are re-run alone to find the
    first event the spec refuses.  Returns (rejections, notes); notes = what the spec printed about accepted steps
    (finding actions taken, property broken)."""
    from concurrent.futures import ThreadPoolExecutor
    chunks = [list(traces[off:off + chunk]) for off in range(0, len(traces), chunk)]

    def one(args):
        ci, pending = args
        accepted, notes, hwm, r = _run_trace_chunk(c, pending, cfg_text, timeout, "trace-c%d" % ci)
        rejected = [pending[ti] for ti in range(len(pending)) if ti not in accepted]
        return rejected, notes, dict(states=r.distinct, transitions=r.generated, ok=len(accepted))

    rejected, notes = [], []
    with ThreadPoolExecutor(max_workers=max(1, parallel)) as ex:
        for rj, nts, st in ex.map(one, list(enumerate(chunks))):
            rejected += rj
            notes += nts
            c.cov["states"] += st["states"]
            c.cov["transitions"] += st["transitions"]
            c.cov["traces_validated_against_impl"] += st["ok"]
    rejnames = {n for n, _ in rejected}
    notes = [n for n in notes if n["trace"] not in rejnames]

    def diag(args):
        k, (name, evs) = args
        _, _, hwm, r = _run_trace_chunk(c, [(name, evs)], cfg_text, timeout, "trace-d%d" % k)
        ei = hwm - 1          # lines consumed: Reset + events 0..hwm-2; first refused event has index hwm-1
        ei = max(0, min(ei, len(evs) - 1))
        return dict(trace=name, index=ei, event=evs[ei], prev=evs[ei - 1] if ei > 0 else None, events=evs, tlc_tail="")

    rejections = []
    # diagnose one representative per distinct trace-name class first (names without counters), then the rest unexamined
    with ThreadPoolExecutor(max_workers=max(1, parallel)) as ex:
        rejections += list(ex.map(diag, list(enumerate(rejected[:diagnose]))))
    for name, evs in rejected[diagnose:]:
        rejections.append(dict(trace=name, index=-1, event=evs[-1], prev=None, events=evs, tlc_tail="(not diagnosed)"))
    uniq, seen = [], set()
    for n in notes:
        k = (n["trace"], n["index"], n["kind"])
        if k not in seen:
            seen.add(k)
            uniq.append(n)
    return rejections, uniq


def used_set(s):
    return sorted(set(re.findall(r'[a-z]+', s or "")))
