"""Shared machinery of C17 and C18 (spec/OrderedStore*.tla, harness/cmd/orderedstore).

Flow of both checks:
  1. design level: TLC exhaustive run of OrderedStore (every public call on tiny domains, invariants incl. the
     range theorem), every action must have been taken;
  2. spec -> code: `tlc -simulate` of OrderedStoreSim prints random behaviours of the model as programs;
  3. the Go driver runs programs (TLC's, exhaustive short sequences, seeded random long ones, probe batteries) on real
     btree.Btree instances of many configurations and logs every call;
  4. code -> spec: every call log is validated by TLC against OrderedStoreTrace (strict constants: no finding action
     enabled).  A rejected line is a real-code behaviour the specification does not allow -> c.report().
     Traces rejected only because of a *known* finding that has a finding action (D1, D2) are validated again with the
     finding actions enabled, so that the remainder of those traces is still checked.
"""
import json, os, re, threading, collections
from concurrent.futures import ThreadPoolExecutor
import vlib

SPEC = "OrderedStore"
TRACE = "OrderedStoreTrace"
CFG_STRICT = "OrderedStoreTrace.cfg"
CFG_TOLERANT = "OrderedStoreTraceTolerant.cfg"

KEEP = ("ev", "k", "k2", "v", "id", "first", "r", "rk", "rid", "rv", "seq", "cnt", "ck", "cid", "tc", "aff", "trk", "sane")

ALL_SLOTS = [2, 3, 4, 5, 6, 8, 24]


class Background:
    """Run fn(*a) in a thread; result() re-raises its exception (InfraError stays InfraError)."""
    def __init__(self, fn, *a):
        self.val, self.exc = None, None

        def go():
            try:
                self.val = fn(*a)
            except BaseException as e:          # noqa
                self.exc = e
        self.t = threading.Thread(target=go, daemon=True)
        self.t.start()

    def result(self):
        self.t.join()
        if self.exc is not None:
            raise self.exc
        return self.val


# ----------------------------------------------------------------------------------------------- design level
def parse_coverage(out):
    cov = {}
    for m in re.finditer(r"^<(\w+) line \d+, col \d+ to line \d+, col \d+ of module (\w+)[^>]*>: (\d+):(\d+)", out, re.M):
        cov[m.group(1)] = (int(m.group(3)), int(m.group(4)))
    return cov


EXPECTED_ACTIONS = 24


def design_check(c):
    cfg = c.pick("OrderedStore_mc.cfg", "OrderedStore_mc_thorough.cfg")
    r = c.tlc_must_pass(SPEC, cfg, workers=4, timeout=c.pick(900, 2400), coverage=True, heap="4g", tag="design")
    cov = parse_coverage(r.out)
    cov.pop("Init", None)
    untaken = sorted(a for a, (d, t) in cov.items() if t == 0)
    if len(cov) < EXPECTED_ACTIONS or untaken:
        raise vlib.InfraError("vacuity: exhaustive model has %d actions, untaken: %s" % (len(cov), untaken))
    return r, cov


def sim_programs(c, num, depth):
    """spec -> code: behaviours of the model as programs."""
    cfgtxt = open(os.path.join(vlib.VERIF, "spec", "OrderedStoreSim.cfg")).read()
    cfgtxt = re.sub(r"Depth = \d+", "Depth = %d" % depth, cfgtxt)
    r = c.tlc("OrderedStoreSim", "sim.cfg", workers=1, timeout=600, simulate="num=%d" % num, depth=depth + 1,
              files={"sim.cfg": cfgtxt}, heap="2g", tag="sim")
    if r.timed_out or r.violated:
        raise vlib.InfraError("TLC simulation failed: %s\n%s" % (r.violated, r.out[-3000:]))
    c.cov["states"] += r.distinct
    c.cov["transitions"] += r.generated
    progs, seen = [], set()
    for p in r.prints:
        m = re.match(r'<<"BEH", (".*")>>$', p)
        if not m:
            continue
        b = json.loads(vlib.tla_unquote(m.group(1)))
        key = json.dumps(b["prog"][:-1])           # the successors of one state differ in the last call only
        if key in seen:
            continue
        seen.add(key)
        progs.append(b)
    if len(progs) < max(1, num // 2):
        raise vlib.InfraError("TLC simulation produced %d programs (wanted about %d)" % (len(progs), num))
    return progs


# ----------------------------------------------------------------------------------------------- jobs
def cfgd(slot, unique, lb, gran=1):
    return dict(slot=slot, unique=unique, lb=lb, gran=gran)


def cname(cf):
    return "s%d%s%s%s" % (cf["slot"], "u" if cf["unique"] else "d", "L" if cf["lb"] else "n",
                          "g%d" % cf["gran"] if cf["gran"] != 1 else "")


def op(name, k=0, k2=0, v="", id=0, first=False):
    return dict(op=name, k=k, k2=k2, v=v, id=id, first=first)


def hand_jobs():
    """The two findings that have finding actions, as fixed programs (concrete failing inputs)."""
    d1 = [op("Add", 1, v="a"), op("Add", 2, v="b"), op("Find", 2), op("Add", 3, v="c"),       # root splits under the cursor
          op("Find", 0), op("GetCurrentItem"), op("Remove", 0), op("Add", 0, v="z"), op("Find", 3), op("Add", 4, v="d"),
          op("Add", 5, v="e"), op("Find", 5), op("Add", 6, v="f"), op("Add", 7, v="g"), op("Remove", 0), op("Update", 0, v="y"),
          op("Find", 0, first=True), op("ScanFwd")]
    d2 = [op("Add", 1, v="a"), op("Add", 1, v="b"), op("GetCurrentValue"), op("Add", 1, v="b"), op("UpdateCurrentKey", 2),
          op("UpdateCurrentItem", 2, v="c"), op("GetCurrentValue"), op("UpdateCurrentKey", 2), op("UpdateCurrentKey", 1)]
    return [
        dict(family="hand", name="hand/d1-find-zero-key", kind="program", cfg=cfgd(2, False, False), program=d1),
        dict(family="hand", name="hand/d1-find-zero-key-unique", kind="program", cfg=cfgd(2, True, False), program=d1),
        dict(family="hand", name="hand/d2-key-guard-empty-cache", kind="program", cfg=cfgd(2, True, False), program=d2),
    ]


def explore_alphabet(keys, full=True):
    a = []
    for k in keys:
        a += [op("Add", k), op("Remove", k), op("AddIfNotExist", k), op("Upsert", k), op("Find", k, first=False)]
        if full:
            a += [op("Update", k), op("Find", k, first=True), op("FindInDescendingOrder", k)]
    a += [op("Next"), op("Previous"), op("RemoveCurrentItem"), op("UpdateCurrentValue"), op("First"), op("Last")]
    if full:
        a += [op("GetCurrentValue"), op("UpdateCurrentKey", keys[0])]
    return a


# prefixes for the exhaustive suffix enumeration: trees with a split, with a second level, and with holes left by removals
PREFIXES = {
    "empty": [],
    "split": [op("Add", 2, v="p1"), op("Add", 1, v="p2"), op("Add", 3, v="p3"), op("Find", 3)],
    "deep": [op("Add", k, v="p%d" % i) for i, k in enumerate([2, 1, 3, 2, 1, 3, 2])] + [op("Find", 2, first=True)],
    "holes": [op("Add", k, v="p%d" % i) for i, k in enumerate([2, 1, 3, 2, 1, 3, 2, 1])] +
             [op("Remove", 2), op("Remove", 1), op("Remove", 3), op("Last")],
}


def stable_hash(s):
    h = 0
    for ch in str(s):
        h = (h * 131 + ord(ch)) & 0x7FFFFFFF
    return h


def seed_for(c, *parts):
    return (c.seed * 1000003 + stable_hash("/".join(str(p) for p in parts))) & 0x7FFFFFFF


TARGET = {2: 24, 3: 24, 4: 36, 5: 36, 6: 50, 8: 70, 24: 130}


def rand_job(c, family, cf, i, ops, scale=1.0, lo=1, keys=None, step=1, obs=None):
    t = int(TARGET.get(cf["slot"], 40) * scale)
    if keys is None:
        keys = 3 * t if cf["unique"] else (10 + (i * 5) % 11)          # 10..20 key values, heavy duplicates
    if obs is None:
        obs = 1 if t <= 60 else 4
    return dict(family=family, name="%s/%s/%d" % (family, cname(cf), i), kind="rand", cfg=cf, seed=seed_for(c, family, cname(cf), i),
                lo=lo, keys=keys, step=step, ops=ops, target=t, obs=obs)


def c17_jobs(c, programs):
    q = c.quick
    jobs = hand_jobs()
    slots = [2, 4, 8, 24, 3] if q else ALL_SLOTS
    # exhaustive short sequences behind fixed prefixes, smallest slot length (deepest trees)
    for unique in (False, True):
        for lb in (False, True):
            cf = cfgd(2, unique, lb)
            if q:
                pns = ("holes",) if lb else ("split",)
            else:
                pns = ("empty", "split", "deep", "holes")
            for pn in pns:
                jobs.append(dict(family="explore", name="explore/%s/%s" % (cname(cf), pn), kind="explore", cfg=cf,
                                 prefix=PREFIXES[pn], alphabet=explore_alphabet([1, 2, 3] if not q else [1, 2], full=not q),
                                 depth=2))
    if not q:
        for unique in (False, True):
            for lb in (False, True):
                cf = cfgd(2, unique, lb)
                jobs.append(dict(family="explore3", name="explore3/%s" % cname(cf), kind="explore", cfg=cf,
                                 prefix=PREFIXES["holes"] if lb else PREFIXES["deep"],
                                 alphabet=explore_alphabet([1, 2], full=False), depth=3))
    # seeded random long programs: grow / mixed / delete-heavy / regrow phases, 10..20 keys with heavy duplicates
    nseeds = 1 if q else 4
    for slot in slots:
        for unique in (False, True):
            for lb in (False, True):
                cf = cfgd(slot, unique, lb)
                for i in range(nseeds):
                    jobs.append(rand_job(c, "rand", cf, i, ops=c.pick(240, 420)))
    # key updates: custom comparer, keys 10k+t compare equal for equal k
    for slot in ((2, 4) if q else (2, 4, 8)):
        for unique in (False, True):
            cf = cfgd(slot, unique, slot == 4, gran=10)
            for i in range(nseeds):
                jobs.append(rand_job(c, "tagged", cf, i, ops=c.pick(200, 360), keys=(None if unique else 8)))
    # key 0 and negative keys (finding D1 lives here)
    for unique in (False, True):
        for i in range(c.pick(2, 6)):
            cf = cfgd(2 if i % 2 == 0 else 4, unique, i % 3 == 1)
            jobs.append(rand_job(c, "zero", cf, i, ops=c.pick(140, 300), scale=0.5, lo=-3, keys=7))
    # big populations: several levels also with wide nodes; contents compared every obs-th call
    bigs = [(8, 150), (24, 110)] if q else [(6, 300), (8, 400), (24, 700), (24, 420)]
    for bi, (slot, tgt) in enumerate(bigs):
        for unique in (False, True):
            cf = cfgd(slot, unique, (bi + int(unique)) % 2 == 0)
            jobs.append(dict(family="big", name="big/%s/%d" % (cname(cf), tgt), kind="big", cfg=cf,
                             seed=seed_for(c, "big", cname(cf), tgt), lo=1, keys=(3 * tgt if unique else 20), step=1,
                             target=tgt, obs=c.pick(20, 40)))
    jobs += program_jobs(programs, [2, 4] if q else [2, 4, 8])
    return jobs


def program_jobs(programs, slots, drop=()):
    jobs = []
    for pi, b in enumerate(programs):
        prog = [o for o in b["prog"] if o["op"] not in drop]
        for slot in slots:
            for lb in (False, True):
                cf = cfgd(slot, b["unique"], lb, b["gran"])
                jobs.append(dict(family="tlcsim", name="tlcsim/%s/%d" % (cname(cf), pi), kind="program", cfg=cf, program=prog))
    return jobs


def c18_jobs(c, programs):
    """Search and scan calls only where the property speaks; key updates (C17's business) are left out."""
    q = c.quick
    jobs = hand_jobs()[:2]
    slots = [2, 4, 8, 24, 5] if q else ALL_SLOTS
    nseeds = 1 if q else 3
    for slot in slots:
        for unique in (False, True):
            for lb in (False, True):
                cf = cfgd(slot, unique, lb)
                t = TARGET.get(slot, 40)
                for i in range(nseeds):
                    # stored keys are even, so odd probes fall between keys; duplicates are heavy in non-unique stores
                    jobs.append(dict(family="probe", name="probe/%s/%d" % (cname(cf), i), kind="probe", cfg=cf,
                                     seed=seed_for(c, "probe", cname(cf), i), lo=2, step=2,
                                     keys=(2 * t if unique else 6 + (i * 3) % 7), target=t, nokeyupd=True,
                                     probes=c.pick(10, 18), pairs=c.pick(36, 140), window=c.pick(3, 5)))
    # exhaustive: every tree one call away from the prefix trees, then every search / range call of the alphabet
    search = []
    for k in (0, 1, 2, 3, 4):
        search += [op("Find", k, first=True), op("Find", k, first=False), op("FindInDescendingOrder", k),
                   op("RangeAsc", k, 3), op("RangeDesc", k, 1)]
    change = [op("Add", 1), op("Add", 3), op("Remove", 1), op("Remove", 3), op("Next"), op("Previous"), op("RemoveCurrentItem")]
    for unique in (False, True):
        for lb in (False, True):
            cf = cfgd(2, unique, lb)
            if q:
                pns = ("holes",) if lb else ("deep",)
            else:
                pns = ("empty", "split", "deep", "holes")
            for pn in pns:
                levels = [change, search + change] if q else [search + change, search + change]
                jobs.append(dict(family="explore", name="explore/%s/%s" % (cname(cf), pn), kind="explore", cfg=cf,
                                 prefix=PREFIXES[pn], levels=levels))
    jobs += program_jobs(programs, [2, 4] if q else [2, 4, 6], drop=("UpdateCurrentKey", "UpdateCurrentItem"))
    return jobs


# ----------------------------------------------------------------------------------------------- driver
def run_driver(c, binp, jobs, tag):
    jf = os.path.join(c.scratch, "jobs-%s.json" % tag)
    out = os.path.join(c.scratch, "out-%s.ndjson" % tag)
    st = os.path.join(c.scratch, "stats-%s.json" % tag)
    json.dump(jobs, open(jf, "w"))
    c.run([binp, "run", jf, out, st], timeout=c.pick(300, 900))
    traces = vlib.split_traces(vlib.read_ndjson(out))
    stats = json.load(open(st))
    if len(traces) != len(stats):
        raise vlib.InfraError("driver wrote %d traces but %d stats" % (len(traces), len(stats)))
    os.remove(out)
    return traces, stats


def slim(ev):
    e = {k: ev[k] for k in KEEP if k in ev}
    if ev["ev"] == "Setup":
        e["unique"], e["gran"] = ev["unique"], ev["gran"]
    return e


# ----------------------------------------------------------------------------------------------- validation
def _run_chunk(c, ci, part, cfg, timeout):
    lines, index = [], []
    for ti, (name, evs) in enumerate(part):
        lines.append(json.dumps({"ev": "Reset", "trace": name}))
        index.append((ti, -1))
        for ei, ev in enumerate(evs):
            lines.append(json.dumps(slim(ev), separators=(",", ":")))
            index.append((ti, ei))
    lines.append(json.dumps({"ev": "Reset", "trace": "END"}))
    r = c.tlc(TRACE, cfg, workers=1, timeout=timeout, files={"trace.ndjson": "\n".join(lines) + "\n"},
              tag="trace-%s-%d" % (cfg.split(".")[0][-4:], ci), heap="3g")
    if r.timed_out:
        raise vlib.InfraError("trace validation timed out (chunk %d, %d lines)" % (ci, len(lines)))
    hwm, rej = None, set()
    for pr in r.prints:
        m = re.search(r'"HWM",\s*(\d+)', pr)
        if m:
            hwm = int(m.group(1))
        m = re.search(r'"REJ",\s*(\d+)', pr)
        if m:
            rej.add(int(m.group(1)))
    if hwm != len(lines) or (r.violated is not None):
        raise vlib.InfraError("trace validation did not read the whole file (hwm=%s of %d, violated=%s):\n%s" %
                              (hwm, len(lines), r.violated, r.out[-4000:]))
    out = []
    for n in sorted(rej):
        ti, ei = index[n - 1]
        name, evs = part[ti]
        out.append(dict(trace=name, index=ei, event=evs[ei] if ei >= 0 else None, events=evs))
    try:
        import shutil
        shutil.rmtree(r.wd, ignore_errors=True)
    except Exception:
        pass
    return out, r.distinct, r.generated, len(part) - len(out)


def validate(c, traces, cfg=CFG_STRICT, workers=5, chunk_events=12000):
    """Returns rejections: first rejected line of every rejected trace."""
    chunks, cur, n = [], [], 0
    for t in traces:
        cur.append(t)
        n += len(t[1]) + 1
        if n >= chunk_events:
            chunks.append(cur)
            cur, n = [], 0
    if cur:
        chunks.append(cur)
    timeout = c.pick(900, 2400)
    with ThreadPoolExecutor(max_workers=workers) as ex:
        res = list(ex.map(lambda a: _run_chunk(c, a[0], a[1], cfg, timeout), list(enumerate(chunks))))
    rej = []
    for out, distinct, generated, okn in res:
        rej += out
        c.cov["states"] += distinct
        c.cov["transitions"] += generated
        c.cov["traces_validated_against_impl"] += okn
    return rej


# ----------------------------------------------------------------------------------------------- verdicts
def call_before(evs, i):
    j = i - 1
    while j >= 0 and evs[j]["ev"] in ("Observe",):
        j -= 1
    return evs[j] if j >= 0 else None


def brief(ev):
    if ev is None:
        return None
    b = {k: ev[k] for k in ("ev", "k", "k2", "v", "id", "first", "r", "rk", "rid", "rv", "cnt", "ck", "cid", "tc", "aff", "sane", "why") if k in ev}
    if ev.get("seq"):
        b["seq"] = ev["seq"] if len(ev["seq"]) <= 40 else ev["seq"][:40] + ["..."]
    return b


def classify(rej):
    """Stable signature + description of a rejected line (no ids, counters or seeds in the signature)."""
    evs, i, ev = rej["events"], rej["index"], rej["event"]
    setup = evs[0]
    gran = setup.get("gran", 1) or 1
    conf = "lb=%s,unique=%s" % ("on" if setup.get("lb") else "off", "yes" if setup.get("unique") else "no")
    kind = ev["ev"]
    prev = call_before(evs, i)
    zero_ord = (ev.get("k", 1) // gran) == 0
    if kind in ("Find", "Update", "UpdateKey", "Remove") and not ev.get("first") and zero_ord and prev is not None \
            and prev.get("tc") == -1 and ev["r"] == ("true" if kind == "Find" else "false"):
        return ("D1:%s:zero-key-on-vacated-cursor" % kind,
                "%s(%d%s) returned %s with the cursor on a slot vacated by a node split: the Find(k,false) short cut compares k with the zero key of the empty slot"
                % (kind, ev["k"], ", false" if kind == "Find" else "", ev["r"]), True)
    if kind in ("UpdateCurrentKey", "UpdateCurrentItem") and ev["r"] == "panic":
        return ("D2:%s:panic-order-changing-key-empty-item-cache" % kind,
                "%s(%d) with a key of different order panics (nil btree.currentItem in the error message) after a refused Add left the cursor on the existing item"
                % (kind, ev["k"]), True)
    adds = ("Add", "AddIfNotExist", "Upsert")
    why = ev.get("why", "")
    if not ev.get("sane", True) and setup.get("lb") and kind in adds and ev["r"] == "true":
        if "nil ID" in why:
            return ("D3:lb=on:phantom-empty-slots-after-split-of-leaf-in-unbalanced-branch",
                    "after %s(%d) a node keeps Count = slot length although all but one item moved to two new children: scans return "
                    "phantom items with zero key and nil id (addOnLeaf's 'unbalanced branch' split does not reset node.Count)"
                    % (kind, ev["k"]), False)
        if "out of order" in why or "relative order" in why:
            return ("D4:lb=on:item-misplaced-by-distribution-to-sibling-with-nil-child",
                    "after %s(%d) the items are no longer in key order (%s): load balancing handed an item to an inner sibling and "
                    "attached it at its first nil child, wherever that is" % (kind, ev["k"], why), False)
    if kind == "Observe" and setup.get("lb") and prev is not None and prev["ev"] in adds and prev["r"] == "true":
        # the same defect when the displaced item lands among items with an equal key: the walk is still in key order,
        # but the Add has changed the relative order of items that were there before
        before = next((e for e in reversed(evs[:i - 1]) if e["ev"] == "Observe"), None)
        if before is not None:
            new_ids = set(prev.get("aff") or [])
            rest = [x for x in (ev.get("seq") or []) if x["id"] not in new_ids]
            same_set = sorted(x["id"] for x in rest) == sorted(x["id"] for x in before["seq"])
            if same_set and rest != before["seq"] and len(ev["seq"]) == ev.get("cnt"):
                return ("D4:lb=on:item-misplaced-by-distribution-to-sibling-with-nil-child",
                        "%s(%d) changed the relative order of items stored before (an item moved among items with an equal key): load "
                        "balancing handed an item to an inner sibling and attached it at its first nil child" % (prev["ev"], prev["k"]), False)
    if not ev.get("sane", True):
        cls = re.sub(r"[0-9a-f]{8}-[0-9a-f-]{27}", "<id>", why)
        cls = re.sub(r"-?\d+", "N", cls)
        return ("rejected:%s:structure:%s:%s" % (kind, cls.replace(" ", "-")[:80], conf),
                "after %s(%s) the node structure is unsound: %s (%s, slot length %s)" % (kind, ev.get("k"), why, conf, setup.get("slot")), False)
    extra = ""
    if kind in ("Observe", "ScanFwd", "ScanBwd"):
        seq = ev.get("seq") or []
        ks = [x["k"] // gran for x in seq]
        if kind == "ScanBwd":
            ks = ks[::-1]
        extra = ":sorted=%s:len-vs-count=%s:sane=%s:after=%s" % ("yes" if ks == sorted(ks) else "no",
                                                                 "eq" if len(seq) == ev.get("cnt") else "ne",
                                                                 ev.get("sane", True), prev["ev"] if prev else "-")
    elif kind in ("Find",):
        extra = ":first=%s" % ev.get("first")
    sig = "rejected:%s:r=%s%s:%s" % (kind, ev.get("r"), extra, conf)
    what = "call log of a real B-tree (%s, slot length %s) is not a behaviour of OrderedStore at call %d: %s (previous call: %s)" % (
        conf, setup.get("slot"), i, json.dumps(brief(ev)), json.dumps(brief(prev)))
    return sig, what, False


def report_all(c, rejections, limit=3):
    """c.report for every rejection; returns the traces that may be validated again with finding actions enabled."""
    again, seen = [], collections.Counter()
    for x in rejections:
        sig, what, has_action = classify(x)
        seen[sig] += 1
        if seen[sig] <= limit:
            evs = x["events"]
            lo = max(0, x["index"] - 30)
            c.report(sig, what, dict(trace=x["trace"], setup=evs[0], rejected_index=x["index"],
                                     program=[brief(e) for e in evs[: x["index"] + 1] if e["ev"] not in ("Observe", "Setup")][-400:],
                                     window=[brief(e) for e in evs[lo: x["index"] + 1]]))
        if has_action:
            again.append((x["trace"], x["events"]))
    return again, seen


def validate_and_report(c, traces):
    rej = validate(c, traces, CFG_STRICT)
    again, seen = report_all(c, rej)
    seen2 = collections.Counter()
    if again:
        # the finding actions D1/D2 are enabled: everything else in those traces must still conform
        rej2 = validate(c, again, CFG_TOLERANT)
        _, seen2 = report_all(c, rej2)
    return rej, seen, seen2


def coverage(c, stats, traces, seen, extra=None):
    fam = collections.Counter(s["family"] for s in stats)
    calls = sum(s["calls"] for s in stats)
    nontrivial = set(s["hash"] for s in stats if s["depth"] >= 1)
    cfgs = sorted(set("slot=%d,unique=%s,lb=%s" % (s["slot"], s["unique"], s["lb"]) for s in stats))
    c.cov.update(dict(
        evaluations=calls,
        distinct_nontrivial=len(nontrivial),
        rule="one case = one call log (trace) of a real B-tree; evaluations counts the API calls in them, each checked by TLC "
             "against OrderedStoreTrace; a trace is non-trivial when its tree split at least once (depth >= 1), distinct by "
             "the hash of configuration + call sequence",
        traces=len(stats), traces_by_family=dict(fam), configurations=cfgs,
        max_tree_depth=max([s["depth"] for s in stats] or [0]),
        traces_with_nil_children=sum(1 for s in stats if s["nilkids"] > 0),
        max_items=max([s["maxsize"] for s in stats] or [0]),
        rejections_by_signature=dict(seen),
    ))
    if extra:
        c.cov.update(extra)
    c.assumptions += [
        "node repository and item action tracker are the driver's in-memory implementations (same as /repo/inmemory's private ones), so no I/O errors occur",
        "the cursor is additionally observed through reflection on btree.currentItemRef (read only); disable with blackbox jobs",
        "keys are ints (default comparer) or ints under a custom comparer a/10 vs b/10; values are strings",
    ]
