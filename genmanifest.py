#!/usr/bin/env python3
"""Regenerate MANIFEST.json from the META dict of every checks/Cxx.py and from not_applicable.json."""
import ast, glob, json, os, re
here = os.path.dirname(os.path.abspath(__file__))
checks = []
for p in sorted(glob.glob(os.path.join(here, "checks", "C*.py"))):
    src = open(p).read()
    tree = ast.parse(src)
    meta = None
    for node in tree.body:
        if isinstance(node, ast.Assign) and getattr(node.targets[0], "id", "") == "META":
            meta = eval(compile(ast.Expression(node.value), p, "eval"))
    if not meta:
        continue
    pid = meta["property_id"]
    checks.append({
        "property_id": pid,
        "quick_cmd": "VERIF_TIER=quick ./check %s" % pid,
        "thorough_cmd": "VERIF_TIER=thorough ./check %s" % pid,
        "evidence_file": "/verif/evidence/%s.json" % pid,
        "replay_cmd_template": "./check %s --replay {path}" % pid,
        "engine": meta.get("engine", ""),
        "level_claimed": {"category": meta.get("level", "model_checking"), "text": meta["level_text"],
                          "design_ref": "DESIGN.md §4 " + meta.get("design_ref", pid)},
        "level_note": meta["level_note"],
        "technique": meta["technique"],
    })
na = json.load(open(os.path.join(here, "not_applicable.json")))
claimed = {c["property_id"] for c in checks}
props = [json.loads(l)["id"] for l in open(os.path.join(here, "properties.jsonl"))]
na_list = [x for x in na["not_applicable"] if x["property_id"] not in claimed]
listed = {x["property_id"] for x in na_list}
for p in props:
    if p not in claimed and p not in listed:
        na_list.append({"property_id": p, "reason": "not yet bound to a TLA+ specification in this revision (planned; see DESIGN.md §4)"})
engines = {}
for c in checks:
    engines.setdefault(c["engine"], []).append(c["property_id"])
# specifications a check uses besides its main engine
for name, pids in {"CacheCoherence": ["C20"], "SopCommit": ["C02", "C04", "C15"], "TxnStore": ["C02", "C04", "C05"]}.items():
    for pid in pids:
        if pid in claimed and pid not in engines.setdefault(name, []):
            engines[name].append(pid)
    engines[name].sort()
man = {
    "version": 1,
    "setup_cmd": "./setup.sh",
    "hooks": {"guard": "verif", "enable": "go build -tags verif (harness module /verif/harness with replace => /repo)",
              "baseline_off_cmd": na["baseline_off_cmd"], "source_commits": na.get("hook_commits", []), "add_only": True},
    "engines": [{"name": k, "path": "/verif/spec/%s.tla" % k, "serves_properties": v,
                 "kind_free_text": "TLA+ specification checked with TLC, bound to the Go code by trace validation / behaviour replay"} for k, v in sorted(engines.items())],
    "checks": checks,
    "notes": na.get("notes", ""),
    "not_applicable": sorted(na_list, key=lambda x: x["property_id"]),
}
json.dump(man, open(os.path.join(here, "MANIFEST.json"), "w"), indent=1)
print("MANIFEST.json: %d checks, %d not applicable" % (len(checks), len(na_list)))
