package main

// C23: corrupted blocks x backup-file states x registry operations, each run alone through the real
// registry.  Identical abstract outcomes are aggregated (count + first concrete inputs) before they are
// written, because the trace specification decides on the abstract events only.

import (
	"bytes"
	"context"
	"encoding/json"
	"fmt"
	"math/rand"
	"os"
	"path/filepath"
	"sort"
	"strconv"
	"sync"
	"time"
)

type corruption struct {
	name  string // "none" | "bit" | "burst"
	start int    // first bit
	mask  []byte // xor mask applied from byte start/8
	set   []byte // or: bytes stored from byte start/8
}

func (c corruption) apply(img []byte) []byte {
	b := append([]byte(nil), img...)
	for i, m := range c.mask {
		if c.start/8+i < len(b) {
			b[c.start/8+i] ^= m
		}
	}
	copy(b[c.start/8:], c.set)
	return b
}

// region of the block a bit lies in (for naming / counting only)
func (w *world) region(bit int) string {
	by := bit / 8
	switch {
	case by >= dataLen:
		return "crc"
	case by/62 == w.slot:
		return "slot"
	}
	for _, s := range []int{3, 17, 30, 48, 65} {
		if by/62 == s {
			return "otherslot"
		}
	}
	return "free"
}

type agg struct {
	name    string
	setup   event
	run     event
	count   int
	example []string
}

func flips(dir, mode, outPath string) {
	rng := rand.New(rand.NewSource(seed()))
	o := newOut(outPath)
	defer o.close()
	lays := [][2]int{{2, 2}}
	if mode == "thorough" {
		lays = [][2]int{{2, 2}, {1, 2}, {4, 4}}
	}
	lim, _ := strconv.Atoi(os.Getenv("FLIPS_LIMIT"))
	workers := 4
	if v, err := strconv.Atoi(os.Getenv("FLIPS_WORKERS")); err == nil && v > 0 {
		workers = v
	}
	type opT struct {
		name string
		base int
		img  int
	}
	type caseT struct {
		op  opT
		cor corruption
		ck  string
	}
	aggs := map[string]*agg{}
	var mu sync.Mutex
	total, skipped, abandoned := 0, 0, 0
	slow := map[string]int{}
	t0 := time.Now()
	for li, lay := range lays {
		// corruptions
		var cors []corruption
		cors = append(cors, corruption{name: "none"})
		for bit := 0; bit < blockSize*8; bit++ {
			cors = append(cors, corruption{name: "bit", start: bit, mask: []byte{1 << (bit % 8)}})
		}
		// targeted corruptions: checksum trailer zeroed / set to all ones, the slot zeroed, all data zeroed
		slotOff := layoutSlot[lay] * 62
		ones := func(n int) []byte {
			b := make([]byte, n)
			for i := range b {
				b[i] = 0xff
			}
			return b
		}
		cors = append(cors,
			corruption{name: "trailerzero", start: dataLen * 8, mask: nil, set: make([]byte, 4)},
			corruption{name: "trailerones", start: dataLen * 8, mask: nil, set: ones(4)},
			corruption{name: "slotzero", start: slotOff * 8, mask: nil, set: make([]byte, 62)},
			corruption{name: "datazero", start: 0, mask: nil, set: make([]byte, dataLen)})
		nBurst := 1000
		if mode == "thorough" {
			nBurst = 5000
		}
		for i := 0; i < nBurst; i++ {
			ln := 2 + rng.Intn(31) // 2..32 bits: always detected by CRC32
			st := rng.Intn(blockSize*8 - ln)
			mask := make([]byte, (st%8+ln+7)/8)
			for b := 0; b < ln; b++ {
				if b == 0 || b == ln-1 || rng.Intn(2) == 0 {
					pos := st%8 + b
					mask[pos/8] |= 1 << (pos % 8)
				}
			}
			cors = append(cors, corruption{name: "burst", start: st, mask: mask})
		}
		ops := []opT{{"get", 1, 0}, {"getro", 1, 0}, {"update", 1, 2}, {"remove", 1, 0}, {"add", 0, 1}}
		cows := []string{"none", "empty", "partial", "valid", "invalid"}
		var cases []caseT
		for _, op := range ops {
			for ci, cor := range cors {
				for _, ck := range cows {
					// quick tier / extra layouts: the full bit sweep for Get without backup, every 4th bit for Update
					// without backup, a seeded 1-in-16 sample of the bits for the other combinations.
					// thorough tier, first layout: every bit for Get (all backup states), every 2nd bit for the writers.
					stride := 1
					if mode != "thorough" || li > 0 {
						switch {
						case op.name == "get" && ck == "none" && li == 0:
							stride = 1
						case op.name == "update" && ck == "none" && li == 0:
							stride = 4
						default:
							stride = 16
						}
					} else if op.name != "get" && op.name != "getro" {
						stride = 2
					}
					if cor.name == "bit" && (cor.start+int(seed()))%stride != 0 {
						continue
					}
					if cor.name == "burst" && stride > 1 && ci%(stride/2+1) != 0 {
						continue
					}
					if lim > 0 && len(cases) >= lim {
						continue
					}
					cases = append(cases, caseT{op, cor, ck})
				}
			}
		}
		var wg sync.WaitGroup
		for k := 0; k < workers; k++ {
			wg.Add(1)
			go func(k int) {
				defer wg.Done()
				w, err := newWorld(filepath.Join(dir, fmt.Sprintf("flip%d%d-%d", lay[0], lay[1], k)), lay)
				must(err)
				defer w.close()
				r := &run{w: w, actors: map[string]*actor{}}
				for i := k; i < len(cases); i += workers {
					op, cor, ck := cases[i].op, cases[i].cor, cases[i].ck
					blk := cor.apply(w.images[op.base])
					w.injected = nil
					if cor.name != "none" {
						if crcOK(blk) || bytes.Equal(blk, w.images[op.base]) {
							mu.Lock()
							skipped++
							mu.Unlock()
							continue
						}
						w.injected = blk
					}
					must(w.setBlock(blk))
					// content of a full-size backup: an older image of the block (for Add: one in which the slot is still free,
					// because registry Add of an id that is already present spins until its lock timeout)
					cowImg := 3
					if op.name == "add" {
						cowImg = 0
					}
					switch ck {
					case "valid":
						must(w.setCow("full", w.images[cowImg]))
					case "invalid":
						c := append([]byte(nil), w.images[cowImg]...)
						c[100] ^= 0x10
						must(w.setCow("full", c))
					case "partial":
						must(w.setCow("partial", w.images[cowImg]))
					default:
						must(w.setCow(ck, nil))
					}
					setup := event{"ev": "Setup", "lay": lay, "init_img": op.base}
					r.obsInto(setup)
					a := &actor{name: "x", w: w}
					combo := op.name + ":" + ck
					mu.Lock()
					giveUp := slow[combo] >= 12
					mu.Unlock()
					if giveUp { // the operation spins until its deadline for this combination: do not repeat it thousands of times
						mu.Lock()
						abandoned++
						mu.Unlock()
						continue
					}
					tStart := time.Now()
					ctx0, cancel := context.WithTimeout(context.Background(), 3*time.Second)
					ctx := context.WithValue(ctx0, ctxKey{}, a)
					var res string
					var val int
					actorName := "w1"
					if op.name == "get" {
						actorName = "r1"
						res, val, _ = w.lookup(ctx)
					} else if op.name == "getro" {
						actorName = "ro"
						res, val, _ = w.lookupRO(ctx)
					} else {
						res, val, _ = w.write(ctx, op.name, op.img)
					}
					cancel()
					if time.Since(tStart) > 2500*time.Millisecond {
						mu.Lock()
						slow[combo]++
						mu.Unlock()
					}
					run := event{"ev": "Run", "actor": actorName, "img": op.img, "res": res, "val": val}
					r.obsInto(run)
					reg := "clean"
					if cor.name != "none" {
						reg = w.region(cor.start)
					}
					name := fmt.Sprintf("flip:lay%d%d:%s:cow=%s:%s:%s", lay[0], lay[1], op.name, ck, cor.name, reg)
					sj, _ := json.Marshal(setup)
					rj, _ := json.Marshal(run)
					key := name + string(sj) + string(rj)
					mu.Lock()
					total++
					g := aggs[key]
					if g == nil {
						g = &agg{name: name, setup: setup, run: run}
						aggs[key] = g
					}
					g.count++
					if len(g.example) < 3 {
						g.example = append(g.example, fmt.Sprintf("%s@bit%d/mask%x", cor.name, cor.start, cor.mask))
					}
					mu.Unlock()
				}
			}(k)
		}
		wg.Wait()
	}
	keys := make([]string, 0, len(aggs))
	for k := range aggs {
		keys = append(keys, k)
	}
	sort.Strings(keys)
	for _, k := range keys {
		g := aggs[k]
		o.emit(event{"ev": "TraceStart", "name": g.name, "count": g.count, "example": g.example})
		o.emit(g.setup)
		o.emit(g.run)
	}
	fmt.Fprintf(os.Stderr, "flips: %d cases, %d distinct, %.1fs\n", total, len(aggs), time.Since(t0).Seconds())
	o.emit(event{"ev": "TraceStart", "name": "_stats", "count": total, "skipped_crc_valid": skipped, "abandoned_slow": abandoned})
}
