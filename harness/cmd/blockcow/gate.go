package main

// Gates: a decorator installed in fs.DirectIOSim (the O_DIRECT layer of registry segment files) and a
// decorator around the L2 cache (block lock).  An actor is one call into the real registry running in
// its own goroutine ("process"); it stops at every gate and continues only when the scheduler says so.
// A crash is produced by never resuming the goroutine (optionally after a torn prefix of its block write
// reached the file).  The driver knows nothing about the model: it only reports where actors stop and
// what is on disk.

import (
	"context"
	"fmt"
	"os"
	"time"

	"github.com/sharedcode/sop"
	"github.com/sharedcode/sop/fs"
)

type ctxKey struct{}

type cmd struct {
	kind string // "go", "die", "torn"
	p    int    // torn: number of quarters that reach the disk
}

type arrival struct {
	gate string // pre_read post_read pre_write post_write pre_lock pre_unlock done
	res  string // done: "ok" | "err"
	val  int    // done: image id of the handle returned (0 none, -1 other)
	err  string
}

type actor struct {
	name    string
	w       *world
	gated   bool
	started bool
	dead    bool
	cmdCh   chan cmd
	atCh    chan arrival
	files   []*os.File
	held    []*sop.LockKey // locks taken and not released (released by the driver when the actor dies: expiry)
	at      string
}

func actorOf(ctx context.Context) *actor {
	a, _ := ctx.Value(ctxKey{}).(*actor)
	return a
}

func (a *actor) gate(kind string) cmd {
	if !a.gated {
		return cmd{kind: "go"}
	}
	a.atCh <- arrival{gate: kind}
	c := <-a.cmdCh
	if c.kind == "die" {
		select {} // the process is gone
	}
	return c
}

// closeFiles releases the descriptors of a dead actor (its goroutine never runs again).
func (a *actor) closeFiles() {
	for _, f := range a.files {
		f.Close()
	}
	a.files = nil
}

type gateIO struct{ inner fs.DirectIO }

func (g *gateIO) Open(ctx context.Context, filename string, flag int, perm os.FileMode) (*os.File, error) {
	f, err := g.inner.Open(ctx, filename, flag, perm)
	if a := actorOf(ctx); a != nil && err == nil {
		a.files = append(a.files, f)
	}
	return f, err
}

func (g *gateIO) Close(f *os.File) error { return g.inner.Close(f) }

func (g *gateIO) ReadAt(ctx context.Context, f *os.File, block []byte, off int64) (int, error) {
	a := actorOf(ctx)
	watch := a != nil && off == a.w.blockOff && f.Name() == a.w.segPath
	if watch {
		a.gate("pre_read")
	}
	n, err := g.inner.ReadAt(ctx, f, block, off)
	if watch {
		a.gate("post_read")
	}
	return n, err
}

func (g *gateIO) WriteAt(ctx context.Context, f *os.File, block []byte, off int64) (int, error) {
	a := actorOf(ctx)
	watch := a != nil && off == a.w.blockOff && f.Name() == a.w.segPath
	if watch {
		c := a.gate("pre_write")
		if c.kind == "torn" {
			// only the first p quarters of the buffer reach the file, then the process is gone
			if err := a.w.writeRaw(block[:c.p*quarter], off); err != nil {
				panic(err)
			}
			a.atCh <- arrival{gate: "torn"}
			select {}
		}
	}
	n, err := g.inner.WriteAt(ctx, f, block, off)
	if watch {
		a.gate("post_write")
	}
	return n, err
}

// gateL2 gates the block lock of the writer.
type gateL2 struct{ sop.L2Cache }

func (g gateL2) DualLock(ctx context.Context, d time.Duration, keys []*sop.LockKey) (bool, sop.UUID, error) {
	if a := actorOf(ctx); a != nil {
		a.gate("pre_lock")
	}
	ok, id, err := g.L2Cache.DualLock(ctx, d, keys)
	if a := actorOf(ctx); a != nil && ok && err == nil {
		a.held = append(a.held, keys...)
	}
	return ok, id, err
}

func (g gateL2) Unlock(ctx context.Context, keys []*sop.LockKey) error {
	if a := actorOf(ctx); a != nil {
		a.gate("pre_unlock")
	}
	if a := actorOf(ctx); a != nil {
		var rest []*sop.LockKey
		for _, h := range a.held {
			keep := true
			for _, k := range keys {
				if k == h {
					keep = false
				}
			}
			if keep {
				rest = append(rest, h)
			}
		}
		a.held = rest
	}
	return g.L2Cache.Unlock(ctx, keys)
}

// ---- scheduler side ----

const stepTimeout = 8 * time.Second

// advance lets the actor run to its next gate (starting it if necessary) and returns where it stopped.
func (a *actor) advance(c cmd, op func(ctx context.Context) (string, int, string)) (arrival, error) {
	if a.dead {
		return arrival{}, fmt.Errorf("actor %s is dead", a.name)
	}
	if !a.started {
		a.started = true
		ctx := context.WithValue(context.Background(), ctxKey{}, a)
		go func() {
			res, val, e := op(ctx)
			a.atCh <- arrival{gate: "done", res: res, val: val, err: e}
		}()
	} else {
		if a.at == "done" || a.at == "torn" {
			return arrival{}, fmt.Errorf("actor %s has already finished (%s)", a.name, a.at)
		}
		select {
		case a.cmdCh <- c:
		case <-time.After(stepTimeout):
			return arrival{}, fmt.Errorf("actor %s does not take commands (was at %s)", a.name, a.at)
		}
	}
	select {
	case ar := <-a.atCh:
		a.at = ar.gate
		return ar, nil
	case <-time.After(stepTimeout):
		return arrival{}, fmt.Errorf("actor %s did not reach a gate within %v (was at %s)", a.name, stepTimeout, a.at)
	}
}

// kill: the process dies where it stands.
func (a *actor) kill() {
	if a.started && !a.dead && a.at != "done" && a.at != "torn" {
		a.cmdCh <- cmd{kind: "die"}
	}
	a.dead = true
	a.closeFiles()
	if len(a.held) > 0 { // the locks of a dead process expire
		a.w.l2.Unlock(context.Background(), a.held)
		a.held = nil
	}
}
