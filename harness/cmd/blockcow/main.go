// Command blockcow drives the real registry block write / read / restore code of SharedCode/sop
// (fs/hashmap.fileregion.go, hashmap.cow.go) under a gate installed in fs.DirectIOSim.
//
//	blockcow probe  <dir> <out.json>                 which variant of the read procedure the tree implements
//	blockcow replay <dir> <plan.json> <out.ndjson>   step TLC behaviours through the real code (C22)
//	blockcow random <dir> <n> <out.ndjson>           seeded random schedules (C22)
//	blockcow flips  <dir> <mode> <out.ndjson>        corrupted blocks x backup states x operations (C23)
//
// The driver reports observations only (where actors stop, raw block / backup file classification, call
// results).  Expected values live in spec/BlockCow.tla.
package main

import (
	"bufio"
	"context"
	"encoding/json"
	"fmt"
	"math/rand"
	"os"
	"path/filepath"
	"strconv"
	"sync"

	"github.com/sharedcode/sop/fs"
)

type event map[string]any

type out struct {
	f *os.File
	w *bufio.Writer
}

func newOut(path string) *out {
	f, err := os.Create(path)
	if err != nil {
		fatal(err)
	}
	return &out{f: f, w: bufio.NewWriterSize(f, 1<<20)}
}
func (o *out) emit(e event) {
	b, err := json.Marshal(e)
	if err != nil {
		fatal(err)
	}
	o.w.Write(b)
	o.w.WriteByte('\n')
}
func (o *out) close() { o.w.Flush(); o.f.Close() }

func fatal(a ...any) {
	fmt.Fprintln(os.Stderr, a...)
	os.Exit(3)
}

func seed() int64 {
	s, err := strconv.ParseInt(os.Getenv("VERIF_SEED"), 10, 64)
	if err != nil {
		return 1
	}
	return s
}

func main() {
	if len(os.Args) < 2 {
		fatal("usage: blockcow probe|replay|random|flips ...")
	}
	fs.DirectIOSim = &gateIO{inner: fs.NewDirectIO()}
	switch os.Args[1] {
	case "probe":
		probe(os.Args[2], os.Args[3])
	case "replay":
		replay(os.Args[2], os.Args[3], os.Args[4])
	case "random":
		n, _ := strconv.Atoi(os.Args[3])
		random(os.Args[2], n, os.Args[4])
	case "flips":
		flips(os.Args[2], os.Args[3], os.Args[4])
	default:
		fatal("unknown command", os.Args[1])
	}
}

// ---------------------------------------------------------------------------------------------

// probe: two observations that select the variant of the model the tree is compared with.
func probe(dir, outPath string) {
	w, err := newWorld(filepath.Join(dir, "probe"), [2]int{1, 2})
	if err != nil {
		fatal(err)
	}
	defer w.close()
	res := map[string]any{"seg": w.segPath, "cow": w.cowPath}
	// (a) block with one flipped bit, no backup: is the lookup an error?
	b := append([]byte(nil), w.images[1]...)
	b[w.slot*62+49] ^= 0x01 // lowest bit of Version
	must(w.setBlock(b))
	must(w.setCow("none", nil))
	r, v, e := w.lookup(context.Background())
	res["corrupt_lookup"] = map[string]any{"res": r, "val": v, "err": e}
	// (b) valid block and a backup file: does a lookup remove the backup?
	must(w.setBlock(w.images[1]))
	must(w.setCow("full", w.images[2]))
	w.lookup(context.Background())
	_, c, _ := w.observe()
	res["lookup_deletes_backup"] = c.K == "none"
	// (c) corrupt block and a valid backup: does a lookup write the block back?
	must(w.setBlock(b))
	must(w.setCow("full", w.images[2]))
	r, v, e = w.lookup(context.Background())
	bo, _, _ := w.observe()
	res["lookup_restores_block"] = bo.X == "none" && bo.Q[3] == 2
	res["backup_lookup"] = map[string]any{"res": r, "val": v, "err": e}
	must(w.setBlock(w.images[1]))
	must(w.setCow("none", nil))
	// the real code created the backup where the driver looks for it?
	a := &actor{name: "w", w: w, gated: true, cmdCh: make(chan cmd), atCh: make(chan arrival, 1)}
	seen := ""
	for i := 0; i < 20; i++ {
		ar, err := a.advance(cmd{kind: "go"}, func(ctx context.Context) (string, int, string) { return w.write(ctx, "update", 2) })
		if err != nil {
			fatal(err)
		}
		seen += ar.gate + " "
		if ar.gate == "pre_write" {
			_, c, _ := w.observe()
			res["backup_seen_at_pre_write"] = c.K
		}
		if ar.gate == "done" {
			break
		}
	}
	res["writer_gates"] = seen
	j, _ := json.MarshalIndent(res, "", " ")
	must(os.WriteFile(outPath, j, 0o644))
}

func must(err error) {
	if err != nil {
		fatal(err)
	}
}

// ---------------------------------------------------------------------------------------------

type step struct {
	A      string `json:"a"`
	C      string `json:"c"`      // adv | crash
	Op     string `json:"op"`     // first adv of a writer: update|add|remove
	Img    int    `json:"img"`    // first adv of a writer
	Kind   string `json:"kind"`   // crash: plain | torn | cowempty | cowpartial
	P      int    `json:"p"`      // crash torn
	PreAdv bool   `json:"preadv"` // crash inside the step that creates the backup: run to the next gate first
	Fix    string `json:"fix"`    // then put the backup file in the state the interrupted step leaves: none|empty|partial|prior|""
}

type behaviour struct {
	Name    string `json:"name"`
	Lay     [2]int `json:"lay"`
	InitImg int    `json:"init_img"`
	Steps   []step `json:"steps"`
	Final   bool   `json:"final"`
}

type run struct {
	w      *world
	actors map[string]*actor
	events []event
}

func (r *run) emit(e event) { r.events = append(r.events, e) }

func (r *run) actor(name string) *actor {
	a := r.actors[name]
	if a == nil {
		a = &actor{name: name, w: r.w, gated: true, cmdCh: make(chan cmd), atCh: make(chan arrival, 1)}
		r.actors[name] = a
	}
	return a
}

func (r *run) obsInto(e event) {
	b, c, err := r.w.observe()
	if err != nil {
		fatal("observe:", err)
	}
	e["blk"] = b
	e["cow"] = c
}

func (r *run) reset(initImg int) {
	for _, a := range r.actors {
		a.kill()
	}
	r.actors = map[string]*actor{}
	r.w.injected = nil
	must(r.w.setBlock(r.w.images[initImg]))
	must(r.w.setCow("none", nil))
}

func (r *run) opFor(s step) func(ctx context.Context) (string, int, string) {
	if s.A == "ro" {
		return r.w.lookupRO
	}
	if s.A[0] == 'r' {
		return r.w.lookup
	}
	op, img := s.Op, s.Img
	if op == "" {
		op = "update"
	}
	return func(ctx context.Context) (string, int, string) { return r.w.write(ctx, op, img) }
}

// doStep executes one scheduler command and emits one event.  Returns false when the command could not be executed.
func (r *run) doStep(s step) bool {
	a := r.actor(s.A)
	switch s.C {
	case "adv":
		ar, err := a.advance(cmd{kind: "go"}, r.opFor(s))
		if err != nil {
			r.emit(event{"ev": "Stuck", "actor": s.A, "why": err.Error()})
			return false
		}
		e := event{"ev": "Adv", "actor": s.A, "to": ar.gate, "res": ar.res, "val": ar.val, "img": s.Img, "err": ar.err}
		r.obsInto(e)
		r.emit(e)
	case "crash":
		var prior []byte
		if s.PreAdv {
			prior, _ = os.ReadFile(r.w.cowPath)
			if _, err := a.advance(cmd{kind: "go"}, r.opFor(s)); err != nil {
				r.emit(event{"ev": "Stuck", "actor": s.A, "why": err.Error()})
				return false
			}
		}
		if s.Kind == "torn" {
			if a.at != "pre_write" {
				r.emit(event{"ev": "Stuck", "actor": s.A, "why": "torn crash requested but actor is at " + a.at})
				return false
			}
			a.cmdCh <- cmd{kind: "torn", p: s.P}
			ar := <-a.atCh
			a.at = ar.gate
		}
		a.kill()
		switch s.Fix {
		case "none", "empty":
			must(r.w.setCow(s.Fix, nil))
		case "partial":
			c, _ := os.ReadFile(r.w.cowPath)
			must(r.w.setCow("partial", c))
		case "prior":
			if prior == nil {
				must(r.w.setCow("none", nil))
			} else {
				must(os.WriteFile(r.w.cowPath, prior, 0o644))
			}
		}
		e := event{"ev": "Crash", "actor": s.A, "kind": s.Kind, "p": s.P}
		r.obsInto(e)
		r.emit(e)
	default:
		fatal("bad step", s.C)
	}
	return true
}

// finalLookup: a fresh process, alone, looks the id up.
func (r *run) finalLookup(name string) {
	a := &actor{name: name, w: r.w}
	ctx := context.WithValue(context.Background(), ctxKey{}, a)
	res, val, e := r.w.lookup(ctx)
	ev := event{"ev": "Run", "actor": name, "img": 0, "res": res, "val": val, "err": e}
	r.obsInto(ev)
	r.emit(ev)
}

func nWorkers() int {
	if v, err := strconv.Atoi(os.Getenv("BLOCKCOW_WORKERS")); err == nil && v > 0 {
		return v
	}
	return 4
}

// runBehaviour executes one behaviour in its own run and returns the events.
func runBehaviour(w *world, bh behaviour) []event {
	r := &run{w: w, actors: map[string]*actor{}}
	r.reset(bh.InitImg)
	r.emit(event{"ev": "TraceStart", "name": bh.Name})
	e := event{"ev": "Setup", "lay": bh.Lay, "init_img": bh.InitImg}
	r.obsInto(e)
	r.emit(e)
	ok := true
	for _, s := range bh.Steps {
		if !r.doStep(s) {
			ok = false
			break
		}
	}
	if ok && bh.Final {
		r.finalLookup("fin")
	}
	r.reset(bh.InitImg)
	return r.events
}

// parallel runs the behaviours on nWorkers() independent worlds per layout and writes the events in input order.
func parallel(dir, prefix string, bhs []behaviour, outPath string) {
	res := make([][]event, len(bhs))
	n := nWorkers()
	var wg sync.WaitGroup
	for k := 0; k < n; k++ {
		wg.Add(1)
		go func(k int) {
			defer wg.Done()
			worlds := map[[3]int]*world{}
			for i := k; i < len(bhs); i += n {
				bh := bhs[i]
				key := [3]int{bh.Lay[0], bh.Lay[1], 0}
				if bh.InitImg == 0 {
					key[2] = 1 // first write into a never-written block
				}
				w := worlds[key]
				if w == nil {
					var err error
					w, err = newWorldKind(filepath.Join(dir, fmt.Sprintf("%s%d%d%d-%d", prefix, key[0], key[1], key[2], k)), bh.Lay, key[2] == 1)
					must(err)
					worlds[key] = w
				}
				res[i] = runBehaviour(w, bh)
			}
			for _, w := range worlds {
				w.close()
			}
		}(k)
	}
	wg.Wait()
	o := newOut(outPath)
	defer o.close()
	for _, evs := range res {
		for _, e := range evs {
			o.emit(e)
		}
	}
}

func replay(dir, planPath, outPath string) {
	var plan struct {
		Behaviours []behaviour `json:"behaviours"`
	}
	b, err := os.ReadFile(planPath)
	must(err)
	must(json.Unmarshal(b, &plan))
	parallel(dir, "lay", plan.Behaviours, outPath)
}

// ---------------------------------------------------------------------------------------------

// random: seeded random schedules of one or two writers (the second after the first finished or died) and up
// to three readers, with at most one crash (plain at any gate, torn inside a block write).
func random(dir string, n int, outPath string) {
	var lays [][2]int
	for _, l := range [][2]int{{1, 1}, {1, 2}, {2, 2}, {3, 3}, {3, 4}, {4, 4}} {
		if _, ok := layoutSlot[l]; ok {
			lays = append(lays, l)
		}
	}
	res := make([][]event, n)
	nw := nWorkers()
	var wg sync.WaitGroup
	for wk := 0; wk < nw; wk++ {
		wg.Add(1)
		go func(wk int) {
			defer wg.Done()
			worlds := map[[2]int]*world{}
			for k := wk; k < n; k += nw {
				rng := rand.New(rand.NewSource(seed()*1000003 + int64(k)))
				lay := lays[rng.Intn(len(lays))]
				w := worlds[lay]
				if w == nil {
					var err error
					w, err = newWorld(filepath.Join(dir, fmt.Sprintf("rnd%d%d-%d", lay[0], lay[1], wk)), lay)
					must(err)
					worlds[lay] = w
				}
				res[k] = randomOne(w, rng, fmt.Sprintf("rnd-s%d-%d-lay%d%d", seed(), k, lay[0], lay[1]))
			}
			for _, w := range worlds {
				w.close()
			}
		}(wk)
	}
	wg.Wait()
	o := newOut(outPath)
	defer o.close()
	for _, evs := range res {
		for _, e := range evs {
			o.emit(e)
		}
	}
}

func randomOne(w *world, rng *rand.Rand, name string) []event {
	r := &run{w: w, actors: map[string]*actor{}}
	r.reset(1)
	r.emit(event{"ev": "TraceStart", "name": name})
	e := event{"ev": "Setup", "lay": w.lay, "init_img": 1}
	r.obsInto(e)
	r.emit(e)
	nReaders := 1 + rng.Intn(3)
	names := []string{"w1"}
	for i := 1; i <= nReaders; i++ {
		names = append(names, fmt.Sprintf("r%d", i))
	}
	twoWriters := rng.Intn(2) == 0
	crashed := false
	crashBias := rng.Intn(4) // 0: never crash
	for steps := 0; steps < 200; steps++ {
		var cand []string
		for _, nm := range names {
			a := r.actor(nm)
			if !a.dead && a.at != "done" {
				cand = append(cand, nm)
			}
		}
		w1 := r.actor("w1")
		if twoWriters && (w1.dead || w1.at == "done") {
			a := r.actor("w2")
			if !a.dead && a.at != "done" {
				cand = append(cand, "w2")
			}
		}
		if len(cand) == 0 {
			break
		}
		nm := cand[rng.Intn(len(cand))]
		a := r.actor(nm)
		s := step{A: nm, C: "adv", Op: "update"}
		if nm == "w1" {
			s.Img = 2
		} else if nm == "w2" {
			s.Img = 3
		}
		canDie := a.started && (nm[0] == 'w' || a.at == "pre_write")
		if !crashed && crashBias > 0 && canDie && rng.Intn(6) == 0 {
			s.C = "crash"
			s.Kind = "plain"
			if a.at == "pre_write" && rng.Intn(4) != 0 {
				s.Kind = "torn"
				s.P = 1 + rng.Intn(3)
			}
			crashed = true
		}
		if !r.doStep(s) {
			break
		}
	}
	r.finalLookup("fin")
	r.reset(1)
	return r.events
}
