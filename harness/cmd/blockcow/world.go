package main

import (
	"bytes"
	"context"
	"encoding/binary"
	"fmt"
	"hash/crc32"
	"os"
	"path/filepath"
	"strings"

	"github.com/sharedcode/sop"
	"github.com/sharedcode/sop/cache"
	"github.com/sharedcode/sop/encoding"
	"github.com/sharedcode/sop/fs"
)

const (
	blockSize = 4096
	quarter   = 1024
	hashMod   = 4
	table     = "regt"
	maxImg    = 3
	dataLen   = 66 * sop.HandleSizeInBytes // 4092
)

// slot index for a layout <<lo,hi>> (first/last quarter holding bytes of the slot that differ between images)
var layoutSlot = map[[2]int]int{{1, 1}: 0, {1, 2}: 16, {2, 2}: 20, {3, 3}: 40, {3, 4}: 49, {4, 4}: 60}

// world is one database folder with one registry table, one block under test and one slot under test.
type world struct {
	folder   string
	segPath  string
	cowPath  string
	blockOff int64
	slot     int
	lay      [2]int
	id       sop.UUID
	images   [maxImg + 1][]byte // image i: block with handle version i in the slot (0: slot empty)
	handles  [maxImg + 1]sop.Handle
	injected []byte // corrupted block injected by the environment (C23), nil if none
	raw      *os.File
	l2       sop.L2Cache // the cache / lock service shared by all processes of this world
}

func mkUUID(high, low uint64) sop.UUID {
	var u sop.UUID
	binary.BigEndian.PutUint64(u[0:8], high)
	binary.BigEndian.PutUint64(u[8:16], low)
	return u
}

func handleOf(id sop.UUID, i int) sop.Handle {
	b := byte(i)
	var pa, pb sop.UUID
	for k := range pa {
		pa[k] = 0xA0 + b
		pb[k] = 0xB0 + b
	}
	return sop.Handle{LogicalID: id, PhysicalIDA: pa, PhysicalIDB: pb, IsActiveIDB: i%2 == 1,
		Version: int32(i) * 0x01010101, WorkInProgressTimestamp: int64(i) * 0x0101010101010101}
}

func newRegistry(folder string, l2 sop.L2Cache) (fs.Registry, error) {
	return newRegistryMode(folder, l2, true)
}

func newRegistryMode(folder string, l2 sop.L2Cache, readWrite bool) (fs.Registry, error) {
	rt, err := fs.NewReplicationTracker(context.Background(), []string{folder}, false, l2)
	if err != nil {
		return nil, err
	}
	return fs.NewRegistry(readWrite, hashMod, rt, l2), nil
}

func payloadH(hs ...sop.Handle) []sop.RegistryPayload[sop.Handle] {
	return []sop.RegistryPayload[sop.Handle]{{RegistryTable: table, IDs: hs}}
}
func payloadID(ids ...sop.UUID) []sop.RegistryPayload[sop.UUID] {
	return []sop.RegistryPayload[sop.UUID]{{RegistryTable: table, IDs: ids}}
}

// newWorld creates the folder, fills the block under test with a few other handles through the real
// registry and computes the block images.
func newWorld(folder string, lay [2]int) (*world, error) { return newWorldKind(folder, lay, false) }

// newWorldKind: with empty = true the block under test is a never-written (all-zero, "sparse") block: the filler
// handle goes to another block of the segment, image 0 is the all-zero block.
func newWorldKind(folder string, lay [2]int, empty bool) (*world, error) {
	folder, _ = filepath.Abs(folder)
	slot, ok := layoutSlot[lay]
	if !ok {
		return nil, fmt.Errorf("no slot for layout %v", lay)
	}
	if err := os.MkdirAll(filepath.Join(folder, table), 0o755); err != nil {
		return nil, err
	}
	w := &world{folder: folder, blockOff: blockSize, slot: slot, lay: lay, l2: cache.NewL2InMemoryCache()}
	w.id = mkUUID(1, uint64(slot)) // high%hashMod = block 1, low%66 = slot
	for i := 1; i <= maxImg; i++ {
		w.handles[i] = handleOf(w.id, i)
	}
	ctx := context.Background()
	reg, err := newRegistry(folder, cache.NewL2InMemoryCache())
	if err != nil {
		return nil, err
	}
	// fillers: other slots of the same block (never touched afterwards)
	var fill []sop.Handle
	for _, s := range []int{3, 17, 30, 48, 65} {
		if s == slot {
			continue
		}
		if empty {
			fill = append(fill, handleOf(mkUUID(2, uint64(s)+66*7), 1)) // block 2: only creates the segment file
			break
		}
		fid := mkUUID(1, uint64(s)+66*7)
		h := handleOf(fid, 1)
		fill = append(fill, h)
	}
	if err := reg.Add(ctx, payloadH(fill...)); err != nil {
		return nil, fmt.Errorf("setup add: %w", err)
	}
	reg.Close()
	// locate the files the code created
	ents, _ := os.ReadDir(filepath.Join(folder, table))
	for _, e := range ents {
		if strings.HasSuffix(e.Name(), ".reg") {
			w.segPath = filepath.Join(folder, table, e.Name())
		}
	}
	if w.segPath == "" {
		return nil, fmt.Errorf("no segment file created")
	}
	w.cowPath = fmt.Sprintf("%s_%d.cow", strings.TrimSuffix(w.segPath, ".reg"), w.blockOff)
	w.raw, err = os.OpenFile(w.segPath, os.O_RDWR, 0)
	if err != nil {
		return nil, err
	}
	base, err := w.readBlock()
	if err != nil {
		return nil, err
	}
	m := encoding.NewHandleMarshaler()
	for i := 0; i <= maxImg; i++ {
		img := append([]byte(nil), base...)
		so := slot * sop.HandleSizeInBytes
		if i == 0 {
			copy(img[so:so+sop.HandleSizeInBytes], make([]byte, sop.HandleSizeInBytes))
		} else {
			hb, _ := m.Marshal(w.handles[i], nil)
			copy(img[so:], hb)
		}
		binary.LittleEndian.PutUint32(img[dataLen:], crc32.ChecksumIEEE(img[:dataLen]))
		if bytes.Equal(img[:dataLen], make([]byte, dataLen)) {
			binary.LittleEndian.PutUint32(img[dataLen:], 0) // a never-written block is all zeros, trailer included
		}
		w.images[i] = img
	}
	return w, nil
}

func (w *world) close() {
	if w.raw != nil {
		w.raw.Close()
	}
}

func (w *world) readBlock() ([]byte, error) {
	b := make([]byte, blockSize)
	if _, err := w.raw.ReadAt(b, w.blockOff); err != nil {
		return nil, err
	}
	return b, nil
}

// writeRaw writes bytes into the segment file bypassing SOP (environment action / torn prefix).
func (w *world) writeRaw(b []byte, off int64) error {
	// buffered write; the kernel writes the range back before a later O_DIRECT read of it
	_, err := w.raw.WriteAt(b, off)
	return err
}

func (w *world) setBlock(b []byte) error { return w.writeRaw(b, w.blockOff) }

// setCow: environment action on the backup file.
func (w *world) setCow(kind string, content []byte) error {
	switch kind {
	case "none":
		err := os.Remove(w.cowPath)
		if os.IsNotExist(err) {
			return nil
		}
		return err
	case "empty":
		return os.WriteFile(w.cowPath, nil, 0o644)
	case "partial":
		if content == nil {
			content = w.images[1]
		}
		return os.WriteFile(w.cowPath, content[:2*quarter], 0o644)
	case "full":
		return os.WriteFile(w.cowPath, content, 0o644)
	}
	return fmt.Errorf("cow kind %q", kind)
}

// ---- projection of the artefacts (measurements, no expectations) ----

type contentObs struct {
	Q [4]int `json:"q"` // per quarter: image id whose bytes it equals; -2 equals every image; -1 none
	X string `json:"x"` // "none": all quarters classified; "flip": identical to the injected corrupt block; "other"
}

type cowObs struct {
	K string     `json:"k"` // none empty partial full
	C contentObs `json:"c"`
}

func (w *world) classify(b []byte) contentObs {
	var o contentObs
	o.X = "none"
	if w.injected != nil && bytes.Equal(b, w.injected) {
		o.X = "flip"
	}
	for j := 0; j < 4; j++ {
		part := b[j*quarter : (j+1)*quarter]
		n, first := 0, -1
		for i := 0; i <= maxImg; i++ {
			if bytes.Equal(part, w.images[i][j*quarter:(j+1)*quarter]) {
				n++
				if first < 0 {
					first = i
				}
			}
		}
		switch {
		case n == maxImg+1:
			o.Q[j] = -2
		case n == 1:
			o.Q[j] = first
		case n == 0:
			o.Q[j] = -1
			if o.X == "none" {
				o.X = "other"
			}
		default:
			o.Q[j] = -3
			if o.X == "none" {
				o.X = "other"
			}
		}
	}
	return o
}

var nilContent = contentObs{Q: [4]int{-2, -2, -2, -2}, X: "nil"}

func (w *world) observe() (contentObs, cowObs, error) {
	b, err := w.readBlock()
	if err != nil {
		return contentObs{}, cowObs{}, err
	}
	blk := w.classify(b)
	c, err := os.ReadFile(w.cowPath)
	switch {
	case os.IsNotExist(err):
		return blk, cowObs{K: "none", C: nilContent}, nil
	case err != nil:
		return blk, cowObs{}, err
	case len(c) == 0:
		return blk, cowObs{K: "empty", C: nilContent}, nil
	case len(c) != blockSize:
		return blk, cowObs{K: "partial", C: nilContent}, nil
	}
	return blk, cowObs{K: "full", C: w.classify(c)}, nil
}

// crcOK: independent checksum computation on raw bytes (measurement of the input class).
func crcOK(b []byte) bool {
	return binary.LittleEndian.Uint32(b[dataLen:]) == crc32.ChecksumIEEE(b[:dataLen])
}

// which image id a returned handle is (0 none returned, -1 something else)
func (w *world) valOf(hs []sop.RegistryPayload[sop.Handle]) int {
	if len(hs) == 0 || len(hs[0].IDs) == 0 {
		return 0
	}
	h := hs[0].IDs[0]
	for i := 1; i <= maxImg; i++ {
		if h == w.handles[i] {
			return i
		}
	}
	return -1
}

// ---- operations of actors (real registry calls) ----

// lookup: a fresh process (own registry object, own cold L2 cache) fetches the id.
func (w *world) lookup(ctx context.Context) (string, int, string) { return w.lookupMode(ctx, true) }

// lookupRO: the same through a registry opened read-only (what a ForReading transaction uses).
func (w *world) lookupRO(ctx context.Context) (string, int, string) { return w.lookupMode(ctx, false) }

func (w *world) lookupMode(ctx context.Context, readWrite bool) (string, int, string) {
	w.l2.Clear(ctx) // a lookup that finds the handle in the cache never reaches the file: keep the cache cold
	reg, err := newRegistryMode(w.folder, gateL2{w.l2}, readWrite)
	if err != nil {
		return "err", 0, err.Error()
	}
	defer reg.Close()
	r, err := reg.Get(ctx, payloadID(w.id))
	if err != nil {
		return "err", 0, err.Error()
	}
	return "ok", w.valOf(r), ""
}

// write: a fresh process writes image img into the slot: Update (img>0 over an existing handle),
// Remove (img = 0), Add (op = "add").
func (w *world) write(ctx context.Context, op string, img int) (string, int, string) {
	reg, err := newRegistry(w.folder, gateL2{w.l2})
	if err != nil {
		return "err", 0, err.Error()
	}
	defer reg.Close()
	switch op {
	case "update":
		err = reg.UpdateNoLocks(ctx, false, payloadH(w.handles[img]))
	case "add":
		err = reg.Add(ctx, payloadH(w.handles[img]))
	case "remove":
		err = reg.Remove(ctx, payloadID(w.id))
	default:
		err = fmt.Errorf("op %q", op)
	}
	if err != nil {
		return "err", 0, err.Error()
	}
	return "ok", img, ""
}
