// c16: binds TwoPhaseParticipants.tla to sop.SinglePhaseTransaction.
//
//	c16 replay <behaviours.json> <out.ndjson>   replay TLC behaviours with scripted participants
//	c16 explore <maxP> <out.ndjson>             enumerate every failure script against the real wrapper (DFS over outcomes)
//	c16 real <folder> <out.json>                SOP role played by a real filesystem transaction
package main

import (
	"context"
	"encoding/json"
	"errors"
	"fmt"
	"os"
	"strconv"
	"time"

	"github.com/sharedcode/sop"

	"verif/harness/lib/decor"
	"verif/harness/lib/sopenv"
)

type rec struct {
	Ev   string `json:"ev"`
	N    int    `json:"n,omitempty"`
	Api  string `json:"api,omitempty"`
	Who  int    `json:"who"`
	Op   string `json:"op,omitempty"`
	Ok   bool   `json:"ok"`
	Name string `json:"name,omitempty"`
}

// oracle decides call outcomes and records the call log.
type oracle struct {
	script []bool // outcomes consumed in call order; beyond its end: choose() decides
	pos    int
	log    []rec
	choose func(pos int) bool
}

func (o *oracle) call(who int, op string) error {
	ok := true
	if o.pos < len(o.script) {
		ok = o.script[o.pos]
	} else if o.choose != nil {
		ok = o.choose(o.pos)
	}
	o.pos++
	o.log = append(o.log, rec{Ev: "Call", Who: who, Op: op, Ok: ok})
	if !ok {
		return errors.New("scripted failure")
	}
	return nil
}

type part struct {
	o   *oracle
	who int
}

func (p *part) Begin(ctx context.Context) error        { return p.o.call(p.who, "Begin") }
func (p *part) Phase1Commit(ctx context.Context) error { return p.o.call(p.who, "P1") }
func (p *part) Phase2Commit(ctx context.Context) error { return p.o.call(p.who, "P2") }
func (p *part) Rollback(ctx context.Context, err error) error {
	return p.o.call(p.who, "Rb")
}
func (p *part) HasBegun() bool                                  { return true }
func (p *part) GetMode() sop.TransactionMode                    { return sop.ForWriting }
func (p *part) GetStores(ctx context.Context) ([]string, error) { return nil, nil }
func (p *part) Close() error                                    { return nil }
func (p *part) GetID() sop.UUID                                 { return sop.NilUUID }
func (p *part) CommitMaxDuration() time.Duration                { return time.Minute }
func (p *part) OnCommit(cb func(ctx context.Context) error)     {}

// runProgram drives the real wrapper: Begin, then Commit or Rollback as the user script says.
func runProgram(n int, user string, o *oracle) {
	ctx := context.Background()
	t, _ := sop.NewTransaction(sop.ForWriting, &part{o: o, who: 0})
	for i := 1; i <= n; i++ {
		t.AddPhasedTransaction(&part{o: o, who: i})
	}
	o.log = append(o.log, rec{Ev: "Setup", N: n})
	o.log = append(o.log, rec{Ev: "Invoke", Api: "Begin"})
	err := t.Begin(ctx)
	o.log = append(o.log, rec{Ev: "Ret", Api: "Begin", Ok: err == nil})
	if err != nil || user == "Rollback" {
		o.log = append(o.log, rec{Ev: "Invoke", Api: "Rollback"})
		err = t.Rollback(ctx)
		o.log = append(o.log, rec{Ev: "Ret", Api: "Rollback", Ok: err == nil})
		return
	}
	o.log = append(o.log, rec{Ev: "Invoke", Api: "Commit"})
	err = t.Commit(ctx)
	o.log = append(o.log, rec{Ev: "Ret", Api: "Commit", Ok: err == nil})
}

type specRec struct {
	K   string `json:"k"`
	Who int    `json:"who"`
	Op  string `json:"op"`
	Ok  bool   `json:"ok"`
}
type behaviour struct {
	N   int       `json:"n"`
	Log []specRec `json:"log"`
}

func writeTraces(path string, traces [][]rec) {
	f, err := os.Create(path)
	if err != nil {
		panic(err)
	}
	defer f.Close()
	enc := json.NewEncoder(f)
	for i, tr := range traces {
		enc.Encode(rec{Ev: "TraceStart", Name: fmt.Sprintf("b%d", i)})
		for _, r := range tr {
			enc.Encode(r)
		}
	}
}

func replay(in, out string) {
	var bs []behaviour
	data, err := os.ReadFile(in)
	if err != nil {
		panic(err)
	}
	if err := json.Unmarshal(data, &bs); err != nil {
		panic(err)
	}
	var traces [][]rec
	for _, b := range bs {
		o := &oracle{}
		user := "Commit"
		for _, r := range b.Log {
			if r.K == "call" {
				o.script = append(o.script, r.Ok)
			}
			if r.K == "ret" && r.Op == "Rollback" {
				user = "Rollback"
			}
		}
		runProgram(b.N, user, o)
		traces = append(traces, o.log)
	}
	writeTraces(out, traces)
}

// explore enumerates all outcome scripts by DFS: run with a script, extend at the first undecided call.
func explore(maxP int, out string) {
	var traces [][]rec
	for n := 0; n <= maxP; n++ {
		for _, user := range []string{"Commit", "Rollback"} {
			var dfs func(script []bool)
			dfs = func(script []bool) {
				undecided := -1
				o := &oracle{script: script}
				o.choose = func(pos int) bool {
					if undecided < 0 {
						undecided = pos
					}
					return true
				}
				runProgram(n, user, o)
				if undecided < 0 {
					traces = append(traces, o.log)
					return
				}
				base := append([]bool{}, script...)
				for len(base) < undecided {
					base = append(base, true)
				}
				dfs(append(append([]bool{}, base...), true))
				dfs(append(append([]bool{}, base...), false))
			}
			dfs(nil)
		}
	}
	writeTraces(out, traces)
}

// ---- real SOP in the SOP role ----
// SOP's own transaction is the real filesystem transaction (never failing by itself: SOP-internal failures are
// C07's subject); scripted participants fail their phase 1 at every position, or the user rolls back.  The store
// contents decide whether "SOP's changes are rolled back".

type realResult struct {
	N        int         `json:"n"`
	FailAt   int         `json:"fail_at"`
	User     string      `json:"user"`
	Log      []rec       `json:"log"`
	CommitOk bool        `json:"commit_ok"`
	Before   []sopenv.KV `json:"before"`
	After    []sopenv.KV `json:"after"`
	Expect   []sopenv.KV `json:"expect"`
	Count    int64       `json:"count"`
	Match    bool        `json:"match"`
	Err      string      `json:"err,omitempty"`
}

func realRun(folder, out string) {
	ctx := context.Background()
	env := sopenv.New(folder, decor.NewHub())
	env.Hub.Record = false
	var results []realResult
	gen := 0
	for n := 1; n <= 3; n++ {
		for failAt := 0; failAt <= n+1; failAt++ { // 0: nobody fails; 1..n: participant's phase 1 fails; n+1: user rollback
			gen++
			name := "s16_" + strconv.Itoa(gen)
			opts := sopenv.StoreOpts{Name: name, Slot: 4, Unique: true}
			{
				t, err := env.Begin(ctx, "seed", sop.ForWriting, time.Minute)
				if err != nil {
					panic(err)
				}
				b, err := sopenv.NewBtree[int, string](ctx, t, opts)
				if err != nil {
					panic(err)
				}
				for i := 1; i <= 6; i++ {
					b.Add(ctx, i, "v0")
				}
				if err := t.Commit(ctx); err != nil {
					panic(err)
				}
			}
			before, _, _, err := env.Dump(ctx, "obs", name)
			if err != nil {
				panic(err)
			}
			o := &oracle{}
			tt, err := env.NewTxn(ctx, "w", sop.ForWriting, time.Minute)
			if err != nil {
				panic(err)
			}
			for i := 1; i <= n; i++ {
				tt.AddPhasedTransaction(&failingPart{part: part{o: o, who: i}, failP1: i == failAt})
			}
			res := realResult{N: n, FailAt: failAt, Before: before, User: "Commit"}
			if err := tt.Begin(ctx); err != nil {
				panic(err)
			}
			b, err := sopenv.OpenBtree[int, string](ctx, tt, name)
			if err != nil {
				panic(err)
			}
			val := "g" + strconv.Itoa(gen)
			expect := map[int]string{}
			for _, kv := range before {
				expect[kv.K] = kv.V
			}
			b.Upsert(ctx, 100+gen, val)
			expect[100+gen] = val
			b.Update(ctx, 1, val)
			expect[1] = val
			if ok, _ := b.Remove(ctx, 2+gen%5); ok {
				delete(expect, 2+gen%5)
			}
			if failAt == n+1 {
				res.User = "Rollback"
				err = tt.Rollback(ctx)
				res.CommitOk = false
			} else {
				err = tt.Commit(ctx)
				res.CommitOk = err == nil
			}
			if err != nil {
				res.Err = err.Error()
			}
			res.Log = o.log
			after, cnt, _, derr := env.Dump(ctx, "obs", name)
			if derr != nil {
				res.Err += " dump: " + derr.Error()
			}
			res.After = after
			res.Count = cnt
			var want []sopenv.KV
			if res.CommitOk {
				for k := 0; k < 1000; k++ {
					if v, ok := expect[k]; ok {
						want = append(want, sopenv.KV{K: k, V: v})
					}
				}
			} else {
				want = before
			}
			res.Expect = want
			res.Match = derr == nil && fmt.Sprint(want) == fmt.Sprint(after) && int(cnt) == len(after)
			results = append(results, res)
		}
	}
	data, _ := json.MarshalIndent(results, "", " ")
	os.WriteFile(out, data, 0o644)
}

type failingPart struct {
	part
	failP1 bool
}

func (p *failingPart) Phase1Commit(ctx context.Context) error {
	if p.failP1 {
		p.o.log = append(p.o.log, rec{Ev: "Call", Who: p.who, Op: "P1", Ok: false})
		return errors.New("scripted failure")
	}
	return p.part.Phase1Commit(ctx)
}

func main() {
	switch os.Args[1] {
	case "replay":
		replay(os.Args[2], os.Args[3])
	case "explore":
		n, _ := strconv.Atoi(os.Args[2])
		explore(n, os.Args[3])
	case "real":
		realRun(os.Args[2], os.Args[3])
	}
}
