// dbgcs: T_a creates a store and adds a key; T_b opens the (uncommitted) store through NewBtree, adds another key and
// commits first; T_a then commits (conflict on the first root -> internal rollback -> refetch & merge -> retry).
package main

import (
	"context"
	"fmt"
	"os"
	"time"

	"github.com/sharedcode/sop"

	"verif/harness/lib/decor"
	"verif/harness/lib/sopenv"
)

func main() {
	ctx := context.Background()
	folder := os.Args[1]
	os.RemoveAll(folder)
	env := sopenv.New(folder, decor.NewHub())
	env.Hub.Record = false
	o := sopenv.StoreOpts{Name: "s", Slot: 4, Unique: true, Placement: "node"}
	ta, _ := env.Begin(ctx, "ta", sop.ForWriting, 15*time.Second)
	ba, err := sopenv.NewBtree[int, string](ctx, ta, o)
	fmt.Println("ta NewBtree", err)
	ba.Add(ctx, 1, "a")
	tb, _ := env.Begin(ctx, "tb", sop.ForWriting, 15*time.Second)
	bb, err := sopenv.NewBtree[int, string](ctx, tb, o)
	fmt.Println("tb NewBtree", err)
	bb.Add(ctx, 2, "b")
	fmt.Println("tb commit", tb.Commit(ctx))
	fmt.Println("ta commit", ta.Commit(ctx))
	items, count, exists, err := env.Dump(ctx, "obs", "s")
	fmt.Println("dump", items, count, "exists", exists, err)
}
