// erasureblob: binds spec/ErasureBlob.tla to fs.BlobStoreWithEC (properties C25, C26).
//
//	erasureblob replay <plan.json> <out.ndjson>   execute TLC-generated programs (write failures, shard damage,
//	                                              reads, shard inspection) against the real blob store
//	erasureblob child                             worker that executes GetOne on request (stdin/stdout JSON lines);
//	                                              a panic inside the blob store kills only this process
//
// The parent performs writes (real BlobStoreWithEC.Add through a fault-injecting fs.FileIO), damages shard
// files on disk, and inspects shard files.  Every read (BlobStoreWithEC.GetOne) runs in a child process.
// The driver holds no expectation about results: it logs what happened; TLC decides.
package main

import (
	"bufio"
	"context"
	"encoding/json"
	"fmt"
	"io"
	"log/slog"
	"os"
	"sync"
)

type step struct {
	Op    string   `json:"op"` // write | damage | read | inspect
	Fail  []int    `json:"fail,omitempty"`
	Kind  string   `json:"kind,omitempty"`  // write: what a failing shard write leaves behind
	Kinds []string `json:"kinds,omitempty"` // damage: per shard
	Fresh bool     `json:"fresh,omitempty"` // damage: restore all shard files to their as-written content first
	// damage: this step and the read that follows it may be left out when the crash gate says so (see crashGate)
	Skippable bool `json:"skippable,omitempty"`
	Span      int  `json:"span,omitempty"` // number of following steps that belong to this damage step's case (default 1)
}

type traceplan struct {
	Name   string `json:"name"`
	D      int    `json:"d"`
	P      int    `json:"p"`
	Repair bool   `json:"repair"`
	Size   int    `json:"size"`
	Steps  []step `json:"steps"`
}

type plan struct {
	Root    string `json:"root"`
	Seed    int64  `json:"seed"`
	Workers int    `json:"workers"`
	// crash gate (0 = off): see crashGate
	CrashStreakLimit int         `json:"crash_streak_limit"`
	CrashResample    int         `json:"crash_resample"`
	Traces           []traceplan `json:"traces"`
}

type event map[string]any

func main() {
	slog.SetDefault(slog.New(slog.NewTextHandler(io.Discard, &slog.HandlerOptions{Level: slog.LevelError + 4})))
	if len(os.Args) < 2 {
		fmt.Fprintln(os.Stderr, "usage: erasureblob replay <plan.json> <out.ndjson> | child")
		os.Exit(2)
	}
	switch os.Args[1] {
	case "child":
		childMain()
	case "replay":
		if len(os.Args) != 4 {
			fmt.Fprintln(os.Stderr, "usage: erasureblob replay <plan.json> <out.ndjson>")
			os.Exit(2)
		}
		if err := replayMain(os.Args[2], os.Args[3]); err != nil {
			fmt.Fprintln(os.Stderr, "erasureblob:", err)
			os.Exit(3)
		}
	default:
		fmt.Fprintln(os.Stderr, "unknown mode", os.Args[1])
		os.Exit(2)
	}
}

func replayMain(planPath, outPath string) error {
	raw, err := os.ReadFile(planPath)
	if err != nil {
		return err
	}
	var pl plan
	if err := json.Unmarshal(raw, &pl); err != nil {
		return err
	}
	if pl.Workers <= 0 {
		pl.Workers = 4
	}
	if err := os.MkdirAll(pl.Root, 0o755); err != nil {
		return err
	}
	gate = &crashGate{limit: pl.CrashStreakLimit, resample: pl.CrashResample, streak: map[string]int{}, seen: map[string]int{}}
	pool = newChildPool(pl.Workers/2+1, pl.Workers)
	defer pool.close()
	results := make([][]event, len(pl.Traces))
	var wg sync.WaitGroup
	next := make(chan int)
	errs := make(chan error, pl.Workers)
	for w := 0; w < pl.Workers; w++ {
		wg.Add(1)
		go func(w int) {
			defer wg.Done()
			wk, err := newWorker(fmt.Sprintf("%s/w%d", pl.Root, w), pl.Seed)
			if err != nil {
				errs <- err
				for range next {
				}
				return
			}
			defer wk.close()
			for i := range next {
				evs, err := wk.runTrace(context.Background(), &pl.Traces[i])
				if err != nil {
					errs <- fmt.Errorf("trace %s: %w", pl.Traces[i].Name, err)
					for range next {
					}
					return
				}
				results[i] = evs
			}
		}(w)
	}
	for i := range pl.Traces {
		next <- i
	}
	close(next)
	wg.Wait()
	select {
	case err := <-errs:
		return err
	default:
	}
	f, err := os.Create(outPath)
	if err != nil {
		return err
	}
	bw := bufio.NewWriterSize(f, 1<<20)
	enc := json.NewEncoder(bw)
	for i := range pl.Traces {
		if err := enc.Encode(event{"ev": "TraceStart", "name": pl.Traces[i].Name}); err != nil {
			return err
		}
		for _, e := range results[i] {
			if err := enc.Encode(e); err != nil {
				return err
			}
		}
	}
	if err := bw.Flush(); err != nil {
		return err
	}
	return f.Close()
}
