package main

import (
	"bufio"
	"bytes"
	"context"
	"crypto/md5"
	"crypto/sha256"
	"encoding/hex"
	"encoding/json"
	"errors"
	"fmt"
	"hash/fnv"
	"io"
	"math/rand"
	"os"
	"os/exec"
	"path/filepath"
	"runtime"
	"strconv"
	"strings"
	"sync"
	"time"

	"github.com/sharedcode/sop"
	"github.com/sharedcode/sop/fs"
)

const (
	table    = "blobtbl"
	metaSize = 17 // on-disk shard format: 1 pad-count byte + 16 bytes MD5 of the shard, then the shard
)

// ---------------------------------------------------------------------------------------------
// fs.FileIO decorator: real file I/O, with scripted failures of shard writes.

type faultIO struct {
	fs.FileIO
	mu   sync.Mutex
	fail map[int]string // shard index (0-based) -> what the failing write leaves: missing | truncShort | truncLong
	cut  map[int]int    // shard index -> length of the prefix that reaches the disk
}

func shardIndexOf(name string) int {
	b := filepath.Base(name)
	k := strings.LastIndexByte(b, '_')
	if k < 0 {
		return -1
	}
	n, err := strconv.Atoi(b[k+1:])
	if err != nil {
		return -1
	}
	return n
}

func (f *faultIO) WriteFile(ctx context.Context, name string, data []byte, perm os.FileMode) error {
	idx := shardIndexOf(name)
	f.mu.Lock()
	kind, bad := f.fail[idx]
	n := f.cut[idx]
	f.mu.Unlock()
	if !bad {
		return f.FileIO.WriteFile(ctx, name, data, perm)
	}
	if kind != "missing" {
		// torn write: a prefix reaches the disk, then the device reports an error
		if n > len(data) {
			n = len(data)
		}
		if err := os.WriteFile(name, data[:n], perm); err != nil {
			return err
		}
	}
	return fmt.Errorf("injected shard write failure (%s) on %s", kind, filepath.Base(name))
}

// ---------------------------------------------------------------------------------------------

type childProc struct {
	cmd    *exec.Cmd
	in     io.WriteCloser
	out    *bufio.Reader
	stderr *bytes.Buffer
}

type getReq struct {
	D      int      `json:"d"`
	P      int      `json:"p"`
	Dirs   []string `json:"dirs"`
	ID     string   `json:"id"`
	Repair bool     `json:"repair"`
}

type getResp struct {
	Ok  bool   `json:"ok"`
	Err string `json:"err,omitempty"`
	Len int    `json:"len"`
	Sha string `json:"sha,omitempty"`
}

type worker struct {
	root  string
	seed  int64
	child *childProc
	// statistics
	spawns int
}

func newWorker(root string, seed int64) (*worker, error) {
	if err := os.MkdirAll(root, 0o755); err != nil {
		return nil, err
	}
	return &worker{root: root, seed: seed}, nil
}

func (w *worker) close() {
	w.killChild()
	os.RemoveAll(w.root)
}

func (w *worker) killChild() {
	if w.child != nil {
		w.child.in.Close()
		w.child.cmd.Wait()
		w.child = nil
	}
}

// Children are spawned ahead of need by a shared pool: on a tree where many damage patterns kill the reader process,
// process start-up would otherwise dominate the run time.
type childPool struct {
	ready chan *childProc
	stop  chan struct{}
	wg    sync.WaitGroup
}

func spawnChild() (*childProc, error) {
	exe, err := os.Executable()
	if err != nil {
		return nil, err
	}
	cmd := exec.Command(exe, "child")
	in, err := cmd.StdinPipe()
	if err != nil {
		return nil, err
	}
	out, err := cmd.StdoutPipe()
	if err != nil {
		return nil, err
	}
	eb := &bytes.Buffer{}
	cmd.Stderr = eb
	cmd.Env = append(os.Environ(), "GOTRACEBACK=single", "GOMAXPROCS=4")
	if err := cmd.Start(); err != nil {
		return nil, err
	}
	return &childProc{cmd: cmd, in: in, out: bufio.NewReaderSize(out, 1<<16), stderr: eb}, nil
}

func newChildPool(spawners, depth int) *childPool {
	p := &childPool{ready: make(chan *childProc, depth), stop: make(chan struct{})}
	for i := 0; i < spawners; i++ {
		p.wg.Add(1)
		go func() {
			defer p.wg.Done()
			for {
				select {
				case <-p.stop:
					return
				default:
				}
				c, err := spawnChild()
				if err != nil {
					time.Sleep(10 * time.Millisecond)
					continue
				}
				select {
				case p.ready <- c:
				case <-p.stop:
					c.in.Close()
					c.cmd.Wait()
					return
				}
			}
		}()
	}
	return p
}

func (p *childPool) close() {
	close(p.stop)
	p.wg.Wait()
	for {
		select {
		case c := <-p.ready:
			c.in.Close()
			c.cmd.Wait()
		default:
			return
		}
	}
}

var pool *childPool

// crashGate bounds the time spent on re-spawning reader processes on a tree where some damage kind kills the reader
// every time: once the last `limit` executed cases containing kind K all crashed the reader, only every `resample`-th
// further case containing K is executed (a case that does not crash resets the streak).  Left-out cases are logged
// as Skipped and are not part of any verdict.  It never triggers on a tree whose reader does not crash.
type crashGate struct {
	mu       sync.Mutex
	limit    int
	resample int
	streak   map[string]int
	seen     map[string]int
}

var gate *crashGate

func distinctDamage(kinds []string) []string {
	out := []string{}
	for _, k := range kinds {
		if k == "ok" {
			continue
		}
		dup := false
		for _, o := range out {
			dup = dup || o == k
		}
		if !dup {
			out = append(out, k)
		}
	}
	return out
}

func (g *crashGate) skip(kinds []string) bool {
	if g == nil || g.limit <= 0 {
		return false
	}
	g.mu.Lock()
	defer g.mu.Unlock()
	for _, k := range distinctDamage(kinds) {
		if g.streak[k] >= g.limit {
			g.seen[k]++
			if g.resample <= 0 || g.seen[k]%g.resample != 0 {
				return true
			}
		}
	}
	return false
}

func (g *crashGate) record(kinds []string, crashed bool) {
	if g == nil || g.limit <= 0 {
		return
	}
	g.mu.Lock()
	defer g.mu.Unlock()
	for _, k := range distinctDamage(kinds) {
		if crashed {
			g.streak[k]++
		} else {
			g.streak[k] = 0
		}
	}
}

func (w *worker) ensureChild() error {
	if w.child != nil {
		return nil
	}
	if pool != nil {
		select {
		case c := <-pool.ready:
			w.child = c
			w.spawns++
			return nil
		case <-time.After(30 * time.Second):
			return fmt.Errorf("no child process became available")
		}
	}
	c, err := spawnChild()
	if err != nil {
		return err
	}
	w.spawns++
	w.child = c
	return nil
}

// get runs BlobStoreWithEC.GetOne in the child.  crashed=true when the child process died while serving it.
func (w *worker) get(req *getReq) (resp getResp, crashed bool, detail string, err error) {
	if err = w.ensureChild(); err != nil {
		return
	}
	line, _ := json.Marshal(req)
	line = append(line, '\n')
	if _, werr := w.child.in.Write(line); werr != nil {
		// the child can only be gone because it died on the previous request, which we would have noticed
		w.child.cmd.Wait()
		err = fmt.Errorf("child not accepting requests: %v; stderr: %s", werr, w.child.stderr.String())
		return
	}
	ans, rerr := w.child.out.ReadBytes('\n')
	if rerr != nil {
		// process died: collect its exit status and the first lines of the panic
		w.child.in.Close()
		werr := w.child.cmd.Wait()
		msg := w.child.stderr.String()
		w.child = nil
		var ee *exec.ExitError
		if werr == nil || !errors.As(werr, &ee) {
			err = fmt.Errorf("child ended without failure status while serving a request: %v / %s", werr, msg)
			return
		}
		crashed = true
		detail = firstLines(msg, 2)
		return
	}
	if jerr := json.Unmarshal(ans, &resp); jerr != nil {
		err = fmt.Errorf("bad child answer %q: %v", ans, jerr)
	}
	return
}

func firstLines(s string, n int) string {
	ls := strings.Split(strings.TrimSpace(s), "\n")
	out := []string{}
	for _, l := range ls {
		l = strings.TrimSpace(l)
		if l == "" {
			continue
		}
		out = append(out, l)
		if len(out) == n {
			break
		}
	}
	return strings.Join(out, " | ")
}

// ---------------------------------------------------------------------------------------------

type blobCtx struct {
	tp        *traceplan
	n         int
	dirs      []string
	id        sop.UUID
	files     []string
	payload   []byte
	sum       string
	pristine  [][]byte // shard file content right after the write (nil: file absent)
	refParity map[int][]byte
	cur       [][]byte // what the driver last put into each shard file
	curKnown  []bool   // false after the code under test may have rewritten the file
	rng       *rand.Rand
}

func payloadFor(size int, rng *rand.Rand) []byte {
	b := make([]byte, size)
	rng.Read(b)
	// make sure no byte pattern is special except the tail: the last byte is zero, so that an implementation which
	// strips trailing zeroes instead of honouring the pad count returns a shorter blob
	for i := range b {
		if b[i] == 0 {
			b[i] = 0x5a
		}
	}
	b[size-1] = 0
	return b
}

func (w *worker) runTrace(ctx context.Context, tp *traceplan) ([]event, error) {
	h := fnv.New64a()
	h.Write([]byte(tp.Name))
	rng := rand.New(rand.NewSource(w.seed*1000003 + int64(h.Sum64()&0x7fffffffffff)))
	bc := &blobCtx{tp: tp, n: tp.D + tp.P, rng: rng}
	base := filepath.Join(w.root, "t")
	os.RemoveAll(base)
	defer os.RemoveAll(base)
	for i := 0; i < bc.n; i++ {
		dir := filepath.Join(base, fmt.Sprintf("drive%d", i))
		if err := os.MkdirAll(dir, 0o755); err != nil {
			return nil, err
		}
		bc.dirs = append(bc.dirs, dir)
	}
	var u [16]byte
	rng.Read(u[:])
	u[6] = (u[6] & 0x0f) | 0x40
	u[8] = (u[8] & 0x3f) | 0x80
	bc.id = sop.UUID(u)
	for i := 0; i < bc.n; i++ {
		fp := fs.DefaultToFilePath(filepath.Join(bc.dirs[i], table), bc.id)
		bc.files = append(bc.files, fmt.Sprintf("%s%c%s_%d", fp, os.PathSeparator, bc.id.String(), i))
	}
	bc.payload = payloadFor(tp.Size, rng)
	s := sha256.Sum256(bc.payload)
	bc.sum = hex.EncodeToString(s[:])

	evs := []event{{"ev": "Setup", "d": tp.D, "p": tp.P, "repair": tp.Repair, "size": tp.Size}}
	var lastKinds []string
	for si := 0; si < len(tp.Steps); si++ {
		st := &tp.Steps[si]
		if st.Op == "damage" && st.Skippable {
			span := st.Span
			if span <= 0 {
				span = 1
			}
			if si+span <= len(tp.Steps)-1 {
				if gate.skip(st.Kinds) {
					evs = append(evs, event{"ev": "Skipped", "kinds": st.Kinds})
					si += span
					continue
				}
			}
		}
		switch st.Op {
		case "write":
			e, err := w.doWrite(ctx, bc, st)
			if err != nil {
				return nil, err
			}
			evs = append(evs, e)
		case "damage":
			e, err := bc.doDamage(st)
			if err != nil {
				return nil, err
			}
			lastKinds = st.Kinds
			evs = append(evs, e)
		case "read":
			e, err := w.doRead(bc)
			if err != nil {
				return nil, err
			}
			if lastKinds != nil {
				gate.record(lastKinds, e["res"] == "crash")
			}
			evs = append(evs, e)
		case "inspect":
			evs = append(evs, bc.doInspect())
		default:
			return nil, fmt.Errorf("unknown step %q", st.Op)
		}
	}
	return evs, nil
}

func (w *worker) doWrite(ctx context.Context, bc *blobCtx, st *step) (event, error) {
	tp := bc.tp
	fio := &faultIO{FileIO: fs.NewFileIO(), fail: map[int]string{}, cut: map[int]int{}}
	notes := make([]string, 0, len(st.Fail))
	for _, s := range st.Fail { // 1-based in the plan / the spec
		fio.fail[s-1] = st.Kind
		n := 0
		switch st.Kind {
		case "truncShort":
			n = []int{0, 1, metaSize - 1}[bc.rng.Intn(3)]
		case "truncLong":
			n = metaSize + bc.rng.Intn(bc.shardLen())
		}
		fio.cut[s-1] = n
		notes = append(notes, fmt.Sprintf("%s:len%d", st.Kind, n))
	}
	cfg := map[string]sop.ErasureCodingConfig{table: {
		DataShardsCount: tp.D, ParityShardsCount: tp.P, BaseFolderPathsAcrossDrives: bc.dirs, RepairCorruptedShards: tp.Repair}}
	bs, err := fs.NewBlobStoreWithEC(fs.DefaultToFilePath, fio, cfg)
	if err != nil {
		return nil, err
	}
	data := append([]byte(nil), bc.payload...)
	werr := bs.Add(ctx, []sop.BlobsPayload[sop.KeyValuePair[sop.UUID, []byte]]{{
		BlobTable: table, Blobs: []sop.KeyValuePair[sop.UUID, []byte]{{Key: bc.id, Value: data}}}})
	bc.pristine = make([][]byte, bc.n)
	bc.cur = make([][]byte, bc.n)
	bc.curKnown = make([]bool, bc.n)
	for i, fn := range bc.files {
		if b, err := os.ReadFile(fn); err == nil {
			bc.pristine[i] = b
		}
		bc.cur[i], bc.curKnown[i] = bc.pristine[i], true
	}
	fail := st.Fail
	if fail == nil {
		fail = []int{}
	}
	e := event{"ev": "Write", "fail": fail, "kind": st.Kind, "ok": werr == nil, "variants": notes, "detail": ""}
	if werr != nil {
		e["detail"] = werr.Error()
	}
	return e, nil
}

// expected on-disk image of shard i, computed without the code under test where that is possible: data shards are the
// payload split into d equal pieces (zero padded); pad count and MD5 as documented.  Parity content is taken as written.
func (bc *blobCtx) shardLen() int { return (bc.tp.Size + bc.tp.D - 1) / bc.tp.D }

func (bc *blobCtx) intact(i int) bool {
	b, err := os.ReadFile(bc.files[i])
	if err != nil {
		return false
	}
	sl := bc.shardLen()
	if len(b) != metaSize+sl {
		return false
	}
	if int(b[0]) != (bc.tp.D-bc.tp.Size%bc.tp.D)%bc.tp.D {
		return false
	}
	m := md5.Sum(b[metaSize:])
	if !bytes.Equal(m[:], b[1:metaSize]) {
		return false
	}
	if i < bc.tp.D {
		want := make([]byte, sl)
		lo := i * sl
		if lo < len(bc.payload) {
			copy(want, bc.payload[lo:])
		}
		if !bytes.Equal(want, b[metaSize:]) {
			return false
		}
	} else {
		// parity: must equal what a complete write produces (Reed-Solomon encoding is deterministic)
		ref := bc.pristine[i]
		if ref == nil || len(ref) != metaSize+sl {
			if bc.refParity == nil {
				bc.refParity = map[int][]byte{}
			}
			if _, ok := bc.refParity[i]; !ok {
				r, err := bc.referenceParity(i)
				if err != nil {
					r = nil
				}
				bc.refParity[i] = r
			}
			ref = bc.refParity[i]
		}
		if ref == nil || !bytes.Equal(ref, b) {
			return false
		}
	}
	return true
}

// referenceParity writes the same payload under another id with a fault-free FileIO and returns shard file i.
func (bc *blobCtx) referenceParity(i int) ([]byte, error) {
	cfg := map[string]sop.ErasureCodingConfig{table: {
		DataShardsCount: bc.tp.D, ParityShardsCount: bc.tp.P, BaseFolderPathsAcrossDrives: bc.dirs}}
	bs, err := fs.NewBlobStoreWithEC(fs.DefaultToFilePath, fs.NewFileIO(), cfg)
	if err != nil {
		return nil, err
	}
	id := sop.NewUUID()
	err = bs.Add(context.Background(), []sop.BlobsPayload[sop.KeyValuePair[sop.UUID, []byte]]{{
		BlobTable: table, Blobs: []sop.KeyValuePair[sop.UUID, []byte]{{Key: id, Value: append([]byte(nil), bc.payload...)}}}})
	if err != nil {
		return nil, err
	}
	fp := fs.DefaultToFilePath(filepath.Join(bc.dirs[i], table), id)
	b, err := os.ReadFile(fmt.Sprintf("%s%c%s_%d", fp, os.PathSeparator, id.String(), i))
	bs.Remove(context.Background(), []sop.BlobsPayload[sop.UUID]{{BlobTable: table, Blobs: []sop.UUID{id}}})
	return b, err
}

func (bc *blobCtx) doInspect() event {
	in := make([]bool, bc.n)
	for i := range in {
		in[i] = bc.intact(i)
	}
	return event{"ev": "Inspect", "intact": in}
}

// put makes shard file i hold img (nil: no file); files already known to hold img are not rewritten.
func (bc *blobCtx) put(i int, img []byte) error {
	if bc.curKnown[i] && ((img == nil && bc.cur[i] == nil) || (img != nil && bc.cur[i] != nil && bytes.Equal(img, bc.cur[i]))) {
		return nil
	}
	if img == nil {
		err := os.Remove(bc.files[i])
		if err != nil && !os.IsNotExist(err) {
			return err
		}
	} else if err := os.WriteFile(bc.files[i], img, 0o644); err != nil {
		return err
	}
	bc.cur[i], bc.curKnown[i] = img, true
	return nil
}

func pick(rng *rand.Rand, xs ...string) string { return xs[rng.Intn(len(xs))] }

// doDamage applies one damage kind per shard file; the concrete variant (which length, which byte) is chosen here and logged.
// A shard that gets a damage kind is first set back to its as-written image (fresh damage replaces older damage); with
// st.Fresh all other shards are set back too, otherwise they are left as the code under test left them.
func (bc *blobCtx) doDamage(st *step) (event, error) {
	if len(st.Kinds) != bc.n {
		return nil, fmt.Errorf("damage step with %d kinds for %d shards", len(st.Kinds), bc.n)
	}
	if bc.pristine == nil {
		return nil, fmt.Errorf("damage before write")
	}
	variants := make([]string, bc.n)
	d := bc.tp.D
	pad := (d - bc.tp.Size%d) % d
	for i, k := range st.Kinds {
		if k == "ok" {
			variants[i] = ""
			if st.Fresh {
				if err := bc.put(i, bc.pristine[i]); err != nil {
					return nil, err
				}
			}
			continue
		}
		img := bc.pristine[i]
		if img == nil || len(img) != metaSize+bc.shardLen() {
			return nil, fmt.Errorf("damage of a shard that was not completely written")
		}
		img = append([]byte(nil), img...)
		full := len(img)
		var v string
		switch k {
		case "missing":
			v = "rm"
			img = nil
		case "truncShort":
			v = pick(bc.rng, "len0", "len1", "len16")
			img = img[:map[string]int{"len0": 0, "len1": 1, "len16": 16}[v]]
		case "truncLong":
			// 17 bytes = metadata only; longer prefixes keep a part of the shard
			v = pick(bc.rng, "len17", "lenMid", "lenFullMinus1")
			n := metaSize
			switch v {
			case "lenMid":
				n = metaSize + (full-metaSize)/2
			case "lenFullMinus1":
				n = full - 1
			}
			if n == metaSize {
				v = "len17"
			}
			img = img[:n]
		case "corruptData":
			v = pick(bc.rng, "first", "last", "rand")
			off := metaSize
			switch v {
			case "last":
				off = full - 1
			case "rand":
				off = metaSize + bc.rng.Intn(full-metaSize)
			}
			img[off] ^= byte(1 << uint(bc.rng.Intn(8)))
		case "corruptMeta":
			v = pick(bc.rng, "padLow", "padHigh", "padFF", "sumFirst", "sumLast", "sumRand")
			if v == "padLow" && d == 1 {
				v = "padHigh" // the only legal pad count for d=1 is 0
			}
			switch v {
			case "padLow": // another legal pad count (0..d-1)
				img[0] = byte((pad + 1 + bc.rng.Intn(d-1)) % d)
			case "padHigh": // smallest illegal pad count
				img[0] = byte(d)
			case "padFF":
				img[0] = 0xff
			case "sumFirst":
				img[1] ^= 0x01
			case "sumLast":
				img[metaSize-1] ^= 0x80
			case "sumRand":
				img[1+bc.rng.Intn(metaSize-1)] ^= byte(1 << uint(bc.rng.Intn(8)))
			}
		default:
			return nil, fmt.Errorf("unknown damage kind %q", k)
		}
		if err := bc.put(i, img); err != nil {
			return nil, err
		}
		variants[i] = v
	}
	return event{"ev": "Damage", "kinds": st.Kinds, "fresh": st.Fresh, "variants": variants}, nil
}

func (w *worker) doRead(bc *blobCtx) (event, error) {
	req := &getReq{D: bc.tp.D, P: bc.tp.P, Dirs: bc.dirs, ID: bc.id.String(), Repair: bc.tp.Repair}
	resp, crashed, detail, err := w.get(req)
	if err != nil {
		return nil, err
	}
	if bc.tp.Repair {
		for i := range bc.curKnown { // the read may have rewritten shard files
			bc.curKnown[i] = false
		}
	}
	e := event{"ev": "Read", "res": "ok", "eq": false, "len": resp.Len, "detail": ""}
	switch {
	case crashed:
		e["res"] = "crash"
		e["detail"] = detail
	case !resp.Ok:
		e["res"] = "error"
		e["detail"] = resp.Err
	default:
		e["eq"] = resp.Len == len(bc.payload) && resp.Sha == bc.sum
	}
	return e, nil
}

// ---------------------------------------------------------------------------------------------
// child: serves GetOne requests; deliberately no recover(): a panic anywhere in the blob store ends the process.

func childMain() {
	in := bufio.NewReaderSize(os.Stdin, 1<<16)
	out := bufio.NewWriter(os.Stdout)
	ctx := context.Background()
	baseline := runtime.NumGoroutine()
	for {
		line, err := in.ReadBytes('\n')
		if err != nil {
			return
		}
		var req getReq
		if err := json.Unmarshal(line, &req); err != nil {
			fmt.Fprintln(os.Stderr, "child: bad request:", err)
			os.Exit(0) // not a crash of the code under test
		}
		var resp getResp
		cfg := map[string]sop.ErasureCodingConfig{table: {
			DataShardsCount: req.D, ParityShardsCount: req.P, BaseFolderPathsAcrossDrives: req.Dirs, RepairCorruptedShards: req.Repair}}
		bs, err := fs.NewBlobStoreWithEC(fs.DefaultToFilePath, fs.NewFileIO(), cfg)
		if err != nil {
			resp.Err = "NewBlobStoreWithEC: " + err.Error()
		} else {
			id, perr := sop.ParseUUID(req.ID)
			if perr != nil {
				fmt.Fprintln(os.Stderr, "child: bad id:", perr)
				os.Exit(0)
			}
			data, gerr := bs.GetOne(ctx, table, id)
			if gerr != nil {
				resp.Err = gerr.Error()
				if resp.Err == "" {
					resp.Err = "error"
				}
			} else {
				resp.Ok = true
				resp.Len = len(data)
				s := sha256.Sum256(data)
				resp.Sha = hex.EncodeToString(s[:])
			}
		}
		// A panic in a shard-reader goroutine first runs errgroup's deferred done(), which lets GetOne return in this
		// goroutine while the process is already dying.  Answer only when the call's goroutines are gone, so that the
		// death is attributed to this request and not to the next one.
		for k := 0; runtime.NumGoroutine() > baseline && k < 2000; k++ {
			if k < 1000 {
				runtime.Gosched()
			} else {
				time.Sleep(200 * time.Microsecond)
			}
		}
		b, _ := json.Marshal(&resp)
		out.Write(b)
		out.WriteByte('\n')
		out.Flush()
	}
}
