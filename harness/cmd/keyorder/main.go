// keyorder: binds spec/KeyOrder.tla (+KeyOrderTrace) to the key comparison code of SOP.
//
//	keyorder matrix <out.ndjson>                    C29: sign matrices of btree.Compare / btree.CoerceComparer over
//	                                                edge values of every supported key type + independent ranks
//	keyorder replay <sessions.json> <out.ndjson>    C30: run comparison programs (TLC behaviours, random programs) on
//	                                                fresh jsondb comparer objects and log every answer
//	keyorder store <scenarios.json> <dir> <out.ndjson>  C30: store-level scenarios; every step runs in its own child process
//	keyorder child                                  (internal) one step of a store scenario, JSON on stdin/stdout
//
// The driver computes no expected results for C30; for C29 it supplies the natural rank of every edge value
// computed with other primitives than the code under test (math/big, IEEE bit patterns, bytes.Compare,
// Unix seconds/nanoseconds), because TLA+ cannot hold floats, times or 128-bit values.
package main

import (
	"encoding/json"
	"fmt"
	"os"
	"strconv"
)

func envInt(name string, def int) int {
	if v, err := strconv.Atoi(os.Getenv(name)); err == nil {
		return v
	}
	return def
}

func thorough() bool { return os.Getenv("VERIF_TIER") == "thorough" }

type ndjson struct {
	f   *os.File
	enc *json.Encoder
}

func newNdjson(path string) *ndjson {
	f, err := os.Create(path)
	if err != nil {
		fatal(err)
	}
	return &ndjson{f: f, enc: json.NewEncoder(f)}
}
func (n *ndjson) write(v any) {
	if err := n.enc.Encode(v); err != nil {
		fatal(err)
	}
}
func (n *ndjson) close() { n.f.Close() }

func fatal(a ...any) {
	fmt.Fprintln(os.Stderr, a...)
	os.Exit(3)
}

func main() {
	if len(os.Args) < 2 {
		fatal("usage: keyorder matrix|replay|store|child ...")
	}
	switch os.Args[1] {
	case "matrix":
		cmdMatrix(os.Args[2])
	case "replay":
		cmdReplay(os.Args[2], os.Args[3])
	case "store":
		cmdStore(os.Args[2], os.Args[3], os.Args[4])
	case "child":
		cmdChild()
	default:
		fatal("unknown command", os.Args[1])
	}
}
