package main

import (
	"fmt"
	"math"
	"math/big"
	"math/rand"
	"reflect"
	"time"

	"github.com/google/uuid"
	"github.com/sharedcode/sop"
	"github.com/sharedcode/sop/btree"
)

// ---- independent reference order (no cmp.Compare, bytes.Compare on the compared type, Time.Compare) ----

// floatClass maps a float to (class, key): NaN is below everything and all NaNs are equal; -0 = +0;
// otherwise the IEEE-754 bit pattern made monotone.
func floatKey(f float64) (nan bool, key uint64) {
	if f != f {
		return true, 0
	}
	if f == 0 {
		f = 0 // drop the sign of -0
	}
	b := math.Float64bits(f)
	if b>>63 == 1 {
		b = ^b
	} else {
		b |= 1 << 63
	}
	return false, b
}

func sgnInt(c int) int {
	if c < 0 {
		return -1
	}
	if c > 0 {
		return 1
	}
	return 0
}

func bytesRef(x, y []byte) int {
	for i := 0; i < len(x) && i < len(y); i++ {
		if x[i] != y[i] {
			if x[i] < y[i] {
				return -1
			}
			return 1
		}
	}
	return sgnInt(len(x) - len(y))
}

func refCmp(a, b any) int {
	switch x := a.(type) {
	case time.Time:
		y := b.(time.Time)
		if x.Unix() != y.Unix() {
			if x.Unix() < y.Unix() {
				return -1
			}
			return 1
		}
		return sgnInt(x.Nanosecond() - y.Nanosecond())
	case uuid.UUID:
		y := b.(uuid.UUID)
		return new(big.Int).SetBytes(x[:]).Cmp(new(big.Int).SetBytes(y[:]))
	case sop.UUID:
		y := b.(sop.UUID)
		return new(big.Int).SetBytes(x[:]).Cmp(new(big.Int).SetBytes(y[:]))
	case string:
		return bytesRef([]byte(x), []byte(b.(string)))
	case []byte:
		return bytesRef(x, b.([]byte))
	}
	va, vb := reflect.ValueOf(a), reflect.ValueOf(b)
	switch va.Kind() {
	case reflect.Int, reflect.Int8, reflect.Int16, reflect.Int32, reflect.Int64:
		return big.NewInt(va.Int()).Cmp(big.NewInt(vb.Int()))
	case reflect.Uint, reflect.Uint8, reflect.Uint16, reflect.Uint32, reflect.Uint64, reflect.Uintptr:
		return new(big.Int).SetUint64(va.Uint()).Cmp(new(big.Int).SetUint64(vb.Uint()))
	case reflect.Float32, reflect.Float64:
		na, ka := floatKey(va.Float())
		nb, kb := floatKey(vb.Float())
		switch {
		case na && nb:
			return 0
		case na:
			return -1
		case nb:
			return 1
		case ka < kb:
			return -1
		case ka > kb:
			return 1
		}
		return 0
	case reflect.Slice:
		for i := 0; i < va.Len() && i < vb.Len(); i++ {
			if c := refCmp(va.Index(i).Interface(), vb.Index(i).Interface()); c != 0 {
				return c
			}
		}
		return sgnInt(va.Len() - vb.Len())
	}
	panic(fmt.Sprintf("refCmp: unsupported %T", a))
}

// ---- edge values ----

type group struct {
	name string
	vals []any
}

func sintVals[T int | int8 | int16 | int32 | int64](min, max T, rnd []int64) []any {
	out := []any{min, min + 1, T(-2), T(-1), T(0), T(1), T(2), max - 1, max, max / 2, min / 2}
	for _, r := range rnd {
		out = append(out, T(r))
	}
	return out
}

func uintVals[T uint | uint8 | uint16 | uint32 | uint64 | uintptr](max T, rnd []int64) []any {
	out := []any{T(0), T(1), T(2), max - 1, max, max / 2, max/2 + 1}
	for _, r := range rnd {
		out = append(out, T(r))
	}
	return out
}

func groups(rng *rand.Rand, extra int) []group {
	rnd := make([]int64, extra)
	for i := range rnd {
		rnd[i] = int64(rng.Uint64())
	}
	nan2 := math.Float64frombits(0xfff8000000000001) // negative quiet NaN with payload
	sub := math.Float64frombits(0x0008000000000000)  // subnormal
	f64 := []any{math.NaN(), nan2, math.Inf(-1), -math.MaxFloat64, -1.0, -math.SmallestNonzeroFloat64,
		math.Copysign(0, -1), 0.0, math.SmallestNonzeroFloat64, sub, -sub, 1.0, math.Nextafter(1, 2),
		math.MaxFloat64, math.Inf(1), 0.1 + 0.2, 0.3}
	nan32 := math.Float32frombits(0xffc00001)
	sub32 := math.Float32frombits(0x00400000)
	f32 := []any{float32(math.NaN()), nan32, float32(math.Inf(-1)), float32(-math.MaxFloat32), float32(-1),
		float32(-math.SmallestNonzeroFloat32), float32(math.Copysign(0, -1)), float32(0),
		float32(math.SmallestNonzeroFloat32), sub32, -sub32, float32(1), math.Nextafter32(1, 2),
		float32(math.MaxFloat32), float32(math.Inf(1)), float32(0.1)}
	for i := 0; i < extra; i++ {
		f64 = append(f64, math.Float64frombits(rng.Uint64()))
		f32 = append(f32, math.Float32frombits(rng.Uint32()))
	}
	strs := []any{"", "a", "ab", "abc", "b", "A", "\x00", "a\x00", "a\x00b", "é", "é", "\xff", "\xc3",
		"日本", "日本語", "z", "\U0010ffff", "10", "9", " ", "a ", "aa"}
	for i := 0; i < extra; i++ {
		n := rng.Intn(6)
		b := make([]byte, n)
		for j := range b {
			b[j] = byte(rng.Intn(256))
		}
		strs = append(strs, string(b))
	}
	mkU := func(b ...byte) uuid.UUID {
		var u uuid.UUID
		copy(u[:], b)
		return u
	}
	lastOne := uuid.UUID{}
	lastOne[15] = 1
	allFF := uuid.UUID{}
	for i := range allFF {
		allFF[i] = 0xff
	}
	hi := uuid.UUID{}
	hi[7], hi[8] = 0xff, 0x00
	lo := uuid.UUID{}
	lo[7], lo[8] = 0x00, 0xff
	uu := []uuid.UUID{{}, lastOne, mkU(1), mkU(0, 1), mkU(0x7f), mkU(0x80), allFF, hi, lo}
	for i := 0; i < extra+2; i++ {
		var u uuid.UUID
		rng.Read(u[:])
		uu = append(uu, u)
	}
	var gu, su []any
	for _, u := range uu {
		gu = append(gu, u)
		su = append(su, sop.UUID(u))
	}
	// times
	plus5 := time.FixedZone("plus5", 5*3600)
	minus8 := time.FixedZone("minus8", -8*3600)
	base := time.Date(2024, 2, 29, 12, 0, 0, 0, time.UTC)
	now := time.Now() // carries a monotonic clock reading
	ts := []any{time.Time{}, time.Unix(0, 0).UTC(), time.Unix(0, 0).In(plus5), time.Unix(0, 1).UTC(), time.Unix(0, -1).UTC(),
		base, base.In(plus5), base.In(minus8), base.Add(time.Nanosecond), base.Add(-time.Nanosecond).In(plus5),
		time.Date(1, 1, 1, 0, 0, 0, 1, time.UTC), time.Date(9999, 12, 31, 23, 59, 59, 999999999, time.UTC),
		time.Date(-200, 3, 1, 0, 0, 0, 0, minus8), time.Date(1969, 12, 31, 23, 59, 59, 999999999, time.UTC),
		now, now.Round(0), now.Add(time.Nanosecond), now.Add(-time.Hour), now.Round(0).Add(time.Minute), now.In(plus5)}
	for i := 0; i < extra; i++ {
		ts = append(ts, time.Unix(rng.Int63n(1<<34)-1<<33, rng.Int63n(1e9)).In(plus5))
	}
	maxI, minI := math.MaxInt, math.MinInt
	gs := []group{
		{"int", sintVals[int](math.MinInt, math.MaxInt, rnd)},
		{"int8", sintVals[int8](math.MinInt8, math.MaxInt8, rnd)},
		{"int16", sintVals[int16](math.MinInt16, math.MaxInt16, rnd)},
		{"int32", sintVals[int32](math.MinInt32, math.MaxInt32, rnd)},
		{"int64", sintVals[int64](math.MinInt64, math.MaxInt64, rnd)},
		{"uint", uintVals[uint](math.MaxUint, rnd)},
		{"uint8", uintVals[uint8](math.MaxUint8, rnd)},
		{"uint16", uintVals[uint16](math.MaxUint16, rnd)},
		{"uint32", uintVals[uint32](math.MaxUint32, rnd)},
		{"uint64", uintVals[uint64](math.MaxUint64, rnd)},
		{"uintptr", uintVals[uintptr](math.MaxUint64, rnd)},
		{"float32", f32},
		{"float64", f64},
		{"string", strs},
		{"uuid.UUID", gu},
		{"sop.UUID", su},
		{"time.Time", ts},
		{"[]byte", []any{[]byte(nil), []byte{}, []byte{0}, []byte{0, 0}, []byte{0, 1}, []byte{1}, []byte{0xff}, []byte{0xff, 0},
			[]byte("a"), []byte("ab"), []byte("b"), []byte{0x7f}, []byte{0x80}}},
		{"[]string", []any{[]string(nil), []string{}, []string{""}, []string{"", ""}, []string{"a"}, []string{"a", ""}, []string{"a", "b"},
			[]string{"ab"}, []string{"b"}, []string{"a", "b", "c"}, []string{"\xff"}, []string{"\u00e9", "a"}}},
		{"[]int", []any{[]int(nil), []int{}, []int{minI}, []int{-1}, []int{0}, []int{0, 0}, []int{0, minI}, []int{0, maxI}, []int{1},
			[]int{1, 2}, []int{1, 2, 3}, []int{1, 3}, []int{maxI}, []int{maxI, minI}}},
		{"[]float64", []any{[]float64(nil), []float64{}, []float64{math.NaN()}, []float64{math.NaN(), 1}, []float64{math.NaN(), math.NaN()},
			[]float64{math.Inf(-1)}, []float64{math.Copysign(0, -1)}, []float64{0}, []float64{0, math.NaN()}, []float64{0, 1},
			[]float64{math.Copysign(0, -1), 2}, []float64{1}, []float64{1, math.Inf(-1)}, []float64{math.Inf(1)}, []float64{sub}}},
		{"[]float32", []any{[]float32(nil), []float32{}, []float32{float32(math.NaN())}, []float32{float32(math.NaN()), 1},
			[]float32{float32(math.Inf(-1))}, []float32{float32(math.Copysign(0, -1))}, []float32{0}, []float32{0, 1},
			[]float32{1}, []float32{1, 0}, []float32{float32(math.Inf(1))}, []float32{sub32}}},
		// []any: one dynamic type per position (composite keys), prefixes, empty, nil, nested
		{"[]any/int", []any{[]any(nil), []any{}, []any{minI}, []any{-1}, []any{0}, []any{0, 0}, []any{0, -1}, []any{1}, []any{1, 2},
			[]any{1, 2, 3}, []any{2}, []any{maxI}}},
		{"[]any/string,int64", []any{[]any{}, []any{""}, []any{"", int64(-1)}, []any{"a"}, []any{"a", int64(math.MinInt64)}, []any{"a", int64(1)},
			[]any{"a", int64(2)}, []any{"ab", int64(0)}, []any{"b", int64(0)}, []any{"b", int64(0), int64(0)}, []any{"\xff", int64(7)}}},
		{"[]any/float64", []any{[]any{}, []any{math.NaN()}, []any{math.NaN(), 1.0}, []any{math.Inf(-1)}, []any{math.Copysign(0, -1)}, []any{0.0},
			[]any{0.0, math.NaN()}, []any{0.0, 0.5}, []any{1.0}, []any{math.Inf(1)}}},
		{"[]any/nested", []any{[]any{}, []any{[]any{}}, []any{[]any{}, "z"}, []any{[]any{1}, "y"}, []any{[]any{1, 2}, "a"}, []any{[]any{1, 2}, "x"},
			[]any{[]any{1, 2}, "x", base}, []any{[]any{1, 2}, "x", base.In(plus5)}, []any{[]any{1, 2}, "x", base.Add(1)}, []any{[]any{2}, ""},
			[]any{[]any(nil), "z"}}},
		{"[]any/time,uuid", []any{[]any{base, uuid.UUID{}}, []any{base.In(plus5), lastOne}, []any{base.Add(1), uuid.UUID{}}, []any{base.Add(-1), allFF},
			[]any{base}, []any{time.Time{}, allFF}}},
	}
	return gs
}

type matrixEv struct {
	Ev     string   `json:"ev"`
	Name   string   `json:"name,omitempty"`
	Grp    string   `json:"grp,omitempty"`
	Fn     string   `json:"fn,omitempty"`
	M      [][]int  `json:"m,omitempty"`
	Rank   []int    `json:"rank,omitempty"`
	Labels []string `json:"labels,omitempty"`
}

func label(v any) string {
	switch x := v.(type) {
	case time.Time:
		return x.Format(time.RFC3339Nano) + fmt.Sprintf("(mono=%v)", x != x.Round(0))
	case float64:
		return fmt.Sprintf("%v/%016x", x, math.Float64bits(x))
	case float32:
		return fmt.Sprintf("%v/%08x", x, math.Float32bits(x))
	case string:
		return fmt.Sprintf("%q", x)
	case []byte, []string, []int, []float64, []float32:
		return fmt.Sprintf("%#v", v) // tells nil from empty
	case []any:
		if x == nil {
			return "[]any(nil)"
		}
	}
	return fmt.Sprintf("%T(%v)", v, v)
}

func safeCall(f func() int) (r int) {
	defer func() {
		if e := recover(); e != nil {
			r = 99 // a panic is not a sign
		}
	}()
	return f()
}

func cmdMatrix(out string) {
	seed := int64(envInt("VERIF_SEED", 1))
	rng := rand.New(rand.NewSource(seed))
	extra := 3
	if thorough() {
		extra = 14
	}
	w := newNdjson(out)
	defer w.close()
	for _, g := range groups(rng, extra) {
		n := len(g.vals)
		rank := make([]int, n)
		labels := make([]string, n)
		for i := range g.vals {
			labels[i] = label(g.vals[i])
			for j := range g.vals {
				if refCmp(g.vals[j], g.vals[i]) < 0 {
					rank[i]++
				}
			}
		}
		mc := make([][]int, n) // btree.Compare
		mk := make([][]int, n) // btree.CoerceComparer(row value)
		for i := range g.vals {
			mc[i] = make([]int, n)
			mk[i] = make([]int, n)
			cc := btree.CoerceComparer(g.vals[i])
			for j := range g.vals {
				i, j := i, j
				mc[i][j] = safeCall(func() int { return btree.Compare(g.vals[i], g.vals[j]) })
				mk[i][j] = safeCall(func() int { return cc(g.vals[i], g.vals[j]) })
			}
		}
		w.write(matrixEv{Ev: "TraceStart", Name: g.name + ":Compare"})
		w.write(matrixEv{Ev: "Matrix", Grp: g.name, Fn: "Compare", M: mc, Rank: rank, Labels: labels})
		w.write(matrixEv{Ev: "TraceStart", Name: g.name + ":CoerceComparer"})
		w.write(matrixEv{Ev: "Matrix", Grp: g.name, Fn: "CoerceComparer", M: mk, Rank: rank, Labels: labels})
	}
}
