package main

import (
	"encoding/json"
	"os"

	"github.com/sharedcode/sop/encoding"
	"github.com/sharedcode/sop/jsondb"
)

// value ids of spec/KeyOrder.tla (VT) -> concrete Go values.  "miss" = field absent from the key.
var goVals = map[string]any{
	"null": nil, "F": false, "T": true,
	"i0": 0, "i1": 1, "i2": 2,
	"nm1": -1.0, "n0": 0.0, "n1": 1.0, "n1h": 1.5, "n2": 2.0, "n10": 10.0,
	"se": "", "s10": "10", "sa": "a", "sb": "b",
}

type fieldSpec struct {
	Name string `json:"name"`
	Desc bool   `json:"desc"`
}

func mkKey(fields []fieldSpec, ids []string) map[string]any {
	m := make(map[string]any, len(ids))
	for i, id := range ids {
		if id == "miss" {
			continue
		}
		v, ok := goVals[id]
		if !ok {
			fatal("unknown value id", id)
		}
		m[fields[i].Name] = v
	}
	return m
}

// idOf maps a value read back from a store to its id (numbers come back as float64).
func idOf(v any, present bool) string {
	if !present {
		return "miss"
	}
	for id, g := range goVals {
		if id[0] == 'i' {
			continue
		}
		if g == v {
			return id
		}
	}
	if f, ok := v.(float64); ok {
		for id, g := range goVals {
			if gi, ok := g.(int); ok && float64(gi) == f {
				return id
			}
		}
	}
	return "?"
}

func keyIDs(fields []fieldSpec, m map[string]any) []string {
	out := make([]string, len(fields))
	for i, f := range fields {
		v, ok := m[f.Name]
		out[i] = idOf(v, ok)
	}
	return out
}

func indexSpecJSON(fields []fieldSpec) string {
	fs := make([]jsondb.IndexFieldSpecification, len(fields))
	for i, f := range fields {
		fs[i] = jsondb.IndexFieldSpecification{FieldName: f.Name, AscendingSortOrder: !f.Desc}
	}
	ba, err := encoding.DefaultMarshaler.Marshal(jsondb.NewIndexSpecification(fs))
	if err != nil {
		fatal(err)
	}
	return string(ba)
}

// newComparer builds a fresh comparer object the way a store open does.
// mode "indexspec": odd instances use the exported IndexSpecification.Comparer of a specification
// unmarshalled from its stored JSON form; even instances use the function JsonDBMapKey passes to the
// B-tree (proxyComparer, reached through the build overlay).  mode "default": proxyComparer of a
// JsonDBMapKey without specification = defaultComparer.
func newComparer(mode string, fields []fieldSpec, inst int) func(x, y map[string]any) int {
	if mode == "indexspec" {
		js := indexSpecJSON(fields)
		if inst%2 == 1 {
			var is jsondb.IndexSpecification
			if err := encoding.DefaultMarshaler.Unmarshal([]byte(js), &is); err != nil {
				fatal(err)
			}
			return is.Comparer
		}
		c, err := jsondb.VerifNewMapKeyComparer(js)
		if err != nil {
			fatal(err)
		}
		return c
	}
	c, err := jsondb.VerifNewMapKeyComparer("")
	if err != nil {
		fatal(err)
	}
	return c
}

type op struct {
	Op string   `json:"op"` // "new" | "cmp"
	I  int      `json:"i"`
	X  []string `json:"x,omitempty"`
	Y  []string `json:"y,omitempty"`
}

type session struct {
	Name   string      `json:"name"`
	Mode   string      `json:"mode"`
	Fields []fieldSpec `json:"fields"`
	Traces [][]op      `json:"traces"`
}

type cmpEv struct {
	Ev   string   `json:"ev"`
	Name string   `json:"name,omitempty"`
	I    int      `json:"i"`
	X    []string `json:"x,omitempty"`
	Y    []string `json:"y,omitempty"`
	R    int      `json:"r"`
}

func cmdReplay(in, out string) {
	ba, err := os.ReadFile(in)
	if err != nil {
		fatal(err)
	}
	var ss []session
	if err := json.Unmarshal(ba, &ss); err != nil {
		fatal(err)
	}
	w := newNdjson(out)
	defer w.close()
	for _, s := range ss {
		for ti, tr := range s.Traces {
			w.write(cmpEv{Ev: "TraceStart", Name: s.Name + "#" + itoa(ti)})
			inst := map[int]func(x, y map[string]any) int{}
			for _, o := range tr {
				switch o.Op {
				case "new":
					inst[o.I] = newComparer(s.Mode, s.Fields, o.I)
					w.write(cmpEv{Ev: "New", I: o.I})
				case "cmp":
					c := inst[o.I]
					if c == nil {
						fatal("cmp before new in", s.Name)
					}
					x, y := mkKey(s.Fields, o.X), mkKey(s.Fields, o.Y)
					r := safeCall(func() int { return c(x, y) })
					w.write(cmpEv{Ev: "Cmp", I: o.I, X: o.X, Y: o.Y, R: r})
				}
			}
		}
	}
}

func itoa(i int) string {
	b, _ := json.Marshal(i)
	return string(b)
}
