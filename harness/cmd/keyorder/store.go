package main

import (
	"bytes"
	"context"
	"encoding/json"
	"fmt"
	"os"
	"os/exec"
	"path/filepath"
	"time"

	"github.com/sharedcode/sop"
	"github.com/sharedcode/sop/database"
	"github.com/sharedcode/sop/jsondb"
)

// A store scenario: every step is one transaction in its own child process (its own comparer object,
// its own caches) on one map-key store of the filesystem backend.
type sop_ struct {
	Op string   `json:"op"` // create | open | add | scan | find | findall | commit | rollback
	X  []string `json:"x,omitempty"`
}

type step struct {
	I   int    `json:"i"`
	Ops []sop_ `json:"ops"`
}

type scenario struct {
	Name   string      `json:"name"`
	Mode   string      `json:"mode"`
	Fields []fieldSpec `json:"fields"`
	Slot   int         `json:"slot"`
	Steps  []step      `json:"steps"`
}

type childReq struct {
	Dir    string      `json:"dir"`
	Mode   string      `json:"mode"`
	Fields []fieldSpec `json:"fields"`
	Slot   int         `json:"slot"`
	Step   step        `json:"step"`
}

type storeEv struct {
	Ev    string     `json:"ev"`
	Name  string     `json:"name,omitempty"`
	I     int        `json:"i"`
	Keys  [][]string `json:"keys"`
	X     []string   `json:"x,omitempty"`
	Found bool       `json:"found"`
	At    []string   `json:"at"`
}

func cmdStore(in, dir, out string) {
	ba, err := os.ReadFile(in)
	if err != nil {
		fatal(err)
	}
	var scs []scenario
	if err := json.Unmarshal(ba, &scs); err != nil {
		fatal(err)
	}
	self, err := os.Executable()
	if err != nil {
		fatal(err)
	}
	w := newNdjson(out)
	defer w.close()
	for si, sc := range scs {
		d := filepath.Join(dir, fmt.Sprintf("s%d", si))
		os.RemoveAll(d)
		if err := os.MkdirAll(d, 0o755); err != nil {
			fatal(err)
		}
		w.write(storeEv{Ev: "TraceStart", Name: sc.Name, At: []string{}})
		for _, st := range sc.Steps {
			req, _ := json.Marshal(childReq{Dir: d, Mode: sc.Mode, Fields: sc.Fields, Slot: sc.Slot, Step: st})
			cmd := exec.Command(self, "child")
			cmd.Stdin = bytes.NewReader(req)
			var so, se bytes.Buffer
			cmd.Stdout, cmd.Stderr = &so, &se
			if err := cmd.Run(); err != nil {
				fatal("child failed in scenario", sc.Name, "step", st.I, ":", err, se.String())
			}
			var evs []storeEv
			if err := json.Unmarshal(so.Bytes(), &evs); err != nil {
				fatal("child output:", err, so.String(), se.String())
			}
			for _, e := range evs {
				w.write(e)
			}
		}
		w.write(storeEv{Ev: "EndStore", At: []string{}})
		os.RemoveAll(d)
	}
}

func cmdChild() {
	var req childReq
	if err := json.NewDecoder(os.Stdin).Decode(&req); err != nil {
		fatal(err)
	}
	ctx := context.Background()
	dbo := sop.DatabaseOptions{StoresFolders: []string{req.Dir}, CacheType: sop.InMemory}
	t, err := database.BeginTransaction(ctx, dbo, sop.ForWriting, 2*time.Minute)
	if err != nil {
		fatal("begin:", err)
	}
	const name = "mapkeys"
	var b *jsondb.JsonDBMapKey
	var evs []storeEv
	ended := false
	scanKeys := func() [][]string {
		var keys [][]string
		ok, err := b.First(ctx)
		if err != nil {
			fatal("first:", err)
		}
		for ok {
			k := b.BtreeInterface.GetCurrentKey().Key
			keys = append(keys, keyIDs(req.Fields, k))
			if ok, err = b.Next(ctx); err != nil {
				fatal("next:", err)
			}
		}
		return keys
	}
	find := func(x []string) {
		found, err := b.Find(ctx, mkKey(req.Fields, x), true)
		if err != nil {
			fatal("find:", err)
		}
		at := []string{}
		if found {
			at = keyIDs(req.Fields, b.BtreeInterface.GetCurrentKey().Key)
		}
		evs = append(evs, storeEv{Ev: "Find", I: req.Step.I, X: x, Found: found, At: at})
	}
	for _, o := range req.Step.Ops {
		switch o.Op {
		case "create":
			spec := ""
			if req.Mode == "indexspec" {
				spec = indexSpecJSON(req.Fields)
			}
			b, err = jsondb.NewJsonBtreeMapKey(ctx, dbo, sop.StoreOptions{Name: name, SlotLength: req.Slot,
				IsValueDataInNodeSegment: true}, t, spec)
			if err != nil {
				fatal("create:", err)
			}
		case "open":
			b, err = jsondb.OpenJsonBtreeMapKey(ctx, dbo, name, t)
			if err != nil {
				fatal("open:", err)
			}
		case "add":
			v := any("v")
			if ok, err := b.Add(ctx, []jsondb.Item[map[string]any, any]{{Key: mkKey(req.Fields, o.X), Value: &v}}); err != nil || !ok {
				fatal("add:", ok, err)
			}
		case "scan":
			evs = append(evs, storeEv{Ev: "Scan", I: req.Step.I, Keys: scanKeys(), At: []string{}})
		case "find":
			find(o.X)
		case "findall":
			for _, k := range scanKeys() {
				find(k)
			}
		case "commit":
			if err := t.Commit(ctx); err != nil {
				fatal("commit:", err)
			}
			ended = true
		case "rollback":
			if err := t.Rollback(ctx); err != nil {
				fatal("rollback:", err)
			}
			ended = true
		default:
			fatal("unknown op", o.Op)
		}
	}
	if !ended {
		t.Rollback(ctx)
	}
	if evs == nil {
		evs = []storeEv{}
	}
	json.NewEncoder(os.Stdout).Encode(evs)
}
