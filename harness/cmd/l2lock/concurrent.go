package main

import (
	"bufio"
	"encoding/json"
	"fmt"
	"math/rand"
	"os"
	"strings"
	"sync"
	"sync/atomic"
	"time"
)

// ---------------------------------------------------------------- redis: command-level interleaving
//
// Every owner has its own client connected to its own (tagged) listener of one RESP server.  The server's gate
// hook parks every data command until the scheduler releases it, so exactly one thing happens at a time and the
// order of the events in the trace is the order of the effects:
//   Begin o   the scheduler lets owner o invoke its next call; o runs until its first command is parked (or returns)
//   Step o    o's parked command is executed; o runs until its next command is parked or the call returns
//   Return o  logged as soon as o's call has returned
//   Tick      the server clock advances by one unit

type sig struct {
	kind string // "gate" | "ret"
	cmd  string
	ok   bool
	oth  string
	err  error
}

type ownerRun struct {
	name    string
	steps   []Step
	next    int
	inCall  bool
	parked  bool
	cmd     string
	release chan struct{}
	sigs    chan sig
	begin   chan Step
}

func runInterleavedOne(p *Program, perOwner map[string][]Step, r *rand.Rand, tickPct int) ([]Event, error) {
	s := newRedis(p.Owners, true)
	defer s.close()
	s.unit = 250 * time.Millisecond
	runs := map[string]*ownerRun{}
	for _, o := range p.Owners {
		runs[o] = &ownerRun{name: o, steps: perOwner[o], release: make(chan struct{}), sigs: make(chan sig, 4), begin: make(chan Step)}
	}
	executed := make(chan struct{}, 1)
	s.srv.SetGate(func(tag string, args []string) {
		ru := runs[tag]
		if ru == nil {
			return
		}
		ru.sigs <- sig{kind: "gate", cmd: strings.ToUpper(args[0])}
		<-ru.release
	})
	s.srv.SetAfter(func(tag string, args []string) {
		if runs[tag] != nil {
			executed <- struct{}{}
		}
	})
	var wg sync.WaitGroup
	for _, ru := range runs {
		wg.Add(1)
		go func(ru *ownerRun) {
			defer wg.Done()
			for st := range ru.begin {
				ok, oth, err := s.doCall(st)
				ru.sigs <- sig{kind: "ret", ok: ok, oth: oth, err: err}
			}
		}(ru)
	}
	defer func() {
		for _, ru := range runs {
			close(ru.begin)
		}
		s.srv.SetGate(nil)
		wg.Wait()
	}()
	evs := []Event{{"ev": "TraceStart", "name": p.Name}, {"ev": "Setup", "variant": "redis", "cap": inf, "silent": false}}
	// wait until owner ru is parked at the gate or has returned
	settle := func(ru *ownerRun) error {
		select {
		case g := <-ru.sigs:
			if g.kind == "gate" {
				ru.parked, ru.cmd = true, g.cmd
				return nil
			}
			if g.err != nil {
				return fmt.Errorf("%s: owner %s: %w", p.Name, ru.name, g.err)
			}
			ru.inCall, ru.parked = false, false
			evs = append(evs, Event{"ev": "Return", "o": ru.name, "ok": g.ok, "other": g.oth})
			return nil
		case <-time.After(60 * time.Second):
			return fmt.Errorf("%s: owner %s did not settle", p.Name, ru.name)
		}
	}
	ticks := 0
	for {
		var ready []*ownerRun
		for _, o := range p.Owners {
			ru := runs[o]
			if ru.inCall || ru.next < len(ru.steps) {
				ready = append(ready, ru)
			}
		}
		if len(ready) == 0 {
			break
		}
		if ticks < 4 && r.Intn(100) < tickPct {
			ticks++
			s.srv.AdvanceClock(s.unit)
			evs = append(evs, Event{"ev": "Tick"})
			continue
		}
		ru := ready[r.Intn(len(ready))]
		if !ru.inCall {
			st := ru.steps[ru.next]
			ru.next++
			ru.inCall = true
			evs = append(evs, Event{"ev": "Begin", "o": ru.name, "op": st.Op, "ks": st.Ks, "ttl": st.TTL})
			ru.begin <- st
			if err := settle(ru); err != nil {
				return nil, err
			}
			continue
		}
		// parked: execute one command
		ru.parked = false
		cmd := ru.cmd
		ru.release <- struct{}{}
		select {
		case <-executed:
		case <-time.After(60 * time.Second):
			return nil, fmt.Errorf("%s: command of %s not executed", p.Name, ru.name)
		}
		evs = append(evs, Event{"ev": "Step", "o": ru.name, "cmd": cmd})
		if err := settle(ru); err != nil {
			return nil, err
		}
	}
	// quiescent: probe serially, hooks removed
	s.srv.SetGate(nil)
	s.srv.SetAfter(nil)
	if p.Probe {
		for _, o := range p.Owners {
			for k := 1; k <= p.NKeys; k++ {
				st := Step{O: o, Op: "IsLocked", Ks: []int{k}}
				ok, oth, err := s.doCall(st)
				if err != nil {
					return nil, err
				}
				evs = append(evs, Event{"ev": "Call", "o": o, "op": st.Op, "ks": st.Ks, "ttl": 0, "ok": ok, "other": oth})
			}
		}
	}
	return evs, nil
}

func genPerOwner(r *rand.Rand, owners []string, nkeys, maxTTL, maxCalls int) map[string][]Step {
	per := map[string][]Step{}
	for _, o := range owners {
		n := 1 + r.Intn(maxCalls)
		for j := 0; j < n; j++ {
			st := randStep(r, []string{o}, nkeys, maxTTL, 0)
			per[o] = append(per[o], st)
		}
	}
	return per
}

func writeEvents(out string, all [][]Event, stats map[string]int) {
	f, err := os.Create(out)
	if err != nil {
		fatal("%v", err)
	}
	w := bufio.NewWriter(f)
	enc := json.NewEncoder(w)
	for _, evs := range all {
		for _, e := range evs {
			enc.Encode(e)
		}
	}
	w.Flush()
	f.Close()
	b, _ := json.Marshal(stats)
	fmt.Println(string(b))
}

func runInterleaved(c RandCfg, out string) {
	r := rand.New(rand.NewSource(c.Seed))
	type job struct {
		p    *Program
		per  map[string][]Step
		seed int64
	}
	var jobs []job
	for i := 0; i < c.Count; i++ {
		no := 2 + r.Intn(c.Owners-1)
		nk := 1 + r.Intn(c.Keys)
		p := &Program{Name: fmt.Sprintf("ilv-%d", i), Variant: "redis", Cap: inf, Owners: allOwners[:no], NKeys: nk, Probe: true}
		jobs = append(jobs, job{p, genPerOwner(r, p.Owners, nk, c.MaxTTL, c.MaxLen), r.Int63()})
	}
	all := make([][]Event, len(jobs))
	sem := make(chan struct{}, 16)
	var wg sync.WaitGroup
	var mu sync.Mutex
	var failure error
	for i := range jobs {
		wg.Add(1)
		sem <- struct{}{}
		go func(i int) {
			defer wg.Done()
			defer func() { <-sem }()
			evs, err := runInterleavedOne(jobs[i].p, jobs[i].per, rand.New(rand.NewSource(jobs[i].seed)), c.TickPct)
			if err != nil {
				mu.Lock()
				if failure == nil {
					failure = err
				}
				mu.Unlock()
				return
			}
			all[i] = evs
		}(i)
	}
	wg.Wait()
	if failure != nil {
		fatal("interleave: %v", failure)
	}
	writeEvents(out, all, map[string]int{"programs": len(jobs)})
}

// ---------------------------------------------------------------- mem: concurrent goroutines
//
// The table accesses inside the in-memory cache cannot be observed or scheduled from outside, so only the
// invocation (logged before the call starts) and the return (logged after it ended) are recorded, in the order
// of a global sequencer; the calls of a round are invoked together (all invocations logged, then all calls released); the trace spec takes the table accesses of pending calls silently.  Locks are long
// (no expiry during a trace).

func runStressOne(p *Program, per map[string][]Step) ([]Event, int, error) {
	s := newMem(p.Cap, p.Owners)
	s.unit = time.Hour
	// handles are created up front: lockKeys() is not safe for concurrent map writes
	for _, o := range p.Owners {
		for k := 1; k <= p.NKeys; k++ {
			s.lockKeys(o, []int{k})
		}
	}
	var mu sync.Mutex
	evs := []Event{{"ev": "TraceStart", "name": p.Name}, {"ev": "Setup", "variant": "mem", "cap": p.Cap, "silent": true}}
	pending, overlaps := 0, 0
	rounds := 0
	for _, o := range p.Owners {
		if len(per[o]) > rounds {
			rounds = len(per[o])
		}
	}
	var firstErr error
	// round j: every owner that has a j-th call starts it at the same moment (a barrier), so that calls overlap
	for j := 0; j < rounds; j++ {
		start := make(chan struct{})
		var wg, logged sync.WaitGroup
		for _, o := range p.Owners {
			if j >= len(per[o]) {
				continue
			}
			wg.Add(1)
			logged.Add(1)
			go func(o string, st Step) {
				defer wg.Done()
				mu.Lock()
				if pending > 0 {
					overlaps++
				}
				pending++
				evs = append(evs, Event{"ev": "Begin", "o": o, "op": st.Op, "ks": st.Ks, "ttl": st.TTL})
				mu.Unlock()
				logged.Done()
				<-start // every invocation of the round is logged before any call of the round starts
				ok, oth, err := s.doCall(st)
				mu.Lock()
				pending--
				evs = append(evs, Event{"ev": "Return", "o": o, "ok": ok, "other": oth})
				if err != nil && firstErr == nil {
					firstErr = err
				}
				mu.Unlock()
			}(o, per[o][j])
		}
		logged.Wait()
		close(start)
		wg.Wait()
		if firstErr != nil {
			return nil, 0, firstErr
		}
	}
	if p.Probe {
		for _, o := range p.Owners {
			for k := 1; k <= p.NKeys; k++ {
				st := Step{O: o, Op: "IsLocked", Ks: []int{k}}
				ok, oth, err := s.doCall(st)
				if err != nil {
					return nil, 0, err
				}
				evs = append(evs, Event{"ev": "Call", "o": o, "op": st.Op, "ks": st.Ks, "ttl": 0, "ok": ok, "other": oth})
			}
		}
	}
	return evs, overlaps, nil
}

// runRaceOne: rounds of "everybody locks the same key at the same moment", with locks of one unit and one tick
// between rounds: from the second round on the key holds an *expired* entry and the contenders race to take it over
// (the compare-and-swap of L2InMemoryCache.Lock).
// Time: a lock lasts D = unit/2.  A round is valid if all its calls start and end within D - margin of the release
// (so the round's first lock is unexpired throughout the round); the next round is released no earlier than
// D + margin after the end of this one (so all its locks have expired).  An invalid round discards the trace
// (errTiming: re-run with a longer unit, never judged).
func runRaceOne(p *Program, rounds int, unit time.Duration, r *rand.Rand) ([]Event, error) {
	s := newMem(p.Cap, p.Owners)
	s.unit = unit
	for _, o := range p.Owners {
		for k := 1; k <= p.NKeys; k++ {
			s.lockKeys(o, []int{k})
		}
	}
	D := s.dur(1)
	margin := D / 5
	var mu sync.Mutex
	evs := []Event{{"ev": "TraceStart", "name": p.Name}, {"ev": "Setup", "variant": "mem", "cap": p.Cap, "silent": true}}
	var notBefore time.Time
	for T := 0; T < rounds; T++ {
		k := 1 + r.Intn(p.NKeys)
		if d := time.Until(notBefore); d > 0 { // before the contenders exist: they spin
			time.Sleep(d)
		}
		var goFlag int32
		var wg, logged sync.WaitGroup
		var firstErr error
		for _, o := range p.Owners {
			wg.Add(1)
			logged.Add(1)
			go func(o string) {
				defer wg.Done()
				st := Step{O: o, Op: "Lock", Ks: []int{k}, TTL: 1}
				mu.Lock()
				evs = append(evs, Event{"ev": "Begin", "o": o, "op": st.Op, "ks": st.Ks, "ttl": st.TTL})
				mu.Unlock()
				logged.Done()
				for atomic.LoadInt32(&goFlag) == 0 { // spin: a channel wake-up would spread the starts over microseconds
				}
				ok, oth, err := s.doCall(st)
				mu.Lock()
				evs = append(evs, Event{"ev": "Return", "o": o, "ok": ok, "other": oth})
				if err != nil && firstErr == nil {
					firstErr = err
				}
				mu.Unlock()
			}(o)
		}
		logged.Wait()
		released := time.Now()
		atomic.StoreInt32(&goFlag, 1)
		wg.Wait()
		ended := time.Now()
		if firstErr != nil {
			return nil, firstErr
		}
		if ended.Sub(released) > D-margin {
			return nil, errTiming
		}
		notBefore = ended.Add(D + margin)
		if T+1 < rounds {
			evs = append(evs, Event{"ev": "Tick"})
		}
	}
	return evs, nil
}

func runStress(c RandCfg, out string) {
	r := rand.New(rand.NewSource(c.Seed))
	var all [][]Event
	overlapping := 0
	for i := 0; i < c.Count; i++ {
		no := 2 + r.Intn(c.Owners-1)
		nk := 2 + r.Intn(c.Keys-1)
		capacity := c.Caps[r.Intn(len(c.Caps))]
		p := &Program{Name: fmt.Sprintf("str-cap%d-%d", capacity, i), Variant: "mem", Cap: capacity, Owners: allOwners[:no], NKeys: nk, Probe: true}
		evs, ov, err := runStressOne(p, genPerOwner(r, p.Owners, nk, c.MaxTTL, c.MaxLen))
		if err != nil {
			fatal("stress: %v", err)
		}
		if ov > 0 {
			overlapping++
		}
		all = append(all, evs)
	}
	// expiry races
	raced := make([][]Event, c.Race)
	dropped, retries := 0, 0
	var mu sync.Mutex
	var wg sync.WaitGroup
	sem := make(chan struct{}, 6)
	var failure error
	for i := 0; i < c.Race; i++ {
		no := 2 + r.Intn(c.Owners-1)
		p := &Program{Name: fmt.Sprintf("race-%d", i), Variant: "mem", Cap: inf, Owners: allOwners[:no], NKeys: 1 + r.Intn(2)}
		seed := r.Int63()
		wg.Add(1)
		sem <- struct{}{}
		go func(i int) {
			defer wg.Done()
			defer func() { <-sem }()
			unit := 20 * time.Millisecond
			for try := 0; try < 6; try++ {
				evs, err := runRaceOne(p, c.Rounds, unit, rand.New(rand.NewSource(seed)))
				if err == nil {
					raced[i] = evs
					return
				}
				mu.Lock()
				if err != errTiming {
					if failure == nil {
						failure = err
					}
					mu.Unlock()
					return
				}
				retries++
				mu.Unlock()
				unit *= 2
			}
			mu.Lock()
			dropped++
			mu.Unlock()
		}(i)
	}
	wg.Wait()
	if failure != nil {
		fatal("race: %v", failure)
	}
	for _, evs := range raced {
		if evs != nil {
			all = append(all, evs)
		}
	}
	writeEvents(out, all, map[string]int{"programs": c.Count, "with_overlap": overlapping, "race_programs": c.Race,
		"race_timing_retries": retries, "race_timing_dropped": dropped})
}
