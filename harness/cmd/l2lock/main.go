// Command l2lock drives the real lock services behind sop.Locker for property C28:
//
//	cache.NewL2InMemoryCache()                         (variant "mem")
//	adapters/redis client  <->  harness/lib/resp       (variant "redis")
//
// and records every call with its arguments and result as ndjson for validation by spec/L2LockTrace.tla.
// The driver holds no expectation about results: the specification is the oracle.
//
//	l2lock replay   <programs.json> <out.ndjson>    run given programs (TLC behaviours) serially
//	l2lock random   <cfg.json> <out.ndjson>         seeded random serial programs
//	l2lock interleave <cfg.json> <out.ndjson>       redis: calls of several owners interleaved command by command
//	l2lock stress   <cfg.json> <out.ndjson>         mem: concurrent goroutines, only invocation/return observed
//
// Time.  The in-memory cache reads time.Now directly.  One unit of model time is U of real time; a lock of n units
// is requested with a duration of n*U - U/2 and every call at model time T must start and end inside the real
// window [T*U, T*U + U/2 - margin] (measured with the same monotonic clock): then a lock taken at T with n units
// is certainly unexpired for calls at T+n-1 and certainly expired for calls at T+n.  A trace with a call outside
// its window is discarded and re-run with a longer U (never judged).  Programs without ticks use U = 10 s.
// The RESP server has a virtual clock: a tick is AdvanceClock(U), exact.
package main

import (
	"bufio"
	"context"
	"encoding/json"
	"fmt"
	"hash/fnv"
	"io"
	"log/slog"
	"math/rand"
	"os"
	"sort"
	"strconv"
	"sync"
	"time"

	"github.com/sharedcode/sop"
	redisad "github.com/sharedcode/sop/adapters/redis"
	"github.com/sharedcode/sop/cache"

	"verif/harness/lib/resp"
)

// ---------------------------------------------------------------- programs and events

type Step struct {
	O   string `json:"o"`
	Op  string `json:"op"` // Lock DualLock IsLocked IsLockedTTL Unlock Tick
	Ks  []int  `json:"ks"`
	TTL int    `json:"ttl"`
}

type Program struct {
	Name    string   `json:"name"`
	Variant string   `json:"variant"`
	Cap     int      `json:"cap"` // 99 = unbounded (library default)
	Owners  []string `json:"owners"`
	NKeys   int      `json:"nkeys"`
	Steps   []Step   `json:"steps"`
	Probe   bool     `json:"probe"` // append IsLocked(o,[k]) for every owner and key, a tick, and the same again
}

type Event map[string]interface{}

const inf = 99

var ctx = context.Background()

// owners are fixed lock ids
var ownerIDs = map[string]sop.UUID{}
var idOwner = map[sop.UUID]string{}

func init() {
	for i, o := range []string{"A", "B", "C", "D", "E", "F"} {
		id, err := sop.ParseUUID(fmt.Sprintf("0000000%d-0000-4000-8000-00000000000%d", i+1, i+1))
		if err != nil {
			panic(err)
		}
		ownerIDs[o] = id
		idOwner[id] = o
	}
}

func ownerName(id sop.UUID) string {
	if id == sop.NilUUID {
		return "-"
	}
	if o, ok := idOwner[id]; ok {
		return o
	}
	return "?" + id.String()
}

// key names: index order = sort order of the names; all "lock:<name>" land in one shard of the in-memory map
var keyNames []string

func initKeyNames(n int) {
	keyNames = nil
	for i := 0; len(keyNames) < n; i++ {
		name := fmt.Sprintf("k%07d", i)
		h := fnv.New32a()
		h.Write([]byte("lock:" + name))
		if h.Sum32()%256 == 7 {
			keyNames = append(keyNames, name)
		}
	}
}

// ---------------------------------------------------------------- services

type service struct {
	variant string
	lockers map[string]sop.Locker // per owner (same object unless interleaving)
	closers []func()
	srv     *resp.Server
	unit    time.Duration
	keys    map[string]map[int]*sop.LockKey
}

var capMu sync.Mutex

func newMem(capacity int, owners []string) *service {
	capMu.Lock()
	old := cache.DefaultInMemoryCacheShardCapacity
	if capacity != inf {
		cache.DefaultInMemoryCacheShardCapacity = capacity
	}
	c := cache.NewL2InMemoryCache()
	cache.DefaultInMemoryCacheShardCapacity = old
	capMu.Unlock()
	s := &service{variant: "mem", lockers: map[string]sop.Locker{}}
	for _, o := range owners {
		s.lockers[o] = c
	}
	return s
}

func redisClient(addr string) sop.CloseableCache {
	return redisad.NewConnectionClient(redisad.Options{Address: addr, DialTimeout: 5 * time.Second,
		ReadTimeout: 10 * time.Minute, WriteTimeout: 10 * time.Minute, MaxRetries: -1})
}

func newRedis(owners []string, perOwner bool) *service {
	srv, err := resp.Start()
	if err != nil {
		fatal("resp.Start: %v", err)
	}
	s := &service{variant: "redis", lockers: map[string]sop.Locker{}, srv: srv}
	if perOwner {
		for _, o := range owners {
			addr, err := srv.Listen(o)
			if err != nil {
				fatal("listen: %v", err)
			}
			c := redisClient(addr)
			s.lockers[o] = c
			s.closers = append(s.closers, func() { c.Close() })
		}
	} else {
		c := redisClient(srv.Addr())
		for _, o := range owners {
			s.lockers[o] = c
		}
		s.closers = append(s.closers, func() { c.Close() })
	}
	s.closers = append(s.closers, srv.Close)
	return s
}

func (s *service) close() {
	for _, f := range s.closers {
		f()
	}
}

// the caller's LockKey handles live as long as the trace (they carry the client side IsLockOwner flag)
func (s *service) lockKeys(o string, ks []int) []*sop.LockKey {
	if s.keys == nil {
		s.keys = map[string]map[int]*sop.LockKey{}
	}
	if s.keys[o] == nil {
		s.keys[o] = map[int]*sop.LockKey{}
	}
	out := make([]*sop.LockKey, 0, len(ks))
	for _, k := range ks {
		lk := s.keys[o][k]
		if lk == nil {
			lk = s.lockers[o].CreateLockKeysForIDs([]sop.Tuple[string, sop.UUID]{{First: keyNames[k-1], Second: ownerIDs[o]}})[0]
			s.keys[o][k] = lk
		}
		out = append(out, lk)
	}
	return out
}

func (s *service) dur(ttl int) time.Duration {
	if s.variant == "mem" {
		return time.Duration(ttl)*s.unit - s.unit/2
	}
	return time.Duration(ttl) * s.unit
}

// doCall executes one public call; the result is what the service said
func (s *service) doCall(st Step) (ok bool, other string, err error) {
	l := s.lockers[st.O]
	lks := s.lockKeys(st.O, st.Ks)
	other = "-"
	switch st.Op {
	case "Lock":
		var id sop.UUID
		ok, id, err = l.Lock(ctx, s.dur(st.TTL), lks)
		other = ownerName(id)
	case "DualLock":
		var id sop.UUID
		ok, id, err = l.DualLock(ctx, s.dur(st.TTL), lks)
		other = ownerName(id)
	case "IsLocked":
		ok, err = l.IsLocked(ctx, lks)
	case "IsLockedTTL":
		ok, err = l.IsLockedTTL(ctx, s.dur(st.TTL), lks)
	case "Unlock":
		err = l.Unlock(ctx, lks)
		ok = true
	default:
		err = fmt.Errorf("unknown op %q", st.Op)
	}
	return
}

// ---------------------------------------------------------------- serial execution

func hasTick(p *Program) bool {
	for _, s := range p.Steps {
		if s.Op == "Tick" {
			return true
		}
	}
	return false
}

func withProbes(p *Program) []Step {
	steps := append([]Step{}, p.Steps...)
	if p.Probe {
		// who holds what now, and again one unit later (shows a TTL that is shorter than granted)
		for round := 0; round < 2; round++ {
			if round == 1 {
				if p.Variant != "redis" { // only the redis service lets others change a lock's TTL
					break
				}
				steps = append(steps, Step{O: "-", Op: "Tick", Ks: []int{}})
			}
			for _, o := range p.Owners {
				for k := 1; k <= p.NKeys; k++ {
					steps = append(steps, Step{O: o, Op: "IsLocked", Ks: []int{k}})
				}
			}
		}
	}
	return steps
}

var errTiming = fmt.Errorf("call outside its time window")

// runSerial executes a program against a fresh service; returns the events or errTiming
func runSerial(p *Program, unit time.Duration) ([]Event, error) {
	var s *service
	if p.Variant == "mem" {
		s = newMem(p.Cap, p.Owners)
	} else {
		s = newRedis(p.Owners, false)
	}
	defer s.close()
	s.unit = unit
	evs := []Event{{"ev": "TraceStart", "name": p.Name},
		{"ev": "Setup", "variant": p.Variant, "cap": p.Cap, "silent": false}}
	timed := p.Variant == "mem" && hasTick(p)
	margin := unit / 10
	epoch := time.Now()
	T := 0
	for _, st := range withProbes(p) {
		if st.Op == "Tick" {
			T++
			if p.Variant == "mem" {
				if d := time.Until(epoch.Add(time.Duration(T) * unit)); d > 0 {
					time.Sleep(d + 200*time.Microsecond)
				}
			} else {
				s.srv.AdvanceClock(unit)
			}
			evs = append(evs, Event{"ev": "Tick"})
			continue
		}
		t0 := time.Since(epoch)
		ok, other, err := s.doCall(st)
		t1 := time.Since(epoch)
		if err != nil {
			return nil, fmt.Errorf("%s: %s %s %v: %w", p.Name, st.O, st.Op, st.Ks, err)
		}
		if timed {
			lo := time.Duration(T) * unit
			if t0 < lo || t1 > lo+unit/2-margin {
				return nil, errTiming
			}
		}
		ks := st.Ks
		if ks == nil {
			ks = []int{}
		}
		evs = append(evs, Event{"ev": "Call", "o": st.O, "op": st.Op, "ks": ks, "ttl": st.TTL, "ok": ok, "other": other})
	}
	return evs, nil
}

type result struct {
	evs     []Event
	retries int
	dropped bool
}

func unitFor(p *Program) time.Duration {
	if p.Variant == "redis" {
		return 250 * time.Millisecond
	}
	if !hasTick(p) {
		return 10 * time.Second
	}
	ms := 60
	if v, err := strconv.Atoi(os.Getenv("L2LOCK_UNIT_MS")); err == nil && v > 0 {
		ms = v
	}
	return time.Duration(ms) * time.Millisecond
}

func runAll(progs []*Program, out string) {
	res := make([]result, len(progs))
	par := 48
	if v, err := strconv.Atoi(os.Getenv("L2LOCK_PAR")); err == nil && v > 0 {
		par = v
	}
	sem := make(chan struct{}, par)
	var wg sync.WaitGroup
	var failMu sync.Mutex
	var failure error
	for i := range progs {
		wg.Add(1)
		sem <- struct{}{}
		go func(i int) {
			defer wg.Done()
			defer func() { <-sem }()
			p := progs[i]
			unit := unitFor(p)
			for try := 0; ; try++ {
				evs, err := runSerial(p, unit)
				if err == nil {
					res[i] = result{evs: evs, retries: try}
					return
				}
				if err != errTiming {
					failMu.Lock()
					if failure == nil {
						failure = err
					}
					failMu.Unlock()
					return
				}
				if try >= 5 {
					res[i] = result{dropped: true, retries: try}
					return
				}
				unit *= 2
			}
		}(i)
	}
	wg.Wait()
	if failure != nil {
		fatal("driver: %v", failure)
	}
	f, err := os.Create(out)
	if err != nil {
		fatal("%v", err)
	}
	w := bufio.NewWriter(f)
	enc := json.NewEncoder(w)
	retries, dropped := 0, 0
	for _, r := range res {
		retries += r.retries
		if r.dropped {
			dropped++
			continue
		}
		for _, e := range r.evs {
			enc.Encode(e)
		}
	}
	w.Flush()
	f.Close()
	st, _ := json.Marshal(map[string]int{"programs": len(progs), "timing_retries": retries, "timing_dropped": dropped})
	fmt.Println(string(st))
}

// ---------------------------------------------------------------- random programs

type RandCfg struct {
	Count    int      `json:"count"`
	MaxLen   int      `json:"maxlen"`
	Variants []string `json:"variants"`
	Caps     []int    `json:"caps"`
	Owners   int      `json:"owners"`
	Keys     int      `json:"keys"`
	MaxTTL   int      `json:"maxttl"`
	TickPct  int      `json:"tickpct"`
	Seed     int64    `json:"seed"`
	Race     int      `json:"race"`   // stress mode: number of expiry-race programs
	Rounds   int      `json:"rounds"` // rounds per race program
}

var allOwners = []string{"A", "B", "C", "D"}

func randKs(r *rand.Rand, nkeys int) []int {
	n := 1 + r.Intn(nkeys)
	if r.Intn(3) > 0 && n > 2 {
		n = 1 + r.Intn(2)
	}
	perm := r.Perm(nkeys)[:n]
	ks := make([]int, n)
	for i, v := range perm {
		ks[i] = v + 1
	}
	if r.Intn(4) > 0 {
		sort.Ints(ks)
	}
	return ks
}

func randStep(r *rand.Rand, owners []string, nkeys, maxTTL, tickPct int) Step {
	if r.Intn(100) < tickPct {
		return Step{O: "-", Op: "Tick", Ks: []int{}}
	}
	ops := []string{"Lock", "Lock", "Lock", "DualLock", "IsLocked", "IsLockedTTL", "Unlock", "Unlock"}
	st := Step{O: owners[r.Intn(len(owners))], Op: ops[r.Intn(len(ops))], Ks: randKs(r, nkeys)}
	if st.Op != "IsLocked" && st.Op != "Unlock" {
		st.TTL = 1 + r.Intn(maxTTL)
	}
	return st
}

func randomPrograms(c RandCfg) []*Program {
	r := rand.New(rand.NewSource(c.Seed))
	var out []*Program
	for i := 0; i < c.Count; i++ {
		v := c.Variants[r.Intn(len(c.Variants))]
		capacity := inf
		if v == "mem" {
			capacity = c.Caps[r.Intn(len(c.Caps))]
		}
		no := 2 + r.Intn(c.Owners-1)
		nk := 1 + r.Intn(c.Keys)
		if capacity != inf && nk <= capacity && r.Intn(2) == 0 && capacity < c.Keys {
			nk = capacity + 1 + r.Intn(c.Keys-capacity) // make the full table reachable
		}
		tick := c.TickPct
		if r.Intn(3) == 0 {
			tick = 0
		}
		p := &Program{Name: fmt.Sprintf("rnd-%s-cap%d-%d", v, capacity, i), Variant: v, Cap: capacity,
			Owners: allOwners[:no], NKeys: nk, Probe: true}
		n := 3 + r.Intn(c.MaxLen-2)
		ticks := 0
		for j := 0; j < n; j++ {
			st := randStep(r, p.Owners, nk, c.MaxTTL, tick)
			if st.Op == "Tick" {
				if ticks >= 5 {
					continue
				}
				ticks++
			}
			p.Steps = append(p.Steps, st)
		}
		out = append(out, p)
	}
	return out
}

// ---------------------------------------------------------------- main

func fatal(f string, a ...interface{}) {
	fmt.Fprintf(os.Stderr, f+"\n", a...)
	os.Exit(3)
}

func readJSON(path string, v interface{}) {
	b, err := os.ReadFile(path)
	if err != nil {
		fatal("%v", err)
	}
	if err := json.Unmarshal(b, v); err != nil {
		fatal("%s: %v", path, err)
	}
}

func main() {
	if len(os.Args) < 4 {
		fatal("usage: l2lock replay|random|interleave|stress <in.json> <out.ndjson>")
	}
	initKeyNames(8)
	slog.SetDefault(slog.New(slog.NewTextHandler(io.Discard, nil))) // the adapter logs every connection
	switch os.Args[1] {
	case "replay":
		var progs []*Program
		readJSON(os.Args[2], &progs)
		runAll(progs, os.Args[3])
	case "random":
		var c RandCfg
		readJSON(os.Args[2], &c)
		runAll(randomPrograms(c), os.Args[3])
	case "interleave":
		var c RandCfg
		readJSON(os.Args[2], &c)
		runInterleaved(c, os.Args[3])
	case "stress":
		var c RandCfg
		readJSON(os.Args[2], &c)
		runStress(c, os.Args[3])
	default:
		fatal("unknown mode %s", os.Args[1])
	}
}
