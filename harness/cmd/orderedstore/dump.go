package main

import (
	"fmt"
	"os"
	"strings"

	"github.com/sharedcode/sop"
)

// Dump prints the node structure to stderr (debugging aid; op "Dump" in a program job).
func (t *Tree) Dump() {
	var rec func(id sop.UUID, d int)
	rec = func(id sop.UUID, d int) {
		n := t.repo.m[id]
		if n == nil {
			fmt.Fprintf(os.Stderr, "%s<missing %v>\n", strings.Repeat("  ", d), id)
			return
		}
		ks := []string{}
		for i := 0; i < n.Count; i++ {
			ks = append(ks, fmt.Sprintf("%d#%d", n.Slots[i].Key, t.idOf(n.Slots[i].ID)))
		}
		kids := []string{}
		for _, c := range n.ChildrenIDs {
			if c.IsNil() {
				kids = append(kids, "nil")
			} else {
				kids = append(kids, c.String()[:4])
			}
		}
		fmt.Fprintf(os.Stderr, "%s%s [%s] kids=%v\n", strings.Repeat("  ", d), id.String()[:4], strings.Join(ks, " "), kids)
		for i, c := range n.ChildrenIDs {
			if !c.IsNil() && i <= n.Count {
				rec(c, d+1)
			}
		}
	}
	fmt.Fprintln(os.Stderr, "---- tree")
	if !t.b.StoreInfo.RootNodeID.IsNil() {
		rec(t.b.StoreInfo.RootNodeID, 0)
	}
}
