package main

import (
	"fmt"
	"math/rand"
	"sort"
)

// Program generators.  They choose WHAT to call; they never predict results (the TLA+ trace spec is the oracle).
// They may look at what the driver observed (the in-order walk t.last, the cursor) to pick interesting arguments.

var noKeyUpd bool

type wop struct {
	name string
	w    int
}

func pick(r *rand.Rand, ws []wop) string {
	tot := 0
	for _, x := range ws {
		tot += x.w
	}
	n := r.Intn(tot)
	for _, x := range ws {
		if n < x.w {
			return x.name
		}
		n -= x.w
	}
	return ws[0].name
}

var growW = []wop{{"Add", 40}, {"AddIfNotExist", 8}, {"Upsert", 8}, {"Update", 4}, {"UpdateKey", 2}, {"Remove", 5},
	{"RemoveCurrentItem", 3}, {"Find", 6}, {"FindInDescendingOrder", 3}, {"FindWithID", 3}, {"First", 2}, {"Last", 2},
	{"Next", 6}, {"Previous", 6}, {"GetCurrentValue", 2}, {"GetCurrentItem", 3}, {"UpdateCurrentValue", 3},
	{"UpdateCurrentKey", 2}, {"UpdateCurrentItem", 2}, {"ScanFwd", 1}, {"ScanBwd", 1}, {"RangeAsc", 2}, {"RangeDesc", 2}}

var shrinkW = []wop{{"Add", 8}, {"AddIfNotExist", 2}, {"Upsert", 3}, {"Update", 3}, {"UpdateKey", 1}, {"Remove", 34},
	{"RemoveCurrentItem", 14}, {"Find", 8}, {"FindInDescendingOrder", 4}, {"FindWithID", 4}, {"First", 3}, {"Last", 3},
	{"Next", 5}, {"Previous", 5}, {"GetCurrentValue", 1}, {"GetCurrentItem", 2}, {"UpdateCurrentValue", 2},
	{"UpdateCurrentKey", 1}, {"UpdateCurrentItem", 1}, {"ScanFwd", 1}, {"ScanBwd", 1}, {"RangeAsc", 2}, {"RangeDesc", 2}}

var mixW = []wop{{"Add", 22}, {"AddIfNotExist", 5}, {"Upsert", 6}, {"Update", 5}, {"UpdateKey", 2}, {"Remove", 20},
	{"RemoveCurrentItem", 8}, {"Find", 8}, {"FindInDescendingOrder", 4}, {"FindWithID", 4}, {"First", 2}, {"Last", 2},
	{"Next", 6}, {"Previous", 6}, {"GetCurrentValue", 2}, {"GetCurrentItem", 3}, {"UpdateCurrentValue", 3},
	{"UpdateCurrentKey", 2}, {"UpdateCurrentItem", 2}, {"ScanFwd", 1}, {"ScanBwd", 1}, {"RangeAsc", 2}, {"RangeDesc", 2}}

// bulk phases for big trees: almost only structure-changing calls
var bulkGrowW = []wop{{"Add", 80}, {"AddIfNotExist", 4}, {"Upsert", 4}, {"Remove", 6}, {"Find", 2}, {"FindInDescendingOrder", 1},
	{"Next", 1}, {"Previous", 1}, {"RemoveCurrentItem", 1}}
var bulkShrinkW = []wop{{"Add", 6}, {"Remove", 70}, {"RemoveCurrentItem", 12}, {"Find", 6}, {"FindInDescendingOrder", 2},
	{"Next", 2}, {"Previous", 2}}

type keyDom struct {
	lo, hi, step int // plain keys lo, lo+step, ..., <= hi ; probes in between are never stored
	gran         int
}

func (d keyDom) stored(r *rand.Rand) int {
	n := (d.hi-d.lo)/d.step + 1
	k := d.lo + d.step*r.Intn(n)
	if d.gran > 1 {
		return k*d.gran + r.Intn(3)
	}
	return k
}

// any probe key: stored ones, the ones in between, and one step outside the domain on both sides
func (d keyDom) probe(r *rand.Rand) int {
	k := d.lo - 1 + r.Intn(d.hi-d.lo+3)
	if d.gran > 1 {
		return k*d.gran + r.Intn(3)
	}
	return k
}

// genOp picks one call.  cur: the item the cursor designates as observed (nil if none).
func genOp(r *rand.Rand, t *Tree, ws []wop, d keyDom, vno *int) Op {
	name := pick(r, ws)
	if d.gran > 1 && (name == "RangeAsc" || name == "RangeDesc") {
		name = "Find"
	}
	if noKeyUpd && (name == "UpdateCurrentKey" || name == "UpdateCurrentItem") {
		name = "FindInDescendingOrder"
	}
	*vno++
	op := Op{Name: name, V: fmt.Sprintf("v%d", *vno)}
	existing := func() (KIV, bool) {
		if len(t.last) == 0 {
			return KIV{}, false
		}
		return t.last[r.Intn(len(t.last))], true
	}
	switch name {
	case "Add", "AddIfNotExist", "Upsert":
		op.K = d.stored(r)
	case "Update", "UpdateKey", "Remove":
		if it, ok := existing(); ok && r.Intn(100) < 80 {
			op.K = it.K
			if d.gran > 1 { // same order, possibly another variant of the key
				op.K = (it.K/d.gran)*d.gran + r.Intn(3)
			}
		} else {
			op.K = d.probe(r)
		}
	case "Find":
		op.First = r.Intn(2) == 0
		if it, ok := existing(); ok && r.Intn(100) < 60 {
			op.K = it.K
		} else {
			op.K = d.probe(r)
		}
	case "FindInDescendingOrder":
		if it, ok := existing(); ok && r.Intn(100) < 60 {
			op.K = it.K
		} else {
			op.K = d.probe(r)
		}
	case "FindWithID":
		if it, ok := existing(); ok {
			op.K, op.ID = it.K, it.ID
			switch r.Intn(10) {
			case 0:
				op.ID = 1000000 + r.Intn(10) // no such item
			case 1:
				op.K = d.probe(r) // id under another key
			case 2:
				if it2, ok := existing(); ok { // id of another item
					op.ID = it2.ID
				}
			}
		} else {
			op.K, op.ID = d.probe(r), 1000000
		}
	case "UpdateCurrentKey", "UpdateCurrentItem":
		ck := t.b.GetCurrentKey()
		if !ck.ID.IsNil() && r.Intn(100) < 65 {
			op.K = ck.Key
			if d.gran > 1 {
				op.K = (ck.Key/d.gran)*d.gran + r.Intn(3)
			}
		} else {
			op.K = d.stored(r)
		}
	case "RangeAsc":
		op.K, op.K2 = d.probe(r), d.probe(r)
		if op.K > op.K2 && r.Intn(4) != 0 {
			op.K, op.K2 = op.K2, op.K
		}
	case "RangeDesc":
		op.K, op.K2 = d.probe(r), d.probe(r)
		if op.K < op.K2 && r.Intn(4) != 0 {
			op.K, op.K2 = op.K2, op.K
		}
	}
	return op
}

type phase struct {
	w      []wop
	until  func(size int) bool // phase ends when true ...
	maxOps int                 // ... or after this many calls
}

// runPhases drives a tree through phases; obsEvery: an Observe event after every obsEvery-th call.
func runPhases(r *rand.Rand, t *Tree, d keyDom, phases []phase, obsEvery int) {
	vno := 0
	n := 0
	for _, ph := range phases {
		for i := 0; i < ph.maxOps; i++ {
			if ph.until != nil && ph.until(len(t.last)) {
				break
			}
			t.Do(genOp(r, t, ph.w, d, &vno))
			n++
			if obsEvery > 0 && n%obsEvery == 0 {
				t.Observe()
			}
		}
	}
	t.Observe()
	t.Do(Op{Name: "ScanFwd"})
	t.Do(Op{Name: "ScanBwd"})
}

func sizeAtLeast(n int) func(int) bool { return func(s int) bool { return s >= n } }
func sizeAtMost(n int) func(int) bool  { return func(s int) bool { return s <= n } }

// distinct stored keys, ascending
func keysOf(items []KIV) []int {
	m := map[int]bool{}
	for _, it := range items {
		m[it.K] = true
	}
	out := []int{}
	for k := range m {
		out = append(out, k)
	}
	sort.Ints(out)
	return out
}

// probeBattery (C18): every probe key from one below the smallest stored key to one above the largest:
// Find(first / any), FindInDescendingOrder, FindWithID for every duplicate and for an unknown id, each followed
// by reading the item under the cursor; manual Next / Previous loops from the found position over a bounded
// window; inmemory.Range / RangeDesc for every pair of probes (sampled when there are more than maxPairs).
func probeBattery(r *rand.Rand, t *Tree, maxProbes, maxPairs, window int) {
	ks := keysOf(t.last)
	if len(ks) == 0 {
		for _, p := range []int{0, 5} {
			t.Do(Op{Name: "Find", K: p, First: true})
			t.Do(Op{Name: "FindInDescendingOrder", K: p})
			t.Do(Op{Name: "RangeAsc", K: p, K2: p + 3})
			t.Do(Op{Name: "RangeDesc", K: p + 3, K2: p})
		}
		return
	}
	lo, hi := ks[0]-1, ks[len(ks)-1]+1
	probes := []int{}
	for p := lo; p <= hi; p++ {
		probes = append(probes, p)
	}
	if len(probes) > maxProbes {
		r.Shuffle(len(probes), func(i, j int) { probes[i], probes[j] = probes[j], probes[i] })
		probes = append([]int{lo, hi}, probes[:maxProbes-2]...)
		sort.Ints(probes)
	}
	byKey := map[int][]int{}
	for _, it := range t.last {
		byKey[it.K] = append(byKey[it.K], it.ID)
	}
	for _, p := range probes {
		t.Do(Op{Name: "Find", K: p, First: true})
		t.Do(Op{Name: "GetCurrentItem"})
		for i := 0; i < window; i++ {
			if e := t.Do(Op{Name: "Next"}); e.R != "true" {
				break
			}
		}
		t.Do(Op{Name: "Find", K: p, First: false})
		t.Do(Op{Name: "GetCurrentItem"})
		t.Do(Op{Name: "FindInDescendingOrder", K: p})
		t.Do(Op{Name: "GetCurrentItem"})
		for i := 0; i < window; i++ {
			if e := t.Do(Op{Name: "Previous"}); e.R != "true" {
				break
			}
		}
		ids := byKey[p]
		if len(ids) > 6 {
			ids = []int{ids[0], ids[1], ids[len(ids)/2], ids[len(ids)-2], ids[len(ids)-1]}
		}
		for _, id := range ids {
			t.Do(Op{Name: "FindWithID", K: p, ID: id})
			t.Do(Op{Name: "GetCurrentItem"})
		}
		t.Do(Op{Name: "FindWithID", K: p, ID: 1000000})
		// a full manual scan to the end / to the beginning from a miss or hit position, for some probes
		if r.Intn(4) == 0 {
			t.Do(Op{Name: "Find", K: p, First: true})
			for i := 0; i < len(t.last)+2; i++ {
				if e := t.Do(Op{Name: "Next"}); e.R != "true" {
					break
				}
			}
			t.Do(Op{Name: "FindInDescendingOrder", K: p})
			for i := 0; i < len(t.last)+2; i++ {
				if e := t.Do(Op{Name: "Previous"}); e.R != "true" {
					break
				}
			}
		}
	}
	type pr struct{ a, b int }
	pairs := []pr{}
	for _, a := range probes {
		for _, b := range probes {
			pairs = append(pairs, pr{a, b})
		}
	}
	if len(pairs) > maxPairs {
		r.Shuffle(len(pairs), func(i, j int) { pairs[i], pairs[j] = pairs[j], pairs[i] })
		pairs = pairs[:maxPairs]
	}
	for _, p := range pairs {
		t.Do(Op{Name: "RangeAsc", K: p.a, K2: p.b})
		t.Do(Op{Name: "RangeDesc", K: p.a, K2: p.b})
	}
}
