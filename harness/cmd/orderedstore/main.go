// orderedstore: binds spec/OrderedStore.tla to real btree.Btree instances (C17, C18).
//
//	orderedstore run <jobs.json> <out.ndjson> <stats.json>
//
// Every job builds fresh B-trees with btree.New over an in-memory node repository owned by the driver
// (any slot length, unique or not, leaf load balancing on or off, default or custom comparer), drives them
// through the public API and logs one ndjson event per call with arguments, result and what can be observed
// afterwards.  The driver contains no expected results: OrderedStoreTrace.tla decides.
package main

import (
	"bufio"
	"crypto/sha1"
	"encoding/hex"
	"encoding/json"
	"fmt"
	"math/rand"
	"os"
)

type Job struct {
	Family   string `json:"family"`
	Name     string `json:"name"`
	Kind     string `json:"kind"` // rand | big | probe | explore | program
	Cfg      Config `json:"cfg"`
	Seed     int64  `json:"seed"`
	Lo       int    `json:"lo"`
	Keys     int    `json:"keys"` // number of stored key values
	Step     int    `json:"step"` // distance between stored key values (2: odd probes fall between keys)
	Ops      int    `json:"ops"`
	Target   int    `json:"target"`
	Obs      int    `json:"obs"`
	Prefix   []Op   `json:"prefix"`
	Alphabet []Op   `json:"alphabet"`
	Levels   [][]Op `json:"levels"` // explore: alphabet per position (overrides alphabet/depth)
	Depth    int    `json:"depth"`
	NoKeyUpd bool   `json:"nokeyupd"` // generators: no UpdateCurrentKey / UpdateCurrentItem calls
	Program  []Op   `json:"program"`
	BlackBox bool   `json:"blackbox"`
	Probes   int    `json:"probes"`
	Pairs    int    `json:"pairs"`
	Window   int    `json:"window"`
}

type Stat struct {
	Name    string `json:"name"`
	Family  string `json:"family"`
	Events  int    `json:"events"`
	Calls   int    `json:"calls"`
	Depth   int    `json:"depth"`
	NilKids int    `json:"nilkids"`
	MaxSize int    `json:"maxsize"`
	Hash    string `json:"hash"`
	Slot    int    `json:"slot"`
	Unique  bool   `json:"unique"`
	LB      bool   `json:"lb"`
}

type sink struct {
	w      *bufio.Writer
	enc    *json.Encoder
	stats  []Stat
	cur    *Stat
	hasher interface {
		Write([]byte) (int, error)
		Sum([]byte) []byte
	}
}

func (s *sink) start(family, name string) {
	s.enc.Encode(map[string]string{"ev": "TraceStart", "name": name})
	s.cur = &Stat{Name: name, Family: family}
	s.hasher = sha1.New()
}

func (s *sink) event(e Event) {
	s.enc.Encode(e)
	s.cur.Events++
	if e.Ev != "Observe" && e.Ev != "Setup" {
		s.cur.Calls++
		fmt.Fprintf(s.hasher, "%s|%d|%d|%v|%d;", e.Ev, e.K, e.K2, e.First, e.ID)
	}
	if e.Ev == "Setup" {
		fmt.Fprintf(s.hasher, "S%d|%v|%v|%d;", e.Slot, e.Unique, e.LB, e.Gran)
		s.cur.Slot, s.cur.Unique, s.cur.LB = e.Slot, e.Unique, e.LB
	}
	if e.Cnt > s.cur.MaxSize {
		s.cur.MaxSize = e.Cnt
	}
}

func (s *sink) end(t *Tree) {
	s.cur.Depth, s.cur.NilKids = t.maxDepth, t.nilKids
	s.cur.Hash = hex.EncodeToString(s.hasher.Sum(nil))[:16]
	s.stats = append(s.stats, *s.cur)
}

func (j Job) dom() keyDom {
	d := keyDom{lo: j.Lo, step: j.Step, gran: j.Cfg.Gran}
	if d.step <= 0 {
		d.step = 1
	}
	if j.Keys <= 0 {
		j.Keys = 10
	}
	d.hi = d.lo + d.step*(j.Keys-1)
	if d.gran <= 0 {
		d.gran = 1
	}
	return d
}

func runJob(j Job, s *sink) {
	r := rand.New(rand.NewSource(j.Seed))
	noKeyUpd = j.NoKeyUpd
	obs := j.Obs
	if obs == 0 {
		obs = 1
	}
	switch j.Kind {
	case "rand":
		s.start(j.Family, j.Name)
		t := NewTree(j.Cfg, !j.BlackBox, s.event)
		n := j.Ops
		runPhases(r, t, j.dom(), []phase{
			{growW, sizeAtLeast(j.Target), n / 3},
			{mixW, nil, n / 5},
			{shrinkW, sizeAtMost(1), n / 3},
			{growW, sizeAtLeast(j.Target / 2), n / 6},
			{mixW, nil, n / 6},
			{shrinkW, sizeAtMost(0), n / 4},
			{growW, nil, 8},
		}, obs)
		s.end(t)
	case "big":
		s.start(j.Family, j.Name)
		t := NewTree(j.Cfg, !j.BlackBox, s.event)
		runPhases(r, t, j.dom(), []phase{
			{bulkGrowW, sizeAtLeast(j.Target), 4 * j.Target},
			{mixW, nil, 60},
			{bulkShrinkW, sizeAtMost(j.Target / 6), 4 * j.Target},
			{mixW, nil, 60},
			{bulkGrowW, sizeAtLeast(j.Target / 2), 4 * j.Target},
			{bulkShrinkW, sizeAtMost(0), 4 * j.Target},
			{growW, nil, 10},
		}, obs)
		s.end(t)
	case "probe":
		s.start(j.Family, j.Name)
		t := NewTree(j.Cfg, !j.BlackBox, s.event)
		d := j.dom()
		vno := 0
		build := func(w []wop, until func(int) bool, max int) {
			for i := 0; i < max && !until(len(t.last)); i++ {
				t.Do(genOp(r, t, w, d, &vno))
			}
			t.Observe()
		}
		build(bulkGrowW, sizeAtLeast(j.Target), 6*j.Target)
		probeBattery(r, t, j.Probes, j.Pairs, j.Window)
		build(bulkShrinkW, sizeAtMost(j.Target/2), 6*j.Target) // nil children appear
		probeBattery(r, t, j.Probes, j.Pairs, j.Window)
		build(mixW, func(int) bool { return false }, j.Target)
		probeBattery(r, t, j.Probes, j.Pairs, j.Window)
		build(bulkShrinkW, sizeAtMost(j.Target/6), 6*j.Target)
		probeBattery(r, t, j.Probes, j.Pairs, j.Window)
		build(bulkShrinkW, sizeAtMost(0), 6*j.Target)
		probeBattery(r, t, j.Probes, j.Pairs, j.Window)
		s.end(t)
	case "program":
		s.start(j.Family, j.Name)
		t := NewTree(j.Cfg, !j.BlackBox, s.event)
		for i, op := range j.Program {
			t.Do(op)
			if (i+1)%obs == 0 {
				t.Observe()
			}
		}
		t.Observe()
		s.end(t)
	case "explore":
		levels := j.Levels
		if len(levels) == 0 {
			for i := 0; i < j.Depth; i++ {
				levels = append(levels, j.Alphabet)
			}
		}
		idx := make([]int, len(levels))
		n := 0
		for {
			s.start(j.Family, fmt.Sprintf("%s/%d", j.Name, n))
			t := NewTree(j.Cfg, !j.BlackBox, s.event)
			for _, op := range j.Prefix {
				t.Do(op)
			}
			t.Observe()
			for lv, a := range idx {
				op := levels[lv][a]
				if op.V == "" {
					op.V = fmt.Sprintf("x%d", t.nops)
				}
				t.Do(op)
				t.Observe()
			}
			s.end(t)
			n++
			// next sequence
			p := len(levels) - 1
			for p >= 0 {
				idx[p]++
				if idx[p] < len(levels[p]) {
					break
				}
				idx[p] = 0
				p--
			}
			if p < 0 {
				break
			}
		}
	default:
		panic("unknown job kind " + j.Kind)
	}
}

func main() {
	if len(os.Args) != 5 || os.Args[1] != "run" {
		fmt.Fprintln(os.Stderr, "usage: orderedstore run <jobs.json> <out.ndjson> <stats.json>")
		os.Exit(2)
	}
	var jobs []Job
	raw, err := os.ReadFile(os.Args[2])
	if err != nil {
		panic(err)
	}
	if err := json.Unmarshal(raw, &jobs); err != nil {
		panic(err)
	}
	f, err := os.Create(os.Args[3])
	if err != nil {
		panic(err)
	}
	w := bufio.NewWriterSize(f, 1<<20)
	s := &sink{w: w, enc: json.NewEncoder(w)}
	for _, j := range jobs {
		runJob(j, s)
	}
	w.Flush()
	f.Close()
	sf, _ := os.Create(os.Args[4])
	json.NewEncoder(sf).Encode(s.stats)
	sf.Close()
}
