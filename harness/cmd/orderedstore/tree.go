package main

import (
	"context"
	"fmt"
	"reflect"
	"sort"

	"github.com/sharedcode/sop"
	"github.com/sharedcode/sop/btree"
	"github.com/sharedcode/sop/inmemory"
)

// ---------- in-memory backends handed to btree.New (same shape as /repo/inmemory's private ones) ----------

type nodeRepo struct {
	m map[sop.UUID]*btree.Node[int, string]
}

func (r *nodeRepo) Add(n *btree.Node[int, string])    { r.m[n.ID] = n }
func (r *nodeRepo) Update(n *btree.Node[int, string]) { r.m[n.ID] = n }
func (r *nodeRepo) Get(ctx context.Context, id sop.UUID) (*btree.Node[int, string], error) {
	return r.m[id], nil
}
func (r *nodeRepo) Fetched(id sop.UUID) {}
func (r *nodeRepo) Remove(id sop.UUID)  { delete(r.m, id) }

// recTracker records what the B-tree tells its ItemActionTracker during one call: the transaction layer decides
// from these notifications which items to lock, write, delete and replay on a merge, so they must name exactly the
// items the call added, changed and removed.
type recTracker struct {
	add, upd, rem []sop.UUID
}

func (r *recTracker) Add(ctx context.Context, item *btree.Item[int, string]) error {
	r.add = append(r.add, item.ID)
	return nil
}
func (r *recTracker) Get(ctx context.Context, item *btree.Item[int, string]) error { return nil }
func (r *recTracker) Update(ctx context.Context, item *btree.Item[int, string]) error {
	r.upd = append(r.upd, item.ID)
	return nil
}
func (r *recTracker) Remove(ctx context.Context, item *btree.Item[int, string]) error {
	r.rem = append(r.rem, item.ID)
	return nil
}

// Trk is the set of item ids (normalised) the tracker was notified of during a call.
type Trk struct {
	A []int `json:"a"`
	U []int `json:"u"`
	R []int `json:"r"`
}

// ---------- configuration, events ----------

type Config struct {
	Slot   int  `json:"slot"`   // requested slot length (sop.NewStoreInfo normalises odd values down)
	Unique bool `json:"unique"` // StoreInfo.IsUnique
	LB     bool `json:"lb"`     // StoreInfo.LeafLoadBalancing
	Gran   int  `json:"gran"`   // 1: default comparer; >1: custom comparer a/gran vs b/gran
}

type KIV struct {
	K  int    `json:"k"`
	ID int    `json:"id"`
	V  string `json:"v"`
}
type KV struct {
	K int    `json:"k"`
	V string `json:"v"`
}

// Event is one ndjson line.  Every field the trace spec reads is always present.
type Event struct {
	Ev     string `json:"ev"`
	Name   string `json:"name,omitempty"`
	K      int    `json:"k"`
	K2     int    `json:"k2"`
	V      string `json:"v"`
	ID     int    `json:"id"`
	First  bool   `json:"first"`
	R      string `json:"r"`
	RK     int    `json:"rk"`
	RID    int    `json:"rid"`
	RV     string `json:"rv"`
	Seq    any    `json:"seq"`
	Cnt    int    `json:"cnt"`
	CK     int    `json:"ck"`
	CID    int    `json:"cid"`
	TC     int    `json:"tc"`
	Aff    []int  `json:"aff"`
	Trk    *Trk   `json:"trk,omitempty"`
	Sane   bool   `json:"sane"`
	Unique bool   `json:"unique"`
	Gran   int    `json:"gran"`
	// informational
	Slot int    `json:"slot"`
	LB   bool   `json:"lb"`
	Why  string `json:"why,omitempty"`
}

type Op struct {
	Name  string `json:"op"`
	K     int    `json:"k"`
	K2    int    `json:"k2"`
	V     string `json:"v"`
	ID    int    `json:"id"` // normalised item id (FindWithID); unknown ids are replaced by a fresh UUID
	First bool   `json:"first"`
}

// ---------- the tree under test ----------

type Tree struct {
	cfg      Config
	effSlot  int
	b        *btree.Btree[int, string]
	im       inmemory.BtreeInterface[int, string]
	repo     *nodeRepo
	trk      *recTracker
	ids      map[sop.UUID]int
	uuidOf   map[int]sop.UUID
	nextID   int
	last     []KIV // walk after the previous call
	whiteBox bool
	nops     int
	out      func(Event)
	sane     bool
	why      string
	maxDepth int
	nilKids  int // number of walks that met a nil child in an inner node
}

var ctx = context.Background()

func NewTree(cfg Config, whiteBox bool, out func(Event)) *Tree {
	if cfg.Gran <= 0 {
		cfg.Gran = 1
	}
	so := sop.StoreOptions{
		Name:                     "c17",
		SlotLength:               cfg.Slot,
		IsUnique:                 cfg.Unique,
		IsValueDataInNodeSegment: true,
		LeafLoadBalancing:        cfg.LB,
	}
	si := sop.NewStoreInfo(so)
	repo := &nodeRepo{m: map[sop.UUID]*btree.Node[int, string]{}}
	trk := &recTracker{}
	sif := btree.StoreInterface[int, string]{NodeRepository: repo, ItemActionTracker: trk}
	var cmp btree.ComparerFunc[int]
	if cfg.Gran > 1 {
		g := cfg.Gran
		cmp = func(a, b int) int {
			x, y := a/g, b/g
			if x < y {
				return -1
			}
			if x > y {
				return 1
			}
			return 0
		}
	}
	b, err := btree.New[int, string](si, &sif, cmp)
	if err != nil {
		panic(err)
	}
	t := &Tree{cfg: cfg, effSlot: si.SlotLength, b: b, im: inmemory.BtreeInterface[int, string]{Btree: b}, repo: repo, trk: trk,
		ids: map[sop.UUID]int{}, uuidOf: map[int]sop.UUID{}, whiteBox: whiteBox, out: out, sane: true}
	t.out(Event{Ev: "Setup", Unique: cfg.Unique, Gran: cfg.Gran, Slot: si.SlotLength, LB: cfg.LB, Seq: []int{}, Aff: []int{}, R: "true", Sane: true})
	return t
}

// normIDs: normalised ids (set, ascending) of the items named in tracker notifications (-9: never seen in the tree).
func (t *Tree) normIDs(us []sop.UUID) []int {
	set := map[int]bool{}
	for _, u := range us {
		set[t.idOf(u)] = true
	}
	out := []int{}
	for id := range set {
		out = append(out, id)
	}
	sort.Ints(out)
	return out
}

func (t *Tree) idOf(u sop.UUID) int {
	if u.IsNil() {
		return 0
	}
	if n, ok := t.ids[u]; ok {
		return n
	}
	return -9
}

// walk: in-order traversal of the node repository from StoreInfo.RootNodeID, independent of the
// B-tree's own navigation code and of its cursor.  Assigns normalised ids to unseen items.
func (t *Tree) walk() []KIV {
	t.sane, t.why = true, ""
	var out []KIV
	root := t.b.StoreInfo.RootNodeID
	if root.IsNil() {
		return out
	}
	seen := map[sop.UUID]bool{}
	sawNil := false
	depth := 0
	bad := func(f string, a ...any) {
		if t.sane {
			t.sane, t.why = false, fmt.Sprintf(f, a...)
		}
	}
	var rec func(id, parent sop.UUID, d int)
	rec = func(id, parent sop.UUID, d int) {
		if d > depth {
			depth = d
		}
		n := t.repo.m[id]
		if n == nil {
			bad("node %v referenced but not in repository", id)
			return
		}
		if seen[id] {
			bad("node %v reachable twice", id)
			return
		}
		seen[id] = true
		if n.ID != id {
			bad("node stored under %v has ID %v", id, n.ID)
		}
		if n.ParentID != parent {
			bad("node %v has ParentID %v, is referenced by %v", id, n.ParentID, parent)
		}
		if n.Count < 0 || n.Count > t.effSlot || n.Count > len(n.Slots) {
			bad("node %v has Count %d (slot length %d)", id, n.Count, t.effSlot)
			return
		}
		if n.Count == 0 && d > 0 {
			bad("non-root node %v is empty", id)
		}
		kids := len(n.ChildrenIDs) > 0
		for i := 0; i <= n.Count; i++ {
			if kids && i < len(n.ChildrenIDs) {
				if c := n.ChildrenIDs[i]; !c.IsNil() {
					rec(c, id, d+1)
				} else {
					sawNil = true
				}
			}
			if i < n.Count {
				it := n.Slots[i]
				if it.ID.IsNil() {
					bad("node %v slot %d holds an item with nil ID", id, i)
				}
				if _, ok := t.ids[it.ID]; !ok && !it.ID.IsNil() {
					t.nextID++
					t.ids[it.ID] = t.nextID
					t.uuidOf[t.nextID] = it.ID
				}
				v := ""
				if it.Value != nil {
					v = *it.Value
				} else {
					bad("node %v slot %d holds an item with nil Value", id, i)
				}
				if len(out) > 0 && out[len(out)-1].K/t.cfg.Gran > it.Key/t.cfg.Gran {
					bad("keys out of order: %d before %d in the in-order walk", out[len(out)-1].K, it.Key)
				}
				out = append(out, KIV{K: it.Key, ID: t.idOf(it.ID), V: v})
			}
		}
		if kids {
			for i := n.Count + 1; i < len(n.ChildrenIDs); i++ {
				if !n.ChildrenIDs[i].IsNil() {
					bad("node %v has a child beyond Count at %d", id, i)
				}
			}
		}
	}
	rec(root, sop.NilUUID, 0)
	if depth > t.maxDepth {
		t.maxDepth = depth
	}
	if sawNil {
		t.nilKids++
	}
	return out
}

// trueCursor reads currentItemRef (private) through reflection, read only.
// 0: nil reference, -1: reference to a slot that holds no item, >0: normalised id of the designated item.
func (t *Tree) trueCursor() int {
	if !t.whiteBox {
		return -2
	}
	ref := reflect.ValueOf(t.b).Elem().FieldByName("currentItemRef")
	idf := ref.FieldByName("nodeID")
	var u sop.UUID
	for i := 0; i < 16; i++ {
		u[i] = byte(idf.Index(i).Uint())
	}
	idx := int(ref.FieldByName("nodeItemIndex").Int())
	if u.IsNil() {
		return 0
	}
	n := t.repo.m[u]
	if n == nil {
		return -3 // dangling reference: the model has no such state
	}
	if idx < 0 {
		return -4
	}
	if idx >= n.Count {
		return -1
	}
	return t.idOf(n.Slots[idx].ID)
}

// reordered: the items present both before and after the call appear in a different relative order.
func reordered(a, b []KIV) bool {
	inA := map[int]bool{}
	for _, x := range a {
		inA[x.ID] = true
	}
	inB := map[int]bool{}
	for _, x := range b {
		inB[x.ID] = true
	}
	i, j := 0, 0
	for {
		for i < len(a) && !inB[a[i].ID] {
			i++
		}
		for j < len(b) && !inA[b[j].ID] {
			j++
		}
		if i >= len(a) || j >= len(b) {
			return false
		}
		if a[i].ID != b[j].ID {
			return true
		}
		i++
		j++
	}
}

func diffIDs(a, b []KIV) []int {
	ma := map[KIV]bool{}
	for _, x := range a {
		ma[x] = true
	}
	mb := map[KIV]bool{}
	for _, x := range b {
		mb[x] = true
	}
	set := map[int]bool{}
	for _, x := range a {
		if !mb[x] {
			set[x.ID] = true
		}
	}
	for _, x := range b {
		if !ma[x] {
			set[x.ID] = true
		}
	}
	out := []int{}
	for id := range set {
		out = append(out, id)
	}
	return out
}

// guard runs f, turning a panic into the result "panic".
func guard(f func() (bool, error)) (r string) {
	defer func() {
		if x := recover(); x != nil {
			r = "panic"
		}
	}()
	ok, err := f()
	if err != nil {
		return "error"
	}
	if ok {
		return "true"
	}
	return "false"
}

func (t *Tree) finish(e Event) {
	now := t.walk()
	if t.sane && reordered(t.last, now) {
		t.sane, t.why = false, "relative order of items stored before the call changed"
	}
	e.Aff = diffIDs(t.last, now)
	e.Trk = &Trk{A: t.normIDs(t.trk.add), U: t.normIDs(t.trk.upd), R: t.normIDs(t.trk.rem)}
	t.trk.add, t.trk.upd, t.trk.rem = nil, nil, nil
	t.last = now
	e.Cnt = int(t.b.Count())
	ck := t.b.GetCurrentKey()
	e.CK, e.CID = ck.Key, t.idOf(ck.ID)
	e.TC = t.trueCursor()
	if e.Seq == nil {
		e.Seq = []int{}
	}
	e.Sane = t.sane
	e.Why = t.why
	e.Slot, e.LB = t.effSlot, t.cfg.LB
	t.out(e)
	t.nops++
}

func (t *Tree) Observe() {
	seq := t.last
	if seq == nil {
		seq = []KIV{}
	}
	t.out(Event{Ev: "Observe", Seq: seq, Cnt: int(t.b.Count()), Sane: t.sane, Why: t.why, Aff: []int{}, R: "true", TC: -2,
		Slot: t.effSlot, LB: t.cfg.LB})
}

// Do executes one call on the real B-tree and logs it.
func (t *Tree) Do(op Op) Event {
	e := Event{Ev: op.Name, K: op.K, K2: op.K2, V: op.V, ID: op.ID, First: op.First, R: "true"}
	b := t.b
	if op.Name == "Dump" {
		t.Dump()
		return e
	}
	switch op.Name {
	case "Add":
		e.R = guard(func() (bool, error) { return b.Add(ctx, op.K, op.V) })
	case "AddIfNotExist":
		e.R = guard(func() (bool, error) { return b.AddIfNotExist(ctx, op.K, op.V) })
	case "Upsert":
		e.R = guard(func() (bool, error) { return b.Upsert(ctx, op.K, op.V) })
	case "Update":
		e.R = guard(func() (bool, error) { return b.Update(ctx, op.K, op.V) })
	case "UpdateKey":
		e.R = guard(func() (bool, error) { return b.UpdateKey(ctx, op.K) })
	case "UpdateCurrentKey":
		e.R = guard(func() (bool, error) { return b.UpdateCurrentKey(ctx, op.K) })
	case "UpdateCurrentItem":
		e.R = guard(func() (bool, error) { return b.UpdateCurrentItem(ctx, op.K, op.V) })
	case "UpdateCurrentValue":
		e.R = guard(func() (bool, error) { return b.UpdateCurrentValue(ctx, op.V) })
	case "Remove":
		e.R = guard(func() (bool, error) { return b.Remove(ctx, op.K) })
	case "RemoveCurrentItem":
		e.R = guard(func() (bool, error) { return b.RemoveCurrentItem(ctx) })
	case "Find":
		e.R = guard(func() (bool, error) { return b.Find(ctx, op.K, op.First) })
	case "FindInDescendingOrder":
		e.R = guard(func() (bool, error) { return b.FindInDescendingOrder(ctx, op.K) })
	case "FindWithID":
		u, ok := t.uuidOf[op.ID]
		if !ok {
			u = sop.NewUUID()
		}
		e.R = guard(func() (bool, error) { return b.FindWithID(ctx, op.K, u) })
	case "First":
		e.R = guard(func() (bool, error) { return b.First(ctx) })
	case "Last":
		e.R = guard(func() (bool, error) { return b.Last(ctx) })
	case "Next":
		e.R = guard(func() (bool, error) { return b.Next(ctx) })
	case "Previous":
		e.R = guard(func() (bool, error) { return b.Previous(ctx) })
	case "GetCurrentValue":
		e.R = guard(func() (bool, error) {
			v, err := b.GetCurrentValue(ctx)
			e.RV = v
			return true, err
		})
	case "GetCurrentItem":
		e.R = guard(func() (bool, error) {
			it, err := b.GetCurrentItem(ctx)
			e.RK, e.RID = it.Key, t.idOf(it.ID)
			if it.Value != nil {
				e.RV = *it.Value
			}
			return true, err
		})
	case "ScanFwd":
		seq := []KIV{}
		e.R = guard(func() (bool, error) {
			limit := len(t.last) + 10
			ok, err := b.First(ctx)
			for ok && err == nil && len(seq) < limit {
				var it btree.Item[int, string]
				it, err = b.GetCurrentItem(ctx)
				if err != nil {
					break
				}
				v := ""
				if it.Value != nil {
					v = *it.Value
				}
				seq = append(seq, KIV{K: it.Key, ID: t.idOf(it.ID), V: v})
				ok, err = b.Next(ctx)
			}
			return true, err
		})
		e.Seq = seq
	case "ScanBwd":
		seq := []KIV{}
		e.R = guard(func() (bool, error) {
			limit := len(t.last) + 10
			ok, err := b.Last(ctx)
			for ok && err == nil && len(seq) < limit {
				var it btree.Item[int, string]
				it, err = b.GetCurrentItem(ctx)
				if err != nil {
					break
				}
				v := ""
				if it.Value != nil {
					v = *it.Value
				}
				seq = append(seq, KIV{K: it.Key, ID: t.idOf(it.ID), V: v})
				ok, err = b.Previous(ctx)
			}
			return true, err
		})
		e.Seq = seq
	case "RangeAsc":
		seq := []KV{}
		e.R = guard(func() (bool, error) {
			limit := len(t.last) + 10
			for k, v := range t.im.Range(op.K, op.K2) {
				seq = append(seq, KV{K: k, V: v})
				if len(seq) > limit {
					break
				}
			}
			return true, nil
		})
		e.Seq = seq
	case "RangeDesc":
		seq := []KV{}
		e.R = guard(func() (bool, error) {
			limit := len(t.last) + 10
			for k, v := range t.im.RangeDesc(op.K, op.K2) {
				seq = append(seq, KV{K: k, V: v})
				if len(seq) > limit {
					break
				}
			}
			return true, nil
		})
		e.Seq = seq
	default:
		panic("unknown op " + op.Name)
	}
	t.finish(e)
	return e
}
