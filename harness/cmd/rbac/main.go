// Driver for property C34: evaluates access-control cases on the real sop.Authorize, sop.CheckPolicy,
// sop.EnforcePolicy, sop.CanPerformAction and sop.ResolveRBACMap and records what they return.
// It contains no expectations; spec/RbacTrace.tla decides.
//
//	rbac replay <cases.ndjson> <out.ndjson>   cases enumerated by TLC from spec/Rbac.tla (one JSON per line)
//	rbac random <n> <out.ndjson>              seeded random cases from a wider domain (VERIF_SEED)
package main

import (
	"bufio"
	"context"
	"encoding/json"
	"errors"
	"fmt"
	"math/rand"
	"os"
	"sort"
	"strconv"

	"github.com/sharedcode/sop"
)

type rbacCase struct {
	Roles  []string            `json:"roles"`
	User   string              `json:"user"`
	System bool                `json:"system"`
	Name   string              `json:"name"`
	Vis    string              `json:"vis"`
	Owner  string              `json:"owner"`
	Rg     map[string][]string `json:"-"`
	Ug     map[string][]string `json:"-"`
	RawRg  json.RawMessage     `json:"rg"`
	RawUg  json.RawMessage     `json:"ug"`
}

type pair struct {
	K string `json:"k"`
	V any    `json:"v"`
}

var allActions = []sop.Action{sop.ActionRead, sop.ActionWrite, sop.ActionDelete, sop.ActionList, sop.ActionAISelect}

// TLC's ToJson prints a function with an empty domain as [] and otherwise as an object.
func grantMap(raw json.RawMessage) (map[string][]string, error) {
	m := map[string][]string{}
	if len(raw) == 0 || raw[0] == '[' || string(raw) == "null" {
		return m, nil
	}
	err := json.Unmarshal(raw, &m)
	return m, err
}

func pairsOf(m map[string][]string) []pair {
	keys := make([]string, 0, len(m))
	for k := range m {
		keys = append(keys, k)
	}
	sort.Strings(keys)
	out := make([]pair, 0, len(keys))
	for _, k := range keys {
		v := m[k]
		if v == nil {
			v = []string{}
		}
		out = append(out, pair{k, v})
	}
	return out
}

func errName(err error) string {
	switch {
	case err == nil:
		return "nil"
	case errors.Is(err, sop.ErrSystemReadOnly):
		return "readonly"
	case errors.Is(err, sop.ErrUnauthorized):
		return "unauthorized"
	default:
		return "other:" + err.Error()
	}
}

const (
	bpAll  = "verif_all"
	bpRWD  = "verif_rwd"
	bpNone = "verif_unregistered"
)

func register() {
	sop.RegisterAssetRBAC(sop.AssetBlueprint{AssetType: bpAll, Description: "C34 driver: all actions, no evaluator",
		Actions: allActions})
	sop.RegisterAssetRBAC(sop.AssetBlueprint{AssetType: bpRWD, Description: "C34 driver: read/write/delete, no evaluator",
		Actions: []sop.Action{sop.ActionRead, sop.ActionWrite, sop.ActionDelete}})
}

func evaluate(w *bufio.Writer, c *rbacCase, asset string, nilAccess bool) {
	ctx := sop.ContextWithAuth(context.Background(), sop.AuthContext{UserID: c.User, Roles: c.Roles, IsSystem: c.System})
	access := sop.ResourceAccess{Visibility: sop.Visibility(c.Vis), OwnerID: c.Owner, Roles: c.Rg, Users: c.Ug}
	if len(c.Rg) == 0 && c.System { // nil and empty maps must behave alike; vary them
		access.Roles = nil
	}
	if len(c.Ug) == 0 && !c.System {
		access.Users = nil
	}
	res := map[string]any{}
	for _, a := range allActions {
		res[string(a)] = map[string]any{
			"authz":   sop.Authorize(ctx, access, a),
			"policy":  errName(sop.CheckPolicy(ctx, c.Name, access, a)),
			"enforce": errName(sop.EnforcePolicy(ctx, c.Name, access, a)),
			"can":     sop.CanPerformAction(ctx, c.Name, access, a),
		}
	}
	get := func() sop.ResourceAccess { return access }
	if nilAccess {
		get = nil
	}
	m := sop.ResolveRBACMap(ctx, asset, sop.EntitlementContext{AssetID: c.Name, UserID: c.User}, get)
	ui := make([]pair, 0, len(m))
	for k, v := range m {
		ui = append(ui, pair{string(k), v})
	}
	sort.Slice(ui, func(i, j int) bool { return ui[i].K < ui[j].K })
	bp := []string{}
	if b, ok := sop.GetAssetBlueprint(asset); ok {
		for _, a := range b.Actions {
			bp = append(bp, string(a))
		}
	}
	roles := c.Roles
	if roles == nil {
		roles = []string{}
	}
	ev := map[string]any{"ev": "Case", "roles": roles, "user": c.User, "system": c.System, "name": c.Name,
		"vis": c.Vis, "owner": c.Owner, "rg": pairsOf(c.Rg), "ug": pairsOf(c.Ug), "bp": bp, "asset": asset,
		"nil_access": nilAccess, "res": res, "ui": ui}
	b, _ := json.Marshal(ev)
	w.Write(b)
	w.WriteByte('\n')
}

func zeroAccess(c *rbacCase) bool {
	return c.Vis == "" && c.Owner == "" && len(c.Rg) == 0 && len(c.Ug) == 0
}

func replay(in, out string) error {
	f, err := os.Open(in)
	if err != nil {
		return err
	}
	defer f.Close()
	o, err := os.Create(out)
	if err != nil {
		return err
	}
	defer o.Close()
	w := bufio.NewWriterSize(o, 1<<20)
	defer w.Flush()
	sc := bufio.NewScanner(f)
	sc.Buffer(make([]byte, 1<<20), 1<<24)
	n := 0
	for sc.Scan() {
		line := sc.Bytes()
		if len(line) == 0 {
			continue
		}
		var c rbacCase
		if err := json.Unmarshal(line, &c); err != nil {
			return fmt.Errorf("case %d: %v", n, err)
		}
		if c.Rg, err = grantMap(c.RawRg); err != nil {
			return err
		}
		if c.Ug, err = grantMap(c.RawUg); err != nil {
			return err
		}
		evaluate(w, &c, bpAll, false)
		if n%7 == 3 {
			evaluate(w, &c, bpRWD, false)
		}
		if n%41 == 5 {
			evaluate(w, &c, bpNone, false)
		}
		if zeroAccess(&c) {
			evaluate(w, &c, bpAll, true) // getLocalAccess == nil: the zero ResourceAccess
		}
		n++
	}
	return sc.Err()
}

func pick(r *rand.Rand, xs []string) string { return xs[r.Intn(len(xs))] }

func randomCases(n int, out string) error {
	seed, _ := strconv.ParseInt(os.Getenv("VERIF_SEED"), 10, 64)
	r := rand.New(rand.NewSource(seed*7919 + 17))
	o, err := os.Create(out)
	if err != nil {
		return err
	}
	defer o.Close()
	w := bufio.NewWriterSize(o, 1<<20)
	defer w.Flush()
	roleNames := []string{"Admin", "User", "Guest", "X", "admin", "ADMIN", "Admin ", "", "*", "Auditor"}
	users := []string{"u1", "u2", "", "U1", "u1 ", "*", "root"}
	names := []string{"SOP", "LongTermMemory", "other", "sop", "Sop", "longtermmemory", "SOP ", "", "SOP/data", "LongTermMemory2"}
	vis := []string{"public", "private", "system", "", "Public", "SYSTEM", "internal"}
	grants := []string{"read", "write", "delete", "list", "ai_select", "*", "READ", "", "execute", "rea"}
	grantList := func() []string {
		k := r.Intn(4)
		l := make([]string, 0, k)
		for i := 0; i < k; i++ {
			l = append(l, pick(r, grants))
		}
		return l
	}
	for i := 0; i < n; i++ {
		c := rbacCase{User: pick(r, users), System: r.Intn(4) == 0, Name: pick(r, names), Vis: pick(r, vis),
			Owner: pick(r, users), Rg: map[string][]string{}, Ug: map[string][]string{}}
		for k := r.Intn(4); k > 0; k-- {
			c.Roles = append(c.Roles, pick(r, roleNames)) // duplicates and order vary
		}
		for k := r.Intn(3); k > 0; k-- {
			c.Rg[pick(r, roleNames)] = grantList()
		}
		for k := r.Intn(3); k > 0; k-- {
			c.Ug[pick(r, users)] = grantList()
		}
		asset := bpAll
		switch r.Intn(6) {
		case 0:
			asset = bpRWD
		case 1:
			asset = bpNone
		}
		evaluate(w, &c, asset, zeroAccess(&c) && r.Intn(2) == 0)
	}
	return nil
}

func main() {
	if len(os.Args) < 4 {
		fmt.Fprintln(os.Stderr, "usage: rbac replay <cases> <out> | rbac random <n> <out>")
		os.Exit(2)
	}
	register()
	var err error
	switch os.Args[1] {
	case "replay":
		err = replay(os.Args[2], os.Args[3])
	case "random":
		n, _ := strconv.Atoi(os.Args[2])
		err = randomCases(n, os.Args[3])
	default:
		err = fmt.Errorf("unknown mode %s", os.Args[1])
	}
	if err != nil {
		fmt.Fprintln(os.Stderr, "rbac driver:", err)
		os.Exit(1)
	}
}
