package main

// C24: layout facts measured on the real code, codec round trips and slot writes for the cases TLC enumerates.

import (
	"context"
	"encoding/json"
	"fmt"
	"math"
	"os"
	"path/filepath"

	"github.com/ncw/directio"
	"github.com/sharedcode/sop"
	"github.com/sharedcode/sop/encoding"
)

// SymHandle is a handle whose field values are the symbols of the specification.
type SymHandle struct {
	Lid string `json:"lid"`
	A   string `json:"a"`
	B   string `json:"b"`
	Act bool   `json:"act"`
	Ver string `json:"ver"`
	Ts  string `json:"ts"`
	Del bool   `json:"del"`
}

var symIDs = map[string]sop.UUID{
	"nil": {},
	"min": {0, 0, 0, 0, 0, 0, 0, 0, 0, 0, 0, 0, 0, 0, 0, 1},
	"max": {255, 255, 255, 255, 255, 255, 255, 255, 255, 255, 255, 255, 255, 255, 255, 255},
	"pat": {0x01, 0x23, 0x45, 0x67, 0x89, 0xab, 0xcd, 0xef, 0xfe, 0xdc, 0xba, 0x98, 0x76, 0x54, 0x32, 0x10},
	"hi1": {0x80, 0, 0, 0, 0, 0, 0, 0, 0x80, 0, 0, 0, 0, 0, 0, 0},
}
var symVers = map[string]int32{"min32": math.MinInt32, "neg1": -1, "zero": 0, "one": 1, "max32": math.MaxInt32, "b256": 256}
var symStamps = map[string]int64{"min64": math.MinInt64, "neg1": -1, "zero": 0, "one": 1, "max64": math.MaxInt64, "b2p32": 1 << 32}

// baseUUID(j): the id that lives in slot j of the block under test (hash modulus 1: block 0; lo % slots = j).
// Its bytes are non-zero (as far as the congruence allows) so that a stray zero written into a neighbour shows.
func baseUUID(j int) sop.UUID {
	const pat = uint64(0xC3C3C3C3C3C3C3C3)
	lo := pat - pat%uint64(lay.N) + uint64(j)
	var u sop.UUID
	for i := 0; i < 8; i++ {
		u[i] = 0xA5
		u[8+i] = byte(lo >> (8 * uint(7-i)))
	}
	if _, l := u.Split(); l%uint64(lay.N) != uint64(j)%uint64(lay.N) {
		die("baseUUID(%d): Split() low part %d is not congruent", j, l)
	}
	return u
}

func concrete(s SymHandle, slot int) sop.Handle {
	var h sop.Handle
	if s.Lid == "slot" {
		h.LogicalID = baseUUID(slot)
	} else {
		u, ok := symIDs[s.Lid]
		if !ok {
			die("unknown id symbol %q", s.Lid)
		}
		h.LogicalID = u
	}
	a, ok1 := symIDs[s.A]
	b, ok2 := symIDs[s.B]
	v, ok3 := symVers[s.Ver]
	t, ok4 := symStamps[s.Ts]
	if !(ok1 && ok2 && ok3 && ok4) {
		die("unknown symbol in %+v", s)
	}
	h.PhysicalIDA, h.PhysicalIDB, h.IsActiveIDB, h.Version, h.WorkInProgressTimestamp, h.IsDeleted = a, b, s.Act, v, t, s.Del
	return h
}

func symID(u sop.UUID, slot int) string {
	for k, v := range symIDs {
		if v == u {
			return k
		}
	}
	if slot >= 0 && u == baseUUID(slot) {
		return "slot"
	}
	return "other:" + u.String()
}

func symbolic(h sop.Handle, slot int) SymHandle {
	s := SymHandle{Lid: symID(h.LogicalID, slot), A: symID(h.PhysicalIDA, -1), B: symID(h.PhysicalIDB, -1),
		Act: h.IsActiveIDB, Del: h.IsDeleted, Ver: fmt.Sprintf("other:%d", h.Version), Ts: fmt.Sprintf("other:%d", h.WorkInProgressTimestamp)}
	for k, v := range symVers {
		if v == h.Version {
			s.Ver = k
		}
	}
	for k, v := range symStamps {
		if v == h.WorkInProgressTimestamp {
			s.Ts = k
		}
	}
	return s
}

var garbled = SymHandle{Lid: "garbled", A: "garbled", B: "garbled", Ver: "garbled", Ts: "garbled"}

// ---------- measured layout facts ----------

func consts() {
	m := encoding.NewHandleMarshaler()
	base := sop.Handle{}
	enc := func(h sop.Handle) []byte {
		b, _ := m.Marshal(h, make([]byte, 0, 128))
		return append([]byte(nil), b...)
	}
	b0 := enc(base)
	type fr struct {
		Name string `json:"name"`
		Off  int    `json:"off"`
		Len  int    `json:"len"`
		Gaps bool   `json:"gaps"`
	}
	// a field's byte range = the bytes that change when only that field changes (all-ones value against zero)
	variants := []struct {
		name string
		h    sop.Handle
	}{
		{"lid", sop.Handle{LogicalID: symIDs["max"]}},
		{"a", sop.Handle{PhysicalIDA: symIDs["max"]}},
		{"b", sop.Handle{PhysicalIDB: symIDs["max"]}},
		{"act", sop.Handle{IsActiveIDB: true}},
		{"ver", sop.Handle{Version: -1}},
		{"ts", sop.Handle{WorkInProgressTimestamp: -1}},
		{"del", sop.Handle{IsDeleted: true}},
	}
	fields := []fr{}
	for _, v := range variants {
		b := enc(v.h)
		lo, hi, n := -1, -1, 0
		for k := 0; k < len(b) && k < len(b0); k++ {
			if b[k] != b0[k] {
				if lo < 0 {
					lo = k
				}
				hi = k
				n++
			}
		}
		fields = append(fields, fr{Name: v.name, Off: lo, Len: hi - lo + 1, Gaps: n != hi-lo+1 || len(b) != len(b0)})
	}
	out := map[string]any{
		"HandleSizeInBytes": sop.HandleSizeInBytes,
		"BlockSize":         directio.BlockSize,
		"encoded_len":       len(b0),
		"fields":            fields,
	}
	json.NewEncoder(os.Stdout).Encode(out)
}

// ---------- cases ----------

type Case struct {
	Kind string    `json:"kind"`
	Slot int       `json:"slot"`
	H    SymHandle `json:"h"`
}

type LEvent struct {
	Ev         string      `json:"ev"`
	Slot       int         `json:"slot"`
	H          SymHandle   `json:"h"`
	Len        int         `json:"len"`
	Back       SymHandle   `json:"back"`    // decoded again (codec) / decoded from the slot on disk (write)
	Changed    []int       `json:"changed"` // slots whose bytes differ from before the write
	CrcValid   bool        `json:"crcvalid"`
	CrcChanged bool        `json:"crcchanged"`
	Outside    bool        `json:"outside"` // bytes outside every slot range and outside the checksum range changed
	Res        string      `json:"res"`
	Block      []SymHandle `json:"block"`
	Nseg       int         `json:"nseg"`
	Measured   int         `json:"measured"`
}

func newLEvent(ev string) LEvent {
	return LEvent{Ev: ev, Changed: []int{}, Block: []SymHandle{}, Res: "ok", CrcValid: true, H: garbledNone, Back: garbledNone}
}

var garbledNone = SymHandle{Lid: "none", A: "none", B: "none", Ver: "none", Ts: "none"}

func decodeSlot(rec []byte, slot int) (out SymHandle) {
	defer func() {
		if recover() != nil { // SOP's decoder panics on a record shorter than it expects
			out = garbled
		}
	}()
	m := encoding.NewHandleMarshaler()
	var h2 sop.Handle
	if err := m.Unmarshal(rec, &h2); err != nil {
		return garbled
	}
	if lay.HS == 62 {
		if decodeRaw(rec) != h2 {
			return garbled
		}
	}
	return symbolic(h2, slot)
}

func blockSyms(blk []byte) []SymHandle {
	out := make([]SymHandle, lay.N)
	for j := 0; j < lay.N; j++ {
		rec := blk[j*lay.HS : (j+1)*lay.HS]
		if allZero(rec) {
			out[j] = SymHandle{Lid: "empty", A: "empty", B: "empty", Ver: "empty", Ts: "empty"}
		} else {
			out[j] = decodeSlot(rec, j)
		}
	}
	return out
}

func crcValid(blk []byte) bool {
	want := crc32ieee(blk[:lay.BS-lay.CW])
	got := uint32(0)
	for k := lay.CW - 1; k >= 0; k-- {
		got = got<<8 | uint32(blk[lay.BS-lay.CW+k])
	}
	return want == got
}

func layoutCases(caseFile, out, root string) {
	ctx := context.Background()
	var cases []Case
	b, err := os.ReadFile(caseFile)
	if err != nil {
		die("%v", err)
	}
	if err := json.Unmarshal(b, &cases); err != nil {
		die("cases: %v", err)
	}
	f, err := os.Create(out)
	if err != nil {
		die("%v", err)
	}
	defer f.Close()
	enc := json.NewEncoder(f)
	enc.Encode(map[string]any{"ev": "TraceStart", "name": "layout"})

	// prepare: hash modulus 1, block 0 of segment 1 full, slot j holding BaseId(j) with the base handle.
	dir := filepath.Join(root, "layout")
	e := openEnv(dir, 1)
	defer e.close()
	// every byte of the base record is non-zero
	baseSym := SymHandle{Lid: "slot", A: "pat", B: "max", Act: true, Ver: "neg1", Ts: "neg1", Del: true}
	added := 0
	for j := 0; ; j++ {
		h := concrete(baseSym, j)
		c2, cancel := context.WithTimeout(ctx, addTimeout)
		err := e.w.Add(c2, []sop.RegistryPayload[sop.Handle]{{RegistryTable: table, IDs: []sop.Handle{h}}})
		cancel()
		if err != nil {
			die("prepare add %d: %v", j, err)
		}
		if _, err := os.Stat(segPath(dir, 2)); err == nil {
			break // record j went to a second segment file: the block holds `added` records
		}
		added++
		if j > 100000 {
			die("block never filled")
		}
	}
	segfile := segPath(dir, 1)
	readBlock := func() []byte {
		d, err := os.ReadFile(segfile)
		if err != nil || len(d) < lay.BS {
			die("read segment: %v (len %d)", err, len(d))
		}
		return d[:lay.BS]
	}
	ev := newLEvent("Prepared")
	ev.Measured = added // measured capacity of one block = handlesPerBlock
	ev.Block = blockSyms(readBlock())
	ev.CrcValid = crcValid(readBlock())
	ev.Nseg = 2
	enc.Encode(ev)

	m := encoding.NewHandleMarshaler()
	writes := 0
	for _, c := range cases {
		switch c.Kind {
		case "codec":
			h := concrete(c.H, -1)
			bytes1, err := m.Marshal(h, make([]byte, 0, sop.HandleSizeInBytes))
			ev := newLEvent("Codec")
			ev.H = c.H
			ev.Len = len(bytes1)
			if err != nil {
				ev.Res = "error"
			}
			var h2 sop.Handle
			func() {
				defer func() {
					if recover() != nil {
						ev.Res = "panic"
					}
				}()
				if err := m.Unmarshal(bytes1, &h2); err != nil {
					ev.Res = "error"
				}
			}()
			ev.Back = symbolic(h2, -1)
			if h2 != h { // exact equality of the concrete values, not only of their symbols
				ev.Back = garbled
			}
			// deterministic encoding: a second encoding is byte-identical
			bytes2, _ := m.Marshal(h, make([]byte, 0, 8))
			if string(bytes1) != string(bytes2) {
				ev.Res = "nondeterministic"
			}
			enc.Encode(ev)
		case "write":
			h := concrete(c.H, c.Slot)
			before := readBlock()
			err := e.w.UpdateNoLocks(ctx, true, []sop.RegistryPayload[sop.Handle]{{RegistryTable: table, IDs: []sop.Handle{h}}})
			after := readBlock()
			ev := newLEvent("WriteSlot")
			ev.Slot, ev.H = c.Slot, c.H
			if err != nil {
				ev.Res = "error"
			}
			bytes1, _ := m.Marshal(h, make([]byte, 0, sop.HandleSizeInBytes))
			ev.Len = len(bytes1)
			for j := 0; j < lay.N; j++ {
				if string(before[j*lay.HS:(j+1)*lay.HS]) != string(after[j*lay.HS:(j+1)*lay.HS]) {
					ev.Changed = append(ev.Changed, j)
				}
			}
			for k := lay.N * lay.HS; k < lay.BS-lay.CW; k++ {
				if before[k] != after[k] {
					ev.Outside = true
				}
			}
			ev.CrcChanged = string(before[lay.BS-lay.CW:]) != string(after[lay.BS-lay.CW:])
			ev.CrcValid = crcValid(after)
			rec := after[c.Slot*lay.HS : (c.Slot+1)*lay.HS]
			ev.Back = decodeSlot(rec, c.Slot)
			if string(rec) != string(bytes1) { // the slot holds exactly the codec's bytes
				ev.Back = garbled
			}
			if _, err := os.Stat(segPath(dir, 3)); err == nil {
				ev.Nseg = 3
			} else {
				ev.Nseg = 2
			}
			enc.Encode(ev)
			writes++
			if writes%2000 == 0 {
				ob := newLEvent("ObserveBlock")
				ob.Block = blockSyms(after)
				ob.CrcValid = crcValid(after)
				enc.Encode(ob)
			}
		default:
			die("unknown case kind %q", c.Kind)
		}
	}
	ob := newLEvent("ObserveBlock")
	blk := readBlock()
	ob.Block = blockSyms(blk)
	ob.CrcValid = crcValid(blk)
	enc.Encode(ob)
}
