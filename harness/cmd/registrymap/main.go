// registrymap: binds spec/RegistryMap.tla to the real on-disk registry (fs.NewRegistry) — C21, C24.
//
//	registrymap consts                                      layout facts measured on the real code (JSON on stdout)
//	registrymap run <programs.json> <out.ndjson> <datadir>  run programs (from TLC or hand written) on the real registry
//	registrymap tree <tries.json> <out.ndjson> <datadir> <budget-seconds>
//	                                                        run prefix trees of programs (the transitions TLC printed), each edge once,
//	                                                        restoring the segment files when the walk backs up (Save/Back lines)
//	registrymap random <out.ndjson> <datadir> <count> <ops> seeded random long programs on real 66-slot blocks
//	registrymap layout <cases.json> <out.ndjson> <datadir>  C24: codec round trips and slot writes enumerated by TLC
//
// Layout constants (extracted by the check from the source) come in through the environment:
// RM_SLOTS, RM_HANDLE, RM_BLOCK, RM_CRC.  They are used by the raw projector only, which reads the segment
// files directly and never goes through SOP's read path.
//
// The driver holds no expectation about placement or results: it logs calls, results and what the raw
// projection of the disk showed before/after; the trace specification decides.
package main

import (
	"context"
	"encoding/json"
	"errors"
	"fmt"
	"math/rand"
	"os"
	"path/filepath"
	"strconv"
	"time"

	"github.com/ncw/directio"
	"github.com/sharedcode/sop"
	"github.com/sharedcode/sop/cache"
	"github.com/sharedcode/sop/encoding"
	"github.com/sharedcode/sop/fs"
)

const table = "regt"

var lay = struct{ N, HS, BS, CW int }{66, 62, 4096, 4}

func envInt(name string, def int) int {
	if s := os.Getenv(name); s != "" {
		if v, err := strconv.Atoi(s); err == nil {
			return v
		}
	}
	return def
}

func die(f string, a ...any) {
	fmt.Fprintf(os.Stderr, "registrymap: "+f+"\n", a...)
	os.Exit(3)
}

// ---------- ids and payloads ----------

// ID is the pair Split() returns.
type ID [2]int64

func mkUUID(id ID) sop.UUID {
	var u sop.UUID
	hi, lo := uint64(id[0]), uint64(id[1])
	for i := 7; i >= 0; i-- {
		u[i] = byte(hi)
		hi >>= 8
		u[8+i] = byte(lo)
		lo >>= 8
	}
	h, l := u.Split()
	if h != uint64(id[0]) || l != uint64(id[1]) {
		die("cannot construct a UUID whose Split() is %v (got %d,%d)", id, h, l)
	}
	return u
}

func idOf(u sop.UUID) ID {
	h, l := u.Split()
	if h > 1<<31-1 || l > 1<<31-1 {
		return ID{-1, -1}
	}
	return ID{int64(h), int64(l)}
}

// mkHandle is the payload the driver writes for (id, v): every field depends on v, so that a lookup or a raw
// slot that shows another (id, v)'s bytes, or a mixture, is noticed (byte equality is checked here, the
// specification sees the version v or a negative number for "not one of the handles written").
func mkHandle(id ID, v int) sop.Handle {
	h := sop.Handle{LogicalID: mkUUID(id)}
	h.PhysicalIDA = mkUUID(ID{int64(v)*7919 + 11, id[0]*131 + id[1] + 5})
	if v%2 == 1 {
		h.PhysicalIDB = mkUUID(ID{int64(v)*104729 + 3, id[1]*17 + id[0] + 9})
	}
	h.IsActiveIDB = v%3 == 1
	h.Version = int32(v)
	h.WorkInProgressTimestamp = int64(v)*1000003 + id[1]
	h.IsDeleted = v%5 == 4
	return h
}

func payloadOf(h sop.Handle) int {
	id := idOf(h.LogicalID)
	if id[0] < 0 {
		return -2
	}
	if h.Version < 0 || mkHandle(id, int(h.Version)) != h {
		return -1
	}
	return int(h.Version)
}

// ---------- raw projector ----------

// Cell is one non-zero slot found on disk.
type Cell struct {
	S  int `json:"s"`
	B  int `json:"b"`
	I  int `json:"i"`
	ID ID  `json:"id"`
	V  int `json:"v"`
}

type projection struct {
	cells  map[[3]int]Cell
	nseg   int
	crcok  bool
	blocks map[[2]int][]byte
}

func segPath(dir string, i int) string {
	return filepath.Join(dir, table, fmt.Sprintf("%s-%d.reg", table, i))
}

func crc32ieee(b []byte) uint32 {
	// own table-less implementation: independent of the code under test
	crc := ^uint32(0)
	for _, x := range b {
		crc ^= uint32(x)
		for k := 0; k < 8; k++ {
			if crc&1 == 1 {
				crc = crc>>1 ^ 0xEDB88320
			} else {
				crc >>= 1
			}
		}
	}
	return ^crc
}

func allZero(b []byte) bool {
	for _, x := range b {
		if x != 0 {
			return false
		}
	}
	return true
}

// decodeRaw decodes the 62-byte record layout without SOP's codec.
func decodeRaw(b []byte) sop.Handle {
	var h sop.Handle
	copy(h.LogicalID[:], b[0:16])
	copy(h.PhysicalIDA[:], b[16:32])
	copy(h.PhysicalIDB[:], b[32:48])
	h.IsActiveIDB = b[48] == 1
	h.Version = int32(uint32(b[49]) | uint32(b[50])<<8 | uint32(b[51])<<16 | uint32(b[52])<<24)
	var ts uint64
	for k := 7; k >= 0; k-- {
		ts = ts<<8 | uint64(b[53+k])
	}
	h.WorkInProgressTimestamp = int64(ts)
	h.IsDeleted = b[61] == 1
	return h
}

// project reads every segment file directly and decodes every non-zero slot.
func project(dir string, mod int, keepBlocks bool) projection {
	p := projection{cells: map[[3]int]Cell{}, crcok: true}
	if keepBlocks {
		p.blocks = map[[2]int][]byte{}
	}
	m := encoding.NewHandleMarshaler()
	for s := 1; ; s++ {
		data, err := os.ReadFile(segPath(dir, s))
		if err != nil {
			break
		}
		p.nseg = s
		if len(data) != mod*lay.BS {
			p.crcok = false // a segment file of unexpected size is reported as a damaged block
		}
		for b := 0; (b+1)*lay.BS <= len(data); b++ {
			blk := data[b*lay.BS : (b+1)*lay.BS]
			if keepBlocks {
				p.blocks[[2]int{s, b}] = append([]byte(nil), blk...)
			}
			if allZero(blk) {
				continue
			}
			want := crc32ieee(blk[:lay.BS-lay.CW])
			got := uint32(0)
			for k := lay.CW - 1; k >= 0; k-- {
				got = got<<8 | uint32(blk[lay.BS-lay.CW+k])
			}
			if want != got {
				p.crcok = false
			}
			for i := 0; i < lay.N && (i+1)*lay.HS <= lay.BS; i++ {
				rec := blk[i*lay.HS : (i+1)*lay.HS]
				if allZero(rec) {
					continue
				}
				var h sop.Handle
				v := -3
				if lay.HS == 62 {
					h = decodeRaw(rec)
					var h2 sop.Handle
					if err := m.Unmarshal(rec, &h2); err == nil && h2 == h {
						v = payloadOf(h)
					}
				} else if err := m.Unmarshal(rec, &h); err == nil {
					v = payloadOf(h)
				}
				p.cells[[3]int{s, b, i}] = Cell{S: s, B: b, I: i, ID: idOf(h.LogicalID), V: v}
			}
		}
	}
	return p
}

func (p projection) list() []Cell {
	out := make([]Cell, 0, len(p.cells))
	for s := 1; s <= p.nseg; s++ {
		for k, c := range p.cells {
			if k[0] == s {
				out = append(out, c)
			}
		}
	}
	return out
}

// diff returns the cells that are new or changed (wrote) and the old cells that are gone or were overwritten (erased).
func diff(a, b projection) (wrote, erased []Cell) {
	wrote, erased = []Cell{}, []Cell{}
	for k, c := range b.cells {
		if o, ok := a.cells[k]; !ok || o != c {
			wrote = append(wrote, c)
		}
	}
	for k, o := range a.cells {
		if c, ok := b.cells[k]; !ok || o != c {
			erased = append(erased, o)
		}
	}
	return
}

// ---------- the registry under test ----------

type env struct {
	dir    string
	mod    int
	l2w    sop.L2Cache
	w      fs.Registry
	l2r    sop.L2Cache
	r      fs.Registry
	before projection
}

var sharedL2w, sharedL2r sop.L2Cache

func openEnv(dir string, mod int) *env {
	ctx := context.Background()
	if err := os.MkdirAll(filepath.Join(dir, table), 0o755); err != nil {
		die("mkdir: %v", err)
	}
	e := &env{dir: dir, mod: mod}
	// one pair of L2 caches per process, emptied for every new registry (cheaper than 1024 fresh shard maps)
	if sharedL2w == nil {
		sharedL2w, sharedL2r = cache.NewL2InMemoryCache(), cache.NewL2InMemoryCache()
	}
	sharedL2w.Clear(ctx)
	sharedL2r.Clear(ctx)
	e.l2w = sharedL2w
	rt, err := fs.NewReplicationTracker(ctx, []string{dir}, false, e.l2w)
	if err != nil {
		die("replication tracker: %v", err)
	}
	e.w = fs.NewRegistry(true, mod, rt, e.l2w)
	e.l2r = sharedL2r
	rt2, err := fs.NewReplicationTracker(ctx, []string{dir}, false, e.l2r)
	if err != nil {
		die("replication tracker: %v", err)
	}
	e.r = fs.NewRegistry(false, mod, rt2, e.l2r)
	e.before = project(dir, mod, false)
	return e
}

func (e *env) close() {
	e.w.Close()
	e.r.Close()
}

// Event is one ndjson line.
type Event struct {
	Ev     string  `json:"ev"`
	Name   string  `json:"name,omitempty"`
	Mod    int     `json:"mod"`
	IDs    []ID    `json:"ids"`
	Vals   []int   `json:"vals"`
	Batch  bool    `json:"batch"`
	Res    string  `json:"res"`
	Err    string  `json:"err,omitempty"`
	Wrote  []Cell  `json:"wrote"`
	Erased []Cell  `json:"erased"`
	Cells  []Cell  `json:"cells"`
	Found  []Found `json:"found"`
	Nseg   int     `json:"nseg"`
	CrcOK  bool    `json:"crcok"`
	N      int     `json:"n"`    // Back: number of records on the restored disk
	Save   bool    `json:"save"` // the segment files were saved before this call (tree walk)
}

type Found struct {
	ID ID  `json:"id"`
	V  int `json:"v"`
}

type Op struct {
	Op    string `json:"op"`
	IDs   []ID   `json:"ids"`
	Vals  []int  `json:"vals"`
	Batch bool   `json:"batch"`
}

var addTimeout = 2 * time.Second

func (e *env) apply(op Op) Event {
	ctx := context.Background()
	ev := Event{Ev: op.Op, Mod: e.mod, IDs: op.IDs, Vals: op.Vals, Batch: op.Batch, Res: "ok",
		Wrote: []Cell{}, Erased: []Cell{}, Cells: []Cell{}, Found: []Found{}, CrcOK: true}
	if ev.Vals == nil {
		ev.Vals = []int{}
	}
	var err error
	switch op.Op {
	case "Add":
		hs := make([]sop.Handle, len(op.IDs))
		for k := range op.IDs {
			hs[k] = mkHandle(op.IDs[k], op.Vals[k])
		}
		// An Add of an id the search finds never returns before its deadline: bound it.
		c2, cancel := context.WithTimeout(ctx, addTimeout)
		err = e.w.Add(c2, []sop.RegistryPayload[sop.Handle]{{RegistryTable: table, IDs: hs}})
		cancel()
		if err != nil && (errors.Is(err, context.DeadlineExceeded) || c2.Err() != nil) {
			// Timed out.  An Add of a present id blocks by design of the code; an Add of absent ids only times out
			// when the machine is overloaded: tell the two apart by looking the ids up, and give the latter its time.
			e.l2w.Clear(ctx) // drop the slot locks the abandoned call may have left
			ids := make([]sop.UUID, len(hs))
			for k := range hs {
				ids[k] = hs[k].LogicalID
			}
			got, gerr := e.w.Get(ctx, []sop.RegistryPayload[sop.UUID]{{RegistryTable: table, IDs: ids}})
			present := gerr != nil
			for _, g := range got {
				if len(g.IDs) > 0 {
					present = true
				}
			}
			if !present {
				c3, cancel3 := context.WithTimeout(ctx, 60*time.Second)
				err = e.w.Add(c3, []sop.RegistryPayload[sop.Handle]{{RegistryTable: table, IDs: hs}})
				cancel3()
			}
		}
		if err != nil {
			if errors.Is(err, context.DeadlineExceeded) || c2.Err() != nil {
				ev.Res = "blocked"
				e.l2w.Clear(ctx) // drop the slot locks the abandoned call may have left
			} else {
				ev.Res = "error"
			}
		}
	case "Set":
		hs := make([]sop.Handle, len(op.IDs))
		for k := range op.IDs {
			hs[k] = mkHandle(op.IDs[k], op.Vals[k])
		}
		pl := []sop.RegistryPayload[sop.Handle]{{RegistryTable: table, IDs: hs}}
		if op.Batch {
			err = e.w.UpdateNoLocks(ctx, true, pl)
		} else {
			err = e.w.Update(ctx, pl)
		}
		if err != nil {
			ev.Res = "error"
		}
	case "Remove":
		us := make([]sop.UUID, len(op.IDs))
		for k := range op.IDs {
			us[k] = mkUUID(op.IDs[k])
		}
		err = e.w.Remove(ctx, []sop.RegistryPayload[sop.UUID]{{RegistryTable: table, IDs: us}})
		if err != nil {
			ev.Res = "notfound"
			if !contains(err.Error(), "was not found") {
				ev.Res = "error"
			}
		}
	case "Get":
		us := make([]sop.UUID, len(op.IDs))
		for k := range op.IDs {
			us[k] = mkUUID(op.IDs[k])
		}
		e.l2r.Clear(ctx) // cold lookup: disk truth
		var got []sop.RegistryPayload[sop.Handle]
		got, err = e.r.Get(ctx, []sop.RegistryPayload[sop.UUID]{{RegistryTable: table, IDs: us}})
		if err != nil {
			ev.Res = "error"
		} else {
			for _, p := range got {
				for _, h := range p.IDs {
					ev.Found = append(ev.Found, Found{ID: idOf(h.LogicalID), V: payloadOf(h)})
				}
			}
		}
		ev.Nseg = e.before.nseg
		if err != nil {
			ev.Err = err.Error()
		}
		return ev
	default:
		die("unknown op %q", op.Op)
	}
	if err != nil {
		ev.Err = err.Error()
	}
	after := project(e.dir, e.mod, false)
	ev.Wrote, ev.Erased = diff(e.before, after)
	ev.Nseg = after.nseg
	ev.CrcOK = after.crcok
	e.before = after
	return ev
}

func contains(s, sub string) bool {
	for i := 0; i+len(sub) <= len(s); i++ {
		if s[i:i+len(sub)] == sub {
			return true
		}
	}
	return false
}

func (e *env) observe() Event {
	p := project(e.dir, e.mod, false)
	return Event{Ev: "Observe", Mod: e.mod, IDs: []ID{}, Vals: []int{}, Res: "ok", Wrote: []Cell{}, Erased: []Cell{},
		Cells: p.list(), Found: []Found{}, Nseg: p.nseg, CrcOK: p.crcok}
}

// ---------- output ----------

type writer struct {
	f   *os.File
	enc *json.Encoder
}

func newWriter(path string) *writer {
	f, err := os.Create(path)
	if err != nil {
		die("create %s: %v", path, err)
	}
	return &writer{f: f, enc: json.NewEncoder(f)}
}

func (w *writer) start(name string) { w.enc.Encode(map[string]any{"ev": "TraceStart", "name": name}) }
func (w *writer) put(ev Event)      { w.enc.Encode(ev) }

// ---------- programs ----------

// Program is a call sequence.  Live > 0: the blocks are real 66-slot blocks whose slots Live..65 are kept full
// by filler records in every one of Segs segment files, so that the real block behaves as the Live-slot block of
// the exhaustive model.
type Program struct {
	Name string `json:"name"`
	Mod  int    `json:"mod"`
	Live int    `json:"live"`
	Segs int    `json:"segs"`
	Ops  []Op   `json:"ops"`
	// GetAll: ids looked up (cold) after every mutating call
	GetAll []ID `json:"getall"`
}

func copyDir(src, dst string) {
	os.MkdirAll(dst, 0o755)
	ents, err := os.ReadDir(src)
	if err != nil {
		die("readdir %s: %v", src, err)
	}
	for _, en := range ents {
		if en.IsDir() {
			copyDir(filepath.Join(src, en.Name()), filepath.Join(dst, en.Name()))
			continue
		}
		b, err := os.ReadFile(filepath.Join(src, en.Name()))
		if err != nil {
			die("read: %v", err)
		}
		if err := os.WriteFile(filepath.Join(dst, en.Name()), b, 0o644); err != nil {
			die("write: %v", err)
		}
	}
}

// fillerID: ideal slot j, block b, unique per segment.
func fillerID(mod, b, s, j int) ID {
	return ID{int64(b + mod*(900+s)), int64(j + lay.N*(100+s))}
}

// makeSnapshot prepares a registry whose blocks have only the slots 0..live-1 free in each of segs segment files.
// The whole preparation is itself logged as a trace (validated like any other).
func makeSnapshot(w *writer, root string, mod, live, segs int) string {
	dir := filepath.Join(root, fmt.Sprintf("snap-m%d-l%d-s%d", mod, live, segs))
	if _, err := os.Stat(dir); err == nil {
		return dir
	}
	e := openEnv(dir, mod)
	w.start(fmt.Sprintf("fill-m%d-l%d-s%d", mod, live, segs))
	w.put(setupEvent(e))
	for b := 0; b < mod; b++ {
		for s := 1; s <= segs; s++ {
			for j := 0; j < lay.N; j++ {
				w.put(e.apply(Op{Op: "Add", IDs: []ID{fillerID(mod, b, s, j)}, Vals: []int{1}}))
			}
		}
	}
	for b := 0; b < mod; b++ {
		for s := segs; s >= 1; s-- {
			for j := 0; j < live; j++ {
				w.put(e.apply(Op{Op: "Remove", IDs: []ID{fillerID(mod, b, s, j)}}))
			}
		}
	}
	w.put(e.observe())
	e.close()
	return dir
}

func setupEvent(e *env) Event {
	ev := e.observe()
	ev.Ev = "Setup"
	return ev
}

func runPrograms(progFile, out, root string) {
	var progs []Program
	b, err := os.ReadFile(progFile)
	if err != nil {
		die("%v", err)
	}
	if err := json.Unmarshal(b, &progs); err != nil {
		die("programs: %v", err)
	}
	w := newWriter(out)
	defer w.f.Close()
	for n, p := range progs {
		dir := filepath.Join(root, fmt.Sprintf("p%d", n))
		if p.Live > 0 {
			snap := makeSnapshot(w, root, p.Mod, p.Live, p.Segs)
			copyDir(snap, dir)
		}
		e := openEnv(dir, p.Mod)
		w.start(p.Name)
		w.put(setupEvent(e))
		for _, op := range p.Ops {
			w.put(e.apply(op))
			if op.Op != "Get" && len(p.GetAll) > 0 {
				w.put(e.apply(Op{Op: "Get", IDs: p.GetAll}))
			}
		}
		w.put(e.observe())
		e.close()
		os.RemoveAll(dir)
	}
}

// ---------- prefix trees of programs ----------

// Node is one call of a program; its children are the calls that programs sharing this prefix make next.
type Node struct {
	Op       *Op     `json:"op,omitempty"`
	Children []*Node `json:"children"`
}

type Tree struct {
	Name   string `json:"name"`
	Mod    int    `json:"mod"`
	Live   int    `json:"live"`
	Segs   int    `json:"segs"`
	GetAll []ID   `json:"getall"`
	Root   *Node  `json:"root"`
}

type snapshot map[string][]byte

func takeSnapshot(dir string) snapshot {
	sn := snapshot{}
	ents, err := os.ReadDir(filepath.Join(dir, table))
	if err != nil {
		die("snapshot: %v", err)
	}
	for _, en := range ents {
		if en.IsDir() {
			continue
		}
		b, err := os.ReadFile(filepath.Join(dir, table, en.Name()))
		if err != nil {
			die("snapshot: %v", err)
		}
		sn[en.Name()] = b
	}
	return sn
}

func restoreSnapshot(dir string, sn snapshot) {
	ents, _ := os.ReadDir(filepath.Join(dir, table))
	for _, en := range ents {
		if _, ok := sn[en.Name()]; !ok {
			os.RemoveAll(filepath.Join(dir, table, en.Name()))
		}
	}
	for name, b := range sn {
		if err := os.WriteFile(filepath.Join(dir, table, name), b, 0o644); err != nil {
			die("restore: %v", err)
		}
	}
}

type walker struct {
	w        *writer
	dir      string
	t        *Tree
	deadline time.Time
	edges    int
	skipped  int
}

func countEdges(n *Node) int {
	c := 0
	for _, ch := range n.Children {
		c += 1 + countEdges(ch)
	}
	return c
}

func (k *walker) walk(e *env, n *Node) *env {
	for _, ch := range n.Children {
		if time.Now().After(k.deadline) {
			k.skipped += 1 + countEdges(ch)
			continue
		}
		sn := takeSnapshot(k.dir)
		ev := e.apply(*ch.Op)
		ev.Save = true
		k.w.put(ev)
		k.edges++
		if len(k.t.GetAll) > 0 {
			k.w.put(e.apply(Op{Op: "Get", IDs: k.t.GetAll}))
		}
		e = k.walk(e, ch)
		// back up: put the files back as they were before this call, with a fresh registry on top
		e.close()
		restoreSnapshot(k.dir, sn)
		e = openEnv(k.dir, k.t.Mod)
		// the restored disk, as the projector saw it when the registry was reopened (its size only: the walk owns the restore)
		k.w.put(Event{Ev: "Back", Mod: e.mod, IDs: []ID{}, Vals: []int{}, Res: "ok", Wrote: []Cell{}, Erased: []Cell{}, Cells: []Cell{},
			Found: []Found{}, Nseg: e.before.nseg, CrcOK: e.before.crcok, N: len(e.before.cells)})
	}
	return e
}

func runTrees(treeFile, out, root string, budget time.Duration) {
	var trees []Tree
	b, err := os.ReadFile(treeFile)
	if err != nil {
		die("%v", err)
	}
	if err := json.Unmarshal(b, &trees); err != nil {
		die("trees: %v", err)
	}
	w := newWriter(out)
	defer w.f.Close()
	start := time.Now()
	total, done, skipped := 0, 0, 0
	for n := range trees {
		t := &trees[n]
		dir := filepath.Join(root, fmt.Sprintf("t%d", n))
		if t.Live > 0 {
			snap := makeSnapshot(w, root, t.Mod, t.Live, t.Segs)
			copyDir(snap, dir)
		}
		e := openEnv(dir, t.Mod)
		w.start(t.Name)
		w.put(setupEvent(e))
		// every tree gets an equal share of what is left of the budget
		share := (budget - time.Since(start)) / time.Duration(len(trees)-n)
		k := &walker{w: w, dir: dir, t: t, deadline: time.Now().Add(share)}
		e = k.walk(e, t.Root)
		w.put(e.observe())
		e.close()
		os.RemoveAll(dir)
		total += countEdges(t.Root)
		done += k.edges
		skipped += k.skipped
	}
	json.NewEncoder(os.Stdout).Encode(map[string]int{"edges_total": total, "edges_run": done, "edges_skipped": skipped})
}

// ---------- random programs on real blocks ----------

func randomPrograms(out, root string, count, nops int) {
	seed := int64(envInt("VERIF_SEED", 1))
	w := newWriter(out)
	defer w.f.Close()
	mods := []int{1, 2, 3, 4, 250}
	for n := 0; n < count; n++ {
		rng := rand.New(rand.NewSource(seed*1000003 + int64(n)))
		mod := mods[n%len(mods)]
		dir := filepath.Join(root, fmt.Sprintf("r%d", n))
		e := openEnv(dir, mod)
		w.start(fmt.Sprintf("random-%d-mod%d", n, mod))
		w.put(setupEvent(e))
		// id pool: two blocks, a handful of ideal slots, many ids per (block, slot): heavy collisions, and
		// more ids than one block holds so that entries overflow into further segment files
		nslots := 1 + rng.Intn(3)
		slots := make([]int, nslots)
		for k := range slots {
			slots[k] = rng.Intn(lay.N)
		}
		blocks := []int{rng.Intn(mod), rng.Intn(mod)}
		poolSize := lay.N + 20 + rng.Intn(lay.N*2)
		if n%3 == 2 {
			poolSize = 6 + rng.Intn(10) // small pools: long histories over few ids
		}
		pool := make([]ID, poolSize)
		for k := range pool {
			b := blocks[0]
			if rng.Intn(5) == 0 {
				b = blocks[1]
			}
			pool[k] = ID{int64(b + mod*(k+1)), int64(slots[rng.Intn(nslots)] + lay.N*(k+1))}
		}
		ver := 0
		onDisk := func() map[ID]bool {
			m := map[ID]bool{}
			for _, c := range e.before.cells {
				m[c.ID] = true
			}
			return m
		}
		pick := func(want bool, present map[ID]bool) (ID, bool) {
			for try := 0; try < 40; try++ {
				id := pool[rng.Intn(len(pool))]
				if present[id] == want {
					return id, true
				}
			}
			return ID{}, false
		}
		// fill phase: push the first block towards and beyond full
		fill := 0
		if poolSize > lay.N {
			fill = lay.N/2 + rng.Intn(poolSize-lay.N/2)
		}
		blockedLeft := 1
		for k := 0; k < nops; k++ {
			present := onDisk()
			var op Op
			r := rng.Intn(100)
			if k < fill {
				r = 0
			}
			switch {
			case r < 30: // add absent (1 or 2 ids)
				id, ok := pick(false, present)
				if !ok {
					continue
				}
				ver++
				op = Op{Op: "Add", IDs: []ID{id}, Vals: []int{ver}}
				if rng.Intn(6) == 0 {
					if id2, ok := pick(false, present); ok && id2 != id {
						ver++
						op.IDs = append(op.IDs, id2)
						op.Vals = append(op.Vals, ver)
					}
				}
			case r < 60: // update present (single with locks, or batch without)
				id, ok := pick(true, present)
				if !ok {
					continue
				}
				ver++
				op = Op{Op: "Set", IDs: []ID{id}, Vals: []int{ver}, Batch: rng.Intn(2) == 0}
				if rng.Intn(4) == 0 {
					if id2, ok := pick(true, present); ok && id2 != id {
						ver++
						op.IDs = append(op.IDs, id2)
						op.Vals = append(op.Vals, ver)
					}
				}
			case r < 85: // remove present
				id, ok := pick(true, present)
				if !ok {
					continue
				}
				op = Op{Op: "Remove", IDs: []ID{id}}
				if rng.Intn(5) == 0 {
					if id2, ok := pick(true, present); ok && id2 != id {
						op.IDs = append(op.IDs, id2)
					}
				}
			case r < 90: // remove absent
				id, ok := pick(false, present)
				if !ok {
					continue
				}
				op = Op{Op: "Remove", IDs: []ID{id}}
			case r < 94: // update of an absent id (upsert)
				id, ok := pick(false, present)
				if !ok {
					continue
				}
				ver++
				op = Op{Op: "Set", IDs: []ID{id}, Vals: []int{ver}, Batch: rng.Intn(2) == 0}
			case r < 95 && blockedLeft > 0 && k > nops/2: // add of an id that is there: never returns before its deadline
				id, ok := pick(true, present)
				if !ok {
					continue
				}
				blockedLeft--
				ver++
				op = Op{Op: "Add", IDs: []ID{id}, Vals: []int{ver}}
			default:
				op = Op{Op: "Get", IDs: []ID{pool[rng.Intn(len(pool))], pool[rng.Intn(len(pool))], pool[rng.Intn(len(pool))]}}
			}
			w.put(e.apply(op))
			if op.Op != "Get" {
				// cold lookups of the ids just touched and of a few others
				ids := append([]ID{}, op.IDs...)
				ids = append(ids, pool[rng.Intn(len(pool))])
				w.put(e.apply(Op{Op: "Get", IDs: ids}))
			}
			if k%40 == 39 {
				w.put(e.observe())
				w.put(e.apply(Op{Op: "Get", IDs: pool}))
			}
		}
		w.put(e.observe())
		w.put(e.apply(Op{Op: "Get", IDs: pool}))
		e.close()
		os.RemoveAll(dir)
	}
}

func main() {
	lay.N = envInt("RM_SLOTS", 66)
	lay.HS = envInt("RM_HANDLE", 62)
	lay.BS = envInt("RM_BLOCK", 4096)
	lay.CW = envInt("RM_CRC", 4)
	if len(os.Args) < 2 {
		die("usage: registrymap consts|run|random|layout ...")
	}
	switch os.Args[1] {
	case "consts":
		consts()
	case "run":
		if len(os.Args) != 5 {
			die("usage: run <programs.json> <out.ndjson> <datadir>")
		}
		runPrograms(os.Args[2], os.Args[3], os.Args[4])
	case "tree":
		if len(os.Args) != 6 {
			die("usage: tree <tries.json> <out.ndjson> <datadir> <budget-seconds>")
		}
		bs, _ := strconv.Atoi(os.Args[5])
		runTrees(os.Args[2], os.Args[3], os.Args[4], time.Duration(bs)*time.Second)
	case "random":
		if len(os.Args) != 6 {
			die("usage: random <out.ndjson> <datadir> <count> <ops>")
		}
		c, _ := strconv.Atoi(os.Args[4])
		o, _ := strconv.Atoi(os.Args[5])
		randomPrograms(os.Args[2], os.Args[3], c, o)
	case "layout":
		if len(os.Args) != 5 {
			die("usage: layout <cases.json> <out.ndjson> <datadir>")
		}
		layoutCases(os.Args[2], os.Args[3], os.Args[4])
	default:
		die("unknown command %s", os.Args[1])
	}
}

var _ = directio.BlockSize
