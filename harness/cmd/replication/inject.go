package main

// Fault injection and scheduling seams for the replication driver:
//  * dioSim   — fs.DirectIO wrapper (installed as fs.DirectIOSim) failing Open/WriteAt on files under a path prefix
//  * gateL2   — sop.L2Cache wrapper registered as the sop.InMemory factory; parks the goroutine running
//               ReinstateFailedDrives at chosen L2 calls so that other transactions can run in between
//  * path-shape conflicts on the passive folder (the sandbox runs as root: permission bits do not stop writes)

import (
	"context"
	"os"
	"path/filepath"
	"strings"
	"sync"
	"sync/atomic"
	"syscall"
	"time"

	"github.com/sharedcode/sop"
	"github.com/sharedcode/sop/fs"
)

// ---------------------------------------------------------------- DirectIO simulator
type dioSim struct {
	base fs.DirectIO
	mu   sync.Mutex
	// armed configuration
	prefix   string // only files under this prefix are affected ("" = disarmed)
	failOpen bool
	nth      int  // fail the nth WriteAt (1-based) on matching files; 0 = none
	keep     bool // keep failing afterwards
	writes   int
	hits     int
	paths    map[uintptr]string
}

func newDioSim() *dioSim { return &dioSim{base: fs.NewDirectIO(), paths: map[uintptr]string{}} }

func (d *dioSim) arm(prefix string, failOpen bool, nth int, keep bool) {
	d.mu.Lock()
	d.prefix, d.failOpen, d.nth, d.keep, d.writes, d.hits = prefix, failOpen, nth, keep, 0, 0
	d.mu.Unlock()
}
func (d *dioSim) disarm() int {
	d.mu.Lock()
	defer d.mu.Unlock()
	d.prefix = ""
	h := d.hits
	d.hits = 0
	return h
}

var errEIO = sop.Error{Code: sop.FileIOErrorFailoverQualified, Err: syscall.EIO}

func (d *dioSim) Open(ctx context.Context, filename string, flag int, perm os.FileMode) (*os.File, error) {
	d.mu.Lock()
	if d.prefix != "" && d.failOpen && strings.HasPrefix(filename, d.prefix) {
		d.hits++
		d.mu.Unlock()
		return nil, errEIO
	}
	d.mu.Unlock()
	f, err := d.base.Open(ctx, filename, flag, perm)
	if err == nil {
		d.mu.Lock()
		d.paths[f.Fd()] = filename
		d.mu.Unlock()
	}
	return f, err
}

func (d *dioSim) WriteAt(ctx context.Context, file *os.File, block []byte, offset int64) (int, error) {
	d.mu.Lock()
	if d.prefix != "" && d.nth > 0 && strings.HasPrefix(d.paths[file.Fd()], d.prefix) {
		d.writes++
		if d.writes == d.nth || (d.keep && d.writes > d.nth) {
			d.hits++
			d.mu.Unlock()
			return 0, errEIO
		}
	}
	d.mu.Unlock()
	return d.base.WriteAt(ctx, file, block, offset)
}

func (d *dioSim) ReadAt(ctx context.Context, file *os.File, block []byte, offset int64) (int, error) {
	return d.base.ReadAt(ctx, file, block, offset)
}

func (d *dioSim) Close(file *os.File) error {
	d.mu.Lock()
	delete(d.paths, file.Fd())
	d.mu.Unlock()
	return d.base.Close(file)
}

// ---------------------------------------------------------------- L2 gate
// gateL2 forwards everything to the inner cache.  When a predicate is armed, the first matching call parks its
// goroutine (only the reinstate goroutine runs while a predicate is armed: the driver's main goroutine waits).
type gateL2 struct {
	sop.L2Cache
	mu      sync.Mutex
	pred    func(kind, key string) bool
	reached chan string
	resume  chan struct{}
	calls   int64
}

func newGateL2(inner sop.L2Cache) *gateL2 {
	return &gateL2{L2Cache: inner, reached: make(chan string, 1), resume: make(chan struct{})}
}

func (g *gateL2) arm(p func(kind, key string) bool) { g.mu.Lock(); g.pred = p; g.mu.Unlock() }

func (g *gateL2) check(kind, key string) {
	atomic.AddInt64(&g.calls, 1)
	g.mu.Lock()
	p := g.pred
	if p != nil && p(kind, key) {
		g.pred = nil
		g.mu.Unlock()
		g.reached <- kind + " " + key
		<-g.resume
		return
	}
	g.mu.Unlock()
}

func (g *gateL2) GetStruct(ctx context.Context, key string, target interface{}) (bool, error) {
	g.check("GetStruct", key)
	return g.L2Cache.GetStruct(ctx, key, target)
}
func (g *gateL2) GetStructEx(ctx context.Context, key string, target interface{}, exp time.Duration) (bool, error) {
	g.check("GetStructEx", key)
	return g.L2Cache.GetStructEx(ctx, key, target, exp)
}
func (g *gateL2) SetStruct(ctx context.Context, key string, v interface{}, exp time.Duration) error {
	g.check("SetStruct", key)
	return g.L2Cache.SetStruct(ctx, key, v, exp)
}
func (g *gateL2) DualLock(ctx context.Context, d time.Duration, ks []*sop.LockKey) (bool, sop.UUID, error) {
	k := ""
	if len(ks) > 0 {
		k = ks[0].Key
	}
	g.check("DualLock", k)
	return g.L2Cache.DualLock(ctx, d, ks)
}

// ---------------------------------------------------------------- path-shape conflicts
// blockWithDir puts a directory where a file is expected (a WriteFile on it fails with EISDIR); the file that was
// there is set aside and put back by the returned undo, so the injection itself loses nothing.
func blockWithDir(path string) func() {
	sav := path + ".verifsav"
	had := os.Rename(path, sav) == nil
	os.MkdirAll(path, 0o755)
	os.WriteFile(filepath.Join(path, "x"), []byte("x"), 0o644)
	return func() {
		os.RemoveAll(path)
		if had {
			os.Rename(sav, path)
		}
	}
}

// blockWithFile puts a regular file where a directory is expected (MkdirAll / WriteFile below it fail with ENOTDIR).
func blockWithFile(path string) func() {
	os.RemoveAll(path)
	os.MkdirAll(filepath.Dir(path), 0o755)
	os.WriteFile(path, []byte("not a directory"), 0o644)
	return func() { os.Remove(path) }
}

// virtual clock offset for sop.Now (only used to cut short the 3-minute registry sector wait when reinstate blocks)
var nowOffset int64

func installClock() {
	sop.Now = func() time.Time { return time.Now().Add(time.Duration(atomic.LoadInt64(&nowOffset))) }
}
