// Command replication drives the real SOP filesystem backend on a replicated layout (two stores base folders +
// erasure-coded blob drives) for property C27 and records one ndjson event per step.
//
//	replication run  <programs.json> <workroot> <out.ndjson> [parallel]   every program in a fresh child process
//	replication one  <root>                                               (child) program on stdin, events on stdout
//	replication dump <root>                                               (grand-child) fresh-process API dump
package main

import (
	"bufio"
	"bytes"
	"context"
	"encoding/json"
	"fmt"
	"math/rand"
	"os"
	"os/exec"
	"path/filepath"
	"sort"
	"strings"
	"sync"
	"sync/atomic"
	"time"

	"github.com/sharedcode/sop"
	"github.com/sharedcode/sop/btree"
	"github.com/sharedcode/sop/cache"
	"github.com/sharedcode/sop/common"
	"github.com/sharedcode/sop/fs"
	"github.com/sharedcode/sop/infs"
)

// ---------------------------------------------------------------- program format
type Step struct {
	Op     string  `json:"op"` // begin create work commit drop wipe reinstate failover observe apidump
	T      string  `json:"t,omitempty"`
	S      string  `json:"s,omitempty"`
	Kind   string  `json:"kind,omitempty"` // work: add | upd | rem
	N      int     `json:"n,omitempty"`
	Fault  string  `json:"fault,omitempty"` // commit: info-dir reg-write reg-write-keep reg-open; create: list-dir store-file; drop: list-dir
	FS     string  `json:"fs,omitempty"`    // store targeted by info-dir
	Nth    int     `json:"nth,omitempty"`   // reg-write: which WriteAt fails
	Force  int     `json:"force,omitempty"` // apidump: 0 = the fresh process decides, 1|2 = that folder is made active
	Pauses []Pause `json:"pauses,omitempty"`
}
type Pause struct {
	At    string `json:"at"` // C<k> | B
	Steps []Step `json:"steps"`
}
type Program struct {
	Name  string `json:"name"`
	Seed  int64  `json:"seed"`
	Slot  int    `json:"slot"`
	Steps []Step `json:"steps"`
}

// ---------------------------------------------------------------- layout
type layout struct {
	Root    string
	Folders []string
	EC      map[string]sop.ErasureCodingConfig
}

func newLayout(root string) *layout {
	l := &layout{Root: root}
	l.Folders = []string{filepath.Join(root, "f1"), filepath.Join(root, "f2")}
	l.EC = map[string]sop.ErasureCodingConfig{"": {DataShardsCount: 2, ParityShardsCount: 1,
		BaseFolderPathsAcrossDrives: []string{filepath.Join(root, "d1"), filepath.Join(root, "d2"), filepath.Join(root, "d3")},
		RepairCorruptedShards:       false}}
	for _, f := range l.Folders {
		os.MkdirAll(f, 0o755)
	}
	for _, f := range l.EC[""].BaseFolderPathsAcrossDrives {
		os.MkdirAll(f, 0o755)
	}
	return l
}

func (l *layout) opts(mode sop.TransactionMode) sop.TransactionOptions {
	return sop.TransactionOptions{Mode: mode, MaxTime: 2 * time.Minute, RegistryHashModValue: fs.MinimumModValue,
		StoresFolders: l.Folders, ErasureConfig: l.EC, CacheType: sop.InMemory}
}

// ---------------------------------------------------------------- events
type HRec struct {
	Lid string `json:"lid"`
	Img string `json:"img"`
}
type InfoRec struct {
	C int64  `json:"c"` // count
	R string `json:"r"` // every other field, canonical ("" = no storeinfo.txt)
}
type StoreImg struct {
	S    string  `json:"s"`
	Info InfoRec `json:"info"`
	Reg  []HRec  `json:"reg"`
}
type SideImg struct {
	List   []string   `json:"list"`
	Stores []StoreImg `json:"stores"` // every store folder present (listed or not)
	Bad    []string   `json:"bad"`
}
type Change struct {
	S    string  `json:"s"`
	Info InfoRec `json:"info"`
	IC   bool    `json:"ic"` // the store info changed (its count did): it is rewritten, replicated and logged
	Add  []HRec  `json:"add"`
	Set  []HRec  `json:"set"`
	Rem  []HRec  `json:"rem"`
}
type KV struct {
	K int `json:"k"`
	V int `json:"v"`
}
type Work struct {
	S   string `json:"s"`
	Put []KV   `json:"put"`
	Del []int  `json:"del"`
}
type RS struct {
	Present bool `json:"present"`
	Failed  bool `json:"failed"`
	Toggler bool `json:"toggler"`
	Logging bool `json:"logging"`
}

type Event map[string]any

type runner struct {
	l       *layout
	ctx     context.Context
	out     *json.Encoder
	rng     *rand.Rand
	slot    int
	dio     *dioSim
	gate    *gateL2
	txns    map[string]*openTxn
	valCtr  int
	selfExe string
	flush   func()
}

type openTxn struct {
	act   int // active folder (1-based) when the transaction was created: the folder its tracker writes to
	tx    sop.Transaction
	trees map[string]btree.BtreeInterface[int, int]
	put   map[string]map[int]int
	del   map[string]map[int]bool
	order []string
}

func (r *runner) emit(e Event) {
	if err := r.out.Encode(e); err != nil {
		panic(err)
	}
	r.flush()
}

// active folder index (1-based) as this process sees it
func (r *runner) act() int {
	g := fs.GlobalReplicationDetails
	if g == nil || g.ActiveFolderToggler {
		return 1
	}
	return 2
}
func (r *runner) activeFolder() string  { return r.l.Folders[r.act()-1] }
func (r *runner) passiveFolder() string { return r.l.Folders[2-r.act()] }

func splitInfo(ci string) InfoRec {
	if ci == "" {
		return InfoRec{}
	}
	var c int64
	parts := strings.Split(ci, ";")
	rest := make([]string, 0, len(parts))
	for _, p := range parts {
		if strings.HasPrefix(p, "count=") {
			fmt.Sscanf(p, "count=%d", &c)
			continue
		}
		rest = append(rest, p)
	}
	return InfoRec{C: c, R: strings.Join(rest, ";")}
}

func hrecs(imgs []string) []HRec {
	o := make([]HRec, 0, len(imgs))
	for _, i := range imgs {
		o = append(o, HRec{Lid: lidOf(i), Img: i})
	}
	return o
}

func sideImg(fi FolderImage) SideImg {
	s := SideImg{List: fi.List, Stores: []StoreImg{}, Bad: fi.Bad}
	if s.List == nil {
		s.List = []string{}
	}
	if s.Bad == nil {
		s.Bad = []string{}
	}
	names := make([]string, 0, len(fi.Info))
	for n := range fi.Info {
		names = append(names, n)
	}
	sort.Strings(names)
	for _, n := range names {
		s.Stores = append(s.Stores, StoreImg{S: n, Info: splitInfo(fi.Info[n]), Reg: hrecs(fi.Reg[n])})
	}
	return s
}

func rsOf(folder string) RS {
	x := readReplStat(folder)
	if x == nil {
		return RS{}
	}
	return RS{Present: true, Failed: x.FailedToReplicate, Toggler: x.ActiveFolderToggler, Logging: x.LogCommitChanges}
}

func (r *runner) mem() map[string]any {
	g := fs.GlobalReplicationDetails
	if g == nil {
		return map[string]any{"failed": false, "act": 1, "logging": false}
	}
	return map[string]any{"failed": g.FailedToReplicate, "act": r.act(), "logging": g.LogCommitChanges}
}

// diff of the active folder image around a commit
func diffImages(a0, a1 FolderImage) []Change {
	names := map[string]bool{}
	for n := range a0.Info {
		names[n] = true
	}
	for n := range a1.Info {
		names[n] = true
	}
	out := []Change{}
	sorted := make([]string, 0, len(names))
	for n := range names {
		sorted = append(sorted, n)
	}
	sort.Strings(sorted)
	for _, n := range sorted {
		m0 := map[string]string{}
		for _, i := range a0.Reg[n] {
			m0[lidOf(i)] = i
		}
		m1 := map[string]string{}
		for _, i := range a1.Reg[n] {
			m1[lidOf(i)] = i
		}
		ch := Change{S: n, Info: splitInfo(a1.Info[n]), IC: a0.Info[n] != a1.Info[n], Add: []HRec{}, Set: []HRec{}, Rem: []HRec{}}
		for lid, i := range m1 {
			if o, ok := m0[lid]; !ok {
				ch.Add = append(ch.Add, HRec{lid, i})
			} else if o != i {
				ch.Set = append(ch.Set, HRec{lid, i})
			}
		}
		for lid, i := range m0 {
			if _, ok := m1[lid]; !ok {
				ch.Rem = append(ch.Rem, HRec{lid, i})
			}
		}
		if a0.Info[n] == a1.Info[n] && len(ch.Add)+len(ch.Set)+len(ch.Rem) == 0 {
			continue
		}
		for _, l := range [][]HRec{ch.Add, ch.Set, ch.Rem} {
			sort.Slice(l, func(i, j int) bool { return l[i].Lid < l[j].Lid })
		}
		out = append(out, ch)
	}
	return out
}

// ---------------------------------------------------------------- steps
func (r *runner) begin(st Step) {
	tx, err := infs.NewTransactionWithReplication(r.ctx, r.l.opts(sop.ForWriting))
	if err == nil {
		err = tx.Begin(r.ctx)
	}
	if err != nil {
		r.emit(Event{"ev": "Error", "what": "begin", "t": st.T, "err": err.Error()})
		return
	}
	r.txns[st.T] = &openTxn{act: r.act(), tx: tx, trees: map[string]btree.BtreeInterface[int, int]{}, put: map[string]map[int]int{},
		del: map[string]map[int]bool{}}
	r.emit(Event{"ev": "Begin", "t": st.T})
}

// open (or create) store s inside transaction t
func (r *runner) open(st Step) btree.BtreeInterface[int, int] {
	ot := r.txns[st.T]
	if ot == nil {
		return nil
	}
	if b, ok := ot.trees[st.S]; ok {
		return b
	}
	taf, tpf := r.l.Folders[ot.act-1], r.l.Folders[2-ot.act]
	existed := false
	for _, n := range readFolder(taf).List {
		existed = existed || n == st.S
	}
	var undo func()
	if !existed && st.Op == "create" {
		switch st.Fault {
		case "list-dir":
			undo = blockWithDir(filepath.Join(tpf, "storelist.txt"))
		case "store-file":
			undo = blockWithFile(filepath.Join(tpf, st.S))
		}
	}
	b, err := infs.NewBtreeWithReplication[int, int](r.ctx, sop.StoreOptions{Name: st.S, SlotLength: r.slot, IsUnique: true,
		IsValueDataInNodeSegment: true}, ot.tx, nil)
	if undo != nil {
		undo()
	}
	if !existed {
		pf := "none"
		if undo != nil {
			pf = st.Fault
		}
		ai := readFolder(taf)
		es := ""
		if err != nil {
			es = err.Error()
		}
		listed := false
		for _, n := range ai.List {
			listed = listed || n == st.S
		}
		r.emit(Event{"ev": "Create", "t": st.T, "s": st.S, "ok": err == nil, "pf": pf, "info": splitInfo(ai.Info[st.S]),
			"listed": listed, "err": es, "mem": r.mem()})
	}
	if err != nil {
		if existed {
			r.emit(Event{"ev": "Error", "what": "open", "t": st.T, "s": st.S, "err": err.Error()})
		}
		// NewBtree rolls the transaction back on failure
		delete(r.txns, st.T)
		return nil
	}
	ot.trees[st.S] = b
	ot.put[st.S] = map[int]int{}
	ot.del[st.S] = map[int]bool{}
	ot.order = append(ot.order, st.S)
	return b
}

func (r *runner) work(st Step) {
	ot := r.txns[st.T]
	b := r.open(st)
	if b == nil {
		return
	}
	n := st.N
	if n <= 0 {
		n = 1
	}
	fail := func(err error) {
		r.emit(Event{"ev": "WorkFailed", "what": st.Kind, "t": st.T, "s": st.S, "err": err.Error()})
	}
	switch st.Kind {
	case "add":
		for i := 0; i < n; i++ {
			for try := 0; try < 50; try++ {
				k := r.rng.Intn(400)
				r.valCtr++
				ok, err := b.Add(r.ctx, k, r.valCtr)
				if err != nil {
					fail(err)
					return
				}
				if ok {
					ot.put[st.S][k] = r.valCtr
					delete(ot.del[st.S], k)
					break
				}
			}
		}
	case "upd", "rem":
		var keys []int
		ok, err := b.First(r.ctx)
		// start from a random offset so that different nodes are touched
		skip := 0
		if c := int(b.Count()); c > n {
			skip = r.rng.Intn(c - n + 1)
		}
		for ok && err == nil && len(keys) < n {
			if skip > 0 {
				skip--
			} else {
				it, e2 := b.GetCurrentItem(r.ctx)
				if e2 != nil {
					fail(e2)
					return
				}
				keys = append(keys, it.Key)
			}
			ok, err = b.Next(r.ctx)
		}
		if err != nil {
			fail(err)
			return
		}
		for _, k := range keys {
			if st.Kind == "upd" {
				r.valCtr++
				if ok, err := b.Update(r.ctx, k, r.valCtr); err != nil || !ok {
					fail(fmt.Errorf("update %d: ok=%v err=%v", k, ok, err))
					return
				}
				ot.put[st.S][k] = r.valCtr
			} else {
				if ok, err := b.Remove(r.ctx, k); err != nil || !ok {
					fail(fmt.Errorf("remove %d: ok=%v err=%v", k, ok, err))
					return
				}
				delete(ot.put[st.S], k)
				ot.del[st.S][k] = true
			}
		}
	}
}

func (r *runner) commit(st Step) {
	ot := r.txns[st.T]
	if ot == nil {
		return
	}
	delete(r.txns, st.T)
	// the folders as the transaction's own tracker sees them
	af, pfold := r.l.Folders[ot.act-1], r.l.Folders[2-ot.act]
	a0 := readFolder(af)
	pf := "none"
	var undo func()
	switch st.Fault {
	case "info-dir":
		pf = "info"
		undo = blockWithDir(filepath.Join(pfold, st.FS, "storeinfo.txt"))
	case "reg-write", "reg-write-keep":
		pf = "reg"
		nth := st.Nth
		if nth <= 0 {
			nth = 1
		}
		r.dio.arm(pfold+string(os.PathSeparator), false, nth, st.Fault == "reg-write-keep")
	case "reg-open":
		pf = "reg"
		r.dio.arm(pfold+string(os.PathSeparator), true, 0, false)
	}
	err := ot.tx.Commit(r.ctx)
	hits := r.dio.disarm()
	if undo != nil {
		undo()
	}
	a1 := readFolder(af)
	p1 := sideImg(readFolder(pfold))
	chs := diffImages(a0, a1)
	hit := hits > 0
	if pf == "info" {
		// the passive storeinfo.txt of FS is written iff the commit updated FS's store info
		hit = a0.Info[st.FS] != a1.Info[st.FS]
	}
	works := []Work{}
	for _, s := range ot.order {
		w := Work{S: s, Put: []KV{}, Del: []int{}}
		for k, v := range ot.put[s] {
			w.Put = append(w.Put, KV{k, v})
		}
		for k := range ot.del[s] {
			w.Del = append(w.Del, k)
		}
		sort.Slice(w.Put, func(i, j int) bool { return w.Put[i].K < w.Put[j].K })
		sort.Ints(w.Del)
		works = append(works, w)
	}
	es := ""
	if err != nil {
		es = err.Error()
	}
	abad := a1.Bad
	if abad == nil {
		abad = []string{}
	}
	r.emit(Event{"ev": "Commit", "t": st.T, "ok": err == nil, "pf": pf, "hit": hit, "fs": st.FS, "chs": chs, "work": works,
		"pafter": p1, "mem": r.mem(), "err": es, "abad": abad})
}

func (r *runner) drop(st Step) {
	var undo func()
	pf := "none"
	if st.Fault == "list-dir" {
		pf = st.Fault
		undo = blockWithDir(filepath.Join(r.passiveFolder(), "storelist.txt"))
	}
	err := infs.RemoveBtree(r.ctx, st.S, r.l.Folders, r.l.EC, sop.InMemory)
	if undo != nil {
		undo()
	}
	es := ""
	if err != nil {
		es = err.Error()
	}
	r.emit(Event{"ev": "Drop", "s": st.S, "ok": err == nil, "pf": pf, "err": es, "mem": r.mem()})
}

func (r *runner) wipe() {
	if g := fs.GlobalReplicationDetails; g == nil || !g.FailedToReplicate {
		r.emit(Event{"ev": "Note", "what": "wipe skipped: replication is on (only a failed drive gets replaced)"})
		return
	}
	for _, ot := range r.txns {
		if ot.act != r.act() {
			r.emit(Event{"ev": "Note", "what": "wipe skipped: an open transaction still writes to that folder"})
			return
		}
	}
	p := r.passiveFolder()
	os.RemoveAll(p)
	os.MkdirAll(p, 0o755)
	r.emit(Event{"ev": "Wipe", "mem": r.mem()})
}

func (r *runner) failover() {
	err := fs.TriggerFailover(r.ctx, r.l.Folders, true, sop.GetL2Cache(r.l.opts(sop.ForWriting)))
	es := ""
	if err != nil {
		es = err.Error()
	}
	r.emit(Event{"ev": "Failover", "ok": err == nil, "err": es, "mem": r.mem()})
}

func (r *runner) observe() {
	r.emit(Event{"ev": "Observe", "a": sideImg(readFolder(r.activeFolder())), "p": sideImg(readFolder(r.passiveFolder())),
		"mem": r.mem(), "rs1": rsOf(r.l.Folders[0]), "rs2": rsOf(r.l.Folders[1]), "nlogs": commitLogCount(r.activeFolder())})
}

func (r *runner) apidump(force int) {
	cmd := exec.Command(r.selfExe, "dump", r.l.Root, fmt.Sprint(force))
	var so, se bytes.Buffer
	cmd.Stdout, cmd.Stderr = &so, &se
	err := cmd.Run()
	var d map[string]any
	if err == nil {
		err = json.Unmarshal(so.Bytes(), &d)
	}
	if err != nil {
		r.emit(Event{"ev": "Error", "what": "apidump", "err": err.Error() + ": " + tail(se.String(), 400)})
		return
	}
	d["ev"] = "ApiDump"
	d["force"] = force
	r.emit(d)
}

func tail(s string, n int) string {
	if len(s) > n {
		return s[len(s)-n:]
	}
	return s
}

// ---------------------------------------------------------------- reinstate with pauses
func (r *runner) rawStoreList() []string {
	l := []string{}
	if ba, err := os.ReadFile(filepath.Join(r.activeFolder(), "storelist.txt")); err == nil {
		json.Unmarshal(ba, &l)
	}
	if l == nil {
		l = []string{}
	}
	return l
}

// Pause points of ReinstateFailedDrives, recognised from the L2 calls its goroutine makes:
//
//	Ck  k-th store-info lookup of CopyToPassiveFolders (commit-change logging is on, the store list has been read
//	    and written, stores 1..k-1 copied, store k's folder created but the store not yet copied)
//	B   first L2 call of the first fastForward that found commit logs (copy complete, no log applied yet)
//
// The two pushes of the replication status (end of startLoggingCommitChanges / turnOnReplication) cannot be used:
// they run under globalReplicationDetailsLocker, which every new transaction needs.
func (r *runner) reinstate(st Step) {
	want := map[string][]Step{}
	for _, p := range st.Pauses {
		want[p.At] = p.Steps
	}
	act, pas := r.activeFolder(), r.passiveFolder()
	var nRepl, nPas, bSeen int32
	var label atomic.Value
	nStores := int32(len(r.rawStoreList()))
	isStoreKey := func(key string) bool { return strings.HasPrefix(key, pas+":") || strings.HasPrefix(key, act+":") }
	classify := func(kind, key string) string {
		switch {
		case strings.Contains(key, "Rreplstat") && kind == "GetStructEx":
			atomic.AddInt32(&nRepl, 1)
			return ""
		// CopyToPassiveFolders looks up one store info per listed store (in the passive folder's name space at
		// the pinned commit, in the active one once that is repaired) ...
		case kind == "GetStruct" && isStoreKey(key) && atomic.LoadInt32(&nPas) < nStores:
			return fmt.Sprintf("C%d", atomic.AddInt32(&nPas, 1))
		// ... everything after that belongs to fastForward
		case (kind == "GetStruct" && isStoreKey(key)) || kind == "DualLock":
			if atomic.CompareAndSwapInt32(&bSeen, 0, 1) {
				return "B"
			}
		}
		return ""
	}
	pred := func(kind, key string) bool {
		l := classify(kind, key)
		if l == "" {
			return false
		}
		if _, ok := want[l]; ok {
			label.Store(l)
			return true
		}
		return false
	}
	r.emit(Event{"ev": "ReinBegin", "mem": r.mem()})
	// canonical internal steps, emitted lazily: startlog, copylist, copystore*, ff(1), turnon, ff(2)
	var list []string
	listRead := false
	readList := func() {
		if !listRead {
			list, listRead = r.rawStoreList(), true
		}
	}
	started, listed, copied, post := false, false, 0, 0
	emitStart := func() {
		if !started {
			r.emit(Event{"ev": "ReinStartLog"})
			started = true
		}
	}
	emitCopy := func(k int) { // k < 0: all stores
		emitStart()
		readList()
		if !listed {
			r.emit(Event{"ev": "ReinCopyList", "order": list})
			listed = true
		}
		if k < 0 || k > len(list) {
			k = len(list)
		}
		for copied < k {
			r.emit(Event{"ev": "ReinCopyStore", "s": list[copied]})
			copied++
		}
	}
	emitPost := func(upto int) {
		emitCopy(-1)
		for post < upto {
			post++
			switch post {
			case 1:
				r.emit(Event{"ev": "ReinFF", "round": 1})
			case 2:
				r.emit(Event{"ev": "ReinTurnOn"})
			case 3:
				r.emit(Event{"ev": "ReinFF", "round": 2})
			}
		}
	}
	readList()
	done := make(chan error, 1)
	r.gate.arm(pred)
	go func() { done <- infs.ReinstateFailedDrives(r.ctx, r.l.Folders, sop.InMemory) }()
	var err error
	stuckAfter := 6 * time.Second
	stuck := time.After(stuckAfter)
	for finished := false; !finished; {
		select {
		case <-r.gate.reached:
			l, _ := label.Load().(string)
			switch {
			case strings.HasPrefix(l, "C"):
				var k int
				fmt.Sscanf(l, "C%d", &k)
				emitCopy(k - 1)
			case l == "B":
				emitCopy(-1)
			}
			r.emit(Event{"ev": "Paused", "at": l})
			for _, s := range want[l] {
				r.step(s)
			}
			delete(want, l)
			r.gate.arm(pred)
			r.gate.resume <- struct{}{}
			stuck = time.After(stuckAfter)
		case err = <-done:
			finished = true
		case <-stuck:
			// the reinstate goroutine neither parked nor returned: it waits in a registry sector loop that is
			// bounded by 3 minutes of sop.Now time; let that time pass virtually.
			atomic.AddInt64(&nowOffset, int64(4*time.Minute))
			r.emit(Event{"ev": "Note", "what": "reinstate blocked for 6s; advanced sop.Now by 4 minutes"})
			stuck = time.After(stuckAfter)
		}
	}
	r.gate.arm(nil)
	es, phase := "", "done"
	if err != nil {
		es = err.Error()
		g := fs.GlobalReplicationDetails
		switch {
		case strings.Contains(es, "valid only if"):
			phase = "precondition"
		case strings.Contains(es, "source directory") || strings.Contains(es, "copying file") || strings.Contains(es, "target directory"):
			phase = "copy"
			emitStart()
		case g != nil && g.LogCommitChanges:
			phase = "ff"
			emitCopy(-1)
		default:
			phase = "ff2"
			emitPost(2)
		}
	} else {
		emitPost(3)
	}
	r.emit(Event{"ev": "ReinDone", "ok": err == nil, "phase": phase, "err": es, "mem": r.mem(),
		"p": sideImg(readFolder(r.passiveFolder()))})
	// pause points that were never reached (e.g. B without pending logs): their steps run now
	for _, p := range st.Pauses {
		if steps, ok := want[p.At]; ok {
			r.emit(Event{"ev": "Note", "what": "pause " + p.At + " not reached; its steps run after the reinstate"})
			for _, s := range steps {
				r.step(s)
			}
		}
	}
}

func (r *runner) step(st Step) {
	switch st.Op {
	case "begin":
		r.begin(st)
	case "create":
		r.open(st)
	case "work":
		r.work(st)
	case "commit":
		r.commit(st)
	case "drop":
		r.drop(st)
	case "wipe":
		r.wipe()
	case "reinstate":
		r.reinstate(st)
	case "failover":
		r.failover()
	case "observe":
		r.observe()
	case "apidump":
		f := st.Force
		if f < 0 { // -1: whatever folder is passive now
			f = 3 - r.act()
		}
		r.apidump(f)
	default:
		r.emit(Event{"ev": "Error", "what": "unknown op " + st.Op})
	}
}

func one(root string) {
	var p Program
	if err := json.NewDecoder(os.Stdin).Decode(&p); err != nil {
		fmt.Fprintln(os.Stderr, "bad program:", err)
		os.Exit(2)
	}
	installClock()
	gate := newGateL2(cache.NewL2InMemoryCache())
	sop.RegisterL2CacheFactory(sop.InMemory, func(sop.TransactionOptions) sop.L2Cache { return gate })
	dio := newDioSim()
	fs.DirectIOSim = dio
	exe, _ := os.Executable()
	w := bufio.NewWriter(os.Stdout)
	defer w.Flush()
	slot := p.Slot
	if slot < 2 {
		slot = 4
	}
	r := &runner{l: newLayout(root), ctx: context.Background(), out: json.NewEncoder(w), rng: rand.New(rand.NewSource(p.Seed)),
		slot: slot, dio: dio, gate: gate, txns: map[string]*openTxn{}, selfExe: exe, flush: func() { w.Flush() }}
	for _, st := range p.Steps {
		r.step(st)
		w.Flush()
	}
}

// dump: fresh process, read-only transaction through the public API
func dump(root string, force int) {
	ctx := context.Background()
	l := newLayout(root)
	if force > 0 {
		// observation with the active folder toggled by the harness: this process treats folder `force` as active
		fs.GlobalReplicationDetails = &fs.ReplicationTrackedDetails{ActiveFolderToggler: force == 1, FailedToReplicate: true}
	}
	out := map[string]any{"err": "", "folder": 0, "failed": false, "stores": []any{}}
	fail := func(what string, err error) {
		out["err"] = what + ": " + err.Error()
		json.NewEncoder(os.Stdout).Encode(out)
		os.Exit(0)
	}
	tx, err := infs.NewTransactionWithReplication(ctx, l.opts(sop.ForReading))
	if err != nil {
		fail("new", err)
	}
	if err := tx.Begin(ctx); err != nil {
		fail("begin", err)
	}
	if ct, ok := tx.GetPhasedTransaction().(*common.Transaction); ok {
		if sr, ok := ct.GetStoreRepository().(*fs.StoreRepository); ok {
			bf := sr.GetStoresBaseFolder()
			for i, f := range l.Folders {
				if f == bf {
					out["folder"] = i + 1
				}
			}
		}
	}
	if g := fs.GlobalReplicationDetails; g != nil {
		out["failed"] = g.FailedToReplicate
	}
	names, err := tx.GetStores(ctx)
	if err != nil {
		fail("getstores", err)
	}
	sort.Strings(names)
	stores := []any{}
	for _, n := range names {
		rec := map[string]any{"s": n, "count": -1, "items": []KV{}, "err": ""}
		b, err := infs.OpenBtreeWithReplication[int, int](ctx, n, tx, nil)
		if err != nil {
			rec["err"] = "open: " + err.Error()
			stores = append(stores, rec)
			// OpenBtree rolls back on failure: start a new transaction for the remaining stores
			tx, _ = infs.NewTransactionWithReplication(ctx, l.opts(sop.ForReading))
			tx.Begin(ctx)
			continue
		}
		rec["count"] = b.Count()
		items := []KV{}
		ok, err := b.First(ctx)
		for ok && err == nil {
			var it btree.Item[int, int]
			it, err = b.GetCurrentItem(ctx)
			if err != nil {
				break
			}
			v := 0
			if it.Value != nil {
				v = *it.Value
			}
			items = append(items, KV{it.Key, v})
			ok, err = b.Next(ctx)
		}
		if err != nil {
			rec["err"] = "scan: " + err.Error()
		}
		rec["items"] = items
		stores = append(stores, rec)
	}
	out["stores"] = stores
	json.NewEncoder(os.Stdout).Encode(out)
}

func runAll(progFile, workroot, outFile string, par int) {
	ba, err := os.ReadFile(progFile)
	if err != nil {
		panic(err)
	}
	var progs []Program
	if err := json.Unmarshal(ba, &progs); err != nil {
		panic(err)
	}
	exe, _ := os.Executable()
	results := make([][]byte, len(progs))
	var wg sync.WaitGroup
	sem := make(chan struct{}, par)
	for i := range progs {
		wg.Add(1)
		sem <- struct{}{}
		go func(i int) {
			defer wg.Done()
			defer func() { <-sem }()
			root := filepath.Join(workroot, fmt.Sprintf("w%d", i))
			os.RemoveAll(root)
			os.MkdirAll(root, 0o755)
			in, _ := json.Marshal(progs[i])
			ctx, cancel := context.WithTimeout(context.Background(), 150*time.Second)
			defer cancel()
			cmd := exec.CommandContext(ctx, exe, "one", root)
			cmd.Stdin = bytes.NewReader(in)
			var so, se bytes.Buffer
			cmd.Stdout, cmd.Stderr = &so, &se
			err := cmd.Run()
			var buf bytes.Buffer
			enc := json.NewEncoder(&buf)
			enc.Encode(map[string]any{"ev": "TraceStart", "name": progs[i].Name})
			buf.Write(so.Bytes())
			if err != nil {
				enc.Encode(map[string]any{"ev": "Died", "err": err.Error(), "stderr": tail(se.String(), 2000)})
			}
			results[i] = buf.Bytes()
			if os.Getenv("VERIF_KEEP") == "" {
				os.RemoveAll(root)
			}
		}(i)
	}
	wg.Wait()
	f, err := os.Create(outFile)
	if err != nil {
		panic(err)
	}
	defer f.Close()
	for _, b := range results {
		f.Write(b)
	}
}

func main() {
	if len(os.Args) < 3 {
		fmt.Println("usage: replication run|one|dump ...")
		os.Exit(2)
	}
	switch os.Args[1] {
	case "run":
		par := 4
		if len(os.Args) > 5 {
			fmt.Sscanf(os.Args[5], "%d", &par)
		}
		runAll(os.Args[2], os.Args[3], os.Args[4], par)
	case "one":
		one(os.Args[2])
	case "dump":
		force := 0
		if len(os.Args) > 3 {
			fmt.Sscanf(os.Args[3], "%d", &force)
		}
		dump(os.Args[2], force)
	default:
		os.Exit(2)
	}
}
