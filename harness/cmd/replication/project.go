package main

// Independent reader of a stores base folder: does not use SOP's read path.  It parses storelist.txt and
// <store>/storeinfo.txt as plain JSON and scans every registry segment file block by block, verifying the
// CRC32 itself and decoding every non-zero 62-byte slot with encoding.HandleMarshaler.

import (
	"encoding/binary"
	"encoding/json"
	"fmt"
	"hash/crc32"
	"os"
	"path/filepath"
	"sort"
	"strings"

	"github.com/sharedcode/sop"
	"github.com/sharedcode/sop/encoding"
)

const (
	blockSize     = 4096
	slotsPerBlock = 66
)

// FolderImage is the abstract content of one stores base folder.
type FolderImage struct {
	List []string            `json:"list"` // storelist.txt (sorted); nil when the file is absent
	Info map[string]string   `json:"info"` // store folder -> canonical storeinfo ("" when no storeinfo.txt)
	Reg  map[string][]string `json:"reg"`  // store folder -> sorted handle images of all its segment files
	Bad  []string            `json:"bad"`  // anomalies: CRC mismatch, duplicate logical ids, unreadable files
}

func isZero(b []byte) bool {
	for _, x := range b {
		if x != 0 {
			return false
		}
	}
	return true
}

// handleImage is the canonical text of a handle (all persisted fields).
func handleImage(h sop.Handle) string {
	ab := 0
	if h.IsActiveIDB {
		ab = 1
	}
	del := 0
	if h.IsDeleted {
		del = 1
	}
	return fmt.Sprintf("%s|A=%s|B=%s|ab=%d|v=%d|w=%d|d=%d", h.LogicalID.String(), h.PhysicalIDA.String(),
		h.PhysicalIDB.String(), ab, h.Version, h.WorkInProgressTimestamp, del)
}

func lidOf(img string) string { return img[:strings.IndexByte(img, '|')] }

// canonInfo renders the fields of storeinfo.txt the property talks about in a stable order.
func canonInfo(raw []byte) (string, error) {
	var m map[string]any
	dec := json.NewDecoder(strings.NewReader(string(raw)))
	dec.UseNumber()
	if err := dec.Decode(&m); err != nil {
		return "", err
	}
	keys := make([]string, 0, len(m))
	for k := range m {
		keys = append(keys, k)
	}
	sort.Strings(keys)
	var sb strings.Builder
	for _, k := range keys {
		if k == "cache_config" {
			continue
		}
		v, _ := json.Marshal(m[k])
		sb.WriteString(k)
		sb.WriteByte('=')
		sb.Write(v)
		sb.WriteByte(';')
	}
	return sb.String(), nil
}

func readFolder(base string) FolderImage {
	img := FolderImage{Info: map[string]string{}, Reg: map[string][]string{}}
	if ba, err := os.ReadFile(filepath.Join(base, "storelist.txt")); err == nil {
		var l []string
		if err := json.Unmarshal(ba, &l); err != nil {
			img.Bad = append(img.Bad, "storelist.txt: "+err.Error())
		}
		sort.Strings(l)
		if l == nil {
			l = []string{}
		}
		img.List = l
	}
	ents, _ := os.ReadDir(base)
	for _, e := range ents {
		if !e.IsDir() || e.Name() == "commitlogs" || e.Name() == "translogs" {
			continue
		}
		s := e.Name()
		dir := filepath.Join(base, s)
		img.Info[s] = ""
		if ba, err := os.ReadFile(filepath.Join(dir, "storeinfo.txt")); err == nil {
			ci, err := canonInfo(ba)
			if err != nil {
				img.Bad = append(img.Bad, s+"/storeinfo.txt: "+err.Error())
				ci = "unparsable:" + string(ba)
			}
			img.Info[s] = ci
		} else if !os.IsNotExist(err) {
			img.Info[s] = "unreadable"
		}
		img.Reg[s] = []string{}
		segs, _ := filepath.Glob(filepath.Join(dir, "*.reg"))
		sort.Strings(segs)
		seen := map[string]bool{}
		hm := encoding.NewHandleMarshaler()
		for _, seg := range segs {
			ba, err := os.ReadFile(seg)
			if err != nil {
				img.Bad = append(img.Bad, filepath.Base(seg)+": "+err.Error())
				continue
			}
			for off := 0; off+blockSize <= len(ba); off += blockSize {
				blk := ba[off : off+blockSize]
				if isZero(blk) {
					continue
				}
				if crc32.ChecksumIEEE(blk[:blockSize-4]) != binary.LittleEndian.Uint32(blk[blockSize-4:]) {
					img.Bad = append(img.Bad, fmt.Sprintf("%s: crc mismatch in block %d", filepath.Base(seg), off/blockSize))
				}
				for i := 0; i < slotsPerBlock; i++ {
					sl := blk[i*sop.HandleSizeInBytes : (i+1)*sop.HandleSizeInBytes]
					if isZero(sl) {
						continue
					}
					var h sop.Handle
					if err := hm.Unmarshal(sl, &h); err != nil {
						img.Bad = append(img.Bad, fmt.Sprintf("%s: slot decode: %v", filepath.Base(seg), err))
						continue
					}
					hi := handleImage(h)
					if seen[lidOf(hi)] {
						img.Bad = append(img.Bad, fmt.Sprintf("%s: duplicate logical id %s", s, lidOf(hi)))
					}
					seen[lidOf(hi)] = true
					img.Reg[s] = append(img.Reg[s], hi)
				}
			}
		}
		sort.Strings(img.Reg[s])
	}
	sort.Strings(img.Bad)
	return img
}

// ReplStat is the raw replication status file of a folder (nil when absent).
type ReplStat struct {
	FailedToReplicate   bool
	ActiveFolderToggler bool
	LogCommitChanges    bool
}

func readReplStat(base string) *ReplStat {
	ba, err := os.ReadFile(filepath.Join(base, "replstat.txt"))
	if err != nil {
		return nil
	}
	var r ReplStat
	if json.Unmarshal(ba, &r) != nil {
		return nil
	}
	return &r
}

func commitLogCount(base string) int {
	m, _ := filepath.Glob(filepath.Join(base, "commitlogs", "*.log"))
	return len(m)
}
