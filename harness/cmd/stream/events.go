package main

import (
	"bufio"
	"encoding/json"
	"io"
)

// Ev is one trace line.  Every field is always present (TLC rejects a missing record field).
type Ev struct {
	Ev     string  `json:"ev"`
	Name   string  `json:"name"`
	K      string  `json:"k"`
	Api    string  `json:"api"`
	Got    bool    `json:"got"`
	ID     int     `json:"id"`
	Len    int     `json:"len"`
	Ok     bool    `json:"ok"`
	R      int     `json:"r"`
	Start  int     `json:"start"`
	Cap    int     `json:"cap"`
	N      int     `json:"n"`
	EOF    bool    `json:"eof"`
	Intact bool    `json:"intact"`
	Chunks [][]any `json:"chunks"`
	Note   string  `json:"note"`
}

type emitter struct {
	w *bufio.Writer
	n int
}

func newEmitter(w io.Writer) *emitter { return &emitter{w: bufio.NewWriterSize(w, 1<<20)} }

func (e *emitter) emit(ev Ev) {
	if ev.Chunks == nil {
		ev.Chunks = [][]any{}
	}
	b, err := json.Marshal(ev)
	if err != nil {
		die(err)
	}
	e.w.Write(b)
	e.w.WriteByte('\n')
	e.n++
}

func (e *emitter) flush() { e.w.Flush() }
