// stream: binds spec/Stream.tla to /repo/streamingdata (filesystem backend, in-memory L2 cache).
//
//	stream run <datadir> <out.ndjson> <suite>     suites: sizes, programs, random, readers, all
//
// Every public call on the real StreamingDataStore / Encoder / json.Decoder / reader becomes one ndjson
// event with its arguments and results (see events.go).  The driver holds no copy of the expected store
// contents or read positions: which chunk has to come next, how many bytes a Read must return, what is
// left after an update or a remove is decided by the TLA+ trace specification.  The only thing decided
// here is byte equality: every value carries its own id and is regenerated from (id, kind, size) and
// compared with what was decoded (`intact`).
package main

import (
	"context"
	"fmt"
	"math/rand"
	"os"
	"strconv"
	"time"

	"github.com/sharedcode/sop"
)

func main() {
	if len(os.Args) < 5 || os.Args[1] != "run" {
		fmt.Fprintln(os.Stderr, "usage: stream run <datadir> <out.ndjson> <suite>")
		os.Exit(2)
	}
	dir, out, suite := os.Args[2], os.Args[3], os.Args[4]
	seed := int64(1)
	if s, err := strconv.ParseInt(os.Getenv("VERIF_SEED"), 10, 64); err == nil {
		seed = s
	}
	thorough := os.Getenv("VERIF_TIER") == "thorough"
	f, err := os.Create(out)
	if err != nil {
		die(err)
	}
	defer f.Close()
	d := &driver{ctx: context.Background(), dir: dir, w: newEmitter(f), rng: rand.New(rand.NewSource(seed)), thorough: thorough, seed: seed}
	switch suite {
	case "sizes":
		d.suiteSizes()
	case "programs":
		d.suitePrograms()
	case "random":
		d.suiteRandom()
	case "readers":
		d.suiteReaders()
	case "repro":
		d.suiteRepro()
	case "all":
		d.suiteSizes()
		d.suitePrograms()
		d.suiteReaders()
		d.suiteRandom()
	default:
		die(fmt.Errorf("unknown suite %s", suite))
	}
	d.w.flush()
	fmt.Printf("{\"traces\":%d,\"events\":%d,\"values\":%d,\"max_value_bytes\":%d,\"bytes_read\":%d}\n",
		d.nTraces, d.w.n, d.nValues, d.maxValue, d.bytesRead)
}

func die(err error) {
	fmt.Fprintln(os.Stderr, "stream driver:", err)
	os.Exit(3)
}

// storeKind selects where the B-tree keeps the chunk bytes (never in the node segment: the store refuses that).
func storeOptions(name string, variant int) sop.StoreOptions {
	so := sop.StoreOptions{Name: name, SlotLength: 50, IsUnique: true}
	switch variant % 3 {
	case 0: // separate segment, neither cached globally nor actively persisted
	case 1:
		so.IsValueDataGloballyCached = true
	case 2:
		so.IsValueDataActivelyPersisted = true
	}
	return so
}

const txMax = 5 * time.Minute
