package main

import (
	"bytes"
	"context"
	"encoding/json"
	"fmt"
	"io"
	"math/rand"
	"reflect"
	"unsafe"

	"github.com/sharedcode/sop"
	"github.com/sharedcode/sop/btree"
	"github.com/sharedcode/sop/infs"
	sd "github.com/sharedcode/sop/streamingdata"
)

type driver struct {
	ctx       context.Context
	dir       string
	w         *emitter
	rng       *rand.Rand
	thorough  bool
	seed      int64
	nTraces   int
	nValues   int
	maxValue  int
	bytesRead int64
	nStores   int
}

// trace = one store, one sequence of events validated as one behaviour of Stream.
type trace struct {
	d       *driver
	name    string
	store   string
	variant int
	tx      sop.Transaction
	writing bool
	s       *sd.StreamingDataStore[string]
	vals    map[int]valSpec // id -> spec of every value ever encoded in this trace
	nextID  int
	created bool
}

var placements = []string{"segment", "cached", "active"}

// newTrace: placement of the chunk bytes rotates over the three the streaming store accepts.
func (d *driver) newTrace(name string) *trace {
	return d.newTraceOn(name, (d.nStores+1)%3)
}

func (d *driver) newTraceOn(name string, variant int) *trace {
	d.nTraces++
	d.nStores++
	name = name + "@" + placements[variant%3]
	t := &trace{d: d, name: name, store: fmt.Sprintf("st%d", d.nStores), variant: variant, vals: map[int]valSpec{}}
	d.w.emit(Ev{Ev: "TraceStart", Name: name})
	return t
}

func (t *trace) end() {
	if t.tx != nil {
		t.commit()
	}
	t.d.w.emit(Ev{Ev: "End", Name: t.name})
}

func (t *trace) val(kind string, size int) valSpec {
	v := valSpec{ID: t.nextID, Kind: kind, Size: size}
	t.nextID++
	t.vals[v.ID] = v
	return v
}

// ---- transactions ----

func (t *trace) begin(write bool) {
	if t.tx != nil {
		if t.writing == write || t.writing {
			return
		}
		t.commit()
	}
	if !t.created && !write {
		// the store comes into being in a writing transaction of its own
		t.begin(true)
		t.commit()
	}
	mode := sop.ForReading
	if write {
		mode = sop.ForWriting
	}
	tx, err := infs.NewTransaction(t.d.ctx, sop.TransactionOptions{StoresFolders: []string{t.d.dir}, CacheType: sop.InMemory, Mode: mode, MaxTime: txMax})
	if err != nil {
		die(fmt.Errorf("NewTransaction: %w", err))
	}
	if err := tx.Begin(t.d.ctx); err != nil {
		die(fmt.Errorf("Begin: %w", err))
	}
	t.tx, t.writing = tx, write
	var s *sd.StreamingDataStore[string]
	if !t.created {
		s, err = infs.NewStreamingDataStore[string](t.d.ctx, storeOptions(t.store, t.variant), tx, nil)
		t.created = true
	} else {
		s, err = infs.OpenStreamingDataStore[string](t.d.ctx, t.store, tx, nil)
	}
	if err != nil {
		die(fmt.Errorf("open streaming store: %w", err))
	}
	t.s = s
}

func (t *trace) commit() {
	if t.tx == nil {
		return
	}
	err := t.tx.Commit(t.d.ctx)
	note := ""
	if err != nil {
		note = err.Error()
	}
	t.d.w.emit(Ev{Ev: "Tx", Api: "Commit", Ok: err == nil, Note: note})
	t.tx, t.s = nil, nil
}

// ---- writer side ----

// write runs one Add/AddIfNotExist/Update/Upsert session: Begin, Encode per value, Close.
func (t *trace) write(api, key string, vals []valSpec) {
	t.begin(true)
	ctx := t.d.ctx
	var enc *sd.Encoder[string]
	var err error
	switch api {
	case "Add":
		enc, err = t.s.Add(ctx, key)
	case "AddIfNotExist":
		enc, err = t.s.AddIfNotExist(ctx, key)
	case "Update":
		enc, err = t.s.Update(ctx, key)
	case "Upsert":
		enc, err = t.s.Upsert(ctx, key)
	default:
		die(fmt.Errorf("api %s", api))
	}
	if err != nil {
		t.d.w.emit(Ev{Ev: "Begin", K: key, Api: api, Got: false, Note: "error: " + err.Error(), Ok: false})
		return
	}
	t.d.w.emit(Ev{Ev: "Begin", K: key, Api: api, Got: enc != nil, Ok: true})
	if enc == nil {
		return
	}
	for _, v := range vals {
		x := gen(v)
		n := encodedLen(x)
		err := enc.Encode(x)
		note := ""
		if err != nil {
			note = err.Error()
		}
		t.d.w.emit(Ev{Ev: "Encode", K: key, ID: v.ID, Len: n, Ok: err == nil, Note: note})
		t.d.nValues++
		if n > t.d.maxValue {
			t.d.maxValue = n
		}
	}
	err = enc.Close()
	note := ""
	if err != nil {
		note = err.Error()
	}
	t.d.w.emit(Ev{Ev: "Close", K: key, Ok: err == nil, Note: note})
}

func (t *trace) remove(key string) {
	t.begin(true)
	ok, err := t.s.Remove(t.d.ctx, key)
	note := ""
	if err != nil {
		note = "error: " + err.Error()
		t.d.w.emit(Ev{Ev: "RemoveError", K: key, Note: note})
		return
	}
	t.d.w.emit(Ev{Ev: "Remove", K: key, Ok: ok})
}

// ---- reader side ----

// readerOf reaches the io.Reader inside the json.Decoder that GetCurrentValue returned (field `r`).
func readerField(dec *json.Decoder) *io.Reader {
	f := reflect.ValueOf(dec).Elem().FieldByName("r")
	if !f.IsValid() || f.Type() != reflect.TypeOf((*io.Reader)(nil)).Elem() {
		die(fmt.Errorf("encoding/json.Decoder has no field r of type io.Reader in this toolchain"))
	}
	return (*io.Reader)(unsafe.Pointer(f.UnsafeAddr()))
}

// tracedReader logs every Read the decoder makes on the real reader.
type tracedReader struct {
	inner io.Reader
	t     *trace
	rid   int
	bad   bool
}

func (r *tracedReader) Read(p []byte) (int, error) {
	n, err := r.inner.Read(p)
	r.t.logRead(r.rid, len(p), n, err)
	if err != nil && err != io.EOF {
		r.bad = true
	}
	return n, err
}

func (t *trace) logRead(rid, capacity, n int, err error) {
	note := ""
	if err != nil && err != io.EOF {
		note = "error: " + err.Error()
		t.d.w.emit(Ev{Ev: "ReadError", R: rid, Cap: capacity, N: n, Note: note})
		return
	}
	t.d.bytesRead += int64(n)
	t.d.w.emit(Ev{Ev: "Read", R: rid, Cap: capacity, N: n, EOF: err == io.EOF})
}

// open positions the cursor (FindOne, or FindChunk for start > 0) and asks for the value decoder.
func (t *trace) open(rid int, key string, start int) *json.Decoder {
	if t.tx == nil {
		t.begin(false)
	}
	var found bool
	var err error
	if start == 0 {
		found, err = t.s.FindOne(t.d.ctx, key)
	} else {
		found, err = t.s.FindChunk(t.d.ctx, key, start)
	}
	if err != nil {
		t.d.w.emit(Ev{Ev: "OpenError", R: rid, K: key, Start: start, Note: err.Error()})
		return nil
	}
	t.d.w.emit(Ev{Ev: "Open", R: rid, K: key, Start: start, Got: found})
	if !found {
		return nil
	}
	// the two public ways to get at the value stream
	var dec *json.Decoder
	if rid%2 == 1 {
		var it btree.Item[string, json.Decoder]
		it, err = t.s.GetCurrentItem(t.d.ctx)
		dec = it.Value
		if err == nil && it.Key != key {
			err = fmt.Errorf("GetCurrentItem returned key %q, cursor was positioned on %q", it.Key, key)
		}
	} else {
		dec, err = t.s.GetCurrentValue(t.d.ctx)
	}
	if err != nil {
		t.d.w.emit(Ev{Ev: "OpenError", R: rid, K: key, Start: start, Note: err.Error()})
		return nil
	}
	return dec
}

// decodeOne makes one Decode call on a decoder whose reader is traced.
// returns false when the decoder is finished (EOF or error).
func (t *trace) decodeOne(rid int, dec *json.Decoder) bool {
	var x any
	err := dec.Decode(&x)
	if err == io.EOF {
		t.d.w.emit(Ev{Ev: "Decode", R: rid, Ok: false, EOF: true, ID: -1, Intact: true})
		return false
	}
	if err != nil {
		t.d.w.emit(Ev{Ev: "Decode", R: rid, Ok: false, EOF: false, ID: -1, Intact: false, Note: "error: " + err.Error()})
		return false
	}
	id, ok := t.intact(x)
	t.d.w.emit(Ev{Ev: "Decode", R: rid, Ok: true, ID: id, Intact: ok})
	return true
}

// readDecoder: the documented way to read: json.Decoder over the entry, Decode until EOF (or maxValues).
func (t *trace) readDecoder(rid int, key string, start int, maxValues int) {
	dec := t.open(rid, key, start)
	if dec == nil {
		return
	}
	rf := readerField(dec)
	*rf = &tracedReader{inner: *rf, t: t, rid: rid}
	for i := 0; maxValues < 0 || i < maxValues; i++ {
		if !t.decodeOne(rid, dec) {
			break
		}
	}
	t.d.w.emit(Ev{Ev: "Done", R: rid})
}

// readInterleaved: two decoders over two entries of the same store, Decode calls alternating.
func (t *trace) readInterleaved(keys []string) {
	type rr struct {
		dec  *json.Decoder
		live bool
	}
	var rs []rr
	for i, k := range keys {
		dec := t.open(i, k, 0)
		if dec != nil {
			rf := readerField(dec)
			*rf = &tracedReader{inner: *rf, t: t, rid: i}
		}
		rs = append(rs, rr{dec, dec != nil})
	}
	for {
		any := false
		for i := range rs {
			if rs[i].live {
				rs[i].live = t.decodeOne(i, rs[i].dec)
				any = true
			}
		}
		if !any {
			break
		}
	}
	for i := range rs {
		if rs[i].dec != nil {
			t.d.w.emit(Ev{Ev: "Done", R: i})
		}
	}
}

// readDirect drives the real reader with capacities chosen here (cycled), bypassing the decoder's buffer policy.
// The delivered bytes are cut at newlines (one chunk = one JSON line) and decoded with the standard library.
func (t *trace) readDirect(rid int, key string, start int, caps []int, maxReads int) {
	dec := t.open(rid, key, start)
	if dec == nil {
		return
	}
	r := *readerField(dec)
	var acc []byte
	eof := false
	if maxReads < 0 {
		maxReads = 300 // a reader that keeps re-delivering a chunk never reports EOF
	}
	broken := false
	// every complete line delivered so far is decoded at once (what a consumer of the stream sees)
	drain := func() {
		for !broken {
			i := bytes.IndexByte(acc, '\n')
			if i < 0 {
				return
			}
			line := acc[:i]
			acc = acc[i+1:]
			var x any
			if err := json.Unmarshal(line, &x); err != nil {
				t.d.w.emit(Ev{Ev: "Decode", R: rid, Ok: false, ID: -1, Intact: false, Note: "delivered bytes are not a JSON line: " + err.Error()})
				broken = true
				return
			}
			id, ok := t.intact(x)
			t.d.w.emit(Ev{Ev: "Decode", R: rid, Ok: true, ID: id, Intact: ok})
		}
	}
	for i := 0; i < maxReads && !broken; i++ {
		p := make([]byte, caps[i%len(caps)])
		n, err := r.Read(p)
		t.logRead(rid, len(p), n, err)
		acc = append(acc, p[:n]...)
		drain()
		if err == io.EOF {
			eof = true
			break
		}
		if err != nil {
			break
		}
	}
	if eof && !broken {
		t.d.w.emit(Ev{Ev: "Decode", R: rid, Ok: false, EOF: true, ID: -1, Intact: len(acc) == 0})
	}
	t.d.w.emit(Ev{Ev: "Done", R: rid})
}

// ---- observation ----

// observe scans the underlying B-tree item by item (in the current transaction, or a fresh reading one).
func (t *trace) observe() {
	if t.tx == nil {
		t.begin(false)
	}
	ctx := t.d.ctx
	b := t.s.BtreeInterface
	chunks := [][]any{}
	intact := true
	note := ""
	ok, err := b.First(ctx)
	for ok && err == nil {
		k := b.GetCurrentKey().Key
		var ba []byte
		ba, err = b.GetCurrentValue(ctx)
		if err != nil {
			break
		}
		id := -1
		if len(ba) > 0 && ba[len(ba)-1] == '\n' {
			var x any
			if e := json.Unmarshal(ba[:len(ba)-1], &x); e == nil {
				var good bool
				id, good = t.intact(x)
				if !good {
					intact = false
					note = fmt.Sprintf("chunk (%s,%d) content differs from generated value %d", k.Key, k.ChunkIndex, id)
				}
			} else {
				intact = false
				note = fmt.Sprintf("chunk (%s,%d) is not JSON: %v", k.Key, k.ChunkIndex, e)
			}
		} else {
			intact = false
			note = fmt.Sprintf("chunk (%s,%d) does not end with newline", k.Key, k.ChunkIndex)
		}
		chunks = append(chunks, []any{k.Key, k.ChunkIndex, id, len(ba)})
		ok, err = b.Next(ctx)
	}
	if err != nil {
		t.d.w.emit(Ev{Ev: "ObserveError", Note: err.Error()})
		return
	}
	t.d.w.emit(Ev{Ev: "Observe", Chunks: chunks, Intact: intact, Note: note})
}
