package main

import (
	"fmt"
	"math"
)

var kinds = []string{"str", "esc", "obj", "arr", "num"}

// sizes around the json.Decoder buffer policy (starts at 512, grows 2x+512) and up to megabytes
func (d *driver) sizeLadder() []int {
	s := []int{1, 2, 3, 10, 100, 400, 505, 508, 509, 510, 511, 512, 513, 600, 1000, 1023, 1024, 1025, 1500, 1536, 2000,
		3584, 4096, 5000, 7680, 10000, 65536, 70000, 300000, 1 << 20, 1500000}
	if d.thorough {
		s = append(s, 2<<20, 3000001, 5<<20, 9000000)
	}
	return s
}

// suiteSizes: one entry per size, written in its own transaction, read back through the decoder
// (a) alone, (b) twice in a row, (c) between small neighbours; cold (fresh transaction) and warm.
func (d *driver) suiteSizes() {
	for i, size := range d.sizeLadder() {
		kind := kinds[i%2] // str / esc carry arbitrary sizes exactly
		if size == 1 {
			kind = "num"
		}
		t := d.newTrace(fmt.Sprintf("size-%d-%s", size, kind))
		t.write("Add", "k0", []valSpec{t.val(kind, size)})
		t.write("Add", "k1", []valSpec{t.val(kind, size), t.val(kind, size)})
		t.write("Add", "k2", []valSpec{t.val("num", 1), t.val(kind, size), t.val("str", 7), t.val("obj", size/2+1)})
		t.readDecoder(0, "k0", 0, -1) // inside the writing transaction
		t.commit()
		t.observe()
		t.readDecoder(0, "k0", 0, -1)
		t.readDecoder(1, "k1", 0, -1)
		t.readDecoder(2, "k2", 0, -1)
		t.commit()
		t.end()
	}
}

// suitePrograms: the scenario classes the property names, over several keys.
func (d *driver) suitePrograms() {
	big := 70000
	if d.thorough {
		big = 2 << 20
	}
	for _, sz := range []int{5, 300, 3000, big} {
		// update with fewer values: no leftover chunks
		t := d.newTrace(fmt.Sprintf("update-fewer-%d", sz))
		t.write("Add", "k1", []valSpec{t.val("str", sz), t.val("obj", sz), t.val("arr", sz/8+1), t.val("esc", sz), t.val("num", 1)})
		t.write("Add", "k0", []valSpec{t.val("str", sz), t.val("str", 3)})
		t.write("Add", "k2", []valSpec{t.val("obj", 9), t.val("str", sz)})
		t.commit()
		t.observe()
		t.write("Update", "k1", []valSpec{t.val("obj", sz/2+1), t.val("str", sz)})
		t.observe()
		t.commit()
		t.observe()
		t.readDecoder(0, "k1", 0, -1)
		t.readDecoder(1, "k0", 0, -1)
		t.readDecoder(2, "k2", 0, -1)
		t.commit()
		// update with more values, same transaction as another update; update to a single value; to none
		t.write("Update", "k1", []valSpec{t.val("str", sz), t.val("str", 2*sz), t.val("num", 1), t.val("arr", 5)})
		t.write("Update", "k0", []valSpec{t.val("esc", sz)})
		t.observe()
		t.commit()
		t.readDecoder(0, "k1", 0, -1)
		t.readDecoder(1, "k0", 0, -1)
		t.write("Update", "k2", nil)
		t.commit()
		t.observe()
		t.readDecoder(0, "k2", 0, -1)
		t.commit()
		t.end()

		// remove deletes all chunks of that entry only (middle, first, last key; missing key)
		t = d.newTrace(fmt.Sprintf("remove-%d", sz))
		for _, k := range []string{"k0", "k1", "k2", "k3"} {
			t.write("Add", k, []valSpec{t.val("str", sz), t.val("obj", sz), t.val("num", 1)})
		}
		t.commit()
		t.remove("k1")
		t.observe()
		t.commit()
		t.observe()
		t.remove("k1") // already gone
		t.readDecoder(0, "k0", 0, -1)
		t.readDecoder(1, "k2", 0, -1)
		t.readDecoder(2, "k1", 0, -1)
		t.remove("k3")
		t.remove("k0")
		t.commit()
		t.observe()
		t.readDecoder(0, "k2", 0, -1)
		t.write("Add", "k1", []valSpec{t.val("esc", sz)})
		t.write("Upsert", "k2", []valSpec{t.val("str", sz)})
		t.write("Upsert", "k3", []valSpec{t.val("str", sz), t.val("str", 1)})
		t.commit()
		t.observe()
		t.readInterleaved([]string{"k1", "k2", "k3"})
		t.commit()
		t.end()

		// api edge cases: Add on an existing key fails and changes nothing; AddIfNotExist / Update on (non-)existing keys
		t = d.newTrace(fmt.Sprintf("api-%d", sz))
		t.write("AddIfNotExist", "k0", []valSpec{t.val("str", sz), t.val("str", sz+1)})
		t.write("AddIfNotExist", "k0", []valSpec{t.val("str", sz)})
		t.write("Update", "k1", []valSpec{t.val("str", sz)})
		t.write("Add", "k0", []valSpec{t.val("str", sz)})
		t.observe()
		t.commit()
		t.write("Upsert", "k0", []valSpec{t.val("obj", sz)})
		t.write("Upsert", "k1", []valSpec{t.val("obj", sz), t.val("num", 1)})
		t.commit()
		t.observe()
		t.readDecoder(0, "k0", 0, -1)
		t.readDecoder(1, "k1", 1, -1) // start at chunk 1 (FindChunk)
		t.readDecoder(2, "k1", 2, -1) // no such chunk
		t.readDecoder(0, "k1", 0, 1)  // abandon after one value
		t.commit()
		t.end()
	}
	// an entry of many chunks: crosses B-tree node boundaries (slot length 50)
	n := 130
	if d.thorough {
		n = 700
	}
	t := d.newTrace(fmt.Sprintf("many-chunks-%d", n))
	var vs, vs2, vs3 []valSpec
	for i := 0; i < n; i++ {
		vs = append(vs, t.val(kinds[i%len(kinds)], 1+(i*37)%900))
	}
	for i := 0; i < n/3; i++ {
		vs2 = append(vs2, t.val("str", 1+(i*53)%700))
	}
	for i := 0; i < 60; i++ {
		vs3 = append(vs3, t.val("num", 1))
	}
	t.write("Add", "k0", vs3)
	t.write("Add", "k1", vs)
	t.write("Add", "k2", vs3[:0])
	t.write("Add", "k2", []valSpec{t.val("str", 10)})
	t.commit()
	t.observe()
	t.readDecoder(0, "k1", 0, -1)
	t.readDirect(1, "k1", 0, []int{1000, 7, 64}, -1)
	t.readDecoder(2, "k1", n-2, -1)
	t.write("Update", "k1", vs2)
	t.commit()
	t.observe()
	t.readDecoder(0, "k1", 0, -1)
	t.readDecoder(1, "k0", 0, -1)
	t.remove("k1")
	t.commit()
	t.observe()
	t.readDecoder(1, "k0", 0, -1)
	t.readDecoder(2, "k2", 0, -1)
	t.commit()
	t.end()
}

// suiteReaders: exhaustive small enumeration of Read capacity patterns against chunk-length vectors,
// driving the real reader directly.  Lengths/capacities in bytes; a "str" value of payload p has p+3 bytes.
func (d *driver) suiteReaders() {
	lens := []int{2, 5, 12}    // num (1 digit), str payload 2, str payload 9
	caps := []int{1, 4, 5, 40} // below / inside / equal to / beyond the chunk lengths
	maxChunks := 3
	patLen := 2
	if d.thorough {
		caps = []int{1, 2, 5, 7, 12, 40}
	}
	var vectors [][]int
	var rec func(cur []int)
	rec = func(cur []int) {
		if len(cur) > 0 {
			vectors = append(vectors, append([]int(nil), cur...))
		}
		if len(cur) == maxChunks {
			return
		}
		for _, l := range lens {
			rec(append(cur, l))
		}
	}
	rec(nil)
	var patterns [][]int
	var recp func(cur []int)
	recp = func(cur []int) {
		if len(cur) > 0 {
			patterns = append(patterns, append([]int(nil), cur...))
		}
		if len(cur) == patLen {
			return
		}
		for _, c := range caps {
			recp(append(cur, c))
		}
	}
	recp(nil)
	// three vectors per store (keys k0..k2): at most 9 values, so that ids stay one digit long
	for base := 0; base < len(vectors); base += 3 {
		t := d.newTrace(fmt.Sprintf("readers-%d", base/3))
		n := 0
		for j := 0; j < 3 && base+j < len(vectors); j++ {
			var vs []valSpec
			for _, l := range vectors[base+j] {
				switch l {
				case 2:
					vs = append(vs, t.val("num", 1)) // one digit + newline
				default:
					vs = append(vs, t.val("str", l-3))
				}
			}
			t.write("Add", fmt.Sprintf("k%d", j), vs)
			n++
		}
		t.commit()
		t.observe()
		for j := 0; j < n; j++ {
			for _, p := range patterns {
				// stopping rule from the inputs alone: a reader that returns min(capacity, rest of chunk) per call
				// cannot need more calls than this (a reader that re-delivers chunks would otherwise never stop)
				minCap := p[0]
				for _, c := range p {
					if c < minCap {
						minCap = c
					}
				}
				budget := 2
				for _, l := range vectors[base+j] {
					budget += (l + minCap - 1) / minCap
				}
				t.readDirect(j%3, fmt.Sprintf("k%d", j), 0, p, budget)
			}
		}
		t.commit()
		t.end()
	}
}

// suiteRandom: seeded random programs over four keys.
func (d *driver) suiteRandom() {
	progs, steps := 12, 14
	maxSize := 200000.0
	if d.thorough {
		progs, steps, maxSize = 60, 22, 4000000.0
	}
	keys := []string{"k0", "k1", "k2", "k3"}
	r := d.rng
	for p := 0; p < progs; p++ {
		t := d.newTrace(fmt.Sprintf("random-s%d-%d", d.seed, p))
		budget := 12 << 20 // bytes written per program
		randVals := func() []valSpec {
			n := r.Intn(6)
			if r.Intn(12) == 0 {
				n = 40 + r.Intn(80)
			}
			var vs []valSpec
			for i := 0; i < n; i++ {
				kind := kinds[r.Intn(len(kinds))]
				size := int(math.Exp(r.Float64() * math.Log(maxSize)))
				if n > 10 {
					size = 1 + size%600
				}
				if kind == "arr" {
					size = size/6 + 1
				}
				if kind == "num" {
					size = 1
				}
				if size > budget {
					size = 1 + size%1000
				}
				budget -= size
				vs = append(vs, t.val(kind, size))
			}
			return vs
		}
		for s := 0; s < steps; s++ {
			k := keys[r.Intn(len(keys))]
			switch x := r.Intn(20); {
			case x < 4:
				t.write("Upsert", k, randVals())
			case x < 6:
				t.write("Add", k, randVals())
			case x < 8:
				t.write("Update", k, randVals())
			case x < 9:
				t.write("AddIfNotExist", k, randVals())
			case x < 11:
				t.remove(k)
			case x < 14:
				t.readDecoder(r.Intn(3), k, 0, -1)
			case x < 15:
				t.readDecoder(r.Intn(3), k, r.Intn(3), r.Intn(4)-1)
			case x < 17:
				caps := make([]int, 1+r.Intn(3))
				for i := range caps {
					caps[i] = int(math.Exp(r.Float64() * math.Log(3000000)))
				}
				maxReads := -1
				if r.Intn(4) == 0 {
					maxReads = 1 + r.Intn(5)
				}
				t.readDirect(r.Intn(3), k, 0, caps, maxReads)
			case x < 18:
				t.readInterleaved(keys[:2+r.Intn(2)])
			case x < 19:
				t.commit()
				t.observe()
			default:
				t.observe()
			}
		}
		t.commit()
		t.observe()
		for _, k := range keys {
			t.readDecoder(0, k, 0, -1)
		}
		t.commit()
		t.end()
	}
}

// suiteRepro: hand-written reductions of histories that random programs found (kept as regression programs).
func (d *driver) suiteRepro() {
	for variant := 0; variant < 3; variant++ {
		t := d.newTraceOn("repro-remove-in-own-tx", variant)
		t.write("AddIfNotExist", "k1", nil)
		t.write("Add", "k1", []valSpec{t.val("str", 1200), t.val("str", 24000)})
		t.readDecoder(0, "k1", 0, -1)
		t.remove("k1")
		t.write("Upsert", "k1", []valSpec{t.val("num", 1), t.val("str", 49)})
		t.readDecoder(0, "k1", 0, -1)
		t.commit()
		t.observe()
		t.commit()
		t.remove("k1")
		t.remove("k2")
		t.commit()
		t.observe()
		t.commit()
		t.end()
	}
	for i, variant := range []int{2, 2, 2} {
		t := d.newTraceOn(fmt.Sprintf("repro-remove-only-tx-%d", i), variant)
		t.write("Add", "k1", []valSpec{t.val("num", 1), t.val("str", 49)})
		if i >= 1 {
			t.write("Add", "k2", []valSpec{t.val("num", 1)})
		}
		t.commit()
		t.observe()
		t.commit()
		t.remove("k1")
		if i == 2 {
			t.remove("k2")
		}
		t.commit()
		t.observe()
		t.commit()
		t.end()
	}
}
