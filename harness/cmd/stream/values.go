package main

import (
	"encoding/json"
	"reflect"
	"strconv"
	"strings"
)

// valSpec describes one value.  The value is a pure function of the spec, and it carries ID inside.
type valSpec struct {
	ID   int
	Kind string // num, str, esc, obj, arr
	Size int    // payload size in bytes/elements (the JSON text is somewhat longer)
}

const plainAlphabet = "abcdefghijklmnopqrstuvwxyzABCDEFGHIJKLMNOPQRSTUVWXYZ0123456789 .,;-_"

var escAlphabet = []string{"a", "Z", "\"", "\\", "<", ">", "&", "\n", "\t", "é", "ß", "日", "😀", " ", "/", " "}

func filler(id, n int, esc bool) string {
	var sb strings.Builder
	sb.Grow(n + 4)
	x := uint64(id)*0x9E3779B97F4A7C15 + 0x1234567
	for sb.Len() < n {
		x ^= x << 13
		x ^= x >> 7
		x ^= x << 17
		if esc {
			s := escAlphabet[x%uint64(len(escAlphabet))]
			if sb.Len()+len(s) > n {
				s = "x"
			}
			sb.WriteString(s)
		} else {
			sb.WriteByte(plainAlphabet[x%uint64(len(plainAlphabet))])
		}
	}
	return sb.String()
}

func gen(v valSpec) any {
	switch v.Kind {
	case "num":
		return v.ID
	case "str", "esc":
		p := strconv.Itoa(v.ID) + ":"
		n := v.Size - len(p)
		if n < 0 {
			n = 0
		}
		return p + filler(v.ID, n, v.Kind == "esc")
	case "obj":
		return map[string]any{"id": v.ID, "p": filler(v.ID, v.Size, false), "t": true, "nested": map[string]any{"k": []int{1, 2, 3}}}
	case "arr":
		a := make([]any, 0, v.Size+1)
		a = append(a, v.ID)
		for i := 0; i < v.Size; i++ {
			a = append(a, (v.ID*31+i*7)%1000)
		}
		return a
	}
	panic("bad kind " + v.Kind)
}

// encoded is the JSON text json.Encoder produces for the value (Marshal + newline): the chunk.
func encodedLen(v any) int {
	b, err := json.Marshal(v)
	if err != nil {
		die(err)
	}
	return len(b) + 1
}

// canonical form of a value after a trip through encoding/json into `any`
func canon(v any) any {
	b, err := json.Marshal(v)
	if err != nil {
		die(err)
	}
	var x any
	if err := json.Unmarshal(b, &x); err != nil {
		die(err)
	}
	return x
}

// idOf extracts the id a decoded value carries.
func idOf(x any) int {
	switch t := x.(type) {
	case float64:
		return int(t)
	case string:
		i := strings.IndexByte(t, ':')
		if i <= 0 {
			return -1
		}
		n, err := strconv.Atoi(t[:i])
		if err != nil {
			return -1
		}
		return n
	case map[string]any:
		if f, ok := t["id"].(float64); ok {
			return int(f)
		}
	case []any:
		if len(t) > 0 {
			if f, ok := t[0].(float64); ok {
				return int(f)
			}
		}
	}
	return -1
}

// intact: the decoded value equals the value generated for the id it carries.
func (t *trace) intact(x any) (int, bool) {
	id := idOf(x)
	spec, ok := t.vals[id]
	if !ok {
		return id, false
	}
	return id, reflect.DeepEqual(x, canon(gen(spec)))
}
