// textindex: binds spec/TextIndex.tla to /repo/search (filesystem backend, in-memory L2 cache).
//
//	textindex run <datadir> <out.ndjson> <suite>      suites: fixed, random, all
//
// Every public call (transaction begin/commit/rollback, Index.Add, Index.Search) becomes one ndjson event
// with its arguments and results.  Documents are logged as the token list the *real* tokenizer produced.
// Observe events carry the four B-trees of the index read back item by item (through the index's own
// B-tree handles, so uncommitted work is visible); the TLA+ trace specification decides whether they are
// the right statistics and whether a search returned the right set of documents.  The BM25 number needs
// log and floating point, which TLA+ lacks: the documented formula is computed here from the integers of
// the latest Observe event (which the specification validates) and compared with the returned scores
// (relative tolerance 1e-9); the outcome is logged as scores_ok / order_ok and required by the specification.
package main

import (
	"bufio"
	"context"
	"encoding/json"
	"fmt"
	"math"
	"math/rand"
	"os"
	"reflect"
	"strconv"
	"strings"
	"time"
	"unsafe"

	"github.com/sharedcode/sop"
	"github.com/sharedcode/sop/btree"
	"github.com/sharedcode/sop/infs"
	"github.com/sharedcode/sop/search"
)

type Ev struct {
	Ev       string    `json:"ev"`
	Name     string    `json:"name"`
	Mode     string    `json:"mode"`
	Ok       bool      `json:"ok"`
	D        string    `json:"d"`
	Toks     []string  `json:"toks"`
	Q        []string  `json:"q"`
	IDs      []string  `json:"ids"`
	ScoresOk bool      `json:"scores_ok"`
	OrderOk  bool      `json:"order_ok"`
	Post     [][]any   `json:"post"`
	Df       [][]any   `json:"df"`
	Dl       [][]any   `json:"dl"`
	N        int       `json:"n"`
	Tl       int       `json:"tl"`
	Text     string    `json:"text"`   // raw document / query text (replay only)
	Scores   []float64 `json:"scores"` // returned scores (replay only)
	Ref      []float64 `json:"ref"`    // reference scores for the returned ids (replay only)
	Note     string    `json:"note"`
}

type driver struct {
	ctx      context.Context
	dir      string
	w        *bufio.Writer
	rng      *rand.Rand
	seed     int64
	thorough bool
	nTraces  int
	nEvents  int
	nDocs    int
	nSearch  int
	nHits    int
	nIdx     int
	maxPost  int
}

func (d *driver) emit(e Ev) {
	if e.Toks == nil {
		e.Toks = []string{}
	}
	if e.Q == nil {
		e.Q = []string{}
	}
	if e.IDs == nil {
		e.IDs = []string{}
	}
	if e.Post == nil {
		e.Post = [][]any{}
	}
	if e.Df == nil {
		e.Df = [][]any{}
	}
	if e.Dl == nil {
		e.Dl = [][]any{}
	}
	if e.Scores == nil {
		e.Scores = []float64{}
	}
	if e.Ref == nil {
		e.Ref = []float64{}
	}
	for i, x := range e.Scores {
		if math.IsNaN(x) || math.IsInf(x, 0) {
			e.Scores[i] = -1
			e.Note += " non-finite score"
		}
	}
	b, err := json.Marshal(e)
	if err != nil {
		die(err)
	}
	d.w.Write(b)
	d.w.WriteByte('\n')
	d.nEvents++
}

func die(err error) {
	fmt.Fprintln(os.Stderr, "textindex driver:", err)
	os.Exit(3)
}

func main() {
	if len(os.Args) < 5 || os.Args[1] != "run" {
		fmt.Fprintln(os.Stderr, "usage: textindex run <datadir> <out.ndjson> <suite>")
		os.Exit(2)
	}
	dir, out, suite := os.Args[2], os.Args[3], os.Args[4]
	seed := int64(1)
	if s, err := strconv.ParseInt(os.Getenv("VERIF_SEED"), 10, 64); err == nil {
		seed = s
	}
	f, err := os.Create(out)
	if err != nil {
		die(err)
	}
	defer f.Close()
	d := &driver{ctx: context.Background(), dir: dir, w: bufio.NewWriterSize(f, 1<<20), rng: rand.New(rand.NewSource(seed)),
		seed: seed, thorough: os.Getenv("VERIF_TIER") == "thorough"}
	switch suite {
	case "fixed":
		d.suiteFixed()
	case "random":
		d.suiteRandom()
	case "all":
		d.suiteFixed()
		d.suiteRandom()
	default:
		die(fmt.Errorf("unknown suite %s", suite))
	}
	d.w.Flush()
	fmt.Printf("{\"traces\":%d,\"events\":%d,\"docs\":%d,\"searches\":%d,\"hits\":%d,\"max_postings\":%d}\n",
		d.nTraces, d.nEvents, d.nDocs, d.nSearch, d.nHits, d.maxPost)
}

// ---- one trace = one index ----

type observed struct {
	valid bool
	tf    map[string]map[string]int // term -> doc -> freq
	df    map[string]int
	dl    map[string]int
	n, tl int
}

type trace struct {
	d     *driver
	name  string
	index string
	tx    sop.Transaction
	idx   *search.Index
	obs   observed
	tok   search.SimpleTokenizer
}

func (d *driver) newTrace(name string) *trace {
	d.nTraces++
	d.nIdx++
	d.emit(Ev{Ev: "TraceStart", Name: name})
	return &trace{d: d, name: name, index: fmt.Sprintf("ix%d", d.nIdx)}
}

func (t *trace) begin(write bool) {
	mode, m := sop.ForReading, "r"
	if write {
		mode, m = sop.ForWriting, "w"
	}
	ctx := t.d.ctx
	tx, err := infs.NewTransaction(ctx, sop.TransactionOptions{StoresFolders: []string{t.d.dir}, CacheType: sop.InMemory, Mode: mode, MaxTime: 5 * time.Minute})
	if err != nil {
		die(fmt.Errorf("NewTransaction: %w", err))
	}
	if err := tx.Begin(ctx); err != nil {
		die(fmt.Errorf("Begin: %w", err))
	}
	idx, err := search.NewIndex(ctx, sop.DatabaseOptions{StoresFolders: []string{t.d.dir}}, tx, t.index)
	if err != nil {
		die(fmt.Errorf("NewIndex: %w", err))
	}
	t.tx, t.idx = tx, idx
	t.obs.valid = false
	t.d.emit(Ev{Ev: "TxBegin", Mode: m, Ok: true})
}

func (t *trace) commit() {
	err := t.tx.Commit(t.d.ctx)
	note := ""
	if err != nil {
		note = err.Error()
	}
	t.d.emit(Ev{Ev: "TxCommit", Ok: err == nil, Note: note})
	t.tx, t.idx = nil, nil
}

func (t *trace) rollback() {
	err := t.tx.Rollback(t.d.ctx)
	note := ""
	if err != nil {
		note = err.Error()
	}
	t.d.emit(Ev{Ev: "TxRollback", Ok: err == nil, Note: note})
	t.tx, t.idx = nil, nil
}

func (t *trace) add(id, text string) {
	toks := t.tok.Tokenize(text)
	err := t.idx.Add(t.d.ctx, id, text)
	note := ""
	if err != nil {
		note = err.Error()
	}
	t.obs.valid = false
	t.d.nDocs++
	t.d.emit(Ev{Ev: "AddDoc", D: id, Toks: toks, Ok: err == nil, Text: text, Note: note})
}

func storeOf(idx *search.Index, field string) btree.BtreeInterface[string, int] {
	f := reflect.ValueOf(idx).Elem().FieldByName(field)
	if !f.IsValid() {
		die(fmt.Errorf("search.Index has no field %s", field))
	}
	p := (*btree.BtreeInterface[string, int])(unsafe.Pointer(f.UnsafeAddr()))
	return *p
}

func scan(ctx context.Context, b btree.BtreeInterface[string, int]) ([]string, []int, error) {
	var ks []string
	var vs []int
	ok, err := b.First(ctx)
	for ok && err == nil {
		var v int
		k := b.GetCurrentKey().Key
		v, err = b.GetCurrentValue(ctx)
		if err != nil {
			break
		}
		ks = append(ks, k)
		vs = append(vs, v)
		ok, err = b.Next(ctx)
	}
	return ks, vs, err
}

// observe reads the four B-trees back, item by item.
func (t *trace) observe() {
	ctx := t.d.ctx
	o := observed{tf: map[string]map[string]int{}, df: map[string]int{}, dl: map[string]int{}}
	e := Ev{Ev: "Observe", Ok: true}
	fail := func(err error) {
		t.d.emit(Ev{Ev: "Observe", Ok: false, Note: err.Error()})
	}
	ks, vs, err := scan(ctx, storeOf(t.idx, "postings"))
	if err != nil {
		fail(err)
		return
	}
	for i, k := range ks {
		j := strings.IndexByte(k, '|') // terms never contain the separator, ids may
		if j < 0 {
			e.Ok, e.Note = false, "posting key without separator: "+k
			j = len(k) - 1
		}
		term, doc := k[:j], k[j+1:]
		e.Post = append(e.Post, []any{term, doc, vs[i]})
		if o.tf[term] == nil {
			o.tf[term] = map[string]int{}
		}
		o.tf[term][doc] = vs[i]
	}
	if len(ks) > t.d.maxPost {
		t.d.maxPost = len(ks)
	}
	ks, vs, err = scan(ctx, storeOf(t.idx, "termStats"))
	if err != nil {
		fail(err)
		return
	}
	for i, k := range ks {
		e.Df = append(e.Df, []any{k, vs[i]})
		o.df[k] = vs[i]
	}
	ks, vs, err = scan(ctx, storeOf(t.idx, "docStats"))
	if err != nil {
		fail(err)
		return
	}
	for i, k := range ks {
		e.Dl = append(e.Dl, []any{k, vs[i]})
		o.dl[k] = vs[i]
	}
	ks, vs, err = scan(ctx, storeOf(t.idx, "global"))
	if err != nil {
		fail(err)
		return
	}
	for i, k := range ks {
		switch k {
		case "total_docs":
			e.N, o.n = vs[i], vs[i]
		case "total_len":
			e.Tl, o.tl = vs[i], vs[i]
		default:
			e.Ok, e.Note = false, "unexpected key in global store: "+k
		}
	}
	o.valid = e.Ok
	t.obs = o
	t.d.emit(e)
}

// reference: the formula documented in search/index.go, over the observed integers
//
//	idf   = ln((N - n_q + 0.5)/(n_q + 0.5) + 1)
//	score = sum over query tokens of idf * (f*(k1+1)) / (f + k1*(1 - b + b*docLen/avgDL)),  k1 = 1.2, b = 0.75
func (o *observed) bm25(q []string) map[string]float64 {
	const k1, b = 1.2, 0.75
	out := map[string]float64{}
	if o.n == 0 {
		return out
	}
	N := float64(o.n)
	avg := float64(o.tl) / N
	for _, term := range q {
		nq, ok := o.df[term]
		if !ok {
			continue
		}
		idf := math.Log((N-float64(nq)+0.5)/(float64(nq)+0.5) + 1)
		for doc, f := range o.tf[term] {
			dl := float64(o.dl[doc])
			out[doc] += idf * (float64(f) * (k1 + 1)) / (float64(f) + k1*(1-b+b*dl/avg))
		}
	}
	return out
}

func (t *trace) search(query string) {
	if !t.obs.valid {
		t.observe()
	}
	q := t.tok.Tokenize(query)
	res, err := t.idx.Search(t.d.ctx, query)
	t.d.nSearch++
	if err != nil {
		t.d.emit(Ev{Ev: "Search", Q: q, Ok: false, Text: query, Note: err.Error()})
		return
	}
	ref := t.obs.bm25(q)
	e := Ev{Ev: "Search", Q: q, Ok: true, Text: query, ScoresOk: true, OrderOk: true}
	for i, r := range res {
		e.IDs = append(e.IDs, r.DocID)
		e.Scores = append(e.Scores, r.Score)
		want, known := ref[r.DocID]
		e.Ref = append(e.Ref, want)
		if known { // whether the id belongs in the result at all is the specification's decision
			if math.IsNaN(r.Score) || math.Abs(r.Score-want) > 1e-9*math.Max(math.Abs(want), 1e-300) {
				e.ScoresOk = false
			}
		}
		if i > 0 && !(res[i-1].Score >= r.Score) {
			e.OrderOk = false
		}
	}
	t.d.nHits += len(res)
	t.d.emit(e)
}
