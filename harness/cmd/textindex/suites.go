package main

import (
	"fmt"
	"strings"
)

type doc struct{ id, text string }

// plan: how a corpus is indexed: batches[i] = documents of transaction i; rolled[i] = that transaction is rolled back
type plan struct {
	batches [][]doc
	rolled  []bool
}

// runCorpus indexes the corpus as planned and searches inside writing transactions (uncommitted work visible)
// and in fresh reading transactions.
func (d *driver) runCorpus(name string, p plan, queries []string) {
	t := d.newTrace(name)
	for i, b := range p.batches {
		t.begin(true)
		for _, x := range b {
			t.add(x.id, x.text)
		}
		if i%2 == 0 || p.rolled[i] {
			t.observe()
			for j, q := range queries {
				if (i+j)%3 == 0 {
					t.search(q)
				}
			}
		}
		if p.rolled[i] {
			t.rollback()
			t.begin(false)
			t.observe()
			t.search(queries[i%len(queries)])
			t.commit()
		} else {
			t.commit()
		}
	}
	t.begin(false)
	t.observe()
	for _, q := range queries {
		t.search(q)
	}
	t.commit()
}

func split(docs []doc, k int) plan {
	if k < 1 {
		k = 1
	}
	if k > len(docs) && len(docs) > 0 {
		k = len(docs)
	}
	p := plan{}
	for i := 0; i < k; i++ {
		lo, hi := i*len(docs)/k, (i+1)*len(docs)/k
		p.batches = append(p.batches, docs[lo:hi])
		p.rolled = append(p.rolled, false)
	}
	return p
}

var fixedCorpora = []struct {
	name    string
	docs    []doc
	queries []string
}{
	{"prefix-terms", []doc{
		{"d1", "app apple apples application"},
		{"d2", "apple apple pie"},
		{"d3", "app store"},
		{"d4", "applesauce and appé app1 app12"},
		{"d5", "pineapple"},
		{"d6", "a1 a12 a123 a"},
	}, []string{"app", "apple", "apples", "appl", "ap", "app1", "appé", "a1", "a12", "pie app", "application store", "zzz", "app app", "apple APP"}},
	{"unicode", []doc{
		{"u1", "Café au lait, naïve résumé"},
		{"u2", "cafe CAFÉ café"},
		{"u3", "日本語 の テキスト 日本"},
		{"u4", "Straße STRASSE straße über Über"},
		{"u5", "École école ÉCOLE İstanbul istanbul"},
		{"ü6", "Ωmega ωmega ΩMEGA ١٢٣ 123 x²"},
	}, []string{"café", "cafe", "CAFÉ", "日本", "日本語", "straße", "strasse", "über", "école", "istanbul", "İstanbul", "ωmega", "123", "١٢٣", "x²", "テキスト の"}},
	{"stop-words", []doc{
		{"s1", "the quick brown fox jumps over the lazy dog"},
		{"s2", "the and of is"},
		{"s3", ""},
		{"s4", "to be or not to be"},
		{"s5", "The Fox AND the Hound"},
		{"s6", "... --- !!!"},
	}, []string{"the", "the fox", "and of", "fox", "be", "to be or not to be", "", "   ", "hound dog", "quick quick quick", "!!!"}},
	{"repeated-terms", []doc{
		{"r1", "go go go go go"},
		{"r2", "go gopher"},
		{"r3", "gopher gopher go golang"},
		{"r4", "golang"},
		{"r5", "go"},
		{"r6", "rust rust rust rust rust rust rust rust rust rust go"},
	}, []string{"go", "gopher", "go gopher", "go go", "golang rust", "rust", "go go go gopher gopher", "g"}},
	{"ids-with-separator", []doc{
		{"a|b", "alpha beta"},
		{"a", "alpha b"},
		{"b", "beta a|b"},
		{"|", "alpha|beta gamma"},
		{"alpha|x", "gamma alpha"},
		{"x|", "b beta"},
		{"", "gamma empty id"},
		{"id with spaces", "alpha gamma delta"},
		{"beta", "delta"},
	}, []string{"alpha", "beta", "b", "a", "gamma", "delta", "alpha beta", "x", "empty id", "alpha|beta"}},
	{"punctuation-case", []doc{
		{"p1", "Hello, World! hello-world hello_world HELLO"},
		{"p2", "e-mail: user@example.com; phone: 555-1234"},
		{"p3", "C++ c# .NET node.js"},
		{"p4", "tabs\tand\nnewlines\r\nhere"},
		{"p5", "snake_case camelCase kebab-case"},
	}, []string{"hello", "HELLO world", "user", "example.com", "555", "1234", "c", "net", "js node", "newlines", "case", "camelcase", "snake_case"}},
}

func (d *driver) suiteFixed() {
	for _, c := range fixedCorpora {
		for _, k := range []int{1, 2, len(c.docs)} {
			p := split(c.docs, k)
			d.runCorpus(fmt.Sprintf("fixed-%s-tx%d", c.name, k), p, c.queries)
		}
		// one transaction in the middle is rolled back: its documents are not part of the collection
		p := split(c.docs, 3)
		p.rolled[1] = true
		d.runCorpus(fmt.Sprintf("fixed-%s-rollback", c.name), p, c.queries)
	}
}

var vocab = []string{
	"app", "apple", "apples", "application", "app1", "app12", "appé", "go", "gopher", "golang", "g", "x", "xy", "xyz",
	"café", "cafe", "naïve", "日本", "日本語", "über", "uber", "straße", "école", "42", "4", "2024", "a1", "a12",
	"alpha", "beta", "gamma", "delta", "rust", "zig", "Apple", "APPLE", "Go", "ÉCOLE", "Über",
	"the", "and", "of", "is", "to", "in", // stop words
}
var seps = []string{" ", " ", " ", ", ", "|", "-", "\n", "... ", "_", "; ", "  "}
var idPool = []string{"d%d", "doc|%d", "%d", "id %d", "ü%d", "%d|", "|%d", "app|%d", "go%d", "apple%d"}

func (d *driver) randText(maxWords int) string {
	r := d.rng
	n := r.Intn(maxWords + 1)
	var sb strings.Builder
	// a small per-document sub-vocabulary makes repeated terms and overlaps likely
	base := r.Intn(len(vocab))
	for i := 0; i < n; i++ {
		w := vocab[(base+r.Intn(7)*r.Intn(3))%len(vocab)]
		if r.Intn(4) == 0 {
			w = vocab[r.Intn(len(vocab))]
		}
		sb.WriteString(w)
		sb.WriteString(seps[r.Intn(len(seps))])
	}
	return sb.String()
}

func (d *driver) randCorpus(nDocs, maxWords int) []doc {
	r := d.rng
	var docs []doc
	seen := map[string]bool{}
	for len(docs) < nDocs {
		id := fmt.Sprintf(idPool[r.Intn(len(idPool))], r.Intn(3*nDocs))
		if seen[id] {
			continue
		}
		seen[id] = true
		docs = append(docs, doc{id, d.randText(maxWords)})
	}
	return docs
}

func (d *driver) randQueries(n int) []string {
	r := d.rng
	var qs []string
	for i := 0; i < n; i++ {
		k := 1 + r.Intn(3)
		if r.Intn(8) == 0 {
			k = 0
		}
		var ws []string
		for j := 0; j < k; j++ {
			w := vocab[r.Intn(len(vocab))]
			if r.Intn(10) == 0 {
				w = w + "q" // a term nobody has
			}
			if r.Intn(10) == 0 && len(w) > 1 {
				w = w[:1] // a proper prefix
			}
			ws = append(ws, w)
		}
		qs = append(qs, strings.Join(ws, seps[r.Intn(len(seps))]))
	}
	return qs
}

func (d *driver) suiteRandom() {
	r := d.rng
	n, maxDocs, maxWords, nq := 14, 9, 12, 14
	if d.thorough {
		n, maxDocs, maxWords, nq = 70, 30, 30, 24
	}
	for i := 0; i < n; i++ {
		docs := d.randCorpus(2+r.Intn(maxDocs), maxWords)
		k := 1 + r.Intn(len(docs))
		p := split(docs, k)
		if len(p.batches) > 1 && r.Intn(3) == 0 {
			p.rolled[r.Intn(len(p.batches))] = true
		}
		d.runCorpus(fmt.Sprintf("random-s%d-%d-docs%d-tx%d", d.seed, i, len(docs), len(p.batches)), p, d.randQueries(nq))
	}
	if d.thorough {
		// a corpus whose postings tree has more items than one B-tree node holds (slot length 5000)
		docs := d.randCorpus(700, 60)
		p := split(docs, 4)
		d.runCorpus(fmt.Sprintf("random-s%d-big", d.seed), p, d.randQueries(30))
	}
}
