package main

import (
	"encoding/json"
	"os"

	"verif/harness/lib/decor"
)

// BEv is one backend-level trace event for SopCommitTrace (all fields always present).
type BEv struct {
	Ev   string           `json:"ev"`
	T    string           `json:"t"`
	H    []map[string]any `json:"h"`
	Ids  []string         `json:"ids"`
	Keys []string         `json:"keys"`
	Ok   bool             `json:"ok"`
	N    int              `json:"n"`
}

func strs(v any) []string {
	out := []string{}
	if a, ok := v.([]any); ok {
		for _, x := range a {
			if s, ok := x.(string); ok {
				out = append(out, s)
			}
		}
	}
	return out
}

func hmaps(v any) []map[string]any {
	out := []map[string]any{}
	if a, ok := v.([]any); ok {
		for _, x := range a {
			if m, ok := x.(map[string]any); ok {
				out = append(out, map[string]any{"l": m["l"], "a": m["a"], "b": m["b"], "ab": m["ab"], "v": m["v"], "wip": m["wip"], "del": m["del"]})
			}
		}
	}
	return out
}

// backendTrace projects the hub's events onto the vocabulary of SopCommitTrace.
func backendTrace(evs []decor.Event) []BEv {
	var out []BEv
	for _, e := range evs {
		if e.Skip {
			continue // failed before reaching the backend: no effect, nothing to explain
		}
		b := BEv{T: e.Txn, H: []map[string]any{}, Ids: []string{}, Keys: []string{}, N: e.N}
		switch e.Ev {
		case "REG.Get":
			if e.Err != "" {
				continue
			}
			b.Ev, b.Ids, b.H = "REG.Get", strs(e.Args["ids"]), hmaps(e.Res["h"])
		case "REG.Add":
			if e.Err != "" && !e.After {
				continue
			}
			b.Ev, b.H = "REG.Add", hmaps(e.Args["h"])
		case "REG.Update":
			if e.Err != "" && !e.After {
				continue
			}
			b.Ev, b.H = "REG.Write", hmaps(e.Args["h"])
		case "REG.UpdateNoLocks":
			if e.Err != "" && !e.After {
				continue
			}
			b.H = hmaps(e.Args["h"])
			if aon, _ := e.Args["aon"].(bool); aon {
				b.Ev = "REG.Flip"
			} else {
				b.Ev = "REG.Write"
			}
		case "REG.Remove":
			if e.Err != "" && !e.After {
				continue
			}
			b.Ev, b.Ids = "REG.Remove", strs(e.Args["ids"])
		case "BLOB.Add", "BLOB.Update":
			if e.Err != "" && !e.After {
				continue
			}
			b.Ev, b.Ids = "BLOB.Add", strs(e.Args["ids"])
		case "BLOB.Remove":
			if e.Err != "" && !e.After {
				continue
			}
			b.Ev, b.Ids = "BLOB.Remove", strs(e.Args["ids"])
		case "PLOG.Add":
			if e.Err != "" && !e.After {
				continue
			}
			b.Ev = "PLOG.Add"
		case "PLOG.Remove":
			if e.Err != "" && !e.After {
				continue
			}
			b.Ev = "PLOG.Remove"
		case "L2.Lock", "L2.DualLock":
			b.Ev, b.Keys = "L2.Lock", strs(e.Args["keys"])
			b.Ok, _ = e.Res["ok"].(bool)
			if e.Err != "" {
				continue
			}
		case "L2.IsLocked":
			if e.Err != "" {
				continue
			}
			b.Ev, b.Keys = "L2.IsLocked", strs(e.Args["keys"])
			b.Ok, _ = e.Res["ok"].(bool)
		case "L2.Unlock":
			b.Ev, b.Keys = "L2.Unlock", strs(e.Args["keys"])
		case "End", "AgeAll", "ExpireLocks":
			b.Ev = e.Ev
			if e.Res != nil {
				b.Ok, _ = e.Res["ok"].(bool)
			}
		default:
			continue
		}
		out = append(out, b)
	}
	return out
}

type BTraceFile struct {
	f   *os.File
	enc *json.Encoder
}

func NewBTraceFile(path string) *BTraceFile {
	if path == "" {
		return nil
	}
	f, err := os.Create(path)
	if err != nil {
		panic(err)
	}
	return &BTraceFile{f: f, enc: json.NewEncoder(f)}
}
func (t *BTraceFile) Write(name string, evs []decor.Event, extra map[string]any) {
	if t == nil {
		return
	}
	hdr := map[string]any{"ev": "TraceStart", "name": name}
	for k, v := range extra {
		hdr[k] = v
	}
	t.enc.Encode(hdr)
	for _, b := range backendTrace(evs) {
		t.enc.Encode(&b)
	}
}
func (t *BTraceFile) Close() {
	if t != nil {
		t.f.Close()
	}
}
