package main

import (
	"bufio"
	"context"
	"encoding/json"
	"fmt"
	"math/rand"
	"os"
	"os/exec"
	"path/filepath"
	"strings"
	"time"

	"github.com/sharedcode/sop"
	_ "github.com/sharedcode/sop/adapters/redis"
	"github.com/sharedcode/sop/cache"

	"verif/harness/lib/decor"
	"verif/harness/lib/resp"
	"verif/harness/lib/sopenv"
)

// CacheCfg configures the multi-process cache histories (C20).
type CacheCfg struct {
	Folder  string             `json:"folder"`
	Redis   string             `json:"redis"` // address of the shared RESP server ("" = standalone in-memory L2)
	Name    string             `json:"name"`
	Stores  []sopenv.StoreOpts `json:"stores"`
	SmallL1 bool               `json:"small_l1"`
}

type workerCmd struct {
	Cmd   string   `json:"cmd"`
	Label string   `json:"label"`
	Spec  *TxnSpec `json:"spec,omitempty"`
}

// runCacheWorker: a long-lived process (own L1 cache; own or shared L2) executing transactions on request.
func runCacheWorker(cfg Config) {
	ctx := context.Background()
	cc := cfg.Cache
	if cc.SmallL1 {
		cache.DefaultStandaloneMinCapacity, cache.DefaultStandaloneMaxCapacity = 2, 4
		cache.DefaultMinCapacity, cache.DefaultMaxCapacity = 2, 4
	}
	env := sopenv.New(cc.Folder, decor.NewHub())
	env.Hub.Record = false
	if cc.Redis != "" {
		l2 := sop.GetL2Cache(sop.TransactionOptions{CacheType: sop.Redis, RedisConfig: &sop.RedisCacheConfig{Address: cc.Redis}})
		if l2 == nil {
			fmt.Println(`{"error":"no redis cache"}`)
			return
		}
		env.L2 = l2
		cache.GetGlobalL1Cache(l2)
	}
	p := &Program{Stores: cc.Stores}
	r := &Runner{Env: env, Rec: &Recorder{}, MaxTime: 20 * time.Second}
	in := bufio.NewScanner(os.Stdin)
	in.Buffer(make([]byte, 1<<20), 1<<24)
	out := json.NewEncoder(os.Stdout)
	for in.Scan() {
		var c workerCmd
		if err := json.Unmarshal(in.Bytes(), &c); err != nil {
			out.Encode(map[string]any{"error": err.Error()})
			continue
		}
		switch c.Cmd {
		case "txn":
			if _, err := r.RunTxn(ctx, c.Label, p, *c.Spec, nil); err != nil {
				r.Rec.Add(Ev{Ev: "HarnessError", Note: errs(err)})
			}
		case "observe":
			r.obsN++
			r.Observe(ctx, p)
		case "clearl2":
			env.L2.Clear(ctx)
		case "quit":
			out.Encode(map[string]any{"events": []Ev{}})
			return
		}
		out.Encode(map[string]any{"events": r.Rec.Take()})
	}
}

type worker struct {
	errf string
	name string
	cmd  *exec.Cmd
	in   *json.Encoder
	out  *bufio.Scanner
}

func startWorker(cc CacheCfg, dir string) (*worker, error) {
	cfgp := filepath.Join(dir, "worker-"+cc.Name+".json")
	data, _ := json.Marshal(Config{Cache: &cc})
	os.WriteFile(cfgp, data, 0o644)
	cmd := exec.Command(os.Args[0], "cacheworker", cfgp)
	if ef, err := os.Create(filepath.Join(dir, "worker-"+cc.Name+".stderr")); err == nil {
		cmd.Stderr = ef
	}
	stdin, _ := cmd.StdinPipe()
	stdout, _ := cmd.StdoutPipe()
	if err := cmd.Start(); err != nil {
		return nil, err
	}
	sc := bufio.NewScanner(stdout)
	sc.Buffer(make([]byte, 1<<20), 1<<26)
	return &worker{errf: filepath.Join(dir, "worker-"+cc.Name+".stderr"), name: cc.Name, cmd: cmd, in: json.NewEncoder(stdin), out: sc}, nil
}

func (w *worker) do(c workerCmd) ([]Ev, error) {
	if err := w.in.Encode(c); err != nil {
		return nil, err
	}
	scanned := make(chan bool, 1)
	go func() { scanned <- w.out.Scan() }()
	var okScan bool
	select {
	case okScan = <-scanned:
	case <-time.After(90 * time.Second):
		w.cmd.Process.Kill()
		return nil, fmt.Errorf("worker hung: no reply to %s %s within 90 s (killed)", c.Cmd, c.Label)
	}
	if !okScan {
		tail := ""
		if b, err := os.ReadFile(w.errf); err == nil {
			if len(b) > 1500 {
				b = b[len(b)-1500:]
			}
			tail = string(b)
		}
		return nil, fmt.Errorf("worker died: %s", tail)
	}
	var resp struct {
		Events []Ev   `json:"events"`
		Error  string `json:"error"`
	}
	if err := json.Unmarshal(w.out.Bytes(), &resp); err != nil {
		return nil, err
	}
	if resp.Error != "" {
		return nil, fmt.Errorf("%s", resp.Error)
	}
	for i := range resp.Events {
		resp.Events[i].Name = w.name
	}
	return resp.Events, nil
}

func (w *worker) stop() {
	w.in.Encode(workerCmd{Cmd: "quit"})
	done := make(chan struct{})
	go func() { w.cmd.Wait(); close(done) }()
	select {
	case <-done:
	case <-time.After(3 * time.Second):
		w.cmd.Process.Kill()
	}
}

// runCache: histories of commits and observations from several OS processes with cache perturbations in between.
func runCache(cfg Config) {
	rnd := rand.New(rand.NewSource(cfg.Seed))
	tf := NewTraceFile(cfg.Out)
	defer tf.Close()
	for i := 0; i < cfg.Programs; i++ {
		clustered := cfg.Clustered
		dir := filepath.Join(cfg.Data, fmt.Sprintf("k%d", i))
		os.MkdirAll(dir, 0o755)
		folder := filepath.Join(dir, "db")
		var srv *resp.Server
		addr := ""
		if clustered {
			var err error
			srv, err = resp.Start()
			if err != nil {
				tf.Write(fmt.Sprintf("k%d", i), []Ev{{Ev: "HarnessError", Note: errs(err)}}, nil)
				continue
			}
			addr = srv.Addr()
		}
		stores := []sopenv.StoreOpts{{Name: fmt.Sprintf("%s%d_s0", cfg.Gen.Prefix, i), Slot: cfg.Gen.Slots[rnd.Intn(len(cfg.Gen.Slots))], Unique: true,
			Placement: cfg.Gen.Placements[rnd.Intn(len(cfg.Gen.Placements))]}}
		nw := 1
		if clustered {
			nw = 2 + rnd.Intn(2)
		}
		if len(cfg.Script) > 0 { // scripted history (replay of a CacheCoherence behaviour): as many processes as it names
			nw = 1
			for _, st := range cfg.Script {
				var j int
				if i := strings.Index(st, "@w"); i >= 0 {
					fmt.Sscanf(st[i+2:], "%d", &j)
					if j+1 > nw {
						nw = j + 1
					}
				}
			}
		}
		var ws []*worker
		bad := false
		small := rnd.Intn(3) == 0 && len(cfg.Script) == 0 // the whole history runs with every process's L1 shrunk to 4 entries
		for j := 0; j < nw; j++ {
			w, err := startWorker(CacheCfg{Folder: folder, Redis: addr, Name: fmt.Sprintf("w%d", j), Stores: stores, SmallL1: small}, dir)
			if err != nil {
				bad = true
				break
			}
			ws = append(ws, w)
		}
		var evs []Ev
		var steps []string
		dead := false
		add := func(e []Ev, err error) {
			if err != nil && !dead {
				dead = true
				note := err.Error()
				if len(note) > 900 {
					note = note[:900]
				}
				evs = append(evs, Ev{Ev: "WorkerDied", Note: note})
			}
			evs = append(evs, e...)
		}
		if !bad {
			seed := TxnSpec{Mode: "w", New: []int{0}, End: "commit"}
			for k := 1; k <= cfg.Gen.Keys; k++ {
				seed.Ops = append(seed.Ops, OpSpec{Op: "Add", Store: 0, K: k, V: "0"})
			}
			add(ws[0].do(workerCmd{Cmd: "txn", Label: "t0", Spec: &seed}))
			// every process reads everything once so that its caches are warm
			for j := range ws {
				add(ws[j].do(workerCmd{Cmd: "observe"}))
			}
			vn := 0
			n := 4 + rnd.Intn(cfg.Gen.MaxTxns+4)
			if len(cfg.Script) > 0 {
				n = 0
				for st, step := range cfg.Script {
					if dead {
						break
					}
					j := 0
					if i := strings.Index(step, "@w"); i >= 0 {
						fmt.Sscanf(step[i+2:], "%d", &j)
					}
					switch {
					case strings.HasPrefix(step, "txn@"): // read-modify-write of key 1
						vn++
						spec := TxnSpec{Mode: "w", Open: []int{0}, End: "commit", Ops: []OpSpec{{Op: "Get", Store: 0, K: 1},
							{Op: "Update", Store: 0, K: 1, V: fmt.Sprintf("s%d.%d", i, vn)}}}
						add(ws[j].do(workerCmd{Cmd: "txn", Label: fmt.Sprintf("t%d", st+1), Spec: &spec}))
					case strings.HasPrefix(step, "op@"): // op@wJ:<Op>:<key> - one committed single-operation writer
						parts := strings.Split(step, ":")
						if len(parts) == 3 {
							var k int
							fmt.Sscanf(parts[2], "%d", &k)
							vn++
							spec := TxnSpec{Mode: "w", Open: []int{0}, End: "commit", Ops: []OpSpec{{Op: parts[1], Store: 0, K: k, V: fmt.Sprintf("s%d.%d", i, vn)}}}
							add(ws[j].do(workerCmd{Cmd: "txn", Label: fmt.Sprintf("t%d", st+1), Spec: &spec}))
						}
					case strings.HasPrefix(step, "observe@"):
						add(ws[j].do(workerCmd{Cmd: "observe"}))
					case step == "flushall" && srv != nil:
						srv.FlushAll()
					case step == "clearl2":
						add(ws[j].do(workerCmd{Cmd: "clearl2"}))
					}
					steps = append(steps, step)
				}
			}
			for st := 0; st < n && !dead; st++ {
				j := rnd.Intn(len(ws))
				switch rnd.Intn(6) {
				case 0: // cache perturbation
					if clustered {
						switch rnd.Intn(3) {
						case 0:
							srv.FlushAll()
							steps = append(steps, "flushall")
						case 1:
							srv.AdvanceClock(time.Duration(1+rnd.Intn(40)) * time.Minute)
							steps = append(steps, "advance")
						default:
							ks := srv.Keys()
							if len(ks) > 0 {
								srv.Evict(ks[rnd.Intn(len(ks))])
							}
							steps = append(steps, "evict")
						}
					} else {
						add(ws[j].do(workerCmd{Cmd: "clearl2"}))
						steps = append(steps, "clearl2")
					}
				case 1, 2: // observation by some process
					add(ws[j].do(workerCmd{Cmd: "observe"}))
					steps = append(steps, fmt.Sprintf("observe@w%d", j))
				default: // a writer in some process
					spec := TxnSpec{Mode: "w", Open: []int{0}, End: "commit"}
					for o := 0; o < 1+rnd.Intn(cfg.Gen.MaxOps); o++ {
						vn++
						op := []string{"Upsert", "Update", "Remove", "Add", "Get"}[rnd.Intn(5)]
						spec.Ops = append(spec.Ops, OpSpec{Op: op, Store: 0, K: 1 + rnd.Intn(cfg.Gen.Keys+2), V: fmt.Sprintf("v%d.%d", i, vn)})
					}
					if rnd.Intn(6) == 0 {
						spec.End = "rollback"
					}
					add(ws[j].do(workerCmd{Cmd: "txn", Label: fmt.Sprintf("t%d", st+1), Spec: &spec}))
					steps = append(steps, fmt.Sprintf("txn@w%d", j))
				}
			}
			for j := range ws {
				if !dead {
					add(ws[j].do(workerCmd{Cmd: "observe"}))
				}
			}
		}
		for _, w := range ws {
			w.stop()
		}
		if srv != nil {
			srv.Close()
		}
		tf.Write(fmt.Sprintf("k%d", i), evs, map[string]any{"stores": stores, "steps": steps, "clustered": clustered, "workers": nw, "small_l1": small})
		if os.Getenv("VERIF_KEEP_DATA") == "" {
			os.RemoveAll(dir)
		}
	}
}
