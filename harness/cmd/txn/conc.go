package main

import (
	"context"
	"fmt"
	"math/rand"
	"os"
	"path/filepath"
	"sync"
	"time"

	"verif/harness/lib/decor"
	"verif/harness/lib/sopenv"
)

// ConcCfg configures concurrent histories (C02 C04 C05 C37).
type ConcCfg struct {
	Workload string `json:"workload"` // "mixed" | "disjoint" | "uniqueadd"
	Txns     int    `json:"txns"`     // concurrent transactions per history
	Keys     int    `json:"keys"`     // seeded keys 1..Keys
	Slot     int    `json:"slot"`
	Sched    string `json:"sched"`    // "gate" (one at a time, deterministic) | "free" (goroutines)
	MaxStep  int    `json:"max_step"` // gate: max backend calls per scheduling slice
	Empty    bool   `json:"empty"`    // store is created empty by the seed (first-root race)
	Die      bool   `json:"die"`      // sched "stall": the stalled transaction never resumes (dies holding its locks)
	Budget   bool   `json:"budget"`   // record Commit durations against min(deadline, maxTime)
}

func genConc(r *rand.Rand, cc ConcCfg, id int, prefix string) Program {
	var p Program
	place := []string{"node", "segment", "global"}[r.Intn(3)]
	p.Stores = []sopenv.StoreOpts{{Name: fmt.Sprintf("%s%d_s0", prefix, id), Slot: cc.Slot, Unique: true, Placement: place}}
	seed := TxnSpec{Mode: "w", New: []int{0}, End: "commit"}
	if cc.Workload == "create" {
		// nobody creates the store beforehand: the concurrent transactions all call NewBtree on the same name
		seed = TxnSpec{Mode: "w", End: "rollback"}
	} else if cc.Workload == "split" {
		for k := 1; k <= cc.Keys; k++ { // sparse keys: room for neighbours between them
			seed.Ops = append(seed.Ops, OpSpec{Op: "Add", Store: 0, K: 100 * k, V: "0"})
		}
	} else if !cc.Empty {
		for k := 1; k <= cc.Keys; k++ {
			seed.Ops = append(seed.Ops, OpSpec{Op: "Add", Store: 0, K: k, V: "0"})
		}
	}
	p.Txns = append(p.Txns, seed)
	for ti := 0; ti < cc.Txns; ti++ {
		t := TxnSpec{Mode: "w", Open: []int{0}, End: "commit"}
		tag := fmt.Sprintf("c%d", ti+1)
		switch cc.Workload {
		case "create":
			t.Open, t.New = nil, []int{0}
			for i := 0; i < 1+r.Intn(3); i++ {
				t.Ops = append(t.Ops, OpSpec{Op: "Add", Store: 0, K: 1 + ti + i*cc.Txns, V: fmt.Sprintf("%s.%d", tag, i)})
			}
			if r.Intn(4) == 0 {
				t.End = "rollback"
			}
		case "split":
			// c1 adds one key; c2 adds eight neighbours of it (leaf splits, inner nodes change); further
			// transactions add single keys elsewhere.  Whoever commits second must merge into the new structure.
			j := 1 + (id % cc.Keys)
			switch ti {
			case 0:
				t.Ops = append(t.Ops, OpSpec{Op: "Add", Store: 0, K: 100*j + 50, V: tag + ".0"})
			case 1:
				for i := 1; i <= 8; i++ {
					t.Ops = append(t.Ops, OpSpec{Op: "Add", Store: 0, K: 100*j + 50 + i, V: fmt.Sprintf("%s.%d", tag, i)})
				}
			default:
				t.Ops = append(t.Ops, OpSpec{Op: "Add", Store: 0, K: 100*(1+(id+ti)%cc.Keys) + 10 + ti, V: tag + ".0"})
			}
		case "disjoint":
			n := 1 + r.Intn(4)
			for i := 0; i < n; i++ {
				// disjoint new keys: key = base + ti + i*Txns, interleaved so that they land in the same leaves
				k := cc.Keys + 1 + ti + i*cc.Txns
				t.Ops = append(t.Ops, OpSpec{Op: "Add", Store: 0, K: k, V: fmt.Sprintf("%s.%d", tag, i)})
			}
			if r.Intn(3) == 0 && cc.Keys > 0 { // also update an own existing key (disjoint by residue)
				k := 1 + ti
				if k <= cc.Keys {
					t.Ops = append(t.Ops, OpSpec{Op: "Update", Store: 0, K: k, V: tag + ".u"})
				}
			}
			if r.Intn(3) == 0 { // also remove own existing keys (same residue class, not the one updated): several removes in one replay
				for k := 1 + ti + cc.Txns; k <= cc.Keys; k += cc.Txns {
					t.Ops = append(t.Ops, OpSpec{Op: "Remove", Store: 0, K: k})
				}
			}
		case "uniqueadd":
			n := 1 + r.Intn(3)
			for i := 0; i < n; i++ {
				k := cc.Keys + 1 + r.Intn(3)
				op := []string{"Add", "AddIfNotExist", "Upsert"}[r.Intn(3)]
				t.Ops = append(t.Ops, OpSpec{Op: op, Store: 0, K: k, V: fmt.Sprintf("%s.%d", tag, i)})
			}
		case "contend":
			// overlapping updates in opposite key orders
			ks := []int{}
			for k := 1; k <= cc.Keys && len(ks) < 3; k++ {
				ks = append(ks, k)
			}
			if ti%2 == 1 {
				for a, b := 0, len(ks)-1; a < b; a, b = a+1, b-1 {
					ks[a], ks[b] = ks[b], ks[a]
				}
			}
			for i, k := range ks {
				t.Ops = append(t.Ops, OpSpec{Op: "Get", Store: 0, K: k})
				t.Ops = append(t.Ops, OpSpec{Op: "Update", Store: 0, K: k, V: fmt.Sprintf("%s.%d", tag, i)})
			}
		default: // mixed
			switch r.Intn(4) {
			case 0: // read-only
				t.Mode = "r"
				for i := 0; i < 1+r.Intn(3); i++ {
					t.Ops = append(t.Ops, OpSpec{Op: "Get", Store: 0, K: 1 + r.Intn(cc.Keys)})
				}
			case 1: // blind writes
				for i := 0; i < 1+r.Intn(3); i++ {
					op := []string{"Upsert", "Remove", "Add", "Update"}[r.Intn(4)]
					t.Ops = append(t.Ops, OpSpec{Op: op, Store: 0, K: 1 + r.Intn(cc.Keys+2), V: fmt.Sprintf("%s.%d", tag, i)})
				}
			default: // read-modify-write
				for i := 0; i < 1+r.Intn(2); i++ {
					k := 1 + r.Intn(cc.Keys)
					t.Ops = append(t.Ops, OpSpec{Op: "Get", Store: 0, K: k})
					t.Ops = append(t.Ops, OpSpec{Op: "Update", Store: 0, K: k, V: fmt.Sprintf("%s.%d", tag, i)})
				}
				if r.Intn(3) == 0 { // write skew partner: read one key, write another
					t.Ops = append(t.Ops, OpSpec{Op: "Get", Store: 0, K: 1 + r.Intn(cc.Keys)})
				}
			}
		}
		if cc.Workload == "mixed" && r.Intn(8) == 0 {
			t.End = "rollback"
		}
		p.Txns = append(p.Txns, t)
	}
	return p
}

func runConc(cfg Config) {
	ctx := context.Background()
	rnd := rand.New(rand.NewSource(cfg.Seed))
	tf := NewTraceFile(cfg.Out)
	defer tf.Close()
	bf := NewBTraceFile(cfg.BackendOut)
	defer bf.Close()
	cc := *cfg.Conc
	for i := 0; i < cfg.Programs; i++ {
		p := genConc(rnd, cc, i, cfg.Gen.Prefix)
		folder := filepath.Join(cfg.Data, fmt.Sprintf("c%d", i))
		hub := decor.NewHub()
		env := sopenv.New(folder, hub)
		hub.Record = bf != nil && (cc.Sched == "gate" || os.Getenv("VERIF_BTRACE_FREE") != "")
		r := &Runner{Env: env, Rec: &Recorder{}, MaxTime: time.Duration(envInt("VERIF_MAXTIME_MS", 30000)) * time.Millisecond, NoReset: true, OpGate: cc.Sched == "gate", Deadline: true, Budget: cc.Budget}
		if _, err := r.RunTxn(ctx, "t0", &p, p.Txns[0], nil); err != nil {
			r.Rec.Add(Ev{Ev: "HarnessError", Note: errs(err)})
		}
		r.Observe(ctx, &p)
		n := len(p.Txns) - 1
		labels := make([]string, n)
		done := make([]chan struct{}, n)
		var sched []string
		if cc.Sched == "gate" || cc.Sched == "stall" {
			for j := 0; j < n; j++ {
				labels[j] = fmt.Sprintf("c%d", j+1)
				hub.SetBreak(labels[j], 1)
			}
		} else {
			for j := 0; j < n; j++ {
				labels[j] = fmt.Sprintf("c%d", j+1)
			}
		}
		var wg sync.WaitGroup
		for j := 0; j < n; j++ {
			done[j] = make(chan struct{})
			wg.Add(1)
			go func(j int) {
				defer wg.Done()
				defer close(done[j])
				r.RunTxn(ctx, labels[j], &p, p.Txns[j+1], nil)
			}(j)
		}
		if cc.Sched == "stall" {
			// everybody parks at its first backend call; one transaction advances to a call inside its commit and
			// stalls there (holding whatever it holds); the others run freely to completion; then the stalled one
			// continues - or never does (dies)
			for j := 0; j < n; j++ {
				select {
				case <-hub.Notify:
				case <-done[j]:
				case <-time.After(30 * time.Second):
				}
			}
			st := 0
			k := hub.Count(labels[st]) + 4 + rnd.Intn(45)
			sched = append(sched, fmt.Sprintf("stall %s@%d die=%v", labels[st], k, cc.Die))
			hub.SetBreak(labels[st], k)
			hub.Resume(labels[st])
			stalled := false
			select {
			case <-hub.Notify:
				stalled = true
			case <-done[st]:
			case <-time.After(60 * time.Second):
			}
			for j := 1; j < n; j++ {
				hub.SetBreak(labels[j], 0)
				hub.Resume(labels[j])
			}
			for j := 1; j < n; j++ {
				select {
				case <-done[j]:
				case <-time.After(120 * time.Second):
					r.Rec.Add(Ev{Ev: "HarnessError", Note: "transaction " + labels[j] + " never returned"})
				}
			}
			if stalled && cc.Die {
				r.Rec.Add(Ev{Ev: "Crash", T: labels[st], Note: "stalled forever"})
				// its locks expire after maxTime
				time.Sleep(r.MaxTime + 500*time.Millisecond)
				wg.Done() // the dead goroutine is abandoned
			} else if stalled {
				hub.SetBreak(labels[st], 0)
				hub.Resume(labels[st])
				<-done[st]
			}
			// a follow-up writer must be able to commit
			fu := TxnSpec{Mode: "w", Open: []int{0}, End: "commit", Ops: []OpSpec{{Op: "Upsert", Store: 0, K: 1, V: "follow"}, {Op: "Upsert", Store: 0, K: 2, V: "follow"}}}
			r.Rec.Add(Ev{Ev: "Quiet"})
			if _, err := r.RunTxn(ctx, "fu", &p, fu, nil); err != nil {
				r.Rec.Add(Ev{Ev: "HarnessError", Note: errs(err)})
			}
			if stalled && cc.Die {
				// do not wait for the abandoned goroutine below
				r.Observe(ctx, &p)
				tf.Write(fmt.Sprintf("h%d", i), r.Rec.Take(), map[string]any{"program": p, "sched": sched, "conc": cc})
				continue
			}
		}
		if cc.Sched == "gate" {
			// all transactions run to their first backend call, then one at a time in slices
			parked := map[string]bool{}
			finished := map[string]bool{}
			waitOne := func() {
				// wait until some transaction parks or finishes
				cases := hub.Notify
				select {
				case m := <-cases:
					parked[m.Txn] = true
				case <-time.After(60 * time.Second):
					r.Rec.Add(Ev{Ev: "HarnessError", Note: "scheduler timeout"})
				}
			}
			// initial: every transaction either parks at call 1 or finishes without backend calls
			for j := 0; j < n; j++ {
				select {
				case m := <-hub.Notify:
					parked[m.Txn] = true
				case <-done[j]:
				case <-time.After(30 * time.Second):
				}
			}
			_ = waitOne
			for {
				var runnable []int
				for j := 0; j < n; j++ {
					select {
					case <-done[j]:
						finished[labels[j]] = true
					default:
					}
					if !finished[labels[j]] && hub.IsParked(labels[j]) {
						runnable = append(runnable, j)
					}
				}
				if len(runnable) == 0 {
					allDone := true
					for j := 0; j < n; j++ {
						if !finished[labels[j]] {
							allDone = false
						}
					}
					if allDone {
						break
					}
					// somebody is running towards its first park: wait for it
					select {
					case <-hub.Notify:
					case <-time.After(50 * time.Millisecond):
					}
					continue
				}
				j := runnable[rnd.Intn(len(runnable))]
				step := 1 + rnd.Intn(cc.MaxStep)
				if len(runnable) == 1 && rnd.Intn(2) == 0 {
					step = 1000000
				}
				sched = append(sched, fmt.Sprintf("%s+%d", labels[j], step))
				hub.SetBreak(labels[j], hub.Count(labels[j])+step)
				hub.Resume(labels[j])
				select {
				case <-hub.Notify:
				case <-done[j]:
					finished[labels[j]] = true
				case <-time.After(120 * time.Second):
					r.Rec.Add(Ev{Ev: "HarnessError", Note: "slice timeout " + labels[j]})
					finished[labels[j]] = true
				}
			}
		}
		wg.Wait()
		r.Observe(ctx, &p)
		if cfg.Child > 0 {
			childObserve(r, folder, "cobs", p.Stores)
		}
		tf.Write(fmt.Sprintf("h%d", i), r.Rec.Take(), map[string]any{"program": p, "sched": sched, "conc": cc})
		bf.Write(fmt.Sprintf("h%d", i), hub.Take(), map[string]any{"sched": sched})
		if os.Getenv("VERIF_KEEP_DATA") == "" {
			os.RemoveAll(folder)
		}
	}
}
