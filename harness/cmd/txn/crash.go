package main

import (
	"context"
	"encoding/json"
	"fmt"
	"math/rand"
	"os"
	"os/exec"
	"path/filepath"
	"time"

	"github.com/sharedcode/sop"

	"verif/harness/lib/decor"
	"verif/harness/lib/sopenv"
)

// CrashCfg is handed to the child processes of the crash driver.
type CrashCfg struct {
	Folder   string   `json:"folder"`
	Program  *Program `json:"program"`
	CrashAt  int      `json:"crash_at"`  // backend call index of the victim's commit at which the process exits (0 = none)
	OffsetMs int64    `json:"offset_ms"` // recover: sop.Now runs this far ahead of the wall clock
	Out      string   `json:"out"`
	Later    int      `json:"later"` // recover: number of later maintenance transactions
}

// crashChild: prefix transactions commit, the victim (last transaction) dies inside its commit.
func runCrashChild(cfg Config) {
	ctx := context.Background()
	cc := cfg.Crash
	p := *cc.Program
	hub := decor.NewHub()
	hub.Record = true
	env := sopenv.New(cc.Folder, hub)
	env.GateAll = true
	rec := &Recorder{}
	r := &Runner{Env: env, Rec: rec, MaxTime: 30 * time.Second}
	flush := func() {
		evs := rec.Take()
		data, _ := json.Marshal(map[string]any{"api": evs, "calls": hub.Count(fmt.Sprintf("t%d", len(p.Txns))), "kinds": stepKinds(hub.Take(), fmt.Sprintf("t%d", len(p.Txns)), hub.Count(fmt.Sprintf("t%d", len(p.Txns))))})
		os.WriteFile(cc.Out, data, 0o644)
	}
	decor.FlushOnCrash = flush
	last := len(p.Txns) - 1
	for ti, spec := range p.Txns {
		label := fmt.Sprintf("t%d", ti+1)
		var f *decor.Fault
		if ti == last && cc.CrashAt > 0 {
			f = &decor.Fault{Index: cc.CrashAt, Crash: true}
		}
		if ti == last {
			hub.Take()
		}
		if _, err := r.RunTxn(ctx, label, &p, spec, f); err != nil {
			rec.Add(Ev{Ev: "HarnessError", Note: errs(err)})
			break
		}
		if ti == last-1 {
			r.Observe(ctx, &p)
		}
	}
	flush()
}

// recoverChild: a fresh process, clock advanced past the documented ages, uses only the public Begin path.
func runRecoverChild(cfg Config) {
	ctx := context.Background()
	cc := cfg.Crash
	p := *cc.Program
	if cc.OffsetMs != 0 {
		off := time.Duration(cc.OffsetMs) * time.Millisecond
		sop.Now = func() time.Time { return time.Now().Add(off) }
	}
	env := sopenv.New(cc.Folder, decor.NewHub())
	env.Hub.Record = false
	rec := &Recorder{}
	r := &Runner{Env: env, Rec: rec, MaxTime: 10 * time.Second}
	// 1. later transactions: readers over every store, through Begin/Open/Commit only
	for i := 0; i < cc.Later; i++ {
		r.reader(ctx, fmt.Sprintf("m%d", i+1), p.Stores, 0)
	}
	r.Observe(ctx, &p)
	// 2. a writer making the victim's changes again must not be blocked any more
	victim := p.Txns[len(p.Txns)-1]
	if _, err := r.RunTxn(ctx, "tr", &p, victim, nil); err != nil {
		rec.Add(Ev{Ev: "HarnessError", Note: errs(err)})
	}
	r.Observe(ctx, &p)
	for i := 0; i < cc.Later; i++ {
		r.reader(ctx, fmt.Sprintf("n%d", i+1), p.Stores, 0)
	}
	logs := leftovers(env)
	rec.Add(Ev{Ev: "Logs", N: len(logs), Note: fmt.Sprint(logs)})
	data, _ := json.Marshal(map[string]any{"api": rec.Take()})
	os.WriteFile(cc.Out, data, 0o644)
}

func spawn(mode string, cc CrashCfg) (map[string]json.RawMessage, int, string) {
	dir := filepath.Dir(cc.Folder)
	cfgp := filepath.Join(dir, fmt.Sprintf("%s-%d.json", mode, time.Now().UnixNano()))
	c := Config{Crash: &cc}
	data, _ := json.Marshal(c)
	os.WriteFile(cfgp, data, 0o644)
	defer os.Remove(cfgp)
	defer os.Remove(cc.Out)
	cmd := exec.Command(os.Args[0], mode, cfgp)
	out, err := cmd.CombinedOutput()
	code := 0
	if err != nil {
		if ee, ok := err.(*exec.ExitError); ok {
			code = ee.ExitCode()
		} else {
			code = -1
		}
	}
	res := map[string]json.RawMessage{}
	if od, e := os.ReadFile(cc.Out); e == nil {
		json.Unmarshal(od, &res)
	}
	tail := string(out)
	if len(tail) > 600 {
		tail = tail[len(tail)-600:]
	}
	return res, code, tail
}

// runCrash: for every program, the victim's commit is killed at every backend call index (os.Exit in a child
// process); then a fresh process with the clock 3 hours ahead runs later transactions, retries the victim's
// changes, and observes.
func runCrash(cfg Config) {
	rnd := rand.New(rand.NewSource(cfg.Seed))
	tf := NewTraceFile(cfg.Out)
	defer tf.Close()
	run := 0
	for i := 0; i < cfg.Programs; i++ {
		p := GenProgram(rnd, cfg.Gen, i)
		victim := -1
		for ti, t := range p.Txns {
			if t.Mode == "w" && t.End == "commit" {
				victim = ti
			}
		}
		if victim < 1 {
			continue
		}
		p.Txns = p.Txns[:victim+1]
		// dry run (no crash) to learn the number of calls and their kinds
		folder := filepath.Join(cfg.Data, fmt.Sprintf("x%d_dry", i))
		res, code, tail := spawn("crashchild", CrashCfg{Folder: folder, Program: &p, Out: folder + ".out.json"})
		os.RemoveAll(folder)
		if code != 0 {
			tf.Write(fmt.Sprintf("p%d/dry", i), []Ev{{Ev: "HarnessError", Note: fmt.Sprintf("dry child rc=%d %s", code, tail)}}, nil)
			continue
		}
		var n int
		var kinds []string
		json.Unmarshal(res["calls"], &n)
		json.Unmarshal(res["kinds"], &kinds)
		positions := make([]int, 0, n)
		for k := 1; k <= n; k++ {
			positions = append(positions, k)
		}
		if cfg.MaxFault > 0 && len(positions) > cfg.MaxFault {
			rnd.Shuffle(len(positions), func(a, b int) { positions[a], positions[b] = positions[b], positions[a] })
			positions = positions[:cfg.MaxFault]
		}
		for _, k := range positions {
			run++
			kind := "?"
			if k-1 < len(kinds) {
				kind = kinds[k-1]
			}
			folder := filepath.Join(cfg.Data, fmt.Sprintf("x%d_%d", i, run))
			t0 := time.Now()
			var evs []Ev
			resA, codeA, tailA := spawn("crashchild", CrashCfg{Folder: folder, Program: &p, CrashAt: k, Out: folder + ".a.json"})
			json.Unmarshal(resA["api"], &evs)
			vlabel := fmt.Sprintf("t%d", len(p.Txns))
			if codeA == decor.ExitCrash {
				evs = append(evs, Ev{Ev: "Crash", T: vlabel, N: k, Note: kind})
			} else if codeA != 0 {
				evs = append(evs, Ev{Ev: "HarnessError", Note: fmt.Sprintf("crash child rc=%d %s", codeA, tailA)})
			}
			resB, codeB, tailB := spawn("recover", CrashCfg{Folder: folder, Program: &p, OffsetMs: 3 * 3600 * 1000, Out: folder + ".b.json", Later: 2})
			var evb []Ev
			json.Unmarshal(resB["api"], &evb)
			if codeB != 0 {
				evb = append(evb, Ev{Ev: "HarnessError", Note: fmt.Sprintf("recover child rc=%d %s", codeB, tailB)})
			}
			evs = append(evs, evb...)
			tf.Write(fmt.Sprintf("p%d/k%d/%d|%s|crash", i, k, n, kind), evs, map[string]any{"program": p, "tag": fmt.Sprintf("k%d/%d|%s|crash", k, n, kind),
				"crashed": codeA == decor.ExitCrash, "wall_ms": time.Since(t0).Milliseconds()})
			if os.Getenv("VERIF_KEEP_DATA") == "" {
				os.RemoveAll(folder)
			}
		}
	}
}
