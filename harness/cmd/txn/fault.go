package main

import (
	"context"
	"fmt"
	"math/rand"
	"os"
	"path/filepath"
	"time"

	"verif/harness/lib/decor"
	"verif/harness/lib/sopenv"
)

// runFault: for each random program, the last committing writer transaction is the victim: the program is
// run once fault-free to learn the number of backend calls N of the victim's commit, then once per
// (call index, variant): prefix transactions, victim with the fault, Observe, fault-free retry of the victim
// (same changes) which must commit, Observe.
func runFault(cfg Config) {
	ctx := context.Background()
	rnd := rand.New(rand.NewSource(cfg.Seed))
	tf := NewTraceFile(cfg.Out)
	defer tf.Close()
	bfile = NewBTraceFile(cfg.BackendOut)
	defer bfile.Close()
	run := 0
	for i := -2; i < cfg.Programs; i++ {
		var p Program
		if i < 0 {
			// directed shapes: (-1) the victim creates one store (opened first) and changes the item count of an
			// existing one; (-2) the victim updates existing nodes of two stores.  Every store of a failed commit
			// must read as before and leave nothing behind, whichever store comes first
			if cfg.Gen.MaxStores < 2 {
				continue
			}
			p = directedCreateAndExisting(rnd, cfg.Gen)
			if i == -2 {
				p = directedTwoExisting(rnd, cfg.Gen)
			}
		} else {
			p = GenProgram(rnd, cfg.Gen, i)
		}
		victim := -1
		for ti, t := range p.Txns {
			if t.Mode == "w" && t.End == "commit" {
				victim = ti
			}
		}
		if victim < 0 {
			continue
		}
		p.Txns = p.Txns[:victim+1]
		// fault-free dry run to count calls
		n, kinds := faultRun(ctx, cfg, &p, i, run, nil, tf, "dry")
		run++
		if n <= 0 {
			continue
		}
		positions := make([]int, 0, n)
		for k := 1; k <= n; k++ {
			positions = append(positions, k)
		}
		if i < 0 && cfg.DirectedMax > 0 && len(positions) > cfg.DirectedMax {
			rnd.Shuffle(len(positions), func(a, b int) { positions[a], positions[b] = positions[b], positions[a] })
			positions = positions[:cfg.DirectedMax]
		}
		if i >= 0 && cfg.MaxFault > 0 && len(positions) > cfg.MaxFault {
			rnd.Shuffle(len(positions), func(a, b int) { positions[a], positions[b] = positions[b], positions[a] })
			positions = positions[:cfg.MaxFault]
		}
		for _, k := range positions {
			for _, after := range []bool{false, true} {
				kind := ""
				if k-1 < len(kinds) {
					kind = kinds[k-1]
				}
				// "effect applied, error reported" only for storage calls (a lost reply of a lock call is not
				// a failed operation in the sense of the property)
				if after && !isStorageKind(kind) {
					continue
				}
				f := &decor.Fault{Index: k, After: after}
				faultRun(ctx, cfg, &p, i, run, f, tf, fmt.Sprintf("k%d/%d|%s|after=%v", k, n, kind, after))
				run++
			}
		}
	}
}

var bfile *BTraceFile

func directedTwoExisting(r *rand.Rand, c GenCfg) Program {
	sl := func() int { return c.Slots[r.Intn(len(c.Slots))] }
	p := Program{Stores: []sopenv.StoreOpts{
		{Name: c.Prefix + "e_s0", Slot: sl(), Unique: true, Placement: "node"},
		{Name: c.Prefix + "e_s1", Slot: sl(), Unique: true, Placement: "segment"}}}
	t1 := TxnSpec{Mode: "w", New: []int{0, 1}, End: "commit"}
	for k := 1; k <= 5; k++ {
		t1.Ops = append(t1.Ops, OpSpec{Op: "Add", Store: 0, K: k, V: fmt.Sprintf("a%d", k)}, OpSpec{Op: "Add", Store: 1, K: k, V: fmt.Sprintf("b%d", k)})
	}
	t2 := TxnSpec{Mode: "w", Open: []int{0, 1}, End: "commit", Ops: []OpSpec{
		{Op: "Update", Store: 0, K: 2, V: "a2'"}, {Op: "Add", Store: 0, K: 6, V: "a6"},
		{Op: "Get", Store: 1, K: 3}, {Op: "Update", Store: 1, K: 3, V: "b3'"}, {Op: "Remove", Store: 1, K: 5}, {Op: "Add", Store: 1, K: 7, V: "b7"}}}
	p.Txns = []TxnSpec{t1, t2}
	return p
}

func directedCreateAndExisting(r *rand.Rand, c GenCfg) Program {
	pl := func() string { return c.Placements[r.Intn(len(c.Placements))] }
	sl := func() int { return c.Slots[r.Intn(len(c.Slots))] }
	p := Program{Stores: []sopenv.StoreOpts{
		{Name: c.Prefix + "d_s0", Slot: sl(), Unique: true, Placement: pl()},
		{Name: c.Prefix + "d_s1", Slot: sl(), Unique: true, Placement: pl()}}}
	t1 := TxnSpec{Mode: "w", New: []int{1}, End: "commit"}
	for k := 1; k <= 5; k++ {
		t1.Ops = append(t1.Ops, OpSpec{Op: "Add", Store: 1, K: k, V: fmt.Sprintf("old%d", k)})
	}
	t2 := TxnSpec{Mode: "w", New: []int{0}, Open: []int{1}, End: "commit", Ops: []OpSpec{
		{Op: "Add", Store: 0, K: 1, V: "n1"}, {Op: "Add", Store: 0, K: 2, V: "n2"},
		{Op: "Add", Store: 1, K: 6, V: "n6"}, {Op: "Add", Store: 1, K: 7, V: "n7"}, {Op: "Add", Store: 1, K: 8, V: "n8"},
		{Op: "Remove", Store: 1, K: 1}}}
	p.Txns = []TxnSpec{t1, t2}
	return p
}

func faultRun(ctx context.Context, cfg Config, p0 *Program, pi, run int, f *decor.Fault, tf *TraceFile, tag string) (int, []string) {
	// fresh store names per run so that process-wide caches cannot leak between runs
	p := *p0
	p.Stores = append([]sopenv.StoreOpts{}, p0.Stores...)
	for si := range p.Stores {
		p.Stores[si].Name = fmt.Sprintf("%s_r%d", p0.Stores[si].Name, run)
	}
	folder := filepath.Join(cfg.Data, fmt.Sprintf("f%d_%d", pi, run))
	env := sopenv.New(folder, decor.NewHub())
	env.Hub.Record = bfile != nil
	env.GateAll = true
	r := &Runner{Env: env, Rec: &Recorder{}, MaxTime: time.Duration(envInt("VERIF_MAXTIME_MS", 5000)) * time.Millisecond, Deadline: true}
	t0 := time.Now()
	var kinds []string
	var all []decor.Event
	n := 0
	last := len(p.Txns) - 1
	for ti, spec := range p.Txns {
		label := fmt.Sprintf("t%d", ti+1)
		var ff *decor.Fault
		if ti == last {
			ff = f
			if f == nil {
				all = append(all, env.Hub.Take()...)
				env.Hub.Record = true
			}
		}
		_, err := r.RunTxn(ctx, label, &p, spec, ff)
		if err != nil {
			r.Rec.Add(Ev{Ev: "HarnessError", Note: errs(err)})
			break
		}
		if ti == last {
			n = env.Hub.Count(label)
			if f == nil {
				evs := env.Hub.Take()
				all = append(all, evs...)
				env.Hub.Record = bfile != nil
				kinds = stepKinds(evs, label, n)
			}
			r.Observe(ctx, &p)
			if f != nil {
				// a fault-free transaction making the same changes afterwards must commit (no blockage, no expiry
				// wait): the retry when the victim failed, a follow-up when the fault was absorbed
				ok2, err := r.RunTxn(ctx, label+"r", &p, spec, nil)
				if err != nil {
					r.Rec.Add(Ev{Ev: "HarnessError", Note: errs(err)})
				}
				_ = ok2
				r.Observe(ctx, &p)
			}
		} else if ti == last-1 {
			r.Observe(ctx, &p)
		}
	}
	if cfg.Audit {
		childAudit(r, folder, p.Stores)
	}
	all = append(all, env.Hub.Take()...)
	bfile.Write(fmt.Sprintf("p%d/%s", pi, tag), all, map[string]any{"tag": tag})
	reached := f == nil || env.Hub.Reached[fmt.Sprintf("t%d", last+1)]
	tf.Write(fmt.Sprintf("p%d/%s", pi, tag), r.Rec.Take(), map[string]any{"program": p, "reached": reached, "tag": tag, "files": leftovers(env), "wall_ms": time.Since(t0).Milliseconds()})
	if os.Getenv("VERIF_KEEP_DATA") == "" {
		os.RemoveAll(folder)
	}
	return n, kinds
}

var stepNames = map[int]string{0: "unknown", 1: "createStore", 2: "lockTrackedItems", 3: "commitTrackedItemsValues", 4: "commitNewRootNodes",
	5: "areFetchedItemsIntact", 6: "commitUpdatedNodes", 7: "commitRemovedNodes", 8: "commitAddedNodes", 9: "commitStoreInfo",
	10: "beforeFinalize", 11: "finalizeCommit", 12: "deleteObsoleteEntries", 13: "deleteTrackedItemsValues", 99: "preCommit"}

// stepKinds maps the commit's call index (1..n) to "<kind>@<last logged commit step>".
func stepKinds(evs []decor.Event, label string, n int) []string {
	// the commit's calls are the last n events of this label whose N restarts at 1
	var mine []decor.Event
	for _, e := range evs {
		if e.Txn == label && e.N > 0 {
			if e.N == 1 {
				mine = mine[:0]
			}
			mine = append(mine, e)
		}
	}
	out := make([]string, n)
	byN := map[int]decor.Event{}
	for _, e := range mine {
		byN[e.N] = e
	}
	step := "begin"
	for k := 1; k <= n; k++ {
		e, ok := byN[k]
		if !ok {
			out[k-1] = "?@" + step
			continue
		}
		if e.Ev == "TLOG.Add" {
			st := 0
			switch v := e.Args["step"].(type) {
			case int:
				st = v
			case float64:
				st = int(v)
			}
			out[k-1] = "TLOG.Add(" + stepNames[st] + ")@" + step
			step = stepNames[st]
			continue
		}
		out[k-1] = e.Ev + "@" + step
	}
	return out
}

func isStorageKind(k string) bool {
	for _, p := range []string{"BLOB.", "REG.", "SR.", "TLOG.", "PLOG."} {
		if len(k) >= len(p) && k[:len(p)] == p {
			return true
		}
	}
	return false
}

func leftovers(env *sopenv.Env) []string {
	var out []string
	for _, f := range env.ListFiles() {
		if filepath.Ext(f) == ".log" || filepath.Ext(f) == ".plg" {
			out = append(out, f)
		}
	}
	return out
}
