package main

import (
	"context"
	"encoding/json"
	"fmt"
	"os"
	"path/filepath"
	"time"

	"github.com/sharedcode/sop"
	"github.com/sharedcode/sop/btree"

	"verif/harness/lib/decor"
	"verif/harness/lib/sopenv"
)

type LifeProg struct {
	Mode  string   `json:"mode"`
	Calls []string `json:"calls"`
}

type LifeEv struct {
	Ev   string `json:"ev"`
	Mode string `json:"mode"`
	Call string `json:"call"`
	Ok   bool   `json:"ok"`
	K2   bool   `json:"k2"`
	N    bool   `json:"n"`
	Note string `json:"note,omitempty"`
	Name string `json:"name,omitempty"`
}

// runLife: C14. Each program is one transaction object of a mode receiving a sequence of life-cycle calls and
// store operations; results are logged, then a fresh transaction observes the persistent state.
func runLife(cfg Config) {
	ctx := context.Background()
	var progs []LifeProg
	data, err := os.ReadFile(cfg.In)
	if err != nil {
		panic(err)
	}
	if err := json.Unmarshal(data, &progs); err != nil {
		panic(err)
	}
	f, _ := os.Create(cfg.Out)
	defer f.Close()
	enc := json.NewEncoder(f)
	folder := filepath.Join(cfg.Data, "life")
	env := sopenv.New(folder, decor.NewHub())
	env.Hub.Record = false
	for i, p := range progs {
		sName, nName := fmt.Sprintf("ls%d", i), fmt.Sprintf("ln%d", i)
		so := sopenv.StoreOpts{Name: sName, Slot: 4, Unique: true}
		{
			t, err := env.Begin(ctx, "seed", sop.ForWriting, time.Minute)
			if err != nil {
				panic(err)
			}
			b, err := sopenv.NewBtree[int, string](ctx, t, so)
			if err != nil {
				panic(err)
			}
			b.Add(ctx, 1, "one")
			if err := t.Commit(ctx); err != nil {
				panic(err)
			}
		}
		enc.Encode(LifeEv{Ev: "TraceStart", Name: fmt.Sprintf("l%d", i)})
		enc.Encode(LifeEv{Ev: "Mode", Mode: p.Mode})
		t, err := env.NewTxn(ctx, fmt.Sprintf("L%d", i), mode(p.Mode), 20*time.Second)
		if err != nil {
			panic(err)
		}
		var b btree.BtreeInterface[int, string]
		for _, c := range p.Calls {
			var err error
			ok := false
			skip := false
			func() {
				defer func() {
					if r := recover(); r != nil {
						err = fmt.Errorf("panic: %v", r)
					}
				}()
				switch c {
				case "Begin":
					err = t.Begin(ctx)
				case "Commit":
					err = t.Commit(ctx)
				case "Rollback":
					err = t.Rollback(ctx)
				case "P1":
					err = t.GetPhasedTransaction().Phase1Commit(ctx)
				case "P2":
					err = t.GetPhasedTransaction().Phase2Commit(ctx)
				case "Close":
					err = t.Close()
				case "Open":
					var bb btree.BtreeInterface[int, string]
					bb, err = sopenv.OpenBtree[int, string](ctx, t, sName)
					if err == nil {
						b = bb
					}
				case "New":
					_, err = sopenv.NewBtree[int, string](ctx, t, sopenv.StoreOpts{Name: nName, Slot: 4, Unique: true})
				case "Add":
					if b == nil {
						skip = true
						return
					}
					_, err = b.Add(ctx, 2, "two") // (false, nil) = duplicate key: the call itself succeeded
				case "Get":
					if b == nil {
						skip = true
						return
					}
					var found bool
					found, err = b.Find(ctx, 1, false)
					if err == nil && found {
						_, err = b.GetCurrentValue(ctx)
					} else if err == nil {
						err = fmt.Errorf("key 1 not found")
					}
				}
			}()
			if skip {
				continue
			}
			ok = err == nil
			enc.Encode(LifeEv{Ev: "Call", Call: c, Ok: ok, Note: errs(err)})
		}
		// observe from a fresh transaction
		items, _, exists, derr := env.Dump(ctx, fmt.Sprintf("o%d", i), sName)
		k2 := false
		for _, kv := range items {
			if kv.K == 2 {
				k2 = true
			}
		}
		_, _, nExists, derr2 := env.Dump(ctx, fmt.Sprintf("p%d", i), nName)
		note := ""
		if derr != nil || !exists {
			note = "seed store unreadable: " + errs(derr)
		}
		if derr2 != nil {
			nExists = true
			note += " new store unreadable: " + errs(derr2)
		}
		enc.Encode(LifeEv{Ev: "Final", K2: k2, N: nExists, Note: note})
		// do not leave the transaction's locks/stores behind for the next program
		func() {
			defer func() { recover() }()
			t.Rollback(ctx)
		}()
	}
	os.RemoveAll(folder)
}
