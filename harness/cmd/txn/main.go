// txn: API-level driver for TxnStore.tla (C01 C06 C07 C10 C11 C12 C13 C19 C38 ...).
package main

import (
	"context"
	"encoding/json"
	"fmt"
	"math/rand"
	"os"
	"path/filepath"
	"strconv"
	"time"

	"verif/harness/lib/decor"
	"verif/harness/lib/sopenv"
)

func envInt(name string, def int) int {
	if v := os.Getenv(name); v != "" {
		if n, err := strconv.Atoi(v); err == nil {
			return n
		}
	}
	return def
}

type Config struct {
	Mode        string    `json:"mode"`
	Out         string    `json:"out"`
	In          string    `json:"in,omitempty"`
	Data        string    `json:"data"`
	Seed        int64     `json:"seed"`
	Programs    int       `json:"programs"`
	Gen         GenCfg    `json:"gen"`
	Faults      bool      `json:"faults"`
	MaxFault    int       `json:"max_fault"`    // max fault positions per shape (0 = all)
	DirectedMax int       `json:"directed_max"` // fault mode: max fault positions per directed shape (0 = all)
	Audit       bool      `json:"audit"`        // orphan audit from a fresh process at the end of every history
	Child       int       `json:"child"`        // sweep: every n-th position also probes from a child process (0 = never)
	Probe       *ProbeCfg `json:"probe,omitempty"`
	Program     *Program  `json:"program,omitempty"` // replay: the program to run sequentially
	Conc        *ConcCfg  `json:"conc,omitempty"`
	Crash       *CrashCfg `json:"crash,omitempty"`
	Cache       *CacheCfg `json:"cache,omitempty"`
	Script      []string  `json:"script,omitempty"`      // cache mode: scripted steps (txn@wJ, observe@wJ, flushall, clearl2) instead of random ones
	Clustered   bool      `json:"clustered"`             // cache mode: several processes sharing a RESP (Redis protocol) L2 cache
	BackendOut  string    `json:"backend_out,omitempty"` // also record the backend-call trace (SopCommitTrace)
}

func main() {
	if len(os.Args) < 3 {
		fmt.Println("usage: txn <mode> <config.json>")
		os.Exit(2)
	}
	var cfg Config
	data, err := os.ReadFile(os.Args[2])
	if err != nil {
		panic(err)
	}
	if err := json.Unmarshal(data, &cfg); err != nil {
		panic(err)
	}
	cfg.Mode = os.Args[1]
	switch cfg.Mode {
	case "seq":
		runSeq(cfg)
	case "fault":
		runFault(cfg)
	case "replay":
		runReplay(cfg)
	case "cache":
		runCache(cfg)
	case "cacheworker":
		runCacheWorker(cfg)
	case "life":
		runLife(cfg)
	case "stores":
		runStores(cfg)
	case "privacy":
		runPrivacy(cfg)
	case "crash":
		runCrash(cfg)
	case "crashchild":
		runCrashChild(cfg)
	case "recover":
		runRecoverChild(cfg)
	case "conc":
		runConc(cfg)
	case "sweep":
		runSweep(cfg)
	case "probe":
		runProbe(cfg)
	default:
		fmt.Println("unknown mode")
		os.Exit(2)
	}
}

// runSeq: random sequential programs, each in its own folder; Observe after every transaction.
func runSeq(cfg Config) {
	ctx := context.Background()
	rnd := rand.New(rand.NewSource(cfg.Seed))
	tf := NewTraceFile(cfg.Out)
	defer tf.Close()
	bf := NewBTraceFile(cfg.BackendOut)
	defer bf.Close()
	for i := 0; i < cfg.Programs; i++ {
		p := GenProgram(rnd, cfg.Gen, i)
		folder := filepath.Join(cfg.Data, fmt.Sprintf("p%d", i))
		env := sopenv.New(folder, decor.NewHub())
		env.Hub.Record = bf != nil
		r := &Runner{Env: env, Rec: &Recorder{}, MaxTime: time.Duration(envInt("VERIF_MAXTIME_MS", 120000)) * time.Millisecond}
		for ti, spec := range p.Txns {
			if cfg.Gen.ClearL2 > 0 && rnd.Intn(100) < cfg.Gen.ClearL2 {
				env.L2.Clear(ctx) // a cache perturbation is not an action of the model: nothing may change
			}
			if _, err := r.RunTxn(ctx, fmt.Sprintf("t%d", ti+1), &p, spec, nil); err != nil {
				r.Rec.Add(Ev{Ev: "HarnessError", Note: errs(err)})
				break
			}
			r.Observe(ctx, &p)
			if cfg.Child > 0 && (ti == len(p.Txns)-1 || (i+ti)%cfg.Child == 0) {
				childObserve(r, folder, fmt.Sprintf("c%d", ti+1), p.Stores)
			}
		}
		if cfg.Audit {
			childAudit(r, folder, p.Stores)
		}
		tf.Write(fmt.Sprintf("p%d", i), r.Rec.Take(), map[string]any{"program": p, "folder": folder})
		bf.Write(fmt.Sprintf("p%d", i), env.Hub.Take(), map[string]any{"program": p})
		if os.Getenv("VERIF_KEEP_DATA") == "" {
			os.RemoveAll(folder)
		}
	}
}

// runReplay runs one given program sequentially (used to reproduce a rejected trace).
func runReplay(cfg Config) {
	ctx := context.Background()
	tf := NewTraceFile(cfg.Out)
	defer tf.Close()
	p := *cfg.Program
	folder := filepath.Join(cfg.Data, "replay")
	keep := os.Getenv("VERIF_REPLAY_KEEP") != "" // continue on the folder an earlier process left (cold caches)
	if !keep {
		os.RemoveAll(folder)
	}
	env := sopenv.New(folder, decor.NewHub())
	env.Hub.Record = cfg.BackendOut != ""
	r := &Runner{Env: env, Rec: &Recorder{}, MaxTime: 2 * time.Minute}
	if cfg.BackendOut != "" {
		defer func() { decor.WriteNDJSON(cfg.BackendOut, env.Hub.Take()) }()
	}
	for ti, spec := range p.Txns {
		if spec.Mode == "clearl2" { // cache perturbation step (C20 reproductions)
			env.L2.Clear(ctx)
			continue
		}
		if spec.Mode == "observe" {
			r.Observe(ctx, &p)
			continue
		}
		if _, err := r.RunTxn(ctx, fmt.Sprintf("t%d", ti+1), &p, spec, nil); err != nil {
			r.Rec.Add(Ev{Ev: "HarnessError", Note: errs(err)})
			break
		}
		r.Observe(ctx, &p)
	}
	if cfg.Audit {
		childAudit(r, folder, p.Stores)
	}
	tf.Write("replay", r.Rec.Take(), map[string]any{"program": p})
	if !keep {
		os.RemoveAll(folder)
	}
}
