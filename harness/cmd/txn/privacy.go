package main

import (
	"context"
	"encoding/json"
	"fmt"
	"os"
	"path/filepath"
	"time"

	"github.com/sharedcode/sop"
	"github.com/sharedcode/sop/btree"

	"verif/harness/lib/decor"
	"verif/harness/lib/sopenv"
)

type pstruct struct {
	A int
	B []string
	M map[string]int
}

func dig(v any) string {
	b, _ := json.Marshal(v)
	return string(b)
}

// privacyCase: T1 adds k=1..3 and commits; T2 reads (value and item), the harness scribbles on what it got, T2
// ends (rollback / commit without writing); T3, in the same process (shared L1/L2/MRU caches), reads again.
func privacyCase[TV any](ctx context.Context, env *sopenv.Env, tf *TraceFile, name string, o sopenv.StoreOpts, mk func(i int) TV, scribble func(v *TV), viaItem bool, end string) {
	rec := &Recorder{}
	add := func(e Ev) { rec.Add(e) }
	t1, err := env.Begin(ctx, "t1", sop.ForWriting, time.Minute)
	if err != nil {
		add(Ev{Ev: "HarnessError", Note: errs(err)})
		return
	}
	add(Ev{Ev: "Begin", T: "t1", Mode: "w"})
	add(Ev{Ev: "NewStoreBegin", T: "t1", S: o.Name, Unique: true})
	b, err := sopenv.NewBtree[int, TV](ctx, t1, o)
	if err != nil {
		add(Ev{Ev: "HarnessError", Note: errs(err)})
		return
	}
	add(Ev{Ev: "NewStore", T: "t1", S: o.Name, Unique: true, Ok: true, Opts: "-"})
	for i := 1; i <= 3; i++ {
		v := mk(i)
		ok, err := b.Add(ctx, i, v)
		add(Ev{Ev: "Op", T: "t1", S: o.Name, Op: "Add", K: i, V: dig(mk(i)), Ok: ok, Note: errs(err)})
	}
	add(Ev{Ev: "CommitStart", T: "t1"})
	err = t1.Commit(ctx)
	add(Ev{Ev: "CommitEnd", T: "t1", Ok: err == nil, Note: errs(err)})
	read := func(label string, doScribble bool, end string) {
		t, err := env.Begin(ctx, label, sop.ForWriting, time.Minute)
		if err != nil {
			add(Ev{Ev: "HarnessError", Note: errs(err)})
			return
		}
		add(Ev{Ev: "Begin", T: label, Mode: "w"})
		bb, err := sopenv.OpenBtree[int, TV](ctx, t, o.Name)
		add(Ev{Ev: "OpenStore", T: label, S: o.Name, Ok: err == nil, Note: errs(err), Opts: "-"})
		if err != nil {
			return
		}
		for i := 1; i <= 3; i++ {
			found, err := bb.Find(ctx, i, false)
			e := Ev{Ev: "Op", T: label, S: o.Name, Op: "Get", K: i, Ok: found, Note: errs(err)}
			if found {
				if viaItem {
					var it btree.Item[int, TV]
					it, err = bb.GetCurrentItem(ctx)
					if err == nil && it.Value != nil {
						e.V = dig(*it.Value)
						add(e)
						if doScribble {
							scribble(it.Value)
							add(Ev{Ev: "Scribble", T: label, S: o.Name, K: i, Note: "item.Value"})
						}
						continue
					}
				} else {
					var v TV
					v, err = bb.GetCurrentValue(ctx)
					if err == nil {
						e.V = dig(v)
						add(e)
						if doScribble {
							scribble(&v)
							add(Ev{Ev: "Scribble", T: label, S: o.Name, K: i, Note: "value"})
						}
						continue
					}
				}
			}
			e.Note = errs(err)
			add(e)
		}
		if end == "rollback" {
			err = t.Rollback(ctx)
			add(Ev{Ev: "Rollback", T: label, Ok: err == nil})
		} else {
			add(Ev{Ev: "CommitStart", T: label})
			err = t.Commit(ctx)
			add(Ev{Ev: "CommitEnd", T: label, Ok: err == nil, Note: errs(err)})
		}
	}
	read("t2", true, end)
	read("t3", false, "commit")
	read("t4", false, "rollback")
	tf.Write(name, rec.Take(), map[string]any{"store": o, "via_item": viaItem, "end": end})
}

func runPrivacy(cfg Config) {
	ctx := context.Background()
	tf := NewTraceFile(cfg.Out)
	defer tf.Close()
	folder := filepath.Join(cfg.Data, "privacy")
	env := sopenv.New(folder, decor.NewHub())
	env.Hub.Record = false
	n := 0
	for _, place := range []string{"node", "segment", "global", "active"} {
		for _, viaItem := range []bool{false, true} {
			for _, end := range []string{"rollback", "commit"} {
				n++
				o := func(kind string) sopenv.StoreOpts {
					return sopenv.StoreOpts{Name: fmt.Sprintf("pv%d_%s", n, kind), Slot: 4, Unique: true, Placement: place}
				}
				nm := func(kind string) string { return fmt.Sprintf("%s|%s|item=%v|%s", kind, place, viaItem, end) }
				privacyCase[[]byte](ctx, env, tf, nm("bytes"), o("bytes"), func(i int) []byte { return []byte{byte(i), 2, 3, 4} },
					func(v *[]byte) { (*v)[0] = 99 }, viaItem, end)
				privacyCase[map[string]int](ctx, env, tf, nm("map"), o("map"), func(i int) map[string]int { return map[string]int{"a": i, "b": 2} },
					func(v *map[string]int) { (*v)["a"] = 99; (*v)["z"] = 1 }, viaItem, end)
				privacyCase[[]int](ctx, env, tf, nm("slice"), o("slice"), func(i int) []int { return []int{i, 2, 3} },
					func(v *[]int) { (*v)[1] = 99 }, viaItem, end)
				privacyCase[*pstruct](ctx, env, tf, nm("ptr"), o("ptr"), func(i int) *pstruct { return &pstruct{A: i, B: []string{"x"}, M: map[string]int{"k": i}} },
					func(v **pstruct) { (*v).A = 99; (*v).B[0] = "scribbled"; (*v).M["k"] = 99 }, viaItem, end)
				privacyCase[pstruct](ctx, env, tf, nm("struct"), o("struct"), func(i int) pstruct { return pstruct{A: i, B: []string{"x"}, M: map[string]int{"k": i}} },
					func(v *pstruct) { v.A = 99; v.B[0] = "scribbled"; v.M["k"] = 99 }, viaItem, end)
			}
		}
	}
	os.RemoveAll(folder)
}
