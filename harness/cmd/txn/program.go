package main

import (
	"fmt"
	"math/rand"
	"strings"

	"verif/harness/lib/sopenv"
)

type OpSpec struct {
	Op    string `json:"op"`
	Store int    `json:"store"`
	K     int    `json:"k"`
	V     string `json:"v"`
}

type TxnSpec struct {
	Mode string   `json:"mode"` // "w","r","n"
	New  []int    `json:"new"`  // stores opened with NewBtree
	Open []int    `json:"open"` // stores opened with OpenBtree
	Ops  []OpSpec `json:"ops"`
	End  string   `json:"end"` // "commit" | "rollback"
}

type Program struct {
	Stores []sopenv.StoreOpts `json:"stores"`
	Txns   []TxnSpec          `json:"txns"`
}

type GenCfg struct {
	MaxStores   int
	MaxTxns     int
	MaxOps      int
	Keys        int
	Slots       []int
	Placements  []string
	BigValues   []int // candidate value sizes (0 = short tags only)
	DupStores   bool
	Rollbacks   bool
	Prefix      string
	Adversarial bool // store names / descriptions that mention the metadata field names, quotes, braces, unicode
	Bulk        int  // >0: bulk-load programs (ascending keys, Bulk adds per transaction) instead of random ones
	ClearL2     int  // seq mode: percentage of transactions preceded by a full clear of the L2 cache (in-memory L2)
	Neighbour   bool // programs whose transactions work on adjacent keys (interior item and its successor / predecessor)
	Tide        bool // every third program lets one store's count rise and fall across 10 and 100 (digit width of the persisted count changes both ways)
}

var writeOps = []string{"Add", "Add", "AddIfNotExist", "Update", "Upsert", "Upsert", "Remove", "Remove"}
var readOps = []string{"Find", "Get", "Get", "Count", "Scan"}

// GenProgram makes a random sequential program; a store is created by the first transaction that uses it.
func GenProgram(r *rand.Rand, c GenCfg, id int) Program {
	if c.Bulk > 0 {
		return genBulk(r, c, id)
	}
	if c.Neighbour && id%2 == 0 {
		return genNeighbour(r, c, id)
	}
	if c.Tide && id%3 == 0 {
		return genTide(r, c, id)
	}
	var p Program
	ns := 1 + r.Intn(c.MaxStores)
	for i := 0; i < ns; i++ {
		o := sopenv.StoreOpts{Name: fmt.Sprintf("%s%d_s%d", c.Prefix, id, i), Slot: c.Slots[r.Intn(len(c.Slots))],
			Unique: !(c.DupStores && r.Intn(4) == 0), Placement: c.Placements[r.Intn(len(c.Placements))],
			Balancing: r.Intn(3) == 0}
		if c.Adversarial {
			o.Name = advNames[(id+i)%len(advNames)]
			o.Desc = advDescs[r.Intn(len(advDescs))]
		}
		p.Stores = append(p.Stores, o)
	}
	created := make([]bool, ns)
	nt := 1 + r.Intn(c.MaxTxns)
	vn := 0
	for ti := 0; ti < nt; ti++ {
		var t TxnSpec
		t.Mode = "w"
		anyCreated := false
		for _, b := range created {
			anyCreated = anyCreated || b
		}
		if anyCreated && r.Intn(5) == 0 {
			t.Mode = "r"
		}
		used := map[int]bool{}
		nuse := 1 + r.Intn(ns)
		for len(used) < nuse {
			s := r.Intn(ns)
			if t.Mode == "r" && !created[s] {
				// readers only open existing stores
				nuse--
				if nuse == 0 {
					break
				}
				continue
			}
			used[s] = true
		}
		var ss []int
		for s := 0; s < ns; s++ {
			if used[s] {
				ss = append(ss, s)
				if created[s] && r.Intn(2) == 0 {
					t.Open = append(t.Open, s)
				} else {
					t.New = append(t.New, s)
				}
			}
		}
		if len(ss) == 0 {
			continue
		}
		nops := 1 + r.Intn(c.MaxOps)
		for i := 0; i < nops; i++ {
			s := ss[r.Intn(len(ss))]
			var op string
			if t.Mode == "w" && r.Intn(4) != 0 {
				op = writeOps[r.Intn(len(writeOps))]
			} else {
				op = readOps[r.Intn(len(readOps))]
			}
			vn++
			v := fmt.Sprintf("v%d.%d", id, vn)
			if len(c.BigValues) > 0 {
				if n := c.BigValues[r.Intn(len(c.BigValues))]; n > 0 {
					v = v + "|" + strings.Repeat(string(rune('a'+r.Intn(26))), n)
				}
			}
			t.Ops = append(t.Ops, OpSpec{Op: op, Store: s, K: 1 + r.Intn(c.Keys), V: v})
		}
		t.End = "commit"
		if c.Rollbacks && r.Intn(5) == 0 {
			t.End = "rollback"
		}
		if t.End == "commit" && t.Mode == "w" {
			for _, s := range t.New {
				created[s] = true
			}
		}
		p.Txns = append(p.Txns, t)
	}
	return p
}

// genBulk: one store, MaxTxns transactions each adding Bulk ascending keys (then a few updates/removes), final scan.
func genBulk(r *rand.Rand, c GenCfg, id int) Program {
	var p Program
	o := sopenv.StoreOpts{Name: fmt.Sprintf("%s%d_s0", c.Prefix, id), Slot: c.Slots[r.Intn(len(c.Slots))], Unique: true,
		Placement: c.Placements[r.Intn(len(c.Placements))], Balancing: r.Intn(3) == 0}
	p.Stores = []sopenv.StoreOpts{o}
	nt := c.MaxTxns
	for ti := 0; ti < nt; ti++ {
		t := TxnSpec{Mode: "w", End: "commit"}
		if ti == 0 {
			t.New = []int{0}
		} else {
			t.Open = []int{0}
		}
		for i := 0; i < c.Bulk; i++ {
			t.Ops = append(t.Ops, OpSpec{Op: "Add", Store: 0, K: ti*c.Bulk + i + 1, V: fmt.Sprintf("b%d.%d.%d", id, ti, i)})
		}
		for i := 0; i < c.Bulk/20; i++ {
			k := 1 + r.Intn((ti+1)*c.Bulk)
			if r.Intn(2) == 0 {
				t.Ops = append(t.Ops, OpSpec{Op: "Update", Store: 0, K: k, V: fmt.Sprintf("u%d.%d.%d", id, ti, i)})
			} else {
				t.Ops = append(t.Ops, OpSpec{Op: "Remove", Store: 0, K: k})
			}
		}
		p.Txns = append(p.Txns, t)
	}
	p.Txns = append(p.Txns, TxnSpec{Mode: "r", Open: []int{0}, Ops: []OpSpec{{Op: "Count", Store: 0}, {Op: "Scan", Store: 0}}, End: "commit"})
	return p
}

// genTide: one store whose item count goes 12 -> 9 -> 10 -> 0 -> 100+x -> 99 -> 100 -> 99 -> 9, one committed transaction
// per step: the count persisted in the store's metadata gains and loses decimal digits in both directions.
func genTide(r *rand.Rand, c GenCfg, id int) Program {
	var p Program
	o := sopenv.StoreOpts{Name: fmt.Sprintf("%s%d_s0", c.Prefix, id), Slot: c.Slots[r.Intn(len(c.Slots))], Unique: true,
		Placement: c.Placements[r.Intn(len(c.Placements))], Balancing: r.Intn(3) == 0}
	if c.Adversarial {
		o.Name = advNames[id%len(advNames)]
		o.Desc = advDescs[r.Intn(len(advDescs))]
	}
	p.Stores = []sopenv.StoreOpts{o}
	present := map[int]bool{}
	vn := 0
	step := func(target int) {
		t := TxnSpec{Mode: "w", End: "commit", Open: []int{0}}
		if len(p.Txns) == 0 {
			t.Open, t.New = nil, []int{0}
		}
		for k := 1; len(present) < target; k++ {
			if !present[k] {
				present[k] = true
				vn++
				t.Ops = append(t.Ops, OpSpec{Op: "Add", Store: 0, K: k, V: fmt.Sprintf("w%d.%d", id, vn)})
			}
		}
		for k := 1; len(present) > target; k++ {
			if present[k] {
				delete(present, k)
				t.Ops = append(t.Ops, OpSpec{Op: "Remove", Store: 0, K: k})
			}
		}
		p.Txns = append(p.Txns, t)
	}
	for _, n := range []int{12, 9, 10, 0, 100 + r.Intn(4), 99, 100, 99, 9} {
		step(n)
	}
	p.Txns = append(p.Txns, TxnSpec{Mode: "r", Open: []int{0}, Ops: []OpSpec{{Op: "Count", Store: 0}, {Op: "Scan", Store: 0}}, End: "commit"})
	return p
}

// genNeighbour: one store seeded with the even keys 2..2*Keys; every later transaction works on a key and its
// neighbours (remove k while adding / updating / reading k+1 or k-1), so that removals of items held by interior
// nodes meet changes of the successor item that takes their slot.
func genNeighbour(r *rand.Rand, c GenCfg, id int) Program {
	var p Program
	o := sopenv.StoreOpts{Name: fmt.Sprintf("%s%d_s0", c.Prefix, id), Slot: c.Slots[r.Intn(len(c.Slots))], Unique: true,
		Placement: c.Placements[r.Intn(len(c.Placements))], Balancing: r.Intn(3) == 0}
	p.Stores = []sopenv.StoreOpts{o}
	seed := TxnSpec{Mode: "w", New: []int{0}, End: "commit"}
	for k := 1; k <= c.Keys; k++ {
		seed.Ops = append(seed.Ops, OpSpec{Op: "Add", Store: 0, K: 2 * k, V: "0"})
	}
	p.Txns = append(p.Txns, seed)
	vn := 0
	val := func() string { vn++; return fmt.Sprintf("n%d.%d", id, vn) }
	perm := r.Perm(c.Keys) // every seeded key is the centre of one transaction: some of them sit in interior nodes
	for ti := 0; ti < c.Keys; ti++ {
		t := TxnSpec{Mode: "w", Open: []int{0}, End: "commit"}
		for cl := 0; cl < 1+r.Intn(2); cl++ {
			k := 2 * (1 + r.Intn(c.Keys))
			if cl == 0 {
				k = 2 * (1 + perm[ti])
			}
			nb := k + 1
			if r.Intn(3) == 0 {
				nb = k - 1
			}
			a := OpSpec{Op: []string{"Add", "Upsert", "Update", "AddIfNotExist", "Get", "Add"}[r.Intn(6)], Store: 0, K: nb, V: val()}
			b := OpSpec{Op: []string{"Remove", "Remove", "Remove", "Update", "Upsert"}[r.Intn(5)], Store: 0, K: k, V: val()}
			if r.Intn(2) == 0 {
				a, b = b, a
			}
			t.Ops = append(t.Ops, a, b)
			if r.Intn(3) == 0 {
				t.Ops = append(t.Ops, OpSpec{Op: []string{"Get", "Scan", "Find"}[r.Intn(3)], Store: 0, K: nb})
			}
		}
		if c.Rollbacks && r.Intn(8) == 0 {
			t.End = "rollback"
		}
		p.Txns = append(p.Txns, t)
	}
	return p
}

var advNames = []string{"count", "timestamp", "slot_length", "name", "is_unique", "registry_table", "cache_config", "count2", "Count", "c{ount}", "a,b", "x:1", "ünï", "description"}
var advDescs = []string{"", "count", "\"count\": 5", "the \"count\":7,\"timestamp\":9 of it", "timestamp", "{\"timestamp\":1}", "a: b, c}", "\\\"count\\\":1", "ends with backslash \\", "多字节 \"count\"", "count\": 1, \"slot_length\": 2"}
