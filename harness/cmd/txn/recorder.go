package main

import (
	"crypto/sha1"
	"encoding/hex"
	"encoding/json"
	"fmt"
	"os"
	"sync"
)

// Ev is one API-level trace event; every field is always present (TLC needs total records).
type Ev struct {
	Ev     string `json:"ev"`
	T      string `json:"t"`
	S      string `json:"s"`
	Mode   string `json:"mode"`
	Unique bool   `json:"unique"`
	Ok     bool   `json:"ok"`
	Op     string `json:"op"`
	K      int    `json:"k"`
	V      string `json:"v"`
	N      int    `json:"n"`
	Items  []KV   `json:"items"`
	Exists bool   `json:"exists"`
	Count  int    `json:"count"`
	Opts   string `json:"opts"`
	Ms     int    `json:"ms"`     // CommitEnd: wall-clock duration of Commit in milliseconds
	Budget int    `json:"budget"` // CommitEnd: min(caller's deadline, maxTime) in milliseconds (0 = not asserted)
	Name   string `json:"name,omitempty"`
	Note   string `json:"note,omitempty"`
}

type KV struct {
	K int    `json:"k"`
	V string `json:"v"`
}

type Recorder struct {
	mu  sync.Mutex
	evs []Ev
}

func (r *Recorder) Add(e Ev) {
	if e.Items == nil {
		e.Items = []KV{}
	}
	r.mu.Lock()
	r.evs = append(r.evs, e)
	r.mu.Unlock()
}

func (r *Recorder) Take() []Ev {
	r.mu.Lock()
	defer r.mu.Unlock()
	e := r.evs
	r.evs = nil
	return e
}

// vname is the abstract name of a value: short values are themselves; long ones tag:len:hash.
func vname(v string) string {
	if len(v) <= 24 {
		return v
	}
	h := sha1.Sum([]byte(v))
	tag := v
	for i := 0; i < len(v); i++ {
		if v[i] == '|' {
			tag = v[:i]
			break
		}
	}
	if len(tag) > 16 {
		tag = tag[:16]
	}
	return fmt.Sprintf("%s:%d:%s", tag, len(v), hex.EncodeToString(h[:4]))
}

type TraceFile struct {
	f   *os.File
	enc *json.Encoder
}

func NewTraceFile(path string) *TraceFile {
	f, err := os.Create(path)
	if err != nil {
		panic(err)
	}
	return &TraceFile{f: f, enc: json.NewEncoder(f)}
}

func (t *TraceFile) Write(name string, evs []Ev, extra map[string]any) {
	hdr := map[string]any{"ev": "TraceStart", "name": name}
	for k, v := range extra {
		hdr[k] = v
	}
	t.enc.Encode(hdr)
	for i := range evs {
		if evs[i].Items == nil {
			evs[i].Items = []KV{}
		}
		t.enc.Encode(&evs[i])
	}
}
func (t *TraceFile) Close() { t.f.Close() }
