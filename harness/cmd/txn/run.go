package main

import (
	"context"
	"errors"
	"fmt"
	"time"

	"github.com/sharedcode/sop"
	"github.com/sharedcode/sop/btree"

	"verif/harness/lib/decor"
	"verif/harness/lib/sopenv"
)

type Runner struct {
	Env      *sopenv.Env
	Rec      *Recorder
	MaxTime  time.Duration
	NoReset  bool // keep counting backend calls across CommitStart (sweeps count from Begin)
	OpGate   bool // every API operation is a scheduling point too (concurrent histories)
	Deadline bool // give every transaction a context deadline of MaxTime + 3 s (the caller's deadline of C15)
	Budget   bool // record the duration of Commit and the budget min(deadline, maxTime) in CommitEnd
	obsN     int
}

func mode(m string) sop.TransactionMode {
	switch m {
	case "r":
		return sop.ForReading
	case "n":
		return sop.NoCheck
	}
	return sop.ForWriting
}

type btreeIS = btree.BtreeInterface[int, string]

type LiveTxn struct {
	Label  string
	T      *sopenv.Txn
	Spec   TxnSpec
	Stores map[int]btree.BtreeInterface[int, string]
	Dead   bool // ended by an error inside an operation
}

// BeginTxn begins the transaction and opens its stores.
func (r *Runner) BeginTxn(ctx context.Context, label string, p *Program, spec TxnSpec) (*LiveTxn, error) {
	t, err := r.Env.Begin(ctx, label, mode(spec.Mode), r.MaxTime)
	if err != nil {
		return nil, fmt.Errorf("begin: %w", err)
	}
	r.Rec.Add(Ev{Ev: "Begin", T: label, Mode: spec.Mode})
	lt := &LiveTxn{Label: label, T: t, Spec: spec, Stores: map[int]btree.BtreeInterface[int, string]{}}
	for _, s := range spec.New {
		o := p.Stores[s]
		r.Rec.Add(Ev{Ev: "NewStoreBegin", T: label, S: o.Name, Unique: o.Unique})
		b, err := sopenv.NewBtree[int, string](ctx, t, o)
		if err != nil && errors.Is(err, decor.ErrInjected) {
			r.Rec.Add(Ev{Ev: "OpError", T: label, S: o.Name, Op: "NewStore", Note: errs(err)})
		} else {
			r.Rec.Add(Ev{Ev: "NewStore", T: label, S: o.Name, Unique: o.Unique, Ok: err == nil, Note: errs(err), Opts: optsOf(b, err)})
		}
		if err != nil {
			lt.Dead = true
			return lt, nil
		}
		lt.Stores[s] = b
	}
	for _, s := range spec.Open {
		o := p.Stores[s]
		b, err := sopenv.OpenBtree[int, string](ctx, t, o.Name)
		if err != nil && errors.Is(err, decor.ErrInjected) {
			r.Rec.Add(Ev{Ev: "OpError", T: label, S: o.Name, Op: "OpenStore", Note: errs(err)})
		} else {
			r.Rec.Add(Ev{Ev: "OpenStore", T: label, S: o.Name, Ok: err == nil, Note: errs(err), Opts: optsOf(b, err)})
		}
		if err != nil {
			lt.Dead = true
			return lt, nil
		}
		lt.Stores[s] = b
	}
	return lt, nil
}

func errs(err error) string {
	if err == nil {
		return ""
	}
	s := err.Error()
	if len(s) > 160 {
		s = s[:160]
	}
	return s
}

// DoOp performs one operation and records it. Returns false when the transaction died.
func (r *Runner) DoOp(ctx context.Context, lt *LiveTxn, p *Program, op OpSpec) bool {
	if r.OpGate {
		r.Env.Hub.Gate(lt.Label, "API.Op")
	}
	b := lt.Stores[op.Store]
	name := p.Stores[op.Store].Name
	e := Ev{Ev: "Op", T: lt.Label, S: name, Op: op.Op, K: op.K, V: vname(op.V)}
	var err error
	switch op.Op {
	case "Add":
		e.Ok, err = b.Add(ctx, op.K, op.V)
	case "AddIfNotExist":
		e.Ok, err = b.AddIfNotExist(ctx, op.K, op.V)
	case "Update":
		e.Ok, err = b.Update(ctx, op.K, op.V)
	case "Upsert":
		e.Ok, err = b.Upsert(ctx, op.K, op.V)
	case "Remove":
		e.Ok, err = b.Remove(ctx, op.K)
	case "Find":
		e.Ok, err = b.Find(ctx, op.K, false)
		e.V = ""
	case "Get":
		e.V = ""
		e.Ok, err = b.Find(ctx, op.K, true)
		if err == nil && e.Ok {
			var v string
			v, err = b.GetCurrentValue(ctx)
			e.V = vname(v)
		}
	case "Count":
		e.N = int(b.Count())
		e.Ok = true
		e.V = ""
	case "Scan":
		e.V = ""
		e.Ok = true
		e.Items, err = scan(ctx, b)
	}
	if err != nil {
		e.Ev = "OpError"
		e.Note = errs(err)
		r.Rec.Add(e)
		lt.Dead = true
		return false
	}
	r.Rec.Add(e)
	return true
}

func scan(ctx context.Context, b btree.BtreeInterface[int, string]) ([]KV, error) {
	items := []KV{}
	ok, err := b.First(ctx)
	if err != nil {
		return nil, err
	}
	for ok {
		it, err := b.GetCurrentItem(ctx)
		if err != nil {
			return nil, err
		}
		v := ""
		if it.Value != nil {
			v = *it.Value
		}
		items = append(items, KV{K: it.Key, V: vname(v)})
		ok, err = b.Next(ctx)
		if err != nil {
			return nil, err
		}
	}
	return items, nil
}

// End commits or rolls back; returns whether commit succeeded.
func (r *Runner) End(ctx context.Context, lt *LiveTxn) bool {
	if lt.Dead {
		// the wrapper already rolled the transaction back (the failing call's event says so)
		lt.T.Rollback(ctx)
		r.Env.Hub.Emit(decor.Event{Txn: lt.Label, Ev: "End", Res: map[string]any{"ok": false}})
		return false
	}
	if lt.Spec.End == "rollback" {
		err := lt.T.Rollback(ctx)
		r.Rec.Add(Ev{Ev: "Rollback", T: lt.Label, Ok: err == nil, Note: errs(err)})
		r.Env.Hub.Emit(decor.Event{Txn: lt.Label, Ev: "End", Res: map[string]any{"ok": false}})
		return false
	}
	r.Rec.Add(Ev{Ev: "CommitStart", T: lt.Label})
	if !r.NoReset {
		r.Env.Hub.ResetCounts(lt.Label)
	}
	t0 := time.Now()
	err := lt.T.Commit(ctx)
	ce := Ev{Ev: "CommitEnd", T: lt.Label, Ok: err == nil, Note: errs(err), N: r.Env.Hub.Count(lt.Label)}
	if r.Budget {
		ce.Ms = int(time.Since(t0).Milliseconds())
		ce.Budget = int(r.MaxTime.Milliseconds())
	}
	r.Rec.Add(ce)
	r.Env.Hub.Emit(decor.Event{Txn: lt.Label, Ev: "End", Res: map[string]any{"ok": err == nil}})
	return err == nil
}

// Observe dumps every store of the program through a fresh reader transaction of this process.
func (r *Runner) Observe(ctx context.Context, p *Program) error {
	for _, o := range p.Stores {
		r.obsN++
		items, cnt, exists, err := r.Env.Dump(ctx, fmt.Sprintf("obs%d", r.obsN), o.Name)
		if err != nil {
			r.Rec.Add(Ev{Ev: "ObserveError", S: o.Name, Note: errs(err)})
			continue
		}
		e := Ev{Ev: "Observe", S: o.Name, Exists: exists, Count: int(cnt), Opts: r.Env.StoreDigest(ctx, o.Name)}
		for _, kv := range items {
			e.Items = append(e.Items, KV{K: kv.K, V: vname(kv.V)})
		}
		r.Rec.Add(e)
	}
	return nil
}

// RunTxn runs a whole transaction spec sequentially.
func (r *Runner) RunTxn(ctx context.Context, label string, p *Program, spec TxnSpec, fault *decor.Fault) (bool, error) {
	if r.Deadline {
		var cancel context.CancelFunc
		ctx, cancel = context.WithTimeout(ctx, r.MaxTime+time.Duration(envInt("VERIF_DEADLINE_EXTRA_MS", 3000))*time.Millisecond)
		defer cancel()
	}
	lt, err := r.BeginTxn(ctx, label, p, spec)
	if err != nil {
		return false, err
	}
	if !lt.Dead {
		for _, op := range spec.Ops {
			if !r.DoOp(ctx, lt, p, op) {
				break
			}
		}
	}
	if fault != nil && !lt.Dead && spec.End == "commit" {
		f := *fault
		f.Txn = label
		r.Rec.Add(Ev{Ev: "Arm", T: label, N: f.Index, Note: fmt.Sprintf("%s after=%v", f.Kind, f.After)})
		r.Env.Hub.AddFault(&f)
		defer r.Env.Hub.ClearFaults()
	}
	return r.End(ctx, lt), nil
}

// optsOf is the configuration digest of an opened B-tree ("" on error).
func optsOf(b btree.BtreeInterface[int, string], err error) string {
	if err != nil || b == nil {
		return ""
	}
	si := b.GetStoreInfo()
	return sopenv.Digest(&si)
}
