package main

import (
	"context"
	"fmt"
	"math/rand"
	"os"
	"path/filepath"
	"time"

	"github.com/sharedcode/sop"
	"github.com/sharedcode/sop/infs"

	"verif/harness/lib/decor"
	"verif/harness/lib/sopenv"
)

// runStores: C12. Random histories of create / populate / commit-or-abort (also under injected faults) /
// remove / recreate-with-other-options over two store names; Observe (contents, count, configuration digest)
// after every step, and from a fresh process at the end.
func runStores(cfg Config) {
	ctx := context.Background()
	rnd := rand.New(rand.NewSource(cfg.Seed))
	tf := NewTraceFile(cfg.Out)
	defer tf.Close()
	directedCreatorLosesFirstRoot(ctx, cfg, tf)
	for i := 0; i < cfg.Programs; i++ {
		folder := filepath.Join(cfg.Data, fmt.Sprintf("s%d", i))
		env := sopenv.New(folder, decor.NewHub())
		env.Hub.Record = false
		env.GateAll = true
		r := &Runner{Env: env, Rec: &Recorder{}, MaxTime: 20 * time.Second}
		newOpts := func(si int) sopenv.StoreOpts {
			return sopenv.StoreOpts{Name: fmt.Sprintf("%s%d_s%d", cfg.Gen.Prefix, i, si), Slot: cfg.Gen.Slots[rnd.Intn(len(cfg.Gen.Slots))],
				Unique: rnd.Intn(3) != 0, Placement: cfg.Gen.Placements[rnd.Intn(len(cfg.Gen.Placements))], Balancing: rnd.Intn(3) == 0,
				Desc: fmt.Sprintf("gen%d", rnd.Intn(1000))}
		}
		p := Program{Stores: []sopenv.StoreOpts{newOpts(0), newOpts(1)}}
		exists := []bool{false, false} // driver bookkeeping only: which options to pass to NewBtree
		steps := 3 + rnd.Intn(cfg.Gen.MaxTxns+3)
		vn := 0
		for st := 0; st < steps; st++ {
			if rnd.Intn(4) == 0 {
				// remove a store (non transactional)
				s := rnd.Intn(2)
				err := infs.RemoveBtree(ctx, p.Stores[s].Name, []string{folder}, nil, sop.InMemory)
				if err == nil {
					r.Rec.Add(Ev{Ev: "RemoveStore", S: p.Stores[s].Name})
					exists[s] = false
					p.Stores[s] = newOpts(s) // a later creation uses other options
				} else {
					r.Rec.Add(Ev{Ev: "RemoveStoreError", S: p.Stores[s].Name, Note: errs(err)})
				}
				r.Observe(ctx, &p)
				continue
			}
			spec := TxnSpec{Mode: "w", End: "commit"}
			n := 1 + rnd.Intn(2)
			used := map[int]bool{}
			for len(used) < n {
				used[rnd.Intn(2)] = true
			}
			var ss []int
			for s := 0; s < 2; s++ {
				if used[s] {
					ss = append(ss, s)
					spec.New = append(spec.New, s)
				}
			}
			for j := 0; j < 1+rnd.Intn(cfg.Gen.MaxOps); j++ {
				vn++
				s := ss[rnd.Intn(len(ss))]
				op := []string{"Add", "Upsert", "Remove", "Get", "Count", "Scan", "Add"}[rnd.Intn(7)]
				spec.Ops = append(spec.Ops, OpSpec{Op: op, Store: s, K: 1 + rnd.Intn(cfg.Gen.Keys), V: fmt.Sprintf("v%d.%d", i, vn)})
			}
			var f *decor.Fault
			switch rnd.Intn(5) {
			case 0:
				spec.End = "rollback"
			case 1:
				if cfg.Faults {
					f = &decor.Fault{Index: 1 + rnd.Intn(22), After: rnd.Intn(3) == 0, OnlyStorage: true}
				}
			}
			ok, err := r.RunTxn(ctx, fmt.Sprintf("t%d", st+1), &p, spec, f)
			if err != nil {
				r.Rec.Add(Ev{Ev: "HarnessError", Note: errs(err)})
				break
			}
			if ok {
				for _, s := range ss {
					exists[s] = true
				}
			}
			r.Observe(ctx, &p)
		}
		childObserve(r, folder, "cobs", p.Stores)
		if cfg.Audit {
			childAudit(r, folder, p.Stores)
		}
		tf.Write(fmt.Sprintf("s%d", i), r.Rec.Take(), map[string]any{"program": p, "left": env.ListFiles()})
		if os.Getenv("VERIF_KEEP_DATA") == "" {
			os.RemoveAll(folder)
		}
	}
}

// directedCreatorLosesFirstRoot: T_a creates a store and adds key 1; T_b opens the new (uncommitted) store through
// NewBtree, adds key 2 and commits first; T_a then commits: it loses the race for the first root, undoes its attempt,
// refetches, merges and retries.  Both commits must succeed and the store must hold both keys (TxnStore decides).
func directedCreatorLosesFirstRoot(ctx context.Context, cfg Config, tf *TraceFile) {
	for vi, place := range []string{"node", "segment"} {
		folder := filepath.Join(cfg.Data, fmt.Sprintf("sd%d", vi))
		env := sopenv.New(folder, decor.NewHub())
		env.Hub.Record = false
		r := &Runner{Env: env, Rec: &Recorder{}, MaxTime: 20 * time.Second}
		p := Program{Stores: []sopenv.StoreOpts{{Name: fmt.Sprintf("%sd%d_s0", cfg.Gen.Prefix, vi), Slot: 4, Unique: true, Placement: place}}}
		ta, err := r.BeginTxn(ctx, "da", &p, TxnSpec{Mode: "w", New: []int{0}, End: "commit"})
		if err == nil {
			r.DoOp(ctx, ta, &p, OpSpec{Op: "Add", Store: 0, K: 1, V: "a"})
			tb, err2 := r.BeginTxn(ctx, "db", &p, TxnSpec{Mode: "w", New: []int{0}, End: "commit"})
			if err2 == nil {
				r.DoOp(ctx, tb, &p, OpSpec{Op: "Add", Store: 0, K: 2, V: "b"})
				r.End(ctx, tb)
			}
			r.End(ctx, ta)
		}
		r.Observe(ctx, &p)
		tf.Write(fmt.Sprintf("sd%d", vi), r.Rec.Take(), map[string]any{"program": p, "directed": "creator-loses-first-root"})
		if os.Getenv("VERIF_KEEP_DATA") == "" {
			os.RemoveAll(folder)
		}
	}
}
