package main

import (
	"context"
	"encoding/json"
	"fmt"
	"math/rand"
	"os"
	"os/exec"
	"path/filepath"
	"time"

	"github.com/sharedcode/sop"

	"verif/harness/lib/decor"
	"verif/harness/lib/sopenv"
)

// ProbeCfg drives a reader in a child process (cold caches, own L2).
type ProbeCfg struct {
	Folder string             `json:"folder"`
	Label  string             `json:"label"`
	Stores []sopenv.StoreOpts `json:"stores"`
	Keys   int                `json:"keys"`
	Out    string             `json:"out"`
	Dump   bool               `json:"dump"`  // Observe every store instead of running a reader transaction
	Audit  bool               `json:"audit"` // orphan audit: files on disk versus what a cold traversal reaches
}

// reader runs one reader transaction over all stores: Count, Get of every key, Scan; then commits.
func (r *Runner) reader(ctx context.Context, label string, stores []sopenv.StoreOpts, keys int) {
	t, err := r.Env.Begin(ctx, label, sop.ForReading, r.MaxTime)
	if err != nil {
		r.Rec.Add(Ev{Ev: "HarnessError", Note: errs(err)})
		return
	}
	r.Rec.Add(Ev{Ev: "Begin", T: label, Mode: "r"})
	names, _ := t.GetStores(ctx)
	have := map[string]bool{}
	for _, n := range names {
		have[n] = true
	}
	p := &Program{Stores: stores}
	lt := &LiveTxn{Label: label, T: t, Spec: TxnSpec{Mode: "r", End: "commit"}, Stores: nil}
	lt.Stores = map[int]btreeIS{}
	for si, o := range stores {
		if !have[o.Name] {
			continue
		}
		b, err := sopenv.OpenBtree[int, string](ctx, t, o.Name)
		r.Rec.Add(Ev{Ev: "OpenStore", T: label, S: o.Name, Ok: err == nil, Note: errs(err), Opts: optsOf(b, err)})
		if err != nil {
			lt.Dead = true
			break
		}
		lt.Stores[si] = b
	}
	if !lt.Dead {
	outer:
		for si := range stores {
			if lt.Stores[si] == nil {
				continue
			}
			if !r.DoOp(ctx, lt, p, OpSpec{Op: "Count", Store: si}) {
				break
			}
			for k := 1; k <= keys; k++ {
				if !r.DoOp(ctx, lt, p, OpSpec{Op: "Get", Store: si, K: k}) {
					break outer
				}
			}
			if !r.DoOp(ctx, lt, p, OpSpec{Op: "Scan", Store: si}) {
				break
			}
		}
	}
	r.End(ctx, lt)
}

func runProbe(cfg Config) {
	ctx := context.Background()
	pc := cfg.Probe
	env := sopenv.New(pc.Folder, decor.NewHub())
	env.Hub.Record = false
	r := &Runner{Env: env, Rec: &Recorder{}, MaxTime: 30 * time.Second}
	if pc.Audit {
		names := []string{}
		for _, o := range pc.Stores {
			names = append(names, o.Name)
		}
		a := env.Audit(ctx, names)
		detail, _ := json.Marshal(a)
		d := string(detail)
		if len(d) > 1500 {
			d = d[:1500]
		}
		r.Rec.Add(Ev{Ev: "Audit", N: len(a.OrphanBlobs), Count: len(a.OrphanHandles), K: len(a.Logs), Ok: len(a.Unreadable) == 0, Note: d})
	} else if pc.Dump {
		r.Observe(ctx, &Program{Stores: pc.Stores})
	} else {
		r.reader(ctx, pc.Label, pc.Stores, pc.Keys)
	}
	data, _ := json.Marshal(r.Rec.Take())
	os.WriteFile(pc.Out, data, 0o644)
}

func childProbe(r *Runner, folder, label string, stores []sopenv.StoreOpts, keys int) {
	childRun(r, folder, label, stores, keys, false)
}

// childObserve dumps every store from a fresh OS process (cold L1/L2 caches) and records the Observe events.
func childObserve(r *Runner, folder, label string, stores []sopenv.StoreOpts) {
	childRun(r, folder, label, stores, 0, true)
}

// childAudit runs the orphan audit in a fresh OS process (cold caches) and records the Audit event.
func childAudit(r *Runner, folder string, stores []sopenv.StoreOpts) {
	auditMode = true
	childRun(r, folder, "audit", stores, 0, false)
	auditMode = false
}

var auditMode bool

func childRun(r *Runner, folder, label string, stores []sopenv.StoreOpts, keys int, dump bool) {
	dir := filepath.Dir(folder)
	cfgp := filepath.Join(dir, "probe-"+label+".json")
	outp := filepath.Join(dir, "probe-"+label+".out.json")
	c := Config{Probe: &ProbeCfg{Folder: folder, Label: label, Stores: stores, Keys: keys, Out: outp, Dump: dump, Audit: auditMode}}
	data, _ := json.Marshal(c)
	os.WriteFile(cfgp, data, 0o644)
	cmd := exec.Command(os.Args[0], "probe", cfgp)
	if out, err := cmd.CombinedOutput(); err != nil {
		r.Rec.Add(Ev{Ev: "HarnessError", Note: "child probe: " + errs(err) + " " + string(out)})
		return
	}
	var evs []Ev
	od, _ := os.ReadFile(outp)
	json.Unmarshal(od, &evs)
	for _, e := range evs {
		r.Rec.Add(e)
	}
	os.Remove(cfgp)
	os.Remove(outp)
}

// runSweep: C03. For each program the last writer transaction W is paused before its k-th backend call
// (counted from Begin, work phase and commit phase alike) for every k; while it is paused a reader transaction
// (same process, and optionally a child process) reads everything; then W continues — to completion, or into an
// injected failure of that very call — and everything is observed again.
func runSweep(cfg Config) {
	ctx := context.Background()
	rnd := rand.New(rand.NewSource(cfg.Seed))
	tf := NewTraceFile(cfg.Out)
	defer tf.Close()
	run := 0
	for i := 0; i < cfg.Programs; i++ {
		p := GenProgram(rnd, cfg.Gen, i)
		victim := -1
		for ti, t := range p.Txns {
			if t.Mode == "w" {
				victim = ti
			}
		}
		if victim < 0 {
			continue
		}
		p.Txns = p.Txns[:victim+1]
		n, kinds := sweepRun(ctx, cfg, &p, i, run, 0, false, false, tf, "dry")
		run++
		positions := make([]int, 0, n)
		for k := 1; k <= n; k++ {
			positions = append(positions, k)
		}
		if cfg.MaxFault > 0 && len(positions) > cfg.MaxFault {
			rnd.Shuffle(len(positions), func(a, b int) { positions[a], positions[b] = positions[b], positions[a] })
			positions = positions[:cfg.MaxFault]
		}
		for j, k := range positions {
			child := cfg.Child > 0 && j%cfg.Child == 0
			kind := "?"
			if k-1 < len(kinds) {
				kind = kinds[k-1]
			}
			sweepRun(ctx, cfg, &p, i, run, k, false, child, tf, fmt.Sprintf("k%d/%d|%s|then=continue", k, n, kind))
			run++
			sweepRun(ctx, cfg, &p, i, run, k, true, false, tf, fmt.Sprintf("k%d/%d|%s|then=fail", k, n, kind))
			run++
		}
	}
}

func sweepRun(ctx context.Context, cfg Config, p0 *Program, pi, run, k int, failAfter, child bool, tf *TraceFile, tag string) (int, []string) {
	p := *p0
	p.Stores = append([]sopenv.StoreOpts{}, p0.Stores...)
	for si := range p.Stores {
		p.Stores[si].Name = fmt.Sprintf("%s_r%d", p0.Stores[si].Name, run)
	}
	folder := filepath.Join(cfg.Data, fmt.Sprintf("w%d_%d", pi, run))
	hub := decor.NewHub()
	env := sopenv.New(folder, hub)
	hub.Record = false
	env.GateAll = true
	r := &Runner{Env: env, Rec: &Recorder{}, MaxTime: time.Duration(envInt("VERIF_MAXTIME_MS", 5000)) * time.Millisecond, NoReset: true}
	t0 := time.Now()
	last := len(p.Txns) - 1
	for ti := 0; ti < last; ti++ {
		if _, err := r.RunTxn(ctx, fmt.Sprintf("t%d", ti+1), &p, p.Txns[ti], nil); err != nil {
			r.Rec.Add(Ev{Ev: "HarnessError", Note: errs(err)})
		}
	}
	r.Observe(ctx, &p)
	label := "w"
	where := ""
	if k > 0 {
		hub.SetBreak(label, k)
	} else {
		hub.Record = true
		hub.Take()
	}
	done := make(chan struct{})
	go func() {
		defer close(done)
		r.RunTxn(ctx, label, &p, p.Txns[last], nil)
	}()
	parked := false
	select {
	case m := <-hub.Notify:
		parked = true
		where = m.Kind
	case <-done:
	}
	if parked {
		r.reader(ctx, fmt.Sprintf("r%d", k), p.Stores, cfg.Gen.Keys)
		if child {
			childProbe(r, folder, fmt.Sprintf("c%d", k), p.Stores, cfg.Gen.Keys)
		}
		if failAfter {
			r.Rec.Add(Ev{Ev: "Arm", T: label, N: k, Note: where})
			hub.AddFault(&decor.Fault{Txn: label, Index: k + 1})
			// the parked call itself proceeds; the next call of W fails
		}
		hub.SetBreak(label, 0)
		hub.Resume(label)
		<-done
	}
	n := hub.Count(label)
	var kinds []string
	if k == 0 {
		hub.Record = false
		kinds = stepKinds(hub.Take(), label, n)
	}
	r.Observe(ctx, &p)
	tf.Write(fmt.Sprintf("p%d/%s", pi, tag), r.Rec.Take(), map[string]any{"program": p, "tag": tag, "parked": parked, "where": where,
		"wall_ms": time.Since(t0).Milliseconds()})
	if os.Getenv("VERIF_KEEP_DATA") == "" {
		os.RemoveAll(folder)
	}
	return n, kinds
}
