#!/usr/bin/env python3
"""Generate go.mod / go.sum for the harness module against a SOP checkout (default /repo)."""
import os, re, sys, glob
repo = os.path.abspath(sys.argv[1] if len(sys.argv) > 1 else os.environ.get("VERIF_REPO", "/repo"))
here = os.path.dirname(os.path.abspath(__file__))
outdir = os.path.abspath(sys.argv[2]) if len(sys.argv) > 2 else here   # where go.mod / go.sum are written
subs = ["", "infs", "incfs", "adapters/redis", "adapters/cassandra", "jsondb", "search", "ai"]
reqs = {}
def ver_key(v):
    return [int(x) if x.isdigit() else x for x in re.split(r'[.\-+]', v.lstrip('v'))]
for s in subs:
    p = os.path.join(repo, s, "go.mod")
    for line in open(p):
        line = line.split("//")[0].strip()
        m = re.match(r'^(?:require\s+)?([\w./\-]+\.[\w./\-]+)\s+(v[\w.\-+]+)$', line)
        if m and not m.group(1).startswith("github.com/sharedcode/sop"):
            mod, v = m.groups()
            if mod not in reqs or ver_key(v) > ver_key(reqs[mod]):
                reqs[mod] = v
reqs.setdefault("pgregory.net/rapid", "v1.3.0")
out = ["module verif/harness", "", "go 1.26.4", "", "require ("]
for s in subs:
    name = "github.com/sharedcode/sop" + ("/" + s if s else "")
    out.append(f"\t{name} v0.0.0")
for mod in sorted(reqs):
    out.append(f"\t{mod} {reqs[mod]}")
out.append(")")
out.append("")
for s in subs:
    name = "github.com/sharedcode/sop" + ("/" + s if s else "")
    out.append(f"replace {name} => {os.path.join(repo, s) if s else repo}")
new = "\n".join(out) + "\n"
gm = os.path.join(outdir, "go.mod")
if not os.path.exists(gm) or open(gm).read() != new:
    open(gm, "w").write(new)
sums = set()
for f in glob.glob(os.path.join(repo, "**", "go.sum"), recursive=True) + [os.path.join(repo, "go.work.sum")]:
    if os.path.exists(f):
        sums.update(l for l in open(f) if l.strip())
# rapid sums from module cache if present
gs = os.path.join(outdir, "go.sum")
extra = os.path.join(here, "extra.sum")
if os.path.exists(extra):
    sums.update(l for l in open(extra) if l.strip())
new = "".join(sorted(sums))
if not os.path.exists(gs) or open(gs).read() != new:
    open(gs, "w").write(new)
