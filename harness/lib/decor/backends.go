package decor

import (
	"context"
	"strings"
	"time"

	"github.com/sharedcode/sop"
)

// ---------- helpers: abstract images ----------

// HandleImage is the abstract image of a registry handle in trace events.
func (h *Hub) HandleImage(x sop.Handle) map[string]any {
	wip := "0"
	if x.WorkInProgressTimestamp == 1 {
		wip = "1"
	} else if x.WorkInProgressTimestamp != 0 {
		wip = "ts"
	}
	return map[string]any{
		"l": h.Name("n", x.LogicalID), "a": h.Name("p", x.PhysicalIDA), "b": h.Name("p", x.PhysicalIDB),
		"ab": x.IsActiveIDB, "v": int(x.Version), "wip": wip, "del": x.IsDeleted,
	}
}

func (h *Hub) handles(ps []sop.RegistryPayload[sop.Handle]) []any {
	out := []any{}
	for _, p := range ps {
		for _, x := range p.IDs {
			m := h.HandleImage(x)
			m["tbl"] = p.RegistryTable
			out = append(out, m)
		}
	}
	return out
}

func (h *Hub) lids(ps []sop.RegistryPayload[sop.UUID]) []any {
	out := []any{}
	for _, p := range ps {
		for _, x := range p.IDs {
			out = append(out, h.Name("n", x))
		}
	}
	return out
}

// ---------- Registry ----------

type Registry struct {
	Inner sop.Registry
	H     *Hub
	Txn   string
}

func (r *Registry) Get(ctx context.Context, p []sop.RegistryPayload[sop.UUID]) ([]sop.RegistryPayload[sop.Handle], error) {
	d := r.H.before(r.Txn, "REG.Get")
	if d.failFirst {
		return nil, r.H.after(r.Txn, "REG.Get", d, map[string]any{"ids": r.H.lids(p)}, nil, ErrInjected)
	}
	res, err := r.Inner.Get(ctx, p)
	if r.H.Tap != nil && err == nil {
		for _, x := range res {
			for _, h := range x.IDs {
				r.H.Tap("handle", []sop.UUID{h.LogicalID})
			}
		}
	}
	err = r.H.after(r.Txn, "REG.Get", d, map[string]any{"ids": r.H.lids(p)}, map[string]any{"h": r.H.handles(res)}, err)
	if err != nil {
		return nil, err
	}
	return res, nil
}
func (r *Registry) Add(ctx context.Context, p []sop.RegistryPayload[sop.Handle]) error {
	d := r.H.before(r.Txn, "REG.Add")
	if d.failFirst {
		return r.H.after(r.Txn, "REG.Add", d, map[string]any{"h": r.H.handles(p)}, nil, ErrInjected)
	}
	err := r.Inner.Add(ctx, p)
	return r.H.after(r.Txn, "REG.Add", d, map[string]any{"h": r.H.handles(p)}, nil, err)
}
func (r *Registry) Update(ctx context.Context, p []sop.RegistryPayload[sop.Handle]) error {
	d := r.H.before(r.Txn, "REG.Update")
	if d.failFirst {
		return r.H.after(r.Txn, "REG.Update", d, map[string]any{"h": r.H.handles(p)}, nil, ErrInjected)
	}
	err := r.Inner.Update(ctx, p)
	return r.H.after(r.Txn, "REG.Update", d, map[string]any{"h": r.H.handles(p)}, nil, err)
}
func (r *Registry) UpdateNoLocks(ctx context.Context, aon bool, p []sop.RegistryPayload[sop.Handle]) error {
	d := r.H.before(r.Txn, "REG.UpdateNoLocks")
	args := map[string]any{"h": r.H.handles(p), "aon": aon}
	if d.failFirst {
		return r.H.after(r.Txn, "REG.UpdateNoLocks", d, args, nil, ErrInjected)
	}
	err := r.Inner.UpdateNoLocks(ctx, aon, p)
	return r.H.after(r.Txn, "REG.UpdateNoLocks", d, args, nil, err)
}
func (r *Registry) Remove(ctx context.Context, p []sop.RegistryPayload[sop.UUID]) error {
	d := r.H.before(r.Txn, "REG.Remove")
	if d.failFirst {
		return r.H.after(r.Txn, "REG.Remove", d, map[string]any{"ids": r.H.lids(p)}, nil, ErrInjected)
	}
	err := r.Inner.Remove(ctx, p)
	return r.H.after(r.Txn, "REG.Remove", d, map[string]any{"ids": r.H.lids(p)}, nil, err)
}
func (r *Registry) Replicate(ctx context.Context, a, b, c, e []sop.RegistryPayload[sop.Handle]) error {
	d := r.H.before(r.Txn, "REG.Replicate")
	if d.failFirst {
		return r.H.after(r.Txn, "REG.Replicate", d, nil, nil, ErrInjected)
	}
	err := r.Inner.Replicate(ctx, a, b, c, e)
	return r.H.after(r.Txn, "REG.Replicate", d, nil, nil, err)
}

// ---------- BlobStore ----------

type BlobStore struct {
	Inner sop.BlobStore
	H     *Hub
	Txn   string
}

func (b *BlobStore) blobIDs(p []sop.BlobsPayload[sop.KeyValuePair[sop.UUID, []byte]]) []any {
	out := []any{}
	for _, x := range p {
		for _, kv := range x.Blobs {
			out = append(out, b.H.Name("p", kv.Key))
		}
	}
	return out
}
func (b *BlobStore) GetOne(ctx context.Context, tbl string, id sop.UUID) ([]byte, error) {
	d := b.H.before(b.Txn, "BLOB.GetOne")
	args := map[string]any{"id": b.H.Name("p", id)}
	if d.failFirst {
		return nil, b.H.after(b.Txn, "BLOB.GetOne", d, args, nil, ErrInjected)
	}
	ba, err := b.Inner.GetOne(ctx, tbl, id)
	if b.H.Tap != nil && err == nil {
		b.H.Tap("blob", []sop.UUID{id})
	}
	err = b.H.after(b.Txn, "BLOB.GetOne", d, args, map[string]any{"len": len(ba)}, err)
	if err != nil {
		return nil, err
	}
	return ba, nil
}
func (b *BlobStore) Add(ctx context.Context, p []sop.BlobsPayload[sop.KeyValuePair[sop.UUID, []byte]]) error {
	d := b.H.before(b.Txn, "BLOB.Add")
	args := map[string]any{"ids": b.blobIDs(p)}
	if d.failFirst {
		return b.H.after(b.Txn, "BLOB.Add", d, args, nil, ErrInjected)
	}
	err := b.Inner.Add(ctx, p)
	return b.H.after(b.Txn, "BLOB.Add", d, args, nil, err)
}
func (b *BlobStore) Update(ctx context.Context, p []sop.BlobsPayload[sop.KeyValuePair[sop.UUID, []byte]]) error {
	d := b.H.before(b.Txn, "BLOB.Update")
	args := map[string]any{"ids": b.blobIDs(p)}
	if d.failFirst {
		return b.H.after(b.Txn, "BLOB.Update", d, args, nil, ErrInjected)
	}
	err := b.Inner.Update(ctx, p)
	return b.H.after(b.Txn, "BLOB.Update", d, args, nil, err)
}
func (b *BlobStore) Remove(ctx context.Context, p []sop.BlobsPayload[sop.UUID]) error {
	d := b.H.before(b.Txn, "BLOB.Remove")
	ids := []any{}
	for _, x := range p {
		for _, id := range x.Blobs {
			ids = append(ids, b.H.Name("p", id))
		}
	}
	args := map[string]any{"ids": ids}
	if d.failFirst {
		return b.H.after(b.Txn, "BLOB.Remove", d, args, nil, ErrInjected)
	}
	err := b.Inner.Remove(ctx, p)
	return b.H.after(b.Txn, "BLOB.Remove", d, args, nil, err)
}

// ---------- StoreRepository ----------

type StoreRepo struct {
	Inner sop.StoreRepository
	H     *Hub
	Txn   string
}

func storeImgs(ss []sop.StoreInfo) []any {
	out := []any{}
	for _, s := range ss {
		out = append(out, map[string]any{"name": s.Name, "count": s.Count, "delta": s.CountDelta, "root": !s.RootNodeID.IsNil()})
	}
	return out
}
func (s *StoreRepo) Get(ctx context.Context, names ...string) ([]sop.StoreInfo, error) {
	d := s.H.before(s.Txn, "SR.Get")
	args := map[string]any{"names": names}
	if d.failFirst {
		return nil, s.H.after(s.Txn, "SR.Get", d, args, nil, ErrInjected)
	}
	r, err := s.Inner.Get(ctx, names...)
	err = s.H.after(s.Txn, "SR.Get", d, args, map[string]any{"s": storeImgs(r)}, err)
	if err != nil {
		return nil, err
	}
	return r, nil
}
func (s *StoreRepo) GetWithTTL(ctx context.Context, ttl bool, dur time.Duration, names ...string) ([]sop.StoreInfo, error) {
	d := s.H.before(s.Txn, "SR.GetWithTTL")
	args := map[string]any{"names": names}
	if d.failFirst {
		return nil, s.H.after(s.Txn, "SR.GetWithTTL", d, args, nil, ErrInjected)
	}
	r, err := s.Inner.GetWithTTL(ctx, ttl, dur, names...)
	err = s.H.after(s.Txn, "SR.GetWithTTL", d, args, map[string]any{"s": storeImgs(r)}, err)
	if err != nil {
		return nil, err
	}
	return r, nil
}
func (s *StoreRepo) GetAll(ctx context.Context) ([]string, error) {
	d := s.H.before(s.Txn, "SR.GetAll")
	if d.failFirst {
		return nil, s.H.after(s.Txn, "SR.GetAll", d, nil, nil, ErrInjected)
	}
	r, err := s.Inner.GetAll(ctx)
	err = s.H.after(s.Txn, "SR.GetAll", d, nil, map[string]any{"names": r}, err)
	if err != nil {
		return nil, err
	}
	return r, nil
}
func (s *StoreRepo) Add(ctx context.Context, si ...sop.StoreInfo) error {
	d := s.H.before(s.Txn, "SR.Add")
	args := map[string]any{"s": storeImgs(si)}
	if d.failFirst {
		return s.H.after(s.Txn, "SR.Add", d, args, nil, ErrInjected)
	}
	err := s.Inner.Add(ctx, si...)
	return s.H.after(s.Txn, "SR.Add", d, args, nil, err)
}
func (s *StoreRepo) Remove(ctx context.Context, names ...string) error {
	d := s.H.before(s.Txn, "SR.Remove")
	args := map[string]any{"names": names}
	if d.failFirst {
		return s.H.after(s.Txn, "SR.Remove", d, args, nil, ErrInjected)
	}
	err := s.Inner.Remove(ctx, names...)
	return s.H.after(s.Txn, "SR.Remove", d, args, nil, err)
}
func (s *StoreRepo) Update(ctx context.Context, si []sop.StoreInfo) ([]sop.StoreInfo, error) {
	d := s.H.before(s.Txn, "SR.Update")
	args := map[string]any{"s": storeImgs(si)}
	if d.failFirst {
		return nil, s.H.after(s.Txn, "SR.Update", d, args, nil, ErrInjected)
	}
	r, err := s.Inner.Update(ctx, si)
	err = s.H.after(s.Txn, "SR.Update", d, args, map[string]any{"s": storeImgs(r)}, err)
	if err != nil {
		return nil, err
	}
	return r, nil
}
func (s *StoreRepo) Replicate(ctx context.Context, si []sop.StoreInfo) error {
	d := s.H.before(s.Txn, "SR.Replicate")
	if d.failFirst {
		return s.H.after(s.Txn, "SR.Replicate", d, nil, nil, ErrInjected)
	}
	err := s.Inner.Replicate(ctx, si)
	return s.H.after(s.Txn, "SR.Replicate", d, nil, nil, err)
}

// ---------- TransactionLog / PriorityLog ----------

type TLog struct {
	Inner sop.TransactionLog
	H     *Hub
	Txn   string
	pl    *PLog
}

func (t *TLog) PriorityLog() sop.TransactionPriorityLog {
	if t.pl == nil {
		t.pl = &PLog{Inner: t.Inner.PriorityLog(), H: t.H, Txn: t.Txn}
	}
	return t.pl
}
func (t *TLog) Add(ctx context.Context, tid sop.UUID, fn int, payload []byte) error {
	d := t.H.before(t.Txn, "TLOG.Add")
	args := map[string]any{"step": fn, "tid": t.H.Name("x", tid)}
	if d.failFirst {
		return t.H.after(t.Txn, "TLOG.Add", d, args, nil, ErrInjected)
	}
	err := t.Inner.Add(ctx, tid, fn, payload)
	return t.H.after(t.Txn, "TLOG.Add", d, args, nil, err)
}
func (t *TLog) Remove(ctx context.Context, tid sop.UUID) error {
	d := t.H.before(t.Txn, "TLOG.Remove")
	args := map[string]any{"tid": t.H.Name("x", tid)}
	if d.failFirst {
		return t.H.after(t.Txn, "TLOG.Remove", d, args, nil, ErrInjected)
	}
	err := t.Inner.Remove(ctx, tid)
	return t.H.after(t.Txn, "TLOG.Remove", d, args, nil, err)
}
func (t *TLog) GetOne(ctx context.Context) (sop.UUID, string, []sop.KeyValuePair[int, []byte], error) {
	d := t.H.before(t.Txn, "TLOG.GetOne")
	if d.failFirst {
		return sop.NilUUID, "", nil, t.H.after(t.Txn, "TLOG.GetOne", d, nil, nil, ErrInjected)
	}
	id, hr, r, err := t.Inner.GetOne(ctx)
	err = t.H.after(t.Txn, "TLOG.GetOne", d, nil, map[string]any{"tid": t.H.Name("x", id), "n": len(r)}, err)
	if err != nil {
		return sop.NilUUID, "", nil, err
	}
	return id, hr, r, nil
}
func (t *TLog) GetOneOfHour(ctx context.Context, hour string) (sop.UUID, []sop.KeyValuePair[int, []byte], error) {
	d := t.H.before(t.Txn, "TLOG.GetOneOfHour")
	if d.failFirst {
		return sop.NilUUID, nil, t.H.after(t.Txn, "TLOG.GetOneOfHour", d, nil, nil, ErrInjected)
	}
	id, r, err := t.Inner.GetOneOfHour(ctx, hour)
	err = t.H.after(t.Txn, "TLOG.GetOneOfHour", d, nil, map[string]any{"tid": t.H.Name("x", id), "n": len(r)}, err)
	if err != nil {
		return sop.NilUUID, nil, err
	}
	return id, r, nil
}
func (t *TLog) NewUUID() sop.UUID { return t.Inner.NewUUID() }

type PLog struct {
	Inner sop.TransactionPriorityLog
	H     *Hub
	Txn   string
}

func (p *PLog) IsEnabled() bool { return p.Inner.IsEnabled() }
func (p *PLog) Add(ctx context.Context, tid sop.UUID, payload []byte) error {
	d := p.H.before(p.Txn, "PLOG.Add")
	args := map[string]any{"tid": p.H.Name("x", tid)}
	if d.failFirst {
		return p.H.after(p.Txn, "PLOG.Add", d, args, nil, ErrInjected)
	}
	err := p.Inner.Add(ctx, tid, payload)
	return p.H.after(p.Txn, "PLOG.Add", d, args, nil, err)
}
func (p *PLog) Remove(ctx context.Context, tid sop.UUID) error {
	d := p.H.before(p.Txn, "PLOG.Remove")
	args := map[string]any{"tid": p.H.Name("x", tid)}
	if d.failFirst {
		return p.H.after(p.Txn, "PLOG.Remove", d, args, nil, ErrInjected)
	}
	err := p.Inner.Remove(ctx, tid)
	return p.H.after(p.Txn, "PLOG.Remove", d, args, nil, err)
}
func (p *PLog) Get(ctx context.Context, tid sop.UUID) ([]sop.RegistryPayload[sop.Handle], error) {
	d := p.H.before(p.Txn, "PLOG.Get")
	args := map[string]any{"tid": p.H.Name("x", tid)}
	if d.failFirst {
		return nil, p.H.after(p.Txn, "PLOG.Get", d, args, nil, ErrInjected)
	}
	r, err := p.Inner.Get(ctx, tid)
	err = p.H.after(p.Txn, "PLOG.Get", d, args, map[string]any{"h": p.H.handles(r)}, err)
	if err != nil {
		return nil, err
	}
	return r, nil
}
func (p *PLog) GetBatch(ctx context.Context, n int) ([]sop.KeyValuePair[sop.UUID, []sop.RegistryPayload[sop.Handle]], error) {
	d := p.H.before(p.Txn, "PLOG.GetBatch")
	if d.failFirst {
		return nil, p.H.after(p.Txn, "PLOG.GetBatch", d, nil, nil, ErrInjected)
	}
	r, err := p.Inner.GetBatch(ctx, n)
	tids := []any{}
	for _, kv := range r {
		tids = append(tids, p.H.Name("x", kv.Key))
	}
	err = p.H.after(p.Txn, "PLOG.GetBatch", d, nil, map[string]any{"tids": tids}, err)
	if err != nil {
		return nil, err
	}
	return r, nil
}
func (p *PLog) ProcessNewer(ctx context.Context, f func(tid sop.UUID, payload []sop.RegistryPayload[sop.Handle]) error) error {
	return p.Inner.ProcessNewer(ctx, f)
}
func (p *PLog) LogCommitChanges(ctx context.Context, stores []sop.StoreInfo, a, b, c, e []sop.RegistryPayload[sop.Handle]) error {
	d := p.H.before(p.Txn, "PLOG.LogCommitChanges")
	if d.failFirst {
		return p.H.after(p.Txn, "PLOG.LogCommitChanges", d, nil, nil, ErrInjected)
	}
	err := p.Inner.LogCommitChanges(ctx, stores, a, b, c, e)
	return p.H.after(p.Txn, "PLOG.LogCommitChanges", d, nil, nil, err)
}

// ---------- L2 cache ----------

// L2 decorates the L2 cache as seen by one transaction. Only lock traffic and struct traffic whose key
// class is listed in TraceKeys is traced/gated; everything else passes through untouched.
type L2 struct {
	Inner sop.L2Cache
	H     *Hub
	Txn   string
	// GateAll: count/gate/fault also plain struct traffic (node / handle / value caching).
	GateAll bool
	// Drop: when set, cache reads of node/handle/value entries report a miss (cold L2).
	Drop bool
}

func keyClass(k string) string {
	switch {
	case strings.HasPrefix(k, "L"):
		return "lock"
	case strings.HasPrefix(k, "N"):
		return "node"
	case strings.HasPrefix(k, "V"):
		return "value"
	}
	return "other"
}

// lockNames: lock keys of known logical node ids are reported under the node's trace name.
func (c *L2) lockNames(ks []*sop.LockKey) []any {
	out := []any{}
	for _, k := range ks {
		name := k.Key
		if strings.HasPrefix(name, "lock:") {
			if id, err := sop.ParseUUID(name[5:]); err == nil {
				if n := c.H.Known(id); n != "" {
					name = n
				}
			}
		}
		out = append(out, name)
	}
	return out
}

func (c *L2) FormatLockKey(k string) string               { return c.Inner.FormatLockKey(k) }
func (c *L2) CreateLockKeys(keys []string) []*sop.LockKey { return c.Inner.CreateLockKeys(keys) }
func (c *L2) CreateLockKeysForIDs(keys []sop.Tuple[string, sop.UUID]) []*sop.LockKey {
	return c.Inner.CreateLockKeysForIDs(keys)
}
func (c *L2) IsLockedTTL(ctx context.Context, dur time.Duration, ks []*sop.LockKey) (bool, error) {
	d := c.H.before(c.Txn, "L2.IsLockedTTL")
	args := map[string]any{"keys": c.lockNames(ks)}
	if d.failFirst {
		return false, c.H.after(c.Txn, "L2.IsLockedTTL", d, args, nil, ErrInjected)
	}
	ok, err := c.Inner.IsLockedTTL(ctx, dur, ks)
	err = c.H.after(c.Txn, "L2.IsLockedTTL", d, args, map[string]any{"ok": ok}, err)
	if err != nil {
		return false, err
	}
	return ok, nil
}
func (c *L2) Lock(ctx context.Context, dur time.Duration, ks []*sop.LockKey) (bool, sop.UUID, error) {
	d := c.H.before(c.Txn, "L2.Lock")
	args := map[string]any{"keys": c.lockNames(ks)}
	if d.failFirst {
		return false, sop.NilUUID, c.H.after(c.Txn, "L2.Lock", d, args, nil, ErrInjected)
	}
	ok, owner, err := c.Inner.Lock(ctx, dur, ks)
	err = c.H.after(c.Txn, "L2.Lock", d, args, map[string]any{"ok": ok}, err)
	if err != nil {
		return false, owner, err
	}
	return ok, owner, nil
}
func (c *L2) DualLock(ctx context.Context, dur time.Duration, ks []*sop.LockKey) (bool, sop.UUID, error) {
	d := c.H.before(c.Txn, "L2.DualLock")
	args := map[string]any{"keys": c.lockNames(ks)}
	if d.failFirst {
		return false, sop.NilUUID, c.H.after(c.Txn, "L2.DualLock", d, args, nil, ErrInjected)
	}
	ok, owner, err := c.Inner.DualLock(ctx, dur, ks)
	err = c.H.after(c.Txn, "L2.DualLock", d, args, map[string]any{"ok": ok}, err)
	if err != nil {
		return false, owner, err
	}
	return ok, owner, nil
}
func (c *L2) IsLocked(ctx context.Context, ks []*sop.LockKey) (bool, error) {
	d := c.H.before(c.Txn, "L2.IsLocked")
	args := map[string]any{"keys": c.lockNames(ks)}
	if d.failFirst {
		return false, c.H.after(c.Txn, "L2.IsLocked", d, args, nil, ErrInjected)
	}
	ok, err := c.Inner.IsLocked(ctx, ks)
	err = c.H.after(c.Txn, "L2.IsLocked", d, args, map[string]any{"ok": ok}, err)
	if err != nil {
		return false, err
	}
	return ok, nil
}
func (c *L2) IsLockedByOthers(ctx context.Context, names []string) (bool, error) {
	return c.Inner.IsLockedByOthers(ctx, names)
}
func (c *L2) IsLockedByOthersTTL(ctx context.Context, names []string, dur time.Duration) (bool, error) {
	return c.Inner.IsLockedByOthersTTL(ctx, names, dur)
}
func (c *L2) Unlock(ctx context.Context, ks []*sop.LockKey) error {
	d := c.H.before(c.Txn, "L2.Unlock")
	args := map[string]any{"keys": c.lockNames(ks)}
	if d.failFirst {
		return c.H.after(c.Txn, "L2.Unlock", d, args, nil, ErrInjected)
	}
	err := c.Inner.Unlock(ctx, ks)
	return c.H.after(c.Txn, "L2.Unlock", d, args, nil, err)
}
func (c *L2) GetType() sop.L2CacheType { return c.Inner.GetType() }
func (c *L2) Set(ctx context.Context, key, value string, exp time.Duration) error {
	return c.Inner.Set(ctx, key, value, exp)
}
func (c *L2) Get(ctx context.Context, key string) (bool, string, error) { return c.Inner.Get(ctx, key) }
func (c *L2) GetEx(ctx context.Context, key string, exp time.Duration) (bool, string, error) {
	return c.Inner.GetEx(ctx, key, exp)
}
func (c *L2) IsRestarted(ctx context.Context) bool { return c.Inner.IsRestarted(ctx) }
func (c *L2) SetStruct(ctx context.Context, key string, v interface{}, exp time.Duration) error {
	if !c.GateAll {
		return c.Inner.SetStruct(ctx, key, v, exp)
	}
	d := c.H.before(c.Txn, "L2.SetStruct")
	args := map[string]any{"class": keyClass(key)}
	if d.failFirst {
		return c.H.after(c.Txn, "L2.SetStruct", d, args, nil, ErrInjected)
	}
	err := c.Inner.SetStruct(ctx, key, v, exp)
	return c.H.after(c.Txn, "L2.SetStruct", d, args, nil, err)
}
func (c *L2) SetStructs(ctx context.Context, keys []string, vs []interface{}, exp time.Duration) error {
	d := c.H.before(c.Txn, "L2.SetStructs")
	args := map[string]any{"n": len(keys)}
	if d.failFirst {
		return c.H.after(c.Txn, "L2.SetStructs", d, args, nil, ErrInjected)
	}
	err := c.Inner.SetStructs(ctx, keys, vs, exp)
	return c.H.after(c.Txn, "L2.SetStructs", d, args, nil, err)
}
func (c *L2) GetStruct(ctx context.Context, key string, target interface{}) (bool, error) {
	if c.Drop {
		return false, nil
	}
	if !c.GateAll {
		return c.Inner.GetStruct(ctx, key, target)
	}
	d := c.H.before(c.Txn, "L2.GetStruct")
	args := map[string]any{"class": keyClass(key)}
	if d.failFirst {
		return false, c.H.after(c.Txn, "L2.GetStruct", d, args, nil, ErrInjected)
	}
	ok, err := c.Inner.GetStruct(ctx, key, target)
	err = c.H.after(c.Txn, "L2.GetStruct", d, args, map[string]any{"hit": ok}, err)
	if err != nil {
		return false, err
	}
	return ok, nil
}
func (c *L2) GetStructEx(ctx context.Context, key string, target interface{}, exp time.Duration) (bool, error) {
	if c.Drop {
		return false, nil
	}
	if !c.GateAll {
		return c.Inner.GetStructEx(ctx, key, target, exp)
	}
	d := c.H.before(c.Txn, "L2.GetStructEx")
	args := map[string]any{"class": keyClass(key)}
	if d.failFirst {
		return false, c.H.after(c.Txn, "L2.GetStructEx", d, args, nil, ErrInjected)
	}
	ok, err := c.Inner.GetStructEx(ctx, key, target, exp)
	err = c.H.after(c.Txn, "L2.GetStructEx", d, args, map[string]any{"hit": ok}, err)
	if err != nil {
		return false, err
	}
	return ok, nil
}
func (c *L2) GetStructs(ctx context.Context, keys []string, targets []interface{}, exp time.Duration) ([]bool, error) {
	d := c.H.before(c.Txn, "L2.GetStructs")
	args := map[string]any{"n": len(keys)}
	if d.failFirst {
		return nil, c.H.after(c.Txn, "L2.GetStructs", d, args, nil, ErrInjected)
	}
	r, err := c.Inner.GetStructs(ctx, keys, targets, exp)
	hits := 0
	for _, b := range r {
		if b {
			hits++
		}
	}
	err = c.H.after(c.Txn, "L2.GetStructs", d, args, map[string]any{"hits": hits}, err)
	if err != nil {
		return nil, err
	}
	return r, nil
}
func (c *L2) Delete(ctx context.Context, keys []string) (bool, error) {
	if !c.GateAll {
		return c.Inner.Delete(ctx, keys)
	}
	d := c.H.before(c.Txn, "L2.Delete")
	args := map[string]any{"n": len(keys)}
	if d.failFirst {
		return false, c.H.after(c.Txn, "L2.Delete", d, args, nil, ErrInjected)
	}
	ok, err := c.Inner.Delete(ctx, keys)
	err = c.H.after(c.Txn, "L2.Delete", d, args, nil, err)
	if err != nil {
		return false, err
	}
	return ok, nil
}
func (c *L2) Ping(ctx context.Context) error  { return c.Inner.Ping(ctx) }
func (c *L2) Clear(ctx context.Context) error { return c.Inner.Clear(ctx) }
