// Package decor holds the tracing / fault / gating decorators around the interfaces SOP injects.
package decor

import (
	"encoding/json"
	"errors"
	"fmt"
	"os"
	"sync"

	"github.com/sharedcode/sop"
)

// Event is one ndjson trace line.
type Event struct {
	Seq   int            `json:"seq"`
	Txn   string         `json:"txn"`
	Ev    string         `json:"ev"`
	N     int            `json:"n,omitempty"` // per-transaction backend call index (1-based)
	Args  map[string]any `json:"args,omitempty"`
	Res   map[string]any `json:"res,omitempty"`
	Err   string         `json:"err,omitempty"`
	Skip  bool           `json:"skip,omitempty"`  // the call failed before reaching the backend (no effect)
	After bool           `json:"after,omitempty"` // the backend call completed; the error was injected afterwards
}

// ErrInjected is the error injected faults return.
var ErrInjected = errors.New("verif: injected fault")

// Fault describes one injected failure: the k-th backend call of transaction Txn (counted since Arm).
type Fault struct {
	Txn         string
	Index       int    // 1-based call index within the txn; 0 = disabled
	Kind        string // optional: only calls of this kind are counted ("" = all)
	After       bool   // false: fail before the call (no effect); true: perform the call then report failure
	Crash       bool   // instead of failing: os.Exit(ExitCrash) (child process crash)
	Die         bool   // instead of failing: block this goroutine forever (in-process death)
	Sticky      bool   // keep failing every later matching call too
	OnlyStorage bool   // Index counts storage calls only (BLOB./REG./SR./TLOG./PLOG.), cache and lock calls never fail
	hit         bool
}

const ExitCrash = 77

// Hub is shared by all decorators of one process.
type Hub struct {
	mu      sync.Mutex
	seq     int
	Events  []Event
	Record  bool
	counts  map[string]int // per txn call count
	kcounts map[string]int // per txn+kind
	faults  []*Fault
	// breakpoints: txn -> call index at which to park (before the call)
	breaks  map[string]int
	parked  map[string]chan struct{}
	Notify  chan ParkMsg
	names   map[sop.UUID]string
	nameN   map[string]int
	OnCall  func(txn, kind string, n int)     // optional observer (called outside lock, before the call)
	Reached map[string]bool                   // fault txn reached flags
	Tap     func(kind string, ids []sop.UUID) // optional: raw ids of blob reads / registry lookups (reachability audits)
}

type ParkMsg struct {
	Txn  string
	N    int
	Kind string
	Done bool
}

func NewHub() *Hub {
	return &Hub{Record: true, counts: map[string]int{}, kcounts: map[string]int{}, breaks: map[string]int{},
		parked: map[string]chan struct{}{}, Notify: make(chan ParkMsg, 64), names: map[sop.UUID]string{},
		nameN: map[string]int{}, Reached: map[string]bool{}}
}

// Name normalises a UUID by first appearance: prefix + running number. Nil UUID is "nil".
func (h *Hub) Name(prefix string, id sop.UUID) string {
	if id.IsNil() {
		return "nil"
	}
	h.mu.Lock()
	defer h.mu.Unlock()
	if s, ok := h.names[id]; ok {
		return s
	}
	h.nameN[prefix]++
	s := fmt.Sprintf("%s%d", prefix, h.nameN[prefix])
	h.names[id] = s
	return s
}

// Known reports the name already given to an id ("" if none).
func (h *Hub) Known(id sop.UUID) string {
	h.mu.Lock()
	defer h.mu.Unlock()
	return h.names[id]
}

func (h *Hub) AddFault(f *Fault) { h.mu.Lock(); h.faults = append(h.faults, f); h.mu.Unlock() }
func (h *Hub) ClearFaults()      { h.mu.Lock(); h.faults = nil; h.mu.Unlock() }

// ResetCounts restarts call counting for a transaction label.
func (h *Hub) ResetCounts(txn string) {
	h.mu.Lock()
	h.counts[txn] = 0
	for k := range h.kcounts {
		if len(k) > len(txn) && k[:len(txn)+1] == txn+"|" {
			delete(h.kcounts, k)
		}
	}
	h.mu.Unlock()
}

func (h *Hub) Count(txn string) int { h.mu.Lock(); defer h.mu.Unlock(); return h.counts[txn] }

// SetBreak makes transaction txn park before its call number n (0 clears).
func (h *Hub) SetBreak(txn string, n int) { h.mu.Lock(); h.breaks[txn] = n; h.mu.Unlock() }

// Resume releases a parked transaction.
func (h *Hub) Resume(txn string) {
	h.mu.Lock()
	ch := h.parked[txn]
	delete(h.parked, txn)
	h.mu.Unlock()
	if ch != nil {
		close(ch)
	}
}

func (h *Hub) IsParked(txn string) bool {
	h.mu.Lock()
	defer h.mu.Unlock()
	return h.parked[txn] != nil
}

// Emit appends an event (harness-level events use this too).
func (h *Hub) Emit(e Event) {
	h.mu.Lock()
	h.seq++
	e.Seq = h.seq
	if h.Record {
		h.Events = append(h.Events, e)
	}
	h.mu.Unlock()
}

// Take returns and clears the recorded events.
func (h *Hub) Take() []Event {
	h.mu.Lock()
	defer h.mu.Unlock()
	ev := h.Events
	h.Events = nil
	return ev
}

type decision struct {
	n         int
	failFirst bool // fail before the call
	failAfter bool
}

// before is called by every decorator before delegating. It counts, parks at breakpoints and evaluates faults.
func (h *Hub) before(txn, kind string) decision {
	h.mu.Lock()
	h.counts[txn]++
	n := h.counts[txn]
	h.kcounts[txn+"|"+kind]++
	kn := h.kcounts[txn+"|"+kind]
	if IsStorageKind(kind) {
		h.kcounts[txn+"|#storage"]++
	}
	var d decision
	d.n = n
	var park chan struct{}
	if b := h.breaks[txn]; b != 0 && b == n {
		park = make(chan struct{})
		h.parked[txn] = park
	}
	var crash, die bool
	for _, f := range h.faults {
		if f.Txn != txn || f.Index == 0 {
			continue
		}
		idx := n
		if f.OnlyStorage {
			if !IsStorageKind(kind) {
				continue
			}
			idx = h.kcounts[txn+"|#storage"]
		}
		if f.Kind != "" {
			if f.Kind != kind {
				continue
			}
			idx = kn
		}
		if idx == f.Index || (f.Sticky && f.hit && idx > f.Index) {
			f.hit = true
			h.Reached[txn] = true
			if f.Crash {
				crash = true
			} else if f.Die {
				die = true
			} else if f.After {
				d.failAfter = true
			} else {
				d.failFirst = true
			}
		}
	}
	cb := h.OnCall
	h.mu.Unlock()
	if cb != nil {
		cb(txn, kind, n)
	}
	if park != nil {
		h.Notify <- ParkMsg{Txn: txn, N: n, Kind: kind}
		<-park
	}
	if crash && !d.failAfter {
		h.Emit(Event{Txn: txn, Ev: "Crash", N: n, Args: map[string]any{"at": kind}})
		if FlushOnCrash != nil {
			FlushOnCrash()
		}
		os.Exit(ExitCrash)
	}
	if die {
		h.Emit(Event{Txn: txn, Ev: "Die", N: n, Args: map[string]any{"at": kind}})
		select {}
	}
	return d
}

// Gate is a scheduling point that is not a backend call (e.g. before an API operation): it is counted and can
// be a breakpoint, but faults are not applied to it.
func (h *Hub) Gate(txn, kind string) {
	h.mu.Lock()
	h.counts[txn]++
	n := h.counts[txn]
	var park chan struct{}
	if b := h.breaks[txn]; b != 0 && b == n {
		park = make(chan struct{})
		h.parked[txn] = park
	}
	h.mu.Unlock()
	if park != nil {
		h.Notify <- ParkMsg{Txn: txn, N: n, Kind: kind}
		<-park
	}
}

// IsStorageKind: calls into blob store, registry, store repository, transaction and priority log.
func IsStorageKind(k string) bool {
	for _, p := range []string{"BLOB.", "REG.", "SR.", "TLOG.", "PLOG."} {
		if len(k) >= len(p) && k[:len(p)] == p {
			return true
		}
	}
	return false
}

// FlushOnCrash lets the process owner persist the trace before os.Exit.
var FlushOnCrash func()

func (h *Hub) after(txn, kind string, d decision, args, res map[string]any, err error) error {
	e := Event{Txn: txn, Ev: kind, N: d.n, Args: args, Res: res, Skip: d.failFirst, After: d.failAfter && err == nil}
	if d.failAfter && err == nil {
		err = ErrInjected
	}
	if err != nil {
		e.Err = errClass(err)
	}
	h.Emit(e)
	return err
}

func errClass(err error) string {
	if err == nil {
		return ""
	}
	if errors.Is(err, ErrInjected) {
		return "injected"
	}
	s := err.Error()
	if len(s) > 120 {
		s = s[:120]
	}
	return s
}

// WriteNDJSON writes events to a file.
func WriteNDJSON(path string, evs []Event) error {
	f, err := os.Create(path)
	if err != nil {
		return err
	}
	defer f.Close()
	enc := json.NewEncoder(f)
	for i := range evs {
		if err := enc.Encode(&evs[i]); err != nil {
			return err
		}
	}
	return nil
}
