// Package resp is a minimal in-process Redis look-alike (RESP2 over loopback TCP) for driving
// github.com/sharedcode/sop/adapters/redis (go-redis v9) without a redis-server.
//
// It implements the string/key commands the adapter uses (SET with NX/XX/EX/PX/EXAT/PXAT/KEEPTTL/GET, SETNX,
// SETEX, PSETEX, GET, GETEX, GETDEL, MGET, MSET, DEL, UNLINK, EXISTS, EXPIRE, PEXPIRE, TTL, PTTL, PERSIST,
// FLUSHDB, FLUSHALL, DBSIZE, KEYS, PING, ECHO, INFO, SELECT, AUTH, CLIENT, COMMAND, QUIT, TIME) and optimistic
// transactions (WATCH, UNWATCH, MULTI, EXEC, DISCARD).  HELLO is answered with an error, which makes go-redis
// fall back to RESP2.  Scripting (EVAL...) is not available.
//
// Time is virtual: key TTLs are measured against a clock that only moves when AdvanceClock is called, so
// expiry is deterministic.  Commands are executed one at a time under one mutex (as in Redis).
//
// Tiny API:  s, _ := resp.Start(); s.Addr(); s.AdvanceClock(d); s.Evict(key); s.FlushAll(); s.Close().
// Extras for schedulers: s.Listen(tag) opens a further listener on the same data set whose connections carry
// `tag`; s.SetGate(fn) installs a hook called (outside the data lock) before every data command with the
// connection's tag, so that a test can decide the order in which the commands of different clients execute;
// s.SetAfter(fn) is called after the command has executed.
package resp

import (
	"bufio"
	"errors"
	"fmt"
	"io"
	"net"
	"path"
	"sort"
	"strconv"
	"strings"
	"sync"
	"sync/atomic"
	"time"
)

type entry struct {
	val      []byte
	expireAt int64 // virtual ms; 0 = no expiry
	ver      uint64
}

// Server is one virtual Redis instance.
type Server struct {
	mu        sync.Mutex
	data      map[string]*entry
	nowMs     int64
	verSeq    uint64
	flushVer  uint64 // bumped by FLUSH*, invalidates every WATCH
	listeners []net.Listener
	conns     map[net.Conn]struct{}
	closed    bool
	addr      string
	runID     string
	gate      atomic.Value // func(tag string, args []string)
	after     atomic.Value // func(tag string, args []string)
	ncmd      atomic.Int64
	wg        sync.WaitGroup
}

type hook func(tag string, args []string)

// Start launches a server on a free loopback port.
func Start() (*Server, error) {
	s := &Server{data: map[string]*entry{}, conns: map[net.Conn]struct{}{}, nowMs: 1_000_000,
		runID: fmt.Sprintf("verif%016x", time.Now().UnixNano())}
	a, err := s.Listen("")
	if err != nil {
		return nil, err
	}
	s.addr = a
	return s, nil
}

// Addr is the host:port of the primary listener.
func (s *Server) Addr() string { return s.addr }

// Listen opens another listener on the same data set; its connections are tagged.
func (s *Server) Listen(tag string) (string, error) {
	l, err := net.Listen("tcp", "127.0.0.1:0")
	if err != nil {
		return "", err
	}
	s.mu.Lock()
	s.listeners = append(s.listeners, l)
	s.mu.Unlock()
	s.wg.Add(1)
	go func() {
		defer s.wg.Done()
		for {
			c, err := l.Accept()
			if err != nil {
				return
			}
			s.mu.Lock()
			if s.closed {
				s.mu.Unlock()
				c.Close()
				return
			}
			s.conns[c] = struct{}{}
			s.mu.Unlock()
			s.wg.Add(1)
			go s.serve(c, tag)
		}
	}()
	return l.Addr().String(), nil
}

// Close stops all listeners and connections.
func (s *Server) Close() {
	s.mu.Lock()
	s.closed = true
	ls := s.listeners
	var cs []net.Conn
	for c := range s.conns {
		cs = append(cs, c)
	}
	s.mu.Unlock()
	for _, l := range ls {
		l.Close()
	}
	for _, c := range cs {
		c.Close()
	}
	s.wg.Wait()
}

// AdvanceClock moves the virtual clock forward; keys whose TTL has passed disappear.
func (s *Server) AdvanceClock(d time.Duration) {
	s.mu.Lock()
	s.nowMs += int64(d / time.Millisecond)
	for k := range s.data {
		s.live(k)
	}
	s.mu.Unlock()
}

// Evict removes a key as a memory-pressure eviction would; reports whether it existed.
func (s *Server) Evict(key string) bool {
	s.mu.Lock()
	defer s.mu.Unlock()
	if s.live(key) == nil {
		return false
	}
	delete(s.data, key)
	s.verSeq++
	return true
}

// FlushAll drops every key (a restart without persistence).
func (s *Server) FlushAll() {
	s.mu.Lock()
	s.data = map[string]*entry{}
	s.flushVer++
	s.mu.Unlock()
}

// Keys lists the live keys, sorted.
func (s *Server) Keys() []string {
	s.mu.Lock()
	defer s.mu.Unlock()
	var out []string
	for k := range s.data {
		if s.live(k) != nil {
			out = append(out, k)
		}
	}
	sort.Strings(out)
	return out
}

// Peek returns value and remaining TTL (-1 = none) of a live key without side effects.
func (s *Server) Peek(key string) (val string, ttl time.Duration, ok bool) {
	s.mu.Lock()
	defer s.mu.Unlock()
	e := s.live(key)
	if e == nil {
		return "", 0, false
	}
	ttl = -1
	if e.expireAt != 0 {
		ttl = time.Duration(e.expireAt-s.nowMs) * time.Millisecond
	}
	return string(e.val), ttl, true
}

// Commands is the number of commands executed so far.
func (s *Server) Commands() int64 { return s.ncmd.Load() }

// SetGate installs fn, called before every data command (not for handshake commands); nil removes it.
func (s *Server) SetGate(fn func(tag string, args []string)) { s.gate.Store(hook(fn)) }

// SetAfter installs fn, called after every data command has executed.
func (s *Server) SetAfter(fn func(tag string, args []string)) { s.after.Store(hook(fn)) }

// live returns the entry if present and not expired (removing it when expired). Caller holds mu.
func (s *Server) live(k string) *entry {
	e, ok := s.data[k]
	if !ok {
		return nil
	}
	if e.expireAt != 0 && e.expireAt <= s.nowMs {
		delete(s.data, k)
		s.verSeq++
		return nil
	}
	return e
}

func (s *Server) put(k string, v []byte, expireAt int64) {
	s.verSeq++
	s.data[k] = &entry{val: v, expireAt: expireAt, ver: s.verSeq}
}

// version of a key for WATCH: 0 when absent.
func (s *Server) version(k string) uint64 {
	if e := s.live(k); e != nil {
		return e.ver
	}
	return 0
}

// ---------------------------------------------------------------- protocol

type connState struct {
	tag      string
	inMulti  bool
	queued   [][]string
	dirty    bool // a queued command was malformed
	watched  map[string]uint64
	watchFl  uint64
	watching bool
}

func readCommand(r *bufio.Reader) ([]string, error) {
	line, err := r.ReadString('\n')
	if err != nil {
		return nil, err
	}
	line = strings.TrimRight(line, "\r\n")
	if line == "" {
		return []string{}, nil
	}
	if line[0] != '*' { // inline command
		return strings.Fields(line), nil
	}
	n, err := strconv.Atoi(line[1:])
	if err != nil || n < 0 || n > 1<<20 {
		return nil, errors.New("protocol error")
	}
	args := make([]string, 0, n)
	for i := 0; i < n; i++ {
		h, err := r.ReadString('\n')
		if err != nil {
			return nil, err
		}
		h = strings.TrimRight(h, "\r\n")
		if len(h) == 0 || h[0] != '$' {
			return nil, errors.New("protocol error: expected bulk string")
		}
		l, err := strconv.Atoi(h[1:])
		if err != nil || l < 0 || l > 512<<20 {
			return nil, errors.New("protocol error: bad bulk length")
		}
		buf := make([]byte, l+2)
		if _, err := io.ReadFull(r, buf); err != nil {
			return nil, err
		}
		args = append(args, string(buf[:l]))
	}
	return args, nil
}

// reply values: nil => null bulk, string => simple string (prefix "+") handled via types below.
type simple string
type errReply string
type nullArray struct{}

func writeReply(w *bufio.Writer, v interface{}) {
	switch x := v.(type) {
	case nil:
		w.WriteString("$-1\r\n")
	case nullArray:
		w.WriteString("*-1\r\n")
	case simple:
		w.WriteString("+" + string(x) + "\r\n")
	case errReply:
		w.WriteString("-" + string(x) + "\r\n")
	case int:
		w.WriteString(":" + strconv.Itoa(x) + "\r\n")
	case int64:
		w.WriteString(":" + strconv.FormatInt(x, 10) + "\r\n")
	case []byte:
		w.WriteString("$" + strconv.Itoa(len(x)) + "\r\n")
		w.Write(x)
		w.WriteString("\r\n")
	case string:
		w.WriteString("$" + strconv.Itoa(len(x)) + "\r\n" + x + "\r\n")
	case []interface{}:
		w.WriteString("*" + strconv.Itoa(len(x)) + "\r\n")
		for _, e := range x {
			writeReply(w, e)
		}
	default:
		w.WriteString("-ERR internal reply type\r\n")
	}
}

var handshake = map[string]bool{"HELLO": true, "CLIENT": true, "AUTH": true, "SELECT": true, "PING": true,
	"ECHO": true, "QUIT": true, "COMMAND": true, "INFO": true, "TIME": true, "READONLY": true, "READWRITE": true}

func (s *Server) serve(c net.Conn, tag string) {
	defer s.wg.Done()
	defer func() {
		s.mu.Lock()
		delete(s.conns, c)
		s.mu.Unlock()
		c.Close()
	}()
	r := bufio.NewReader(c)
	w := bufio.NewWriter(c)
	cs := &connState{tag: tag}
	for {
		args, err := readCommand(r)
		if err != nil {
			return
		}
		if len(args) == 0 {
			continue
		}
		name := strings.ToUpper(args[0])
		gated := !handshake[name]
		if gated {
			if g, _ := s.gate.Load().(hook); g != nil {
				g(tag, args)
			}
		}
		s.mu.Lock()
		rep := s.dispatch(cs, name, args)
		s.mu.Unlock()
		s.ncmd.Add(1)
		if gated {
			if a, _ := s.after.Load().(hook); a != nil {
				a(tag, args)
			}
		}
		writeReply(w, rep)
		// flush when no further pipelined command is already buffered
		if r.Buffered() == 0 {
			if err := w.Flush(); err != nil {
				return
			}
		}
		if name == "QUIT" {
			w.Flush()
			return
		}
	}
}

func wrongArgs(name string) errReply {
	return errReply("ERR wrong number of arguments for '" + strings.ToLower(name) + "' command")
}

const (
	errSyntax = errReply("ERR syntax error")
	errNotInt = errReply("ERR value is not an integer or out of range")
)

// dispatch handles transaction state and executes or queues. Caller holds mu.
func (s *Server) dispatch(cs *connState, name string, args []string) interface{} {
	switch name {
	case "MULTI":
		if cs.inMulti {
			return errReply("ERR MULTI calls can not be nested")
		}
		cs.inMulti, cs.queued, cs.dirty = true, nil, false
		return simple("OK")
	case "DISCARD":
		if !cs.inMulti {
			return errReply("ERR DISCARD without MULTI")
		}
		cs.inMulti, cs.queued, cs.dirty = false, nil, false
		cs.unwatch()
		return simple("OK")
	case "EXEC":
		if !cs.inMulti {
			return errReply("ERR EXEC without MULTI")
		}
		q, dirty := cs.queued, cs.dirty
		cs.inMulti, cs.queued, cs.dirty = false, nil, false
		ok := !cs.watching || cs.watchFl == s.flushVer
		if ok {
			for k, v := range cs.watched {
				if s.version(k) != v {
					ok = false
					break
				}
			}
		}
		cs.unwatch()
		if dirty {
			return errReply("EXECABORT Transaction discarded because of previous errors.")
		}
		if !ok {
			return nullArray{}
		}
		out := make([]interface{}, 0, len(q))
		for _, a := range q {
			out = append(out, s.exec(strings.ToUpper(a[0]), a))
		}
		return out
	case "WATCH":
		if cs.inMulti {
			return errReply("ERR WATCH inside MULTI is not allowed")
		}
		if len(args) < 2 {
			return wrongArgs(name)
		}
		if cs.watched == nil {
			cs.watched = map[string]uint64{}
		}
		if !cs.watching {
			cs.watching, cs.watchFl = true, s.flushVer
		}
		for _, k := range args[1:] {
			if _, seen := cs.watched[k]; !seen {
				cs.watched[k] = s.version(k)
			}
		}
		return simple("OK")
	case "UNWATCH":
		cs.unwatch()
		return simple("OK")
	}
	if cs.inMulti {
		if !known[name] {
			cs.dirty = true
			return errReply("ERR unknown command '" + args[0] + "'")
		}
		cs.queued = append(cs.queued, args)
		return simple("QUEUED")
	}
	return s.exec(name, args)
}

func (cs *connState) unwatch() { cs.watched, cs.watching = nil, false }

var known = map[string]bool{}

func init() {
	for _, n := range strings.Fields("PING ECHO QUIT HELLO CLIENT AUTH SELECT COMMAND INFO TIME READONLY READWRITE SET SETNX SETEX PSETEX GET GETEX GETDEL GETSET MGET MSET DEL UNLINK EXISTS EXPIRE PEXPIRE TTL PTTL PERSIST FLUSHDB FLUSHALL DBSIZE KEYS STRLEN APPEND INCR DECR INCRBY DECRBY TYPE") {
		known[n] = true
	}
}

func (s *Server) ttlArg(unit, v string) (int64, interface{}) {
	n, err := strconv.ParseInt(v, 10, 64)
	if err != nil {
		return 0, errNotInt
	}
	switch unit {
	case "EX":
		if n <= 0 {
			return 0, errReply("ERR invalid expire time in command")
		}
		return s.nowMs + n*1000, nil
	case "PX":
		if n <= 0 {
			return 0, errReply("ERR invalid expire time in command")
		}
		return s.nowMs + n, nil
	case "EXAT": // absolute times are interpreted on the virtual clock
		return n * 1000, nil
	case "PXAT":
		return n, nil
	}
	return 0, errSyntax
}

func (s *Server) exec(name string, a []string) interface{} {
	switch name {
	case "PING":
		if len(a) > 1 {
			return a[1]
		}
		return simple("PONG")
	case "ECHO":
		if len(a) != 2 {
			return wrongArgs(name)
		}
		return a[1]
	case "QUIT", "AUTH", "SELECT", "READONLY", "READWRITE":
		return simple("OK")
	case "HELLO":
		// pretend to be a pre-6.0 server: go-redis then stays on RESP2
		return errReply("ERR unknown command 'HELLO'")
	case "CLIENT":
		if len(a) >= 2 {
			switch strings.ToUpper(a[1]) {
			case "ID":
				return 1
			case "GETNAME":
				return nil
			case "INFO", "LIST":
				return "id=1 addr=127.0.0.1:0 name= db=0\n"
			}
		}
		return simple("OK")
	case "COMMAND":
		return []interface{}{}
	case "TIME":
		return []interface{}{strconv.FormatInt(s.nowMs/1000, 10), strconv.FormatInt((s.nowMs%1000)*1000, 10)}
	case "INFO":
		return "# Server\r\nredis_version:5.0.0-verif\r\nredis_mode:standalone\r\nrun_id:" + s.runID +
			"\r\ntcp_port:0\r\nuptime_in_seconds:" + strconv.FormatInt(s.nowMs/1000, 10) + "\r\n# Keyspace\r\ndb0:keys=" +
			strconv.Itoa(len(s.data)) + ",expires=0,avg_ttl=0\r\n"
	case "SET":
		return s.cmdSet(a)
	case "SETNX":
		if len(a) != 3 {
			return wrongArgs(name)
		}
		if s.live(a[1]) != nil {
			return 0
		}
		s.put(a[1], []byte(a[2]), 0)
		return 1
	case "SETEX", "PSETEX":
		if len(a) != 4 {
			return wrongArgs(name)
		}
		unit := "EX"
		if name == "PSETEX" {
			unit = "PX"
		}
		at, er := s.ttlArg(unit, a[2])
		if er != nil {
			return er
		}
		s.put(a[1], []byte(a[3]), at)
		return simple("OK")
	case "GET":
		if len(a) != 2 {
			return wrongArgs(name)
		}
		if e := s.live(a[1]); e != nil {
			return e.val
		}
		return nil
	case "STRLEN":
		if len(a) != 2 {
			return wrongArgs(name)
		}
		if e := s.live(a[1]); e != nil {
			return len(e.val)
		}
		return 0
	case "TYPE":
		if len(a) != 2 {
			return wrongArgs(name)
		}
		if s.live(a[1]) != nil {
			return simple("string")
		}
		return simple("none")
	case "GETDEL":
		if len(a) != 2 {
			return wrongArgs(name)
		}
		if e := s.live(a[1]); e != nil {
			delete(s.data, a[1])
			s.verSeq++
			return e.val
		}
		return nil
	case "GETSET":
		if len(a) != 3 {
			return wrongArgs(name)
		}
		var old interface{}
		if e := s.live(a[1]); e != nil {
			old = e.val
		}
		s.put(a[1], []byte(a[2]), 0)
		return old
	case "GETEX":
		return s.cmdGetEx(a)
	case "MGET":
		if len(a) < 2 {
			return wrongArgs(name)
		}
		out := make([]interface{}, 0, len(a)-1)
		for _, k := range a[1:] {
			if e := s.live(k); e != nil {
				out = append(out, e.val)
			} else {
				out = append(out, nil)
			}
		}
		return out
	case "MSET":
		if len(a) < 3 || len(a)%2 != 1 {
			return wrongArgs(name)
		}
		for i := 1; i < len(a); i += 2 {
			s.put(a[i], []byte(a[i+1]), 0)
		}
		return simple("OK")
	case "APPEND":
		if len(a) != 3 {
			return wrongArgs(name)
		}
		if e := s.live(a[1]); e != nil {
			s.verSeq++
			e.val = append(append([]byte{}, e.val...), a[2]...)
			e.ver = s.verSeq
			return len(e.val)
		}
		s.put(a[1], []byte(a[2]), 0)
		return len(a[2])
	case "INCR", "DECR", "INCRBY", "DECRBY":
		return s.cmdIncr(name, a)
	case "DEL", "UNLINK":
		if len(a) < 2 {
			return wrongArgs(name)
		}
		n := 0
		for _, k := range a[1:] {
			if s.live(k) != nil {
				delete(s.data, k)
				s.verSeq++
				n++
			}
		}
		return n
	case "EXISTS":
		if len(a) < 2 {
			return wrongArgs(name)
		}
		n := 0
		for _, k := range a[1:] {
			if s.live(k) != nil {
				n++
			}
		}
		return n
	case "EXPIRE", "PEXPIRE":
		return s.cmdExpire(name, a)
	case "TTL", "PTTL":
		if len(a) != 2 {
			return wrongArgs(name)
		}
		e := s.live(a[1])
		if e == nil {
			return -2
		}
		if e.expireAt == 0 {
			return -1
		}
		rem := e.expireAt - s.nowMs
		if name == "TTL" {
			return (rem + 500) / 1000
		}
		return rem
	case "PERSIST":
		if len(a) != 2 {
			return wrongArgs(name)
		}
		e := s.live(a[1])
		if e == nil || e.expireAt == 0 {
			return 0
		}
		s.verSeq++
		e.expireAt, e.ver = 0, s.verSeq
		return 1
	case "FLUSHDB", "FLUSHALL":
		s.data = map[string]*entry{}
		s.flushVer++
		return simple("OK")
	case "DBSIZE":
		n := 0
		for k := range s.data {
			if s.live(k) != nil {
				n++
			}
		}
		return n
	case "KEYS":
		if len(a) != 2 {
			return wrongArgs(name)
		}
		var ks []string
		for k := range s.data {
			if s.live(k) == nil {
				continue
			}
			if ok, _ := path.Match(a[1], k); ok {
				ks = append(ks, k)
			}
		}
		sort.Strings(ks)
		out := make([]interface{}, len(ks))
		for i, k := range ks {
			out[i] = k
		}
		return out
	}
	return errReply("ERR unknown command '" + a[0] + "'")
}

func (s *Server) cmdSet(a []string) interface{} {
	if len(a) < 3 {
		return wrongArgs("SET")
	}
	var nx, xx, keepTTL, get bool
	var at int64
	hasTTL := false
	for i := 3; i < len(a); i++ {
		switch o := strings.ToUpper(a[i]); o {
		case "NX":
			nx = true
		case "XX":
			xx = true
		case "KEEPTTL":
			keepTTL = true
		case "GET":
			get = true
		case "EX", "PX", "EXAT", "PXAT":
			if i+1 >= len(a) || hasTTL {
				return errSyntax
			}
			v, er := s.ttlArg(o, a[i+1])
			if er != nil {
				return er
			}
			at, hasTTL = v, true
			i++
		default:
			return errSyntax
		}
	}
	if (nx && xx) || (keepTTL && hasTTL) {
		return errSyntax
	}
	e := s.live(a[1])
	var old interface{}
	if e != nil {
		old = e.val
	}
	if (nx && e != nil) || (xx && e == nil) {
		if get {
			return old
		}
		return nil
	}
	if keepTTL && e != nil {
		at = e.expireAt
	}
	s.put(a[1], []byte(a[2]), at)
	if get {
		return old
	}
	return simple("OK")
}

func (s *Server) cmdGetEx(a []string) interface{} {
	if len(a) < 2 {
		return wrongArgs("GETEX")
	}
	var at int64
	mode := ""
	switch len(a) {
	case 2:
	case 3:
		if strings.ToUpper(a[2]) != "PERSIST" {
			return errSyntax
		}
		mode = "PERSIST"
	case 4:
		mode = strings.ToUpper(a[2])
		v, er := s.ttlArg(mode, a[3])
		if er != nil {
			return er
		}
		at = v
	default:
		return errSyntax
	}
	e := s.live(a[1])
	if e == nil {
		return nil
	}
	switch mode {
	case "PERSIST":
		if e.expireAt != 0 {
			s.verSeq++
			e.expireAt, e.ver = 0, s.verSeq
		}
	case "":
	default:
		s.verSeq++
		e.expireAt, e.ver = at, s.verSeq
		if at <= s.nowMs {
			v := e.val
			delete(s.data, a[1])
			return v
		}
	}
	return e.val
}

func (s *Server) cmdExpire(name string, a []string) interface{} {
	if len(a) < 3 || len(a) > 4 {
		return wrongArgs(name)
	}
	n, err := strconv.ParseInt(a[2], 10, 64)
	if err != nil {
		return errNotInt
	}
	if name == "EXPIRE" {
		n *= 1000
	}
	e := s.live(a[1])
	if e == nil {
		return 0
	}
	at := s.nowMs + n
	if len(a) == 4 {
		switch strings.ToUpper(a[3]) {
		case "NX":
			if e.expireAt != 0 {
				return 0
			}
		case "XX":
			if e.expireAt == 0 {
				return 0
			}
		case "GT":
			if e.expireAt == 0 || at <= e.expireAt {
				return 0
			}
		case "LT":
			if e.expireAt != 0 && at >= e.expireAt {
				return 0
			}
		default:
			return errReply("ERR Unsupported option " + a[3])
		}
	}
	s.verSeq++
	if n <= 0 {
		delete(s.data, a[1])
		return 1
	}
	e.expireAt, e.ver = at, s.verSeq
	return 1
}

func (s *Server) cmdIncr(name string, a []string) interface{} {
	var by int64 = 1
	switch name {
	case "INCR", "DECR":
		if len(a) != 2 {
			return wrongArgs(name)
		}
	default:
		if len(a) != 3 {
			return wrongArgs(name)
		}
		v, err := strconv.ParseInt(a[2], 10, 64)
		if err != nil {
			return errNotInt
		}
		by = v
	}
	if name == "DECR" || name == "DECRBY" {
		by = -by
	}
	var cur, at int64
	if e := s.live(a[1]); e != nil {
		v, err := strconv.ParseInt(string(e.val), 10, 64)
		if err != nil {
			return errNotInt
		}
		cur, at = v, e.expireAt
	}
	cur += by
	s.put(a[1], []byte(strconv.FormatInt(cur, 10)), at)
	return cur
}
