package resp_test

import (
	"context"
	"testing"
	"time"

	"github.com/redis/go-redis/v9"

	"verif/harness/lib/resp"
)

// Smoke test of the commands the SOP redis adapter issues, through the real go-redis client.
func TestCommands(t *testing.T) {
	s, err := resp.Start()
	if err != nil {
		t.Fatal(err)
	}
	defer s.Close()
	ctx := context.Background()
	c := redis.NewClient(&redis.Options{Addr: s.Addr(), MaxRetries: -1})
	defer c.Close()

	if v, err := c.Ping(ctx).Result(); err != nil || v != "PONG" {
		t.Fatalf("ping: %v %v", v, err)
	}
	if err := c.Set(ctx, "a", "1", 2*time.Second).Err(); err != nil { // EX
		t.Fatal(err)
	}
	if err := c.Set(ctx, "b", "2", 1500*time.Millisecond).Err(); err != nil { // PX
		t.Fatal(err)
	}
	if err := c.Set(ctx, "c", "3", 0).Err(); err != nil {
		t.Fatal(err)
	}
	if ok, _ := c.SetNX(ctx, "a", "x", time.Second).Result(); ok {
		t.Fatal("SETNX over a live key succeeded")
	}
	if vals, err := c.MGet(ctx, "a", "nope", "c").Result(); err != nil || vals[0] != "1" || vals[1] != nil || vals[2] != "3" {
		t.Fatalf("mget: %v %v", vals, err)
	}
	if n, _ := c.Exists(ctx, "a", "b", "nope").Result(); n != 2 {
		t.Fatalf("exists: %d", n)
	}
	if d, _ := c.PTTL(ctx, "b").Result(); d != 1500*time.Millisecond {
		t.Fatalf("pttl: %v", d)
	}
	s.AdvanceClock(1600 * time.Millisecond)
	if _, err := c.Get(ctx, "b").Result(); err != redis.Nil {
		t.Fatalf("b should have expired: %v", err)
	}
	if v, err := c.GetEx(ctx, "a", 10*time.Second).Result(); err != nil || v != "1" {
		t.Fatalf("getex: %v %v", v, err)
	}
	s.AdvanceClock(5 * time.Second)
	if v, _ := c.Get(ctx, "a").Result(); v != "1" {
		t.Fatal("GETEX did not extend the TTL")
	}
	if ok, _ := c.Expire(ctx, "c", 3*time.Second).Result(); !ok {
		t.Fatal("expire on existing key")
	}
	if ok, _ := c.Expire(ctx, "nope", 3*time.Second).Result(); ok {
		t.Fatal("expire on missing key")
	}
	s.AdvanceClock(3 * time.Second)
	if n, _ := c.Exists(ctx, "c").Result(); n != 0 {
		t.Fatal("c should have expired")
	}
	if ok, _ := c.SetNX(ctx, "c", "again", time.Second).Result(); !ok {
		t.Fatal("SETNX over an expired key failed")
	}
	if n, _ := c.Del(ctx, "a", "c", "nope").Result(); n != 2 {
		t.Fatalf("del: %d", n)
	}
	// pipeline
	p := c.Pipeline()
	p.Set(ctx, "p1", "x", time.Minute)
	g := p.Get(ctx, "p1")
	if _, err := p.Exec(ctx); err != nil || g.Val() != "x" {
		t.Fatalf("pipeline: %v %v", g.Val(), err)
	}
	// optimistic transaction: a concurrent write makes EXEC fail
	err = c.Watch(ctx, func(tx *redis.Tx) error {
		s.Evict("p1")
		_, err := tx.TxPipelined(ctx, func(pp redis.Pipeliner) error { pp.Set(ctx, "p1", "y", 0); return nil })
		return err
	}, "p1")
	if err != redis.TxFailedErr {
		t.Fatalf("watch: want TxFailedErr, got %v", err)
	}
	if s.Evict("p1") {
		t.Fatal("p1 was already evicted")
	}
	c.Set(ctx, "z", "1", 0)
	if err := c.FlushDB(ctx).Err(); err != nil || len(s.Keys()) != 0 {
		t.Fatalf("flushdb: %v %v", err, s.Keys())
	}
	if _, err := c.Info(ctx, "server").Result(); err != nil {
		t.Fatal(err)
	}
	s.FlushAll()
}
