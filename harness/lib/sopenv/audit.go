package sopenv

import (
	"context"
	"github.com/sharedcode/sop/btree"
	"os"
	"path/filepath"
	"sort"
	"strings"
	"sync"
	"time"

	"github.com/sharedcode/sop"
	"github.com/sharedcode/sop/encoding"
)

// AuditResult: what is on disk versus what a full traversal with cold caches reaches.
type AuditResult struct {
	OrphanBlobs   []string `json:"orphan_blobs"`   // blob files no reachable node / item refers to
	OrphanHandles []string `json:"orphan_handles"` // registry slots of logical ids the traversal never looked up
	Logs          []string `json:"logs"`           // transaction / priority log files
	Unreadable    []string `json:"unreadable"`     // stores whose traversal failed
	BlobFiles     int      `json:"blob_files"`
	Handles       int      `json:"handles"`
	Reached       int      `json:"reached"`
}

// Audit must run in a process with cold caches (fresh process): every node and every out-of-node value is then
// read through the blob store, every handle through the registry, and the decorators' Tap sees the raw ids.
func (e *Env) Audit(ctx context.Context, stores []string) AuditResult {
	var res AuditResult
	var mu sync.Mutex
	blobs := map[sop.UUID]bool{}
	handles := map[sop.UUID]bool{}
	e.Hub.Tap = func(kind string, ids []sop.UUID) {
		mu.Lock()
		for _, id := range ids {
			if kind == "blob" {
				blobs[id] = true
			} else {
				handles[id] = true
			}
		}
		mu.Unlock()
	}
	defer func() { e.Hub.Tap = nil }()
	roots := map[sop.UUID]bool{}
	names := map[string]bool{}
	if t, err := e.Begin(ctx, "audit-list", sop.ForReading, time.Minute); err == nil {
		l, _ := t.GetStores(ctx)
		for _, n := range l {
			names[n] = true
		}
		t.Rollback(ctx)
	}
	for _, s := range stores {
		if !names[s] {
			continue
		}
		if err := e.walk(ctx, s, func(id sop.UUID) {
			mu.Lock()
			blobs[id] = true // the value of an item kept outside the node lives in a blob named by the item's id
			mu.Unlock()
		}, func(id sop.UUID) {
			mu.Lock()
			roots[id] = true
			handles[id] = true
			mu.Unlock()
		}); err != nil {
			res.Unreadable = append(res.Unreadable, s+": "+err.Error())
		}
	}
	hm := encoding.NewHandleMarshaler()
	// the store info keeps referring to the root node of a store that has become empty: its handle and active blob
	// are live although a traversal reads nothing
	filepath.Walk(e.Folder, func(p string, info os.FileInfo, err error) error {
		if err != nil || info.IsDir() || !strings.HasSuffix(p, ".reg") {
			return nil
		}
		data, err := os.ReadFile(p)
		if err != nil {
			return nil
		}
		const block, slot, per = 4096, sop.HandleSizeInBytes, 66
		for off := 0; off+block <= len(data); off += block {
			for i := 0; i < per; i++ {
				var h sop.Handle
				if err := hm.Unmarshal(data[off+i*slot:off+(i+1)*slot], &h); err == nil && roots[h.LogicalID] {
					blobs[h.GetActiveID()] = true
				}
			}
		}
		return nil
	})
	res.Reached = len(blobs)
	filepath.Walk(e.Folder, func(p string, info os.FileInfo, err error) error {
		if err != nil || info.IsDir() {
			return nil
		}
		rel, _ := filepath.Rel(e.Folder, p)
		base := filepath.Base(p)
		switch {
		case strings.HasSuffix(base, ".log") || strings.HasSuffix(base, ".plg"):
			res.Logs = append(res.Logs, rel)
		case strings.HasSuffix(base, ".reg"):
			data, err := os.ReadFile(p)
			if err != nil {
				return nil
			}
			const block, slot, per = 4096, sop.HandleSizeInBytes, 66
			for off := 0; off+block <= len(data); off += block {
				for i := 0; i < per; i++ {
					b := data[off+i*slot : off+(i+1)*slot]
					zero := true
					for _, x := range b {
						if x != 0 {
							zero = false
							break
						}
					}
					if zero {
						continue
					}
					var h sop.Handle
					if err := hm.Unmarshal(b, &h); err != nil {
						continue
					}
					res.Handles++
					if !handles[h.LogicalID] {
						res.OrphanHandles = append(res.OrphanHandles, rel+":"+h.LogicalID.String())
					}
				}
			}
		default:
			if id, err := sop.ParseUUID(base); err == nil {
				res.BlobFiles++
				if !blobs[id] {
					res.OrphanBlobs = append(res.OrphanBlobs, rel)
				}
			}
		}
		return nil
	})
	sort.Strings(res.OrphanBlobs)
	sort.Strings(res.OrphanHandles)
	return res
}

// walk traverses a whole store in a fresh reader transaction, fetching every item (and so every value).
func (e *Env) walk(ctx context.Context, store string, item func(id sop.UUID), root func(id sop.UUID)) error {
	t, err := e.Begin(ctx, "audit-"+store, sop.ForReading, time.Minute)
	if err != nil {
		return err
	}
	defer t.Rollback(ctx)
	b, err := OpenBtree[int, string](ctx, t, store)
	if err != nil {
		return err
	}
	if si := b.GetStoreInfo(); !si.RootNodeID.IsNil() {
		root(si.RootNodeID) // the store info refers to the root also when the store is empty (First then reads nothing)
	}
	ok, err := b.First(ctx)
	for ok && err == nil {
		var it btreeItem
		it, err = b.GetCurrentItem(ctx)
		if err != nil {
			return err
		}
		item(it.ID)
		ok, err = b.Next(ctx)
	}
	return err
}

type btreeItem = btree.Item[int, string]
