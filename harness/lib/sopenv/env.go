// Package sopenv builds real SOP transactions on the filesystem backend with decorated backends.
package sopenv

import (
	"context"
	"crypto/sha1"
	"encoding/hex"
	"encoding/json"
	"fmt"
	"os"
	"path/filepath"
	"sort"
	"time"

	"github.com/sharedcode/sop"
	"github.com/sharedcode/sop/btree"
	"github.com/sharedcode/sop/cache"
	"github.com/sharedcode/sop/common"
	"github.com/sharedcode/sop/fs"

	"verif/harness/lib/decor"
)

// Env is one database folder plus the shared hub and L2 cache.
type Env struct {
	Folder  string
	Hub     *decor.Hub
	L2      sop.L2Cache
	HashMod int
	GateAll bool
	// Plain: do not decorate at all (used as independent observer)
}

// New creates an environment on folder (created if missing).
func New(folder string, hub *decor.Hub) *Env {
	os.MkdirAll(folder, 0o755)
	if hub == nil {
		hub = decor.NewHub()
	}
	return &Env{Folder: folder, Hub: hub, L2: SharedL2(), HashMod: 250}
}

var sharedL2 sop.L2Cache

// SharedL2 is the process-wide undecorated in-memory L2 cache.  The global L1 cache binds itself to the
// first L2 instance it is handed, so it is primed here with the undecorated one.
func SharedL2() sop.L2Cache {
	if sharedL2 == nil {
		// the very instance infs / database hand out for CacheType InMemory (RemoveBtree & co. clear that one)
		sharedL2 = sop.GetL2Cache(sop.TransactionOptions{CacheType: sop.InMemory})
		if sharedL2 == nil {
			sharedL2 = cache.NewL2InMemoryCache()
		}
		cache.GetGlobalL1Cache(sharedL2)
	}
	return sharedL2
}

// Txn is a real SOP transaction with its decorated parts.
type Txn struct {
	sop.Transaction
	Label string
	Two   *common.Transaction
	Env   *Env
}

// Begin creates and begins a transaction labelled label.
func (e *Env) Begin(ctx context.Context, label string, mode sop.TransactionMode, maxTime time.Duration) (*Txn, error) {
	t, err := e.NewTxn(ctx, label, mode, maxTime)
	if err != nil {
		return nil, err
	}
	if err := t.Begin(ctx); err != nil {
		return nil, err
	}
	return t, nil
}

// NewTxn mirrors infs.NewTwoPhaseCommitTransaction with decorators around every backend.
func (e *Env) NewTxn(ctx context.Context, label string, mode sop.TransactionMode, maxTime time.Duration) (*Txn, error) {
	l2 := &decor.L2{Inner: e.L2, H: e.Hub, Txn: label, GateAll: e.GateAll}
	rt, err := fs.NewReplicationTracker(ctx, []string{e.Folder}, false, l2)
	if err != nil {
		return nil, err
	}
	mbsf := fs.NewManageStoreFolder(fs.NewFileIO())
	sr, err := fs.NewStoreRepository(ctx, rt, mbsf, l2, e.HashMod)
	if err != nil {
		return nil, err
	}
	hm := e.HashMod
	if i, err := sr.GetRegistryHashModValue(ctx); err != nil {
		return nil, err
	} else if i > 0 {
		hm = i
	}
	tl := fs.NewTransactionLog(l2, rt)
	reg := fs.NewRegistry(mode == sop.ForWriting, hm, rt, l2)
	two, err := common.NewTwoPhaseCommitTransaction(mode, maxTime,
		&decor.BlobStore{Inner: fs.NewBlobStore(e.Folder, nil, nil), H: e.Hub, Txn: label},
		&decor.StoreRepo{Inner: sr, H: e.Hub, Txn: label},
		&decor.Registry{Inner: reg, H: e.Hub, Txn: label},
		l2,
		&decor.TLog{Inner: tl, H: e.Hub, Txn: label})
	if err != nil {
		return nil, err
	}
	rt.SetTransactionID(two.GetID())
	st, err := sop.NewTransaction(mode, two)
	if err != nil {
		return nil, err
	}
	return &Txn{Transaction: st, Label: label, Two: two, Env: e}, nil
}

// StoreOpts are the store options the drivers vary.
type StoreOpts struct {
	Name       string
	Slot       int
	Unique     bool
	Placement  string // "node", "segment", "active", "global"
	Balancing  bool
	Desc       string
	NoCacheTTL bool
}

func (o StoreOpts) SopOptions(folder string) sop.StoreOptions {
	so := sop.StoreOptions{Name: o.Name, SlotLength: o.Slot, IsUnique: o.Unique, Description: o.Desc,
		LeafLoadBalancing: o.Balancing, BlobStoreBaseFolderPath: folder,
		DisableBlobStoreFormatting: true, DisableRegistryStoreFormatting: true}
	switch o.Placement {
	case "", "node":
		so.IsValueDataInNodeSegment = true
	case "segment":
	case "global":
		so.IsValueDataGloballyCached = true
	case "active":
		so.IsValueDataActivelyPersisted = true
	}
	return so
}

// NewBtree creates or opens a store with int keys and string values.
func NewBtree[TK btree.Ordered, TV any](ctx context.Context, t *Txn, o StoreOpts) (btree.BtreeInterface[TK, TV], error) {
	return common.NewBtree[TK, TV](ctx, o.SopOptions(t.Env.Folder), t.Transaction, nil)
}

func OpenBtree[TK btree.Ordered, TV any](ctx context.Context, t *Txn, name string) (btree.BtreeInterface[TK, TV], error) {
	return common.OpenBtree[TK, TV](ctx, name, t.Transaction, nil)
}

// KV is one dumped item.
type KV struct {
	K int    `json:"k"`
	V string `json:"v"`
}

// Dump reads a whole store through a fresh transaction of this env (API-level observation).
func (e *Env) Dump(ctx context.Context, label, store string) (items []KV, count int64, exists bool, err error) {
	t, err := e.Begin(ctx, label, sop.ForReading, time.Minute)
	if err != nil {
		return nil, 0, false, err
	}
	defer t.Rollback(ctx)
	names, err := t.GetStores(ctx)
	if err != nil {
		return nil, 0, false, err
	}
	found := false
	for _, n := range names {
		if n == store {
			if found {
				return nil, 0, true, fmt.Errorf("store %s is listed more than once by GetStores", store)
			}
			found = true
		}
	}
	if !found {
		return nil, 0, false, nil
	}
	b, err := OpenBtree[int, string](ctx, t, store)
	if err != nil {
		return nil, 0, true, err
	}
	count = b.Count()
	ok, err := b.First(ctx)
	if err != nil {
		return nil, count, true, err
	}
	for ok {
		it, err := b.GetCurrentItem(ctx)
		if err != nil {
			return items, count, true, fmt.Errorf("GetCurrentItem: %w", err)
		}
		v := ""
		if it.Value != nil {
			v = *it.Value
		}
		items = append(items, KV{K: it.Key, V: v})
		ok, err = b.Next(ctx)
		if err != nil {
			return items, count, true, err
		}
	}
	return items, count, true, nil
}

// ListFiles lists files under the env folder relative to it (sorted), for artefact checks.
func (e *Env) ListFiles() []string {
	var out []string
	filepath.Walk(e.Folder, func(p string, info os.FileInfo, err error) error {
		if err == nil && !info.IsDir() {
			r, _ := filepath.Rel(e.Folder, p)
			out = append(out, r)
		}
		return nil
	})
	sort.Strings(out)
	return out
}

// CoolCaches clears the L2 cache and the L1 handle cache (L1 nodes cannot be cleared through the API;
// truly cold observations are made from a fresh process).
func (e *Env) CoolCaches(ctx context.Context) {
	e.L2.Clear(ctx)
	if l1 := cache.GetGlobalL1Cache(e.L2); l1 != nil {
		l1.Handles.Clear()
	}
}

// Digest is the configuration of a store: everything except the item count and the timestamp.
func Digest(si *sop.StoreInfo) string {
	c := *si
	c.Count, c.CountDelta, c.Timestamp = 0, 0, 0
	ba, _ := json.Marshal(struct {
		Name, Desc, Reg, Blob, Root, Spec, Cel string
		Slot                                   int
		Unique, InNode, Active, Global, LB     bool
		Cache                                  sop.StoreCacheConfig
	}{c.Name, c.Description, c.RegistryTable, c.BlobTable, c.RootNodeID.String(), c.MapKeyIndexSpecification, c.CELexpression,
		c.SlotLength, c.IsUnique, c.IsValueDataInNodeSegment, c.IsValueDataActivelyPersisted, c.IsValueDataGloballyCached,
		c.LeafLoadBalancing, c.CacheConfig}) // not: is_primitive_key / schema / key fields, which SOP infers at run time
	h := sha1.Sum(ba)
	if os.Getenv("VERIF_DIGEST_FULL") != "" {
		return string(ba)
	}
	return fmt.Sprintf("%s/%d/%v/%s", c.Name, c.SlotLength, c.IsUnique, hex.EncodeToString(h[:6]))
}

// StoreDigest reads the store's configuration through the store repository of a fresh transaction ("" if absent).
func (e *Env) StoreDigest(ctx context.Context, name string) string {
	t, err := e.NewTxn(ctx, "digest", sop.ForReading, time.Minute)
	if err != nil {
		return "error:" + err.Error()
	}
	sis, err := t.Two.GetStoreRepository().Get(ctx, name)
	if err != nil {
		return "error:" + err.Error()
	}
	if len(sis) == 0 {
		return ""
	}
	return Digest(&sis[0])
}
