"""Helpers for the concurrent-history checks (TxnSerial serialisation search, SopCommitTrace backend traces)."""
import json, os, re
import vlib


def history_of(evs, require_all=False):
    """API trace of one concurrent run -> TxnSerial history record (committed transactions only)."""
    observes = [i for i, e in enumerate(evs) if e.get("ev") == "Observe"]
    first_conc = next((i for i, e in enumerate(evs) if e.get("ev") == "Begin" and e.get("t", "").startswith("c")), len(evs))
    init, final = [], []
    for i in observes:
        e = evs[i]
        tgt = init if i < first_conc else final
        if e.get("exists"):
            tgt.extend(dict(s=e["s"], k=x["k"], v=x["v"]) for x in e["items"])
    # the last Observe group only (there may be a child observe after it)
    last_groups = {}
    for i in observes:
        if i >= first_conc:
            last_groups.setdefault(evs[i]["s"], []).append(evs[i])
    final = []
    for s, lst in last_groups.items():
        e = lst[0]
        if e.get("exists"):
            final.extend(dict(s=s, k=x["k"], v=x["v"]) for x in e["items"])
    txns, outcome = {}, {}
    for e in evs:
        t = e.get("t", "")
        if not t.startswith("c"):
            continue
        if e["ev"] == "Op":
            txns.setdefault(t, []).append(dict(s=e["s"], op=e["op"], k=e["k"], v=e["v"], ok=bool(e["ok"])))
        elif e["ev"] == "CommitEnd":
            outcome[t] = "committed" if e["ok"] else "failed"
        elif e["ev"] in ("Rollback", "OpError"):
            outcome.setdefault(t, "aborted")
    committed = [dict(t=t, ops=txns.get(t, [])) for t in sorted(outcome) if outcome[t] == "committed"]
    return dict(init=init, final=final, txns=committed, required=(len(outcome) if require_all else 0)), outcome


def serial_check(c, hists, chunk=40, timeout=600):
    """Returns the set of indices of histories for which NO serialisation exists."""
    unsolved = set()
    for off in range(0, len(hists), chunk):
        part = hists[off:off + chunk]
        text = "\n".join(json.dumps(h) for h in part) + "\n"
        r = c.tlc("TxnSerial", "TxnSerial.cfg", workers=1, timeout=timeout, files={"hist.ndjson": text}, tag="serial")
        if r.timed_out or not r.ok:
            raise vlib.InfraError("TxnSerial run failed: %s\n%s" % (r.violated, r.out[-3000:]))
        solved = set()
        for p in r.prints:
            m = re.search(r'"SOLVED",\s*(\d+)', p)
            if m:
                solved.add(int(m.group(1)))
        c.cov["states"] += r.distinct
        c.cov["transitions"] += r.generated
        for i in range(len(part)):
            if (i + 1) not in solved:
                unsolved.add(off + i)
    return unsolved


def load_backend(path):
    out, cur = [], None
    for e in vlib.read_ndjson(path):
        if e["ev"] == "TraceStart":
            cur = (e["name"], e, [])
            out.append(cur)
        else:
            cur[2].append(e)
    return out


def classify_unserializable(h):
    """Cheap pattern name for a history without serial order (used only to build the finding signature)."""
    init = {(x["s"], x["k"]): x["v"] for x in h["init"]}
    final = {(x["s"], x["k"]): x["v"] for x in h["final"]}
    writers = {}
    for t in h["txns"]:
        for o in t["ops"]:
            if o["op"] in ("Add", "AddIfNotExist", "Update", "Upsert", "Remove") and o["ok"]:
                writers.setdefault((o["s"], o["k"]), set()).add(t["t"])
    # a write that was refused (returned false) although nothing in the history can make its key exist / be absent
    for t in h["txns"]:
        for o in t["ops"]:
            if o["op"] in ("Add", "AddIfNotExist", "Upsert") and not o["ok"]:
                key = (o["s"], o["k"])
                earlier_own = any(p2 is not o and (p2["s"], p2["k"]) == key and p2["op"] in ("Add", "AddIfNotExist", "Upsert", "Update") and p2["ok"]
                                  for p2 in t["ops"][:t["ops"].index(o)])
                if o["op"] == "Upsert" or (key not in init and not earlier_own and not (writers.get(key, set()) - {t["t"]})):
                    # (an Upsert adds or updates: no serial order makes it return false)
                    return "write-refused-without-cause:%s" % o["op"]
    for t in h["txns"]:
        per = {}
        for o in t["ops"]:
            if o["op"] in ("Add", "AddIfNotExist", "Update", "Upsert", "Remove") and o["ok"]:
                per.setdefault((o["s"], o["k"]), []).append(o)
        for key, ws in per.items():
            if writers.get(key) != {t["t"]}:
                continue
            last = ws[-1]
            want = None if last["op"] == "Remove" else last["v"]
            got = final.get(key)
            if got != want:
                earlier = [w for w in ws[:-1] if w["op"] != "Remove" and w["v"] == got]
                if earlier:
                    return "lost-later-write:%s-then-%s" % (earlier[-1]["op"], last["op"])
                if want is None and got == init.get(key):
                    untouched_missing = [k for k in init if k not in final and k not in writers]
                    return "remove-not-applied" + (":another-key-missing" if untouched_missing else "")
                return "own-write-not-visible:%s" % last["op"]
    return "unclassified"
