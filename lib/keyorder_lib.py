"""Helpers shared by checks/C29.py and checks/C30.py (spec/KeyOrder.tla, harness/cmd/keyorder)."""
import json, os, re, subprocess, sys, time
import vlib

ALL_VALS = ["null", "miss", "F", "T", "i0", "i1", "i2", "nm1", "n0", "n1", "n1h", "n2", "n10", "se", "s10", "sa", "sb"]
FIELD_NAMES = ["a", "b", "c"]          # sorted names = index order (the default comparer sorts field names)


def tla_set(xs):
    return "{" + ", ".join(json.dumps(x) if isinstance(x, str) else str(x) for x in xs) + "}"


def cfg_text(spec, consts, invariants=(), view=None, trace=False):
    lines = ["SPECIFICATION " + spec, "CONSTANTS"]
    for k, v in consts.items():
        if isinstance(v, (list, tuple, set)):
            v = tla_set(sorted(v, key=str))
        elif isinstance(v, str):
            v = json.dumps(v)
        lines.append("  %s = %s" % (k, v))
    if view:
        lines.append("VIEW " + view)
    if invariants:
        lines.append("INVARIANTS " + " ".join(invariants))
    if trace:
        lines += ["CONSTRAINT HighWater", "POSTCONDITION TraceAccepted"]
    lines.append("CHECK_DEADLOCK FALSE")
    return "\n".join(lines) + "\n"


def design_consts(vals, nf, desc, mode, semantics, insts, maxhist, emit):
    return dict(Vals=list(vals), NF=nf, Desc=list(desc), Mode=mode, Semantics=semantics, Insts=list(insts),
                MaxHist=maxhist, Emit=emit)


def trace_consts(nf, desc, mode, sem):
    d = design_consts(ALL_VALS, nf, desc, mode, "memory", [1, 2, 3], 0, "none")
    d["TraceSem"] = sem
    return d


def build(c):
    """go build ./cmd/keyorder with the overlay file that exports jsondb's unexported comparer (no tree edit)."""
    h = os.path.join(vlib.VERIF, "harness")
    # per-run go.mod/go.sum (-modfile), as vlib.build does, so that concurrent checks with another VERIF_REPO cannot race
    moddir = os.path.join(c.scratch, "mod")
    os.makedirs(moddir, exist_ok=True)
    subprocess.run([sys.executable, os.path.join(h, "genmod.py"), vlib.REPO, moddir], check=True)
    if not os.path.exists(os.path.join(h, "go.mod")):
        subprocess.run([sys.executable, os.path.join(h, "genmod.py"), "/repo"], check=True)
    ov = os.path.join(c.scratch, "overlay.json")
    src = os.path.join(h, "cmd", "keyorder", "overlay", "jsondb_verif_export.go.txt")
    json.dump({"Replace": {os.path.join(os.path.abspath(vlib.REPO), "jsondb", "verif_export.go"): src}}, open(ov, "w"))
    out = os.path.join(c.scratch, "bin", "keyorder")
    os.makedirs(os.path.dirname(out), exist_ok=True)
    t = time.time()
    p = subprocess.run(["go", "build", "-modfile", os.path.join(moddir, "go.mod"), "-tags", "verif", "-overlay", ov, "-o", out,
                        "./cmd/keyorder"], cwd=h,
                       env=vlib.go_env(), stdout=subprocess.PIPE, stderr=subprocess.STDOUT, text=True)
    if p.returncode != 0:
        raise vlib.InfraError("go build keyorder failed:\n%s" % p.stdout[-4000:])
    vlib.log("built keyorder in %.1fs" % (time.time() - t))
    return out


def printed(res, tag):
    """Values printed by the spec as <<"TAG", ...>>: list of python lists (strings that hold JSON are decoded)."""
    out = []
    pat = re.compile(r'^<<"%s", (.*)>>$' % tag)
    for p in res.prints:
        m = pat.match(p)
        if not m:
            continue
        body = m.group(1)
        # split top-level on ", " outside quotes
        parts, cur, inq, esc = [], "", False, False
        for ch in body:
            if inq:
                cur += ch
                if esc:
                    esc = False
                elif ch == "\\":
                    esc = True
                elif ch == '"':
                    inq = False
            elif ch == '"':
                inq = True
                cur += ch
            elif ch == ",":
                parts.append(cur.strip()); cur = ""
            else:
                cur += ch
        parts.append(cur.strip())
        vals = []
        for x in parts:
            if x.startswith('"'):
                s = vlib.tla_unquote(x)
                try:
                    vals.append(json.loads(s))
                except Exception:
                    vals.append(s)
            else:
                try:
                    vals.append(int(x))
                except ValueError:
                    vals.append(x)
        out.append(vals)
    return out


def run_traces(c, consts, traces, tag, timeout=900, heap=None):
    """Concatenate traces (each preceded by a Reset line) and run KeyOrderTrace once with the given constants.
    Returns (TLCResult, index) where index[line-1] = (trace number, event number or -1)."""
    lines, index = [], []
    for ti, (name, evs) in enumerate(traces):
        num = {}                       # numbering of the keys of this trace (index into the observation table)
        body = []
        for ei, ev in enumerate(evs):
            if ev.get("ev") == "Cmp":
                ev = dict(ev)
                ev["xi"] = num.setdefault(tuple(ev["x"]), len(num) + 1)
                ev["yi"] = num.setdefault(tuple(ev["y"]), len(num) + 1)
            body.append(json.dumps(ev, sort_keys=True))
        lines.append(json.dumps({"ev": "Reset", "trace": name, "nk": len(num)}))
        index.append((ti, -1))
        for ei, line in enumerate(body):
            lines.append(line)
            index.append((ti, ei))
    cfgname = "KeyOrderTrace_%s.cfg" % tag
    files = {"trace.ndjson": "\n".join(lines) + "\n",
             cfgname: cfg_text("TraceSpec", consts, invariants=["TraceTypeOK"], trace=True)}
    r = c.tlc("KeyOrderTrace", cfgname, workers=1, timeout=timeout, files=files, tag="trace-" + tag, heap=heap)
    if r.timed_out:
        raise vlib.InfraError("trace validation timed out (%s)" % tag)
    hwm = None
    for v in printed(r, "HWM"):
        hwm = v[0]
    if hwm is None:
        raise vlib.InfraError("trace validation produced no HWM (%s):\n%s" % (tag, r.out[-5000:]))
    if r.violated and r.violated != "postcondition":
        raise vlib.InfraError("trace spec error (%s): %s\n%s" % (tag, r.violated, r.out[-4000:]))
    c.cov["states"] += r.distinct
    c.cov["transitions"] += r.generated
    r.hwm = hwm
    r.nlines = len(lines)
    return r, index
