"""Helpers shared by the checks bound to TxnStore.tla through harness/cmd/txn."""
import json, os
import vlib

FIELDS = dict(t="", s="", mode="", unique=False, ok=False, op="", k=0, v="", n=0, items=[], exists=False, count=0, opts="", ms=0, budget=0)


def norm(ev):
    e = dict(FIELDS)
    for k in list(FIELDS) + ["ev"]:
        if k in ev:
            e[k] = ev[k]
    if e["items"] is None:
        e["items"] = []
    return e


def load_traces(path):
    """returns list of (name, header, raw events)"""
    out, cur = [], None
    for e in vlib.read_ndjson(path):
        if e.get("ev") == "TraceStart":
            cur = (e.get("name"), e, [])
            out.append(cur)
        else:
            cur[2].append(e)
    return out


def run_driver(c, binp, mode, cfg, timeout=900):
    cfgp = os.path.join(c.scratch, "cfg-%s-%d.json" % (mode, len(os.listdir(c.scratch))))
    json.dump(cfg, open(cfgp, "w"))
    c.run([binp, mode, cfgp], timeout=timeout)
    return load_traces(cfg["out"])


def validate(c, traces, cfg="TxnStoreTrace.cfg", dfs=False, chunk=200, parallel=0):
    """traces: list of (name, header, raw events). Returns rejections with header attached."""
    hdr = {n: h for n, h, _ in traces}
    raw = {n: evs for n, _, evs in traces}
    rej = c.validate_traces("TxnStoreTrace", cfg, [(n, [norm(e) for e in evs]) for n, _, evs in traces], dfs=dfs,
                            chunk=chunk, parallel=parallel)
    for r in rej:
        r["header"] = hdr[r["trace"]]
        r["raw"] = raw[r["trace"]]
    return rej


def describe(r):
    ev = r["event"] or {}
    raw = r["raw"][r["index"]] if 0 <= r["index"] < len(r["raw"]) else {}
    return ev, raw


def fault_signature(r):
    """Stable signature of a rejected fault-injection trace: '<kind>@<step>|<variant>|<symptom>'."""
    tag = r["header"].get("tag", "")
    parts = tag.split("|")
    where = parts[1] if len(parts) > 1 else "?"
    variant = parts[2] if len(parts) > 2 else "?"
    raw, idx = r["raw"], r["index"]
    ev = raw[idx] if 0 <= idx < len(raw) else {}
    labels = [e["t"] for e in raw if e.get("ev") == "Begin" and e.get("t", "").startswith("t")]
    retry = next((x for x in labels if x.endswith("r")), None)
    victim = retry[:-1] if retry else (labels[-1] if labels else "")
    seen_retry = any(e.get("ev") == "Begin" and e.get("t") == retry for e in raw[:idx + 1]) if retry else False
    vend = next((e for e in raw[:idx + 1] if e.get("ev") == "CommitEnd" and e.get("t") == victim), None)
    rend = next((e for e in raw[:idx + 1] if e.get("ev") == "CommitEnd" and e.get("t") == retry), None) if retry else None
    kind = ev.get("ev", "?")
    if kind == "CommitEnd" and ev.get("t") == retry:
        note = ev.get("note", "")
        if "retry limit" in note:
            why = "retry-limit"
        elif "detected conflict" in note or "can't attain a lock" in note:
            why = "item-lock-conflict"
        elif "timed out" in note or "timeout" in note.lower() or "deadline" in note:
            why = "timeout"
        else:
            why = "other"
        sym = "retry-commit-failed:" + why
    elif kind == "CommitEnd":
        sym = "victim-commit-result-rejected:ok=%s" % ev.get("ok")
    elif kind in ("Observe", "ObserveError"):
        if rend is not None:
            phase = "after-retry"
        elif vend is not None and vend.get("ok"):
            phase = "after-successful-commit"
        elif vend is not None:
            phase = "after-failed-commit"
        else:
            phase = "before-victim"
        if kind == "ObserveError":
            what = "unreadable"
        elif ev.get("exists") and ev.get("count") != len(ev.get("items") or []):
            what = "count-differs-from-scan"
        else:
            what = "contents"
        sym = "state-%s:%s" % (phase, what)
    elif kind in ("Op", "OpError", "NewStore", "OpenStore"):
        sym = "%s-%s:%s" % ("retry" if seen_retry and ev.get("t") == retry else "victim", kind.lower(), ev.get("op") or kind)
    else:
        sym = "other:" + kind
    return "%s|%s|%s" % (where, variant, sym)


def sweep_signature(r):
    """'<kind>@<step>|then=<x>|<symptom>' for a rejected pause-the-writer trace."""
    tag = r["header"].get("tag", "")
    parts = tag.split("|")
    where = parts[1] if len(parts) > 1 else "?"
    then = parts[2] if len(parts) > 2 else "?"
    raw, idx = r["raw"], r["index"]
    ev = raw[idx] if 0 <= idx < len(raw) else {}
    t = ev.get("t", "")
    kind = ev.get("ev", "?")
    if kind in ("Op", "OpenStore") and (t.startswith("r") or t.startswith("c")):
        who = "reader" if t.startswith("r") else "child-reader"
        # what did this reader see of the store in question?
        s = ev.get("s")
        mine = [e for e in raw if e.get("t") == t and e.get("s") == s and e.get("ev") == "Op"]
        cnt = next((e["n"] for e in mine if e.get("op") == "Count"), None)
        scan = next((e["items"] for e in mine if e.get("op") == "Scan"), None)
        if cnt is not None and scan is not None and cnt != len(scan):
            sym = who + ":count-differs-from-own-scan"
        else:
            sym = who + ":unexplained-" + (ev.get("op") or kind)
    elif kind in ("Observe", "ObserveError"):
        wend = next((e for e in raw[:idx + 1] if e.get("ev") == "CommitEnd" and e.get("t") == "w"), None)
        phase = "after-writer-ok" if (wend and wend.get("ok")) else ("after-writer-failed" if wend else "writer-in-flight")
        if kind == "ObserveError":
            what = "unreadable"
        elif ev.get("exists") and ev.get("count") != len(ev.get("items") or []):
            what = "count-differs-from-scan"
        else:
            what = "contents"
        sym = "observe-%s:%s" % (phase, what)
    elif kind == "CommitEnd":
        sym = "commit-result-rejected:%s:ok=%s" % ("writer" if t == "w" else "reader", ev.get("ok"))
    else:
        sym = "other:%s:%s" % (kind, ev.get("op", ""))
    return "%s|%s|%s" % (where, then, sym)


READ_OPS = ("Find", "Get", "Count", "Scan")


def validate_skipping(c, traces, cfg, classify, max_skips=12, chunk=40, parallel=6):
    """Trace validation that keeps going past rejections which are listed known findings: classify(r) -> (signature,
    what).  A rejection whose signature is a known finding is reported (KNOWN-FINDING, once) and, when the rejected
    event is a pure observation (read operation / Observe), that event is dropped and the trace validated again so
    that its remainder is still checked.  Anything else is reported as a violation.  Returns the Counter of classes."""
    import collections
    classes = collections.Counter()
    hdr = {n: h for n, h, _ in traces}
    cur = {n: list(evs) for n, _, evs in traces}
    pending = [n for n, _, _ in traces]
    skips = collections.Counter()
    while pending:
        rej = c.validate_traces("TxnStoreTrace", cfg, [(n, [norm(e) for e in cur[n]]) for n in pending],
                                chunk=chunk, parallel=parallel)
        nxt = []
        for r in rej:
            n = r["trace"]
            r["header"] = hdr[n]
            r["raw"] = cur[n]
            sig, what = classify(r)
            classes[sig] += 1
            raw = cur[n][r["index"]] if 0 <= r["index"] < len(cur[n]) else {}
            known = c.is_known(sig)
            c.report(sig, what, dict(trace=n, header=hdr[n], rejected_index=r["index"], events=cur[n]))
            droppable = raw.get("ev") == "Observe" or (raw.get("ev") == "Op" and raw.get("op") in READ_OPS)
            if known and droppable and skips[n] < max_skips:
                skips[n] += 1
                cur[n] = cur[n][:r["index"]] + cur[n][r["index"] + 1:]
                nxt.append(n)
        pending = nxt
    return classes


def crash_signature(r):
    """'<kind>@<step>|crash|<symptom>' for a rejected crash-and-recover trace."""
    tag = r["header"].get("tag", "")
    parts = tag.split("|")
    where = parts[1] if len(parts) > 1 else "?"
    raw, idx = r["raw"], r["index"]
    ev = raw[idx] if 0 <= idx < len(raw) else {}
    kind, t = ev.get("ev", "?"), ev.get("t", "")
    # a store only the crashed transaction created (nobody else's NewBtree named it before the crash)
    victim = next((e.get("t") for e in raw if e.get("ev") == "Crash"), None)
    ci = next((i for i, e in enumerate(raw) if e.get("ev") == "Crash"), len(raw))
    s0 = ev.get("s")
    created_by_victim = bool(s0) and any(e.get("ev") == "NewStore" and e.get("t") == victim and e.get("s") == s0 for e in raw[:ci]) \
        and not any(e.get("ev") == "NewStore" and e.get("t") != victim and e.get("s") == s0 for e in raw[:ci])
    empty_view = (kind == "Op" and ev.get("op") in ("Count", "Scan") and not ev.get("n") and not ev.get("items")) or \
                 (kind == "Observe" and ev.get("exists") and not ev.get("items") and not ev.get("count"))
    if kind == "Logs":
        sym = "logs-left-after-recovery"
    elif created_by_victim and empty_view and (kind == "Observe" or t.startswith("m") or t.startswith("n")):
        sym = "created-store-survives-empty"
    elif kind == "Op" and (t.startswith("m") or t.startswith("n")):
        s = ev.get("s")
        mine = [e for e in raw if e.get("t") == t and e.get("s") == s and e.get("ev") == "Op"]
        cnt = next((e["n"] for e in mine if e.get("op") == "Count"), None)
        scan = next((e["items"] for e in mine if e.get("op") == "Scan"), None)
        sym = "later-reader:count-differs-from-scan" if (cnt is not None and scan is not None and cnt != len(scan)) else "later-reader:not-all-or-nothing"
    elif kind in ("Observe", "ObserveError"):
        if kind == "ObserveError":
            sym = "observe:unreadable"
        elif ev.get("exists") and ev.get("count") != len(ev.get("items") or []):
            sym = "observe:count-differs-from-scan"
        else:
            sym = "observe:not-all-or-nothing"
    elif kind == "CommitEnd" and t == "tr":
        sym = "retry-commit-failed-after-recovery"
    elif kind in ("Op", "OpError", "OpenStore", "NewStore") and t == "tr":
        sym = "retry-%s-differs:%s" % (kind.lower(), ev.get("op", ""))
    elif kind in ("OpenStore", "OpError") and (t.startswith("m") or t.startswith("n")):
        sym = "later-reader:cannot-open-or-read"
    else:
        sym = "other:%s" % kind
    return "%s|crash|%s" % (where, sym)


def rolled_back_update(raw, idx, store):
    """True when, before event idx, a transaction that successfully updated / upserted items of `store` ended with
    Rollback (used to recognise the consequences of finding C20-K3: such a rollback destroys committed values on
    stores with actively persisted values)."""
    rb = {e.get("t") for e in raw[:idx] if e.get("ev") == "Rollback"}
    return any(e.get("ev") == "Op" and e.get("t") in rb and e.get("s") == store and e.get("ok") and e.get("op") in ("Update", "Upsert")
               for e in raw[:idx])
