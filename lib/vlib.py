"""Shared machinery for the /verif checks: scratch dirs, Go harness builds, TLC runs
(exhaustive / simulation / trace validation), known findings, evidence, verdicts.

Exit codes of a check: 0 = property held on everything explored (possibly with
KNOWN-FINDING lines), 1 = violation (a `VIOLATION property=<id> replay=<path>` line
was printed), 2 = the machinery itself failed (build error, TLC timeout/OOM, driver
died): never reported as a violation.
"""
import json, os, re, shutil, subprocess, sys, time, hashlib, glob

VERIF = os.path.dirname(os.path.dirname(os.path.abspath(__file__)))
REPO = os.environ.get("VERIF_REPO", "/repo")
SCRATCH_ROOT = os.environ.get("VERIF_SCRATCH", "/var/tmp/verif-scratch")
TLA_CP = "/opt/veriftools/tla/tla2tools.jar:/opt/veriftools/tla/CommunityModules-deps.jar"
NCPU = os.cpu_count() or 4


import threading
_LOCK = threading.Lock()


class InfraError(Exception):
    pass


def log(*a):
    print("[verif]", *a, file=sys.stderr, flush=True)


class TLCResult:
    def __init__(self):
        self.rc = None
        self.out = ""
        self.generated = 0
        self.distinct = 0
        self.depth = 0
        self.ok = False            # finished without any error
        self.violated = None       # name of violated invariant / property / "deadlock" / "postcondition"
        self.error_text = ""
        self.prints = []           # values printed by PrintT/Print, raw strings
        self.coverage = {}         # action name -> (distinct, total) when -coverage
        self.wall = 0.0
        self.timed_out = False
        self.cex = None            # list of state dicts (text) for a counterexample

    def summary(self):
        return dict(states=self.distinct, transitions=self.generated, depth=self.depth,
                    ok=self.ok, violated=self.violated, wall_s=round(self.wall, 2))


def _parse_tlc(out, res):
    m = None
    for m in re.finditer(r"(\d+) states generated, (\d+) distinct states found", out):
        pass
    if m:
        res.generated, res.distinct = int(m.group(1)), int(m.group(2))
    m = re.search(r"The depth of the complete state graph search is (\d+)", out)
    if m:
        res.depth = int(m.group(1))
    # simulation mode statistics
    m = re.search(r"The number of states generated: (\d+)", out)
    if m and not res.generated:
        res.generated = int(m.group(1))
        res.distinct = res.distinct or res.generated
    for line in out.splitlines():
        if line.startswith('"') or line.startswith("<<") or line.startswith("[") or line.startswith("{"):
            res.prints.append(line)
    if "Invariant " in out and " is violated" in out:
        mm = re.search(r"Invariant (\S+) is violated", out)
        res.violated = mm.group(1) if mm else "invariant"
    elif re.search(r"Action property (\S+) is violated", out):
        res.violated = re.search(r"Action property (\S+) is violated", out).group(1)
    elif "Temporal properties were violated" in out:
        res.violated = "temporal"
    elif "Deadlock reached" in out:
        res.violated = "deadlock"
    elif re.search(r"The postcondition (\S+) ?is violated|Postcondition .* violated|postcondition.*(false|violated)", out, re.I):
        res.violated = "postcondition"
    elif re.search(r"Assumption .* is false", out):
        res.violated = "assumption"
    err = [l for l in out.splitlines() if l.startswith("Error:") or "Exception" in l]
    res.error_text = "\n".join(err[:20])
    for mm in re.finditer(r"^<(\w+) line \d+, col \d+ to line \d+, col \d+ of module (\w+)>: (\d+):(\d+)", out, re.M):
        res.coverage[mm.group(1)] = (int(mm.group(3)), int(mm.group(4)))
    res.ok = (res.rc == 0 and res.violated is None and "Model checking completed. No error has been found." in out) or \
             (res.rc == 0 and res.violated is None and not err)


class Check:
    def __init__(self, pid, level="model_checking"):
        self.pid = pid
        self.tier = os.environ.get("VERIF_TIER", "quick")
        if self.tier not in ("quick", "thorough"):
            self.tier = "quick"
        try:
            self.seed = int(os.environ.get("VERIF_SEED", "1"))
        except ValueError:
            self.seed = 1
        self.level = level
        self.t0 = time.time()
        self.scratch = os.path.join(SCRATCH_ROOT, "%s-%s-%d" % (pid, self.tier, os.getpid()))
        shutil.rmtree(self.scratch, ignore_errors=True)
        os.makedirs(self.scratch)
        self.violations = 0
        self.known_hits = {}
        self.cov = dict(states=0, transitions=0, traces_validated_against_impl=0, samples=[])
        self.assumptions = []
        self._known = [k for k in load_known() if k.get("property") == pid]
        self._replay_n = 0
        self.tlc_runs = []

    @property
    def quick(self):
        return self.tier == "quick"

    def pick(self, quick, thorough):
        return quick if self.quick else thorough

    # ---------- Go harness ----------
    def build(self, cmd, tags="verif", race=False):
        h = os.path.join(VERIF, "harness")
        # per-run go.mod/go.sum (-modfile) so that concurrent checks with different VERIF_REPO cannot race
        moddir = os.path.join(self.scratch, "mod")
        os.makedirs(moddir, exist_ok=True)
        subprocess.run([sys.executable, os.path.join(h, "genmod.py"), REPO, moddir], check=True)
        if not os.path.exists(os.path.join(h, "go.mod")):
            subprocess.run([sys.executable, os.path.join(h, "genmod.py"), "/repo"], check=True)
        out = os.path.join(self.scratch, "bin", cmd + ("-race" if race else ""))
        os.makedirs(os.path.dirname(out), exist_ok=True)
        env = go_env()
        args = ["go", "build", "-modfile", os.path.join(moddir, "go.mod"), "-tags", tags, "-o", out]
        if race:
            args.append("-race")
        args.append("./cmd/" + cmd)
        t = time.time()
        p = subprocess.run(args, cwd=h, env=env, stdout=subprocess.PIPE, stderr=subprocess.STDOUT, text=True)
        if p.returncode != 0:
            raise InfraError("go build %s failed:\n%s" % (cmd, p.stdout[-4000:]))
        log("built", cmd, "in %.1fs" % (time.time() - t))
        return out

    def run(self, argv, timeout=600, env=None, cwd=None, stdin=None, check=True):
        e = dict(os.environ)
        e.update(go_env())
        e["VERIF_SEED"] = str(self.seed)
        e["VERIF_TIER"] = self.tier
        e["VERIF_SCRATCH_DIR"] = self.scratch
        if env:
            e.update(env)
        try:
            p = subprocess.run(argv, cwd=cwd or self.scratch, env=e, input=stdin, stdout=subprocess.PIPE,
                               stderr=subprocess.PIPE, text=True, timeout=timeout)
        except subprocess.TimeoutExpired as ex:
            raise InfraError("driver timed out after %ss: %s" % (timeout, " ".join(argv[:4])))
        if check and p.returncode != 0:
            raise InfraError("driver failed rc=%s: %s\nstdout: %s\nstderr: %s" %
                             (p.returncode, " ".join(argv[:6]), p.stdout[-3000:], p.stderr[-3000:]))
        return p

    def datadir(self, name="data"):
        d = os.path.join(self.scratch, name)
        os.makedirs(d, exist_ok=True)
        return d

    # ---------- TLC ----------
    def tlc(self, module, cfg, specdir=None, workers=None, timeout=600, simulate=None, depth=None,
            coverage=False, dfs=False, files=None, heap=None, extra=None, deadlock=None, tag=None,
            defines=None):
        """Run TLC on spec/<module>.tla with config <cfg> in a scratch copy of the spec dir.
        files: {relative name: source path or text} copied into the scratch spec dir.
        defines: {name: TLA text} -> written into a generated MC wrapper is NOT done here; use cfg CONSTANTS.
        """
        specdir = specdir or os.path.join(VERIF, "spec")
        with _LOCK:
            self._replay_n += 1
            nrun = self._replay_n
        wd = os.path.join(self.scratch, "tlc-%s-%d" % (tag or module, nrun))
        shutil.copytree(specdir, wd, ignore=shutil.ignore_patterns("states", "*.out", ".tlacache"))
        for name, src in (files or {}).items():
            dst = os.path.join(wd, name)
            if isinstance(src, (bytes, bytearray)):
                open(dst, "wb").write(src)
            elif os.path.exists(str(src)) and "\n" not in str(src):
                shutil.copy(src, dst)
            else:
                open(dst, "w").write(src)
        workers = workers or (1 if simulate else min(NCPU, 16))
        os.makedirs(os.path.join(wd, "jtmp"), exist_ok=True)
        jopts = ["-XX:+UseParallelGC", "-Xss64m", "-Djava.io.tmpdir=" + os.path.join(wd, "jtmp")]
        if heap:
            jopts.append("-Xmx" + heap)
        if dfs:
            jopts.append("-Dtlc2.tool.queue.IStateQueue=StateDeque")
        argv = ["timeout", str(int(timeout)), "java"] + jopts + ["-cp", TLA_CP, "tlc2.TLC",
                "-metadir", os.path.join(wd, "meta"), "-workers", str(workers), "-config", cfg,
                "-seed", str(self.seed), "-noGenerateSpecTE"]
        if simulate:
            argv += ["-simulate", simulate]
        if depth:
            argv += ["-depth", str(depth)]
        if coverage:
            argv += ["-coverage", "1"]
        if deadlock is False:
            argv += ["-deadlock"]
        if extra:
            argv += list(extra)
        argv.append(module)
        res = TLCResult()
        t = time.time()
        p = subprocess.run(argv, cwd=wd, stdout=subprocess.PIPE, stderr=subprocess.STDOUT, text=True)
        res.wall = time.time() - t
        res.rc = p.returncode
        res.out = p.stdout
        res.wd = wd
        if p.returncode == 124:
            res.timed_out = True
        _parse_tlc(p.stdout, res)
        self.tlc_runs.append(dict(module=module, cfg=cfg, **res.summary()))
        shutil.rmtree(os.path.join(wd, "meta"), ignore_errors=True)
        return res

    def tlc_must_pass(self, module, cfg, **kw):
        """Design-level check: spec must satisfy its invariants; anything else is an infrastructure
        error (a design-level counterexample is never turned into a VIOLATION by itself)."""
        r = self.tlc(module, cfg, **kw)
        if r.timed_out:
            raise InfraError("TLC timed out on %s/%s" % (module, cfg))
        if not r.ok:
            raise InfraError("TLC design check %s/%s failed (violated=%s)\n%s" %
                             (module, cfg, r.violated, r.out[-6000:]))
        self.cov["states"] += r.distinct
        self.cov["transitions"] += r.generated
        return r

    def validate_traces(self, module, cfg, traces, specdir=None, timeout=900, dfs=False, chunk=200,
                        trace_file="trace.ndjson", workers=1, extra_files=None, parallel=0):
        """Trace validation.  traces: list of (name, [event dict,...]).  Traces are concatenated,
        each preceded by a {"ev":"Reset"} line (consumed by the trace spec's TraceReset action).
        The trace spec must define POSTCONDITION that prints <<"HWM", n>> = number of lines consumed
        and is TRUE iff all lines were consumed.
        Returns list of rejections: dict(trace=name, index=i, event=ev, prev=ev, events=[...])."""
        rejections = []
        parts = [traces[off:off + chunk] for off in range(0, len(traces), chunk)]
        if parallel and len(parts) > 1:
            import concurrent.futures
            with concurrent.futures.ThreadPoolExecutor(max_workers=parallel) as ex:
                futs = [ex.submit(self._validate_chunk, module, cfg, part, specdir, timeout, dfs, trace_file, workers,
                                  extra_files) for part in parts]
                for f in futs:
                    rejections += f.result()
        else:
            for part in parts:
                rejections += self._validate_chunk(module, cfg, part, specdir, timeout, dfs, trace_file, workers,
                                                   extra_files)
        return rejections

    def _validate_chunk(self, module, cfg, part, specdir, timeout, dfs, trace_file, workers, extra_files):
        rej = []
        pending = list(part)
        while pending:
            lines, index = [], []
            for ti, (name, evs) in enumerate(pending):
                lines.append(json.dumps({"ev": "Reset", "trace": name}))
                index.append((ti, -1))
                for ei, ev in enumerate(evs):
                    lines.append(json.dumps(ev, sort_keys=True))
                    index.append((ti, ei))
            files = {trace_file: "\n".join(lines) + "\n"}
            files.update(extra_files or {})
            r = self.tlc(module, cfg, specdir=specdir, workers=workers, timeout=timeout, dfs=dfs,
                         files=files, tag="trace")
            if r.timed_out:
                raise InfraError("trace validation timed out (%s)" % module)
            hwm = None
            for pr in r.prints:
                m = re.search(r'"HWM",\s*(\d+)', pr)
                if m:
                    hwm = int(m.group(1))
            if hwm is None:
                raise InfraError("trace validation produced no HWM (%s/%s):\n%s" % (module, cfg, r.out[-5000:]))
            if r.violated not in (None, "postcondition"):
                # an INVARIANT / action property of the trace cfg failed: TLC stops at once and the high-water
                # register is meaningless; the offending event is the last one consumed in the printed error trace
                ls = [int(x) for x in re.findall(r"/\\ l = (\d+)", r.out)]
                if not ls:
                    raise InfraError("trace spec error: %s\n%s" % (r.violated, r.out[-4000:]))
                hwm = max(ls[-1] - 2, 0)
            self.cov["states"] += r.distinct
            self.cov["transitions"] += r.generated
            if hwm >= len(lines):
                self.cov["traces_validated_against_impl"] += len(pending)
                pending = []
            else:
                ti, ei = index[hwm]        # first line NOT consumed (0-based hwm lines consumed)
                name, evs = pending[ti]
                rej.append(dict(trace=name, index=ei, event=evs[ei] if ei >= 0 else None,
                                prev=evs[ei - 1] if ei > 0 else None, events=evs,
                                invariant=r.violated if r.violated not in (None, "postcondition") else None,
                                tlc_tail=r.out[-1500:] if r.violated not in (None, "postcondition") else ""))
                self.cov["traces_validated_against_impl"] += ti
                pending = pending[ti + 1:]
        return rej

    # ---------- verdicts ----------
    def sample(self, s):
        if len(self.cov["samples"]) < 5:
            self.cov["samples"].append(s)

    def is_known(self, signature):
        return any(k.get("status", "known") == "known" and re.fullmatch(k["signature"], signature) for k in self._known)

    def report(self, signature, what, replay):
        """A real-code behaviour contradicting the property.  signature: stable string identifying the
        specific failing input/call site/history class; matched against known_findings.json."""
        for k in self._known:
            if k.get("status", "known") != "known":
                continue
            if re.fullmatch(k["signature"], signature):
                if k["id"] not in self.known_hits:
                    self.known_hits[k["id"]] = 0
                    print("KNOWN-FINDING: property=%s %s" % (self.pid, k["what"]), flush=True)
                self.known_hits[k["id"]] += 1
                return False
        self.violations += 1
        rdir = os.path.join(VERIF, "replays") if os.path.abspath(REPO) == "/repo" else "/var/tmp/verif-scratch/replays-other"
        os.makedirs(rdir, exist_ok=True)
        path = os.path.join(rdir, "%s-%s-seed%d-%d.json" % (self.pid, self.tier, self.seed, self.violations))
        with open(path, "w") as f:
            json.dump(dict(property=self.pid, signature=signature, what=what, seed=self.seed, tier=self.tier,
                           replay=replay), f, indent=1, default=str)
        print("VIOLATION property=%s replay=%s" % (self.pid, path), flush=True)
        print("  signature: %s\n  what: %s" % (signature, what), flush=True)
        return True

    def finish(self, extra_cov=None, rule=None):
        cov = dict(self.cov)
        if extra_cov:
            cov.update(extra_cov)
        if rule:
            cov["rule"] = rule
        cov["tlc_runs"] = self.tlc_runs
        cov["known_findings_hit"] = self.known_hits
        if not cov.get("samples"):
            cov["samples"] = ["(none recorded)"]
        try:
            cov["repo_head"] = subprocess.run(["git", "-C", REPO, "rev-parse", "--short=8", "HEAD"], stdout=subprocess.PIPE, text=True).stdout.strip()
        except Exception:
            pass
        ev = dict(property_id=self.pid, tier=self.tier, seed=self.seed, level=self.level, coverage=cov,
                  assumptions=self.assumptions, wall_s=round(time.time() - self.t0, 2),
                  violations=self.violations)
        # evidence describes /repo only: runs against another checkout (mutant evaluation) write theirs to scratch
        evdir = os.path.join(VERIF, "evidence") if os.path.abspath(REPO) == "/repo" else "/var/tmp/verif-scratch/evidence-other"
        evdir = os.environ.get("VERIF_EVIDENCE_DIR", evdir)   # extra seed sweeps keep the committed evidence untouched
        os.makedirs(evdir, exist_ok=True)
        with open(os.path.join(evdir, self.pid + ".json"), "w") as f:
            json.dump(ev, f, indent=1, default=str)
        self.cleanup()
        log("%s %s done in %.1fs: violations=%d states=%d traces=%d" %
            (self.pid, self.tier, time.time() - self.t0, self.violations, cov.get("states", 0),
             cov.get("traces_validated_against_impl", 0)))
        sys.exit(1 if self.violations else 0)

    def cleanup(self):
        if not os.environ.get("VERIF_KEEP"):
            shutil.rmtree(self.scratch, ignore_errors=True)


def go_env():
    e = dict(os.environ)
    e["GOFLAGS"] = "-mod=mod"
    e["GOPROXY"] = "off"
    e.pop("GOTOOLCHAIN", None) if e.get("GOTOOLCHAIN") == "local" else None
    e.pop("GOSUMDB", None)
    return e


def load_known():
    out = []
    for p in [os.path.join(VERIF, "known_findings.json")] + sorted(glob.glob(os.path.join(VERIF, "known_findings.d", "*.json"))):
        if os.path.exists(p):
            out += json.load(open(p)).get("findings", [])
    return out


def read_ndjson(path):
    out = []
    with open(path) as f:
        for line in f:
            line = line.strip()
            if line:
                out.append(json.loads(line))
    return out


def split_traces(events, key="trace"):
    """Group a flat ndjson event list into traces by ev=="Begin-Trace" markers or by a key."""
    traces, cur, name = [], None, None
    for e in events:
        if e.get("ev") == "TraceStart":
            if cur is not None:
                traces.append((name, cur))
            cur, name = [], e.get("name", "t%d" % len(traces))
        else:
            if cur is None:
                cur, name = [], "t0"
            cur.append(e)
    if cur is not None:
        traces.append((name, cur))
    return traces


def tla_unquote(s):
    """Turn a TLC-printed string literal (with \\" escapes) into the python string."""
    s = s.strip()
    if s.startswith('"') and s.endswith('"'):
        try:
            return json.loads(s)
        except Exception:
            return s[1:-1].replace('\\"', '"').replace("\\\\", "\\")
    return s


def main(fn, pid, level="model_checking"):
    c = Check(pid, level)
    try:
        fn(c)
    except InfraError as e:
        log("INFRASTRUCTURE ERROR (not a verdict):", e)
        c.cleanup()
        sys.exit(2)
    except SystemExit:
        raise
    except Exception as e:
        import traceback
        traceback.print_exc()
        log("INFRASTRUCTURE ERROR (not a verdict):", e)
        c.cleanup()
        sys.exit(2)
    c.finish()
