#!/bin/sh
# Offline setup: generate the harness module files and warm the Go build cache.
set -e
cd "$(dirname "$0")"
export GOFLAGS=-mod=mod GOPROXY=off
python3 harness/genmod.py /repo
cd harness
go build -tags verif ./lib/...
for d in cmd/*; do
  # cmd/keyorder reaches unexported jsondb comparers through a `go build -overlay` export file that its check
  # (checks/C29.py / C30.py) generates; it cannot be built without it
  [ "$d" = cmd/keyorder ] && continue
  go build -tags verif -o /dev/null "./$d" || exit 1
done
cd ..
java -cp /opt/veriftools/tla/tla2tools.jar tlc2.TLC -h >/dev/null 2>&1 || true
echo setup ok
