#!/bin/sh
# Offline setup: generate the harness module files and warm the Go build cache.
set -e
cd "$(dirname "$0")"
export GOFLAGS=-mod=mod GOPROXY=off
python3 harness/genmod.py /repo
( cd harness && go build -tags verif ./... ) || exit 1
java -cp /opt/veriftools/tla/tla2tools.jar tlc2.TLC -h >/dev/null 2>&1 || true
echo setup ok
