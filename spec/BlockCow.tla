------------------------------- MODULE BlockCow -------------------------------
(* One 4096-byte block of a registry segment file of SharedCode/sop and its copy-on-write
   backup file "<segment>_<offset>.cow"  (/repo/fs/hashmap.fileregion.go, hashmap.cow.go,
   hashmap.go:findOneFileRegion, marshaldata.go).

   Actors.  A *reader* performs one lookup (registryMap.fetch -> findOneFileRegion(forWriting=false)
   -> readAndRestoreBlock) and takes no lock.  A *writer* performs one slot update
   (registryMap.set): findOneFileRegion(forWriting=true) runs the same read procedure WITHOUT the
   lock ("f" phase), then updateFileBlockRegion takes the block lock, runs the read procedure again
   ("l" phase), creates the backup, writes the block, deletes the backup and unlocks.

   Block contents are abstract: the block is cut in four quarters (the torn-write granularity);
   a block image is identified by the value (image id) of the ONE slot that is being rewritten;
   only the quarters that hold bytes of that slot (lay[1]..lay[2]) and the last quarter (CRC32
   trailer) differ between images.  A content is a function  quarter -> image id  (-2 for quarters
   that are the same in every image) plus a corruption mark x:
        "none"   every byte is a byte of some image
        "flip"   bits were flipped by the environment (C23), checksum does not match
        "baked"  a flipped block was merged with a new slot value and given a fresh checksum.
   A block write by a live process is atomic w.r.t. other processes (one 4 KiB O_DIRECT pwrite);
   only a crash exposes a prefix of 1..3 quarters.                                              *)
EXTENDS Integers, Sequences, FiniteSets, TLC, Json

CONSTANTS
  Readers,          \* set of reader names
  NWriters,         \* 1 or 2 ("w1", then "w2" after w1 finished or died: restart)
  Layouts,          \* set of <<lo, hi>>: first and last quarter holding bytes of the slot
  TornPrefixes,     \* subset of 1..3
  MaxCrash,
  InitImg,          \* image id on disk initially (0 = slot empty)
  CorruptMode,      \* "report": checksum mismatch without valid backup is an error (the property, C23)
                    \* "serve" : readAndRestoreBlock returns nil and the buffer is used (code as read: finding)
  ReaderDeletes,    \* TRUE: the unlocked read procedure deletes a backup file when the block verifies (code as read)
  ReaderRestores,   \* TRUE: the unlocked read procedure writes the block back from a valid backup (code as read);
                    \* FALSE: it only serves the backup's content, the block is repaired under the lock
  AllowDeleteFresh, \* finding action (DESIGN 7 row 12): such a deletion hits the backup of a write in flight
  ReaderCrash,      \* TRUE: a reader may die in the middle of its restore write
  ROReaders         \* readers whose registry is opened read-only (ForReading transactions): their restore write fails
                    \* (file opened O_RDONLY) and restoreFromCow then just serves the backup's content

VARIABLES
  lay,      \* <<lo, hi>>
  blk,      \* content of the block on disk
  cow,      \* backup file: [k |-> "none"|"empty"|"partial"|"full", c |-> content]
  lock,     \* holder of the block lock or "none"
  pc,       \* actor -> <<phase, step>>
  buf,      \* actor -> content of its aligned buffer
  cbuf,     \* actor -> content read from the backup file
  ret,      \* actor -> [res, val, valid]: result of the completed call
  wimg,     \* writer -> image id it writes
  crashes,
  inflight, \* writer whose backup is on disk and whose block write has not completed, or "none"
  used,     \* set of finding actions taken so far (history)
  act       \* label of the last action (history; used to export the state graph)

vars == <<lay, blk, cow, lock, pc, buf, cbuf, ret, wimg, crashes, inflight, used, act>>

Wr == IF NWriters = 2 THEN {"w1", "w2"} ELSE {"w1"}
Actors == Readers \cup Wr
Q == 1..4
SigOf(L) == {L[1], L[2], 4}
Sig == SigOf(lay)

NilC == [q |-> [j \in Q |-> -2], x |-> "nil"]
ImageOf(L, i) == [q |-> [j \in Q |-> IF j \in SigOf(L) THEN i ELSE -2], x |-> "none"]
Image(i) == ImageOf(lay, i)
NoCow == [k |-> "none", c |-> NilC]
NoRet == [res |-> "", val |-> 0, valid |-> TRUE]

Agree(c)  == \A j \in Sig, k \in Sig : c.q[j] = c.q[k]
Valid(c)  == c.x \in {"none", "baked"} /\ Agree(c)          \* the checksum of c matches
\* value decoded from the slot; -1: mixture of two images; -9: unknown (bits were flipped somewhere)
Decode(c) == IF c.x # "none" THEN -9 ELSE IF c.q[lay[1]] = c.q[lay[2]] THEN c.q[lay[1]] ELSE -1
CowValid  == cow.k = "full" /\ Valid(cow.c)
\* first p quarters of n over c
Torn(c, n, p) == [q |-> [j \in Q |-> IF j <= p THEN n.q[j] ELSE c.q[j]], x |-> c.x]
\* buffer b with the slot replaced by image i and a fresh checksum
Written(b, i) == [q |-> [j \in Q |-> IF j \in Sig THEN i ELSE -2],
                  x |-> IF b.x = "none" THEN "none" ELSE "baked"]

Idle == <<"-", "idle">>
Done == <<"-", "done">>
Dead == <<"-", "dead">>
Live(a) == pc[a] \notin {Idle, Done, Dead}
At(a, step) == pc[a][2] = step
Phase(a) == pc[a][1]
Label(n, a, arg) == [n |-> n, a |-> a, arg |-> arg]

Init ==
  /\ lay \in Layouts
  /\ blk = Image(InitImg) /\ cow = NoCow /\ lock = "none"
  /\ pc = [a \in Actors |-> Idle]
  /\ buf = [a \in Actors |-> NilC] /\ cbuf = [a \in Actors |-> NilC]
  /\ ret = [a \in Actors |-> NoRet]
  /\ wimg = [w \in Wr |-> 0]
  /\ crashes = 0 /\ inflight = "none" /\ used = {} /\ act = Label("Init", "", 0)

Goto(a, p) == pc' = [pc EXCEPT ![a] = p]

\* The read procedure (readAndRestoreBlock + decoding of the slot) of actor a ends, serving buffer b.
Complete(a, b) ==
  CASE Phase(a) = "r" -> /\ Goto(a, Done)
                         /\ ret' = [ret EXCEPT ![a] = [res |-> "ok", val |-> Decode(b), valid |-> Valid(b)]]
    [] Phase(a) = "f" -> /\ Goto(a, <<"w", "lock">>) /\ UNCHANGED ret
    [] Phase(a) = "l" -> /\ Goto(a, <<"w", "mkcow">>) /\ UNCHANGED ret

\* ... or ends with an error.  Under the lock, the deferred unlock still runs.
Fail(a) ==
  /\ ret' = [ret EXCEPT ![a] = [res |-> "err", val |-> 0, valid |-> TRUE]]
  /\ IF Phase(a) = "l" THEN Goto(a, <<"w", "unlock">>) ELSE Goto(a, Done)

-----------------------------------------------------------------------------
Begin(a, img) ==
  /\ pc[a] = Idle
  /\ IF a \in Readers
       THEN /\ Goto(a, <<"r", "read">>) /\ UNCHANGED <<wimg, lock>>
       ELSE /\ (a = "w2" => pc["w1"] \in {Done, Dead})
            /\ Goto(a, <<"f", "read">>)
            /\ wimg' = [wimg EXCEPT ![a] = img]
            \* the lock of a dead holder has expired by the time the next writer starts
            /\ lock' = IF lock # "none" /\ pc[lock] = Dead THEN "none" ELSE lock
  /\ act' = Label("Begin", a, img)
  /\ UNCHANGED <<lay, blk, cow, buf, cbuf, ret, crashes, inflight, used>>

ReadBlock(a) ==
  /\ Live(a) /\ At(a, "read")
  /\ buf' = [buf EXCEPT ![a] = blk]
  /\ Goto(a, <<Phase(a), "verify">>)
  /\ act' = Label("ReadBlock", a, 0)
  /\ UNCHANGED <<lay, blk, cow, lock, cbuf, ret, wimg, crashes, inflight, used>>

VerifyCRC(a) ==
  /\ Live(a) /\ At(a, "verify")
  /\ Goto(a, <<Phase(a), IF Valid(buf[a]) THEN "delstale" ELSE "checkcow">>)
  /\ act' = Label("VerifyCRC", a, 0)
  /\ UNCHANGED <<lay, blk, cow, lock, buf, cbuf, ret, wimg, crashes, inflight, used>>

\* the backup on disk still protects a write that has not completed
Fresh(a) == /\ cow.k # "none" /\ inflight # "none" /\ inflight # a
            /\ (pc[inflight] = <<"w", "write">> \/ ~Valid(blk))

\* "Valid block. Check for stale COW and delete it."  (no lock needed to get here in phases r, f)
DeleteStaleBackup(a) ==
  /\ Live(a) /\ At(a, "delstale")
  /\ IF Phase(a) \in {"r", "f"} /\ ~ReaderDeletes
       THEN UNCHANGED <<cow, used>>
       ELSE /\ cow' = NoCow
            /\ IF Fresh(a) THEN AllowDeleteFresh /\ used' = used \cup {"deletefresh"}
                           ELSE UNCHANGED used
  /\ Complete(a, buf[a])
  /\ act' = Label(IF Fresh(a) /\ ~(Phase(a) \in {"r", "f"} /\ ~ReaderDeletes)
                    THEN "DeleteFreshBackup" ELSE "DeleteStaleBackup", a, 0)
  /\ UNCHANGED <<lay, blk, lock, buf, cbuf, wimg, crashes, inflight>>

\* checkCow: the block does not verify.
CheckBackup(a) ==
  /\ Live(a) /\ At(a, "checkcow")
  /\ IF CowValid
       THEN IF Phase(a) \in {"r", "f"} /\ ~ReaderRestores
              THEN /\ buf' = [buf EXCEPT ![a] = cow.c]
                   /\ Complete(a, cow.c)
                   /\ act' = Label("ServeBackup", a, 0)
                   /\ UNCHANGED <<cbuf, used>>
              ELSE /\ cbuf' = [cbuf EXCEPT ![a] = cow.c]
                   /\ Goto(a, <<Phase(a), "restore">>)
                   /\ act' = Label("CheckBackup", a, 0)
                   /\ UNCHANGED <<buf, ret, used>>
       ELSE /\ UNCHANGED <<buf, cbuf>>
            /\ IF CorruptMode = "report"
                 THEN Fail(a) /\ act' = Label("ReportCorrupt", a, 0) /\ UNCHANGED used
                 ELSE \* no / empty / truncated / invalid backup: readAndRestoreBlock returns nil
                      /\ Complete(a, buf[a]) /\ used' = used \cup {"servecorrupt"}
                      /\ act' = Label("ServeCorrupt", a, 0)
  /\ UNCHANGED <<lay, blk, cow, lock, wimg, crashes, inflight>>

\* restoreFromCow: copy the backup into the buffer and write it over the block (no lock in phases r, f).
RestoreFromBackup(a) ==
  /\ Live(a) /\ At(a, "restore")
  /\ blk' = IF a \in ROReaders THEN blk ELSE cbuf[a]
  /\ buf' = [buf EXCEPT ![a] = cbuf[a]]
  /\ Goto(a, <<Phase(a), "restored">>)
  /\ act' = Label("RestoreFromBackup", a, 0)
  /\ UNCHANGED <<lay, cow, lock, cbuf, ret, wimg, crashes, inflight, used>>

ReturnRestored(a) ==
  /\ Live(a) /\ At(a, "restored")
  /\ Complete(a, buf[a])
  /\ act' = Label("ReturnRestored", a, 0)
  /\ UNCHANGED <<lay, blk, cow, lock, buf, cbuf, wimg, crashes, inflight, used>>

\* registryMap.set / remove look at the handle decoded from the (served) buffer before taking the lock and fail when
\* it is not the expected one.  With flipped bits in the buffer the outcome of that comparison is arbitrary.
CallerRejectsDecoded(w) ==
  /\ pc[w] = <<"w", "lock">> /\ buf[w].x # "none"
  /\ ret' = [ret EXCEPT ![w] = [res |-> "err", val |-> 0, valid |-> TRUE]]
  /\ Goto(w, Done)
  /\ act' = Label("CallerRejectsDecoded", w, 0)
  /\ UNCHANGED <<lay, blk, cow, lock, buf, cbuf, wimg, crashes, inflight, used>>

LockBlock(w) ==
  /\ pc[w] = <<"w", "lock">> /\ lock = "none"
  /\ lock' = w
  /\ Goto(w, <<"l", "read">>)
  /\ act' = Label("LockBlock", w, 0)
  /\ UNCHANGED <<lay, blk, cow, buf, cbuf, ret, wimg, crashes, inflight, used>>

\* createCow: os.WriteFile of the buffer just read (whatever it holds)
CreateBackup(w) ==
  /\ pc[w] = <<"w", "mkcow">>
  /\ cow' = [k |-> "full", c |-> buf[w]]
  /\ inflight' = w
  /\ Goto(w, <<"w", "write">>)
  /\ act' = Label("CreateBackup", w, 0)
  /\ UNCHANGED <<lay, blk, lock, buf, cbuf, ret, wimg, crashes, used>>

WriteBlock(w) ==
  /\ pc[w] = <<"w", "write">>
  /\ blk' = Written(buf[w], wimg[w])
  /\ inflight' = "none"
  /\ Goto(w, <<"w", "delcow">>)
  /\ act' = Label("WriteBlock", w, 0)
  /\ UNCHANGED <<lay, cow, lock, buf, cbuf, ret, wimg, crashes, used>>

DeleteBackup(w) ==
  /\ pc[w] = <<"w", "delcow">>
  /\ cow' = NoCow
  /\ ret' = [ret EXCEPT ![w] = [res |-> "ok", val |-> wimg[w], valid |-> TRUE]]
  /\ Goto(w, <<"w", "unlock">>)
  /\ act' = Label("DeleteBackup", w, 0)
  /\ UNCHANGED <<lay, blk, lock, buf, cbuf, wimg, crashes, inflight, used>>

Unlock(w) ==
  /\ pc[w] = <<"w", "unlock">>
  /\ lock' = IF lock = w THEN "none" ELSE lock
  /\ Goto(w, Done)
  /\ act' = Label("Unlock", w, 0)
  /\ UNCHANGED <<lay, blk, cow, buf, cbuf, ret, wimg, crashes, inflight, used>>

-----------------------------------------------------------------------------
(* Crashes.  kind: "plain" (between two steps), "torn" (in the middle of a block write, p quarters
   reached the disk), "cowempty"/"cowpartial" (in the middle of os.WriteFile of the backup).      *)
CanDie(a) == a \in Wr \/ (ReaderCrash /\ At(a, "restore") /\ a \notin ROReaders)
Crash(a, kind, p) ==
  /\ Live(a) /\ CanDie(a) /\ crashes < MaxCrash
  /\ \/ /\ kind = "plain" /\ p = 0
        /\ pc[a][2] \in {"read", "verify", "restore", "restored", "lock", "mkcow", "write", "delcow", "unlock"}
        /\ UNCHANGED <<blk, cow>>
     \/ /\ kind = "torn" /\ p \in TornPrefixes /\ pc[a] = <<"w", "write">>
        /\ buf[a].x = "none" /\ blk.x = "none"
        /\ blk' = Torn(blk, Written(buf[a], wimg[a]), p) /\ UNCHANGED cow
     \/ /\ kind = "torn" /\ p \in TornPrefixes /\ At(a, "restore")
        /\ blk.x = "none"
        /\ blk' = Torn(blk, cbuf[a], p) /\ UNCHANGED cow
     \/ /\ kind \in {"cowempty", "cowpartial"} /\ p = 0 /\ pc[a] = <<"w", "mkcow">>
        /\ cow' = [k |-> IF kind = "cowempty" THEN "empty" ELSE "partial", c |-> NilC]
        /\ UNCHANGED blk
  /\ Goto(a, Dead)
  /\ crashes' = crashes + 1
  /\ act' = Label("Crash", a, IF kind = "torn" THEN p ELSE IF kind = "plain" THEN 0
                               ELSE IF kind = "cowempty" THEN 10 ELSE 11)
  /\ UNCHANGED <<lay, lock, buf, cbuf, ret, wimg, inflight, used>>

Step(a) == \/ ReadBlock(a) \/ VerifyCRC(a) \/ DeleteStaleBackup(a) \/ CheckBackup(a)
           \/ RestoreFromBackup(a) \/ ReturnRestored(a)
           \/ (a \in Wr /\ (CallerRejectsDecoded(a) \/ LockBlock(a) \/ CreateBackup(a) \/ WriteBlock(a) \/ DeleteBackup(a) \/ Unlock(a)))

DefaultImg(a) == IF a = "w1" THEN InitImg + 1 ELSE IF a = "w2" THEN InitImg + 2 ELSE 0
CrashKinds == {"plain", "torn", "cowempty", "cowpartial"}

Next == \/ \E a \in Actors : Begin(a, DefaultImg(a))
        \/ \E a \in Actors : ReadBlock(a)
        \/ \E a \in Actors : VerifyCRC(a)
        \/ \E a \in Actors : DeleteStaleBackup(a)
        \/ \E a \in Actors : CheckBackup(a)
        \/ \E a \in Actors : RestoreFromBackup(a)
        \/ \E a \in Actors : ReturnRestored(a)
        \/ \E w \in Wr : CallerRejectsDecoded(w)
        \/ \E w \in Wr : LockBlock(w)
        \/ \E w \in Wr : CreateBackup(w)
        \/ \E w \in Wr : WriteBlock(w)
        \/ \E w \in Wr : DeleteBackup(w)
        \/ \E w \in Wr : Unlock(w)
        \/ \E a \in Actors, kind \in CrashKinds, p \in 0..3 : Crash(a, kind, p)

Spec == Init /\ [][Next]_vars

-----------------------------------------------------------------------------
(* Properties *)
TypeOK == /\ lock \in Wr \cup {"none"} /\ inflight \in Wr \cup {"none"}
          /\ cow.k \in {"none", "empty", "partial", "full"}
          /\ crashes \in 0..MaxCrash

\* C22: a completed lookup returns an entire image decoded from a block (or backup) that verified
LookupIsWhole == \A r \in Readers : ret[r].res = "ok" => (ret[r].val # -1 /\ ret[r].valid)
\* C22: at any time the block verifies, or a verifying backup exists from which the next reader restores it
BlockRecoverable == Valid(blk) \/ CowValid
\* C23 (2nd clause): a block that verifies on disk was never produced from unverified bytes
NothingBaked == blk.x # "baked" /\ (cow.k = "full" => cow.c.x # "baked")
\* C23 (1st clause): nobody is served an unverified buffer
NoServeCorrupt == "servecorrupt" \notin used

Strict == LookupIsWhole /\ BlockRecoverable /\ NothingBaked /\ NoServeCorrupt

\* The findings are named actions; the property is checked on behaviours that do not take them.
ReadIsOldOrNew == (used = {}) => Strict
\* With CorruptMode = "serve" and ONE writer a corrupt buffer is reachable only through finding (12).
\* (Not so with a second writer: a reader that read the torn block of a dead writer, then lost the race
\*  against a restarting writer that restored the block and removed the backup, finds no backup and serves
\*  its stale, unverified buffer - the same defect as C23's, reached without any reader deleting anything.)
ServeOnlyAfterDeleteFresh == ("servecorrupt" \in used) => ("deletefresh" \in used)

-----------------------------------------------------------------------------
(* C23: the environment has flipped bits in the block (and/or left any kind of backup file behind). *)
Flipped(i) == [Image(i) EXCEPT !.x = "flip"]
InitC23 ==
  /\ lay \in Layouts
  /\ blk \in {Image(InitImg), Flipped(InitImg)}
  /\ cow \in {NoCow, [k |-> "empty", c |-> NilC], [k |-> "partial", c |-> NilC],
              [k |-> "full", c |-> Image(3)], [k |-> "full", c |-> Flipped(3)]}
  /\ lock = "none"
  /\ pc = [a \in Actors |-> Idle]
  /\ buf = [a \in Actors |-> NilC] /\ cbuf = [a \in Actors |-> NilC]
  /\ ret = [a \in Actors |-> NoRet]
  /\ wimg = [w \in Wr |-> 0]
  /\ crashes = 0 /\ inflight = "none" /\ used = {} /\ act = Label("Init", "", 0)
SpecC23 == InitC23 /\ [][Next]_vars

\* a call that succeeds was served a buffer whose checksum matched (block or restored backup) ...
CorruptNeverDecoded == \A a \in Actors : (ret[a].res = "ok" /\ a \in Readers) => ret[a].valid
\* ... and a block that does not verify and has no valid backup is never written (action property)
UnverifiedNeverRewritten == [][(~Valid(blk) /\ ~CowValid) => blk' = blk]_vars
C23Holds == (used = {}) => (CorruptNeverDecoded /\ NothingBaked /\ NoServeCorrupt)

\* what a lookup started in this state by a fresh process and run alone returns
FinalLookup ==
  IF Valid(blk) THEN [res |-> "ok", val |-> Decode(blk)]
  ELSE IF CowValid THEN [res |-> "ok", val |-> Decode(cow.c)]
  ELSE IF CorruptMode = "report" THEN [res |-> "err", val |-> 0]
  ELSE [res |-> "ok", val |-> Decode(blk)]

-----------------------------------------------------------------------------
(* Export of the state graph for behaviour replay *)
Gate(p) == CASE p[2] = "read" -> "pre_read" [] p[2] = "verify" -> "post_read"
             [] p[2] = "restore" -> "pre_write" [] p[2] = "restored" -> "post_write"
             [] p[2] = "lock" -> "pre_lock" [] p[2] = "write" -> "pre_write"
             [] p[2] = "delcow" -> "post_write" [] p[2] = "unlock" -> "pre_unlock"
             [] p[2] = "done" -> "done" [] p[2] = "dead" -> "dead" [] p[2] = "idle" -> "idle"
             [] OTHER -> "-"
Stopping(p) == Gate(p) # "-"

StateRec == [lay |-> lay, blk |-> blk, cow |-> cow, lock |-> lock,
             pc |-> [a \in Actors |-> pc[a][2]], gate |-> [a \in Actors |-> Gate(pc[a])],
             ret |-> ret, act |-> act, used |-> used, crashes |-> crashes,
             bad |-> [lookup |-> ~LookupIsWhole, unrecoverable |-> ~BlockRecoverable,
                      baked |-> ~NothingBaked, served |-> ~NoServeCorrupt],
             fin |-> FinalLookup, wimg |-> wimg]
LayoutsAll   == {<<1,1>>, <<1,2>>, <<2,2>>, <<3,3>>, <<3,4>>, <<4,4>>}
LayoutsSmall == {<<1,2>>, <<2,2>>, <<4,4>>}
LayoutsInside == {<<2,2>>, <<4,4>>}
AllPrefixes  == 1..3
EmitState == PrintT("S|#|" \o ToString(vars) \o "|#|" \o ToJson(StateRec))
EmitEdge  == PrintT("E|#|" \o ToString(vars) \o "|#|" \o ToString(vars'))
=============================================================================
