SPECIFICATION TraceSpec
CONSTANTS
  Readers = {"r1", "r2", "r3", "fin", "ro"}
  NWriters = 2
  Layouts <- LayoutsAll
  TornPrefixes <- AllPrefixes
  MaxCrash = 1
  InitImg = 1
  CorruptMode = "serve"
  ReaderDeletes = TRUE
  ReaderRestores = TRUE
  AllowDeleteFresh = TRUE
  ReaderCrash = TRUE
  ROReaders = {"ro"}
CONSTRAINT HighWater
POSTCONDITION TraceAccepted
CHECK_DEADLOCK FALSE
