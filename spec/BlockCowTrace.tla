---------------------------- MODULE BlockCowTrace ----------------------------
(* Trace validation for BlockCow.  The driver (harness/cmd/blockcow) only reports where an actor stopped
   (the gate of fs.DirectIOSim / of the block lock it is blocked at, or "done"), what the call returned and
   a byte-level classification of the block and of the backup file.  One reported step of an actor is one
   or more actions of the specification: actions that end in a control point without a gate (the local
   checksum decision, the step that creates the backup file) are taken silently, the action that reaches
   the reported gate consumes the line and must reproduce the observation.
   Events:  Setup (initial artefacts), Adv (actor ran to its next gate), Crash (actor died; kind/p),
            Run (actor ran alone from wherever it is to completion).                                  *)
EXTENDS BlockCow

VARIABLES l,        \* next line
          skipped   \* the rest of the current trace was given up (TraceSkip)

Trace == TLCEval(ndJsonDeserialize("trace.ndjson"))
tvars == <<vars, l, skipped>>
HasEv == l <= Len(Trace)
Ev == Trace[l]
IsEv(e) == HasEv /\ Ev.ev = e /\ l' = l + 1 /\ (IF e = "Reset" THEN skipped' = FALSE ELSE UNCHANGED skipped)

\* abstract content of an observed block: classified quarters, or "the bytes the environment corrupted"
FromObs(L, o, img) == IF o.x = "none" THEN [q |-> [j \in Q |-> o.q[j]], x |-> "none"]
                      ELSE [q |-> ImageOf(L, img).q, x |-> "flip"]
CowFromObs(L, o) == IF o.k = "full" THEN [k |-> "full", c |-> FromObs(L, o.c, 0)]
                    ELSE [k |-> o.k, c |-> NilC]

BlkMatch(c, o) == CASE c.x = "none"  -> o.x = "none" /\ \A j \in Q : o.q[j] = c.q[j]
                    [] c.x = "flip"  -> o.x = "flip"           \* byte-identical to the corrupted block: untouched
                    [] OTHER         -> TRUE                   \* baked: a finding was taken, bytes unknown
CowMatch(m, o) == /\ m.k = o.k
                  /\ m.k = "full" => CASE m.c.x = "none" -> o.c.x = "none" /\ \A j \in Q : o.c.q[j] = m.c.q[j]
                                       [] m.c.x = "flip" -> o.c.x \in {"flip", "other"}
                                       [] OTHER -> TRUE
RetMatch(r, e) == /\ r.res = e.res
                  /\ (r.res = "ok" /\ r.val # -9) => r.val = e.val

Blank == /\ lock = "none"
         /\ pc = [a \in Actors |-> Idle]
         /\ buf = [a \in Actors |-> NilC] /\ cbuf = [a \in Actors |-> NilC]
         /\ ret = [a \in Actors |-> NoRet]
         /\ wimg = [w \in Wr |-> 0]
         /\ crashes = 0 /\ inflight = "none" /\ used = {}

BlankP == /\ lock' = "none"
          /\ pc' = [a \in Actors |-> Idle]
          /\ buf' = [a \in Actors |-> NilC] /\ cbuf' = [a \in Actors |-> NilC]
          /\ ret' = [a \in Actors |-> NoRet]
          /\ wimg' = [w \in Wr |-> 0]
          /\ crashes' = 0 /\ inflight' = "none" /\ used' = {}

TraceInit == /\ l = 1 /\ TLCSet(1, 1) /\ skipped = FALSE
             /\ lay = <<1, 1>> /\ blk = NilC /\ cow = NoCow /\ Blank /\ act = Label("Reset", "", 0)

TraceReset == /\ IsEv("Reset")
              /\ (l > 1 /\ ~skipped) => PrintT("OK|" \o ToString(l - 1))   \* the trace that ends at line l-1 was accepted
              /\ lay' = <<1, 1>> /\ blk' = NilC /\ cow' = NoCow /\ BlankP /\ act' = Label("Reset", "", 0)

TraceSetup == /\ IsEv("Setup") /\ act.n = "Reset"
              /\ lay' = <<Ev.lay[1], Ev.lay[2]>>
              /\ blk' = FromObs(lay', Ev.blk, Ev.init_img)
              /\ cow' = CowFromObs(lay', Ev.cow)
              /\ BlankP /\ act' = Label("Setup", "", 0)

ObsOK(a, withRet) == /\ BlkMatch(blk', Ev.blk) /\ CowMatch(cow', Ev.cow)
                     /\ withRet => RetMatch(ret'[a], Ev)

Move(a) == Begin(a, Ev.img) \/ Step(a)

\* what the specification has to say about the step just taken (read back by the check scripts)
Fresh2(k) == k \in used' /\ k \notin used
Notes == /\ Fresh2("deletefresh")  => PrintT("NOTE|" \o ToString(l) \o "|deletefresh")
         /\ Fresh2("servecorrupt") => PrintT("NOTE|" \o ToString(l) \o "|servecorrupt")
         /\ (LookupIsWhole /\ ~LookupIsWhole')       => PrintT("NOTE|" \o ToString(l) \o "|bad-lookup|" \o ToString(used'))
         /\ (BlockRecoverable /\ ~BlockRecoverable') => PrintT("NOTE|" \o ToString(l) \o "|bad-unrecoverable|" \o ToString(used'))
         /\ (NothingBaked /\ ~NothingBaked')         => PrintT("NOTE|" \o ToString(l) \o "|bad-baked|" \o ToString(used'))

TraceAdv == /\ IsEv("Adv") /\ act.n # "Reset" /\ Ev.actor \in Actors
            /\ Move(Ev.actor)
            /\ Stopping(pc'[Ev.actor]) /\ Gate(pc'[Ev.actor]) = Ev.to
            /\ ObsOK(Ev.actor, Ev.to = "done") /\ Notes

TraceRun == /\ IsEv("Run") /\ act.n # "Reset" /\ Ev.actor \in Actors
            /\ Move(Ev.actor)
            /\ pc'[Ev.actor] = Done
            /\ ObsOK(Ev.actor, TRUE) /\ Notes

TraceCrash == /\ IsEv("Crash") /\ act.n # "Reset" /\ Ev.actor \in Actors
              /\ Crash(Ev.actor, Ev.kind, Ev.p)
              /\ ObsOK(Ev.actor, FALSE) /\ Notes

\* steps of the actor of the next event that stop at no gate (or any step but the last one of a Run)
TraceSilent == /\ HasEv /\ Ev.ev \in {"Adv", "Run", "Crash"} /\ act.n # "Reset" /\ Ev.actor \in Actors
               /\ IF Ev.ev = "Run" THEN Move(Ev.actor) /\ pc'[Ev.actor] # Done
                                   ELSE Step(Ev.actor) /\ ~Stopping(pc'[Ev.actor])
               /\ UNCHANGED <<l, skipped>> /\ Notes

\* Give up the current trace (every event carries nr = line of the next Reset).  A trace counts as accepted only
\* when its last line is reached without this action, so rejected traces do not stop the validation of later ones.
TraceSkip == /\ HasEv /\ Ev.ev # "Reset" /\ ~skipped
             /\ l' = Ev.nr /\ skipped' = TRUE /\ UNCHANGED vars

TraceEnd == /\ l = Len(Trace) + 1 /\ ~skipped /\ Len(Trace) > 0
            /\ PrintT("OK|" \o ToString(l - 1))
            /\ l' = l + 1 /\ UNCHANGED <<vars, skipped>>

TraceNext == TraceReset \/ TraceSetup \/ TraceAdv \/ TraceRun \/ TraceCrash \/ TraceSilent \/ TraceSkip \/ TraceEnd

TraceSpec == TraceInit /\ [][TraceNext]_tvars

HighWater == IF ~skipped /\ l > TLCGet(1) THEN TLCSet(1, l) ELSE TRUE
\* HWM = number of lines consumed without giving a trace up (the verdict per trace is the "OK|<last line>" print)
TraceAccepted == PrintT(<<"HWM", TLCGet(1) - 1>>)
=============================================================================
