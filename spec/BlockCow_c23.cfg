SPECIFICATION SpecC23
CONSTANTS
  Readers = {"r1"}
  NWriters = 1
  Layouts <- LayoutsSmall
  TornPrefixes <- AllPrefixes
  MaxCrash = 1
  InitImg = 1
  CorruptMode = "report"
  ReaderDeletes = TRUE
  ReaderRestores = TRUE
  AllowDeleteFresh = TRUE
  ReaderCrash = FALSE
  ROReaders = {}
INVARIANTS TypeOK C23Holds CorruptNeverDecoded NothingBaked
PROPERTIES UnverifiedNeverRewritten
CHECK_DEADLOCK FALSE
