SPECIFICATION Spec
CONSTANTS
  Readers = {"r1", "r2"}
  NWriters = 1
  Layouts <- LayoutsAll
  TornPrefixes <- AllPrefixes
  MaxCrash = 1
  InitImg = 1
  CorruptMode = "serve"
  ReaderDeletes = TRUE
  ReaderRestores = TRUE
  AllowDeleteFresh = TRUE
  ReaderCrash = TRUE
  ROReaders = {}
INVARIANTS TypeOK ReadIsOldOrNew ServeOnlyAfterDeleteFresh
CHECK_DEADLOCK FALSE
