---------------------------- MODULE CacheCoherence ----------------------------
(* Handle / node caching of SOP as the code has it (common/noderepository.backend.go get,
   fs/registry.go Get / UpdateNoLocks, cache/l1cache.go):

   - the registry (disk) holds, per node, the committed version;
   - one L2 cache of handles, shared by all processes (Redis) - written by every registry write and by every
     registry read that missed it; entries can be evicted / expire / be flushed at any moment;
   - per process an L1 handle cache (written only by that process's own registry writes) and an L1 node MRU keyed by
     (node, version);
   - a read BEFORE commit first tries the L1 handle cache and, if the node of that very version is in the L1 MRU,
     uses it without asking anybody (the "MRU fast path"); otherwise it asks L2, then the registry;
   - a commit never uses the fast path: it compares the version it read with the registry's (through L2) and
     installs version + 1, refreshing L2 and ITS OWN L1.

   The property (C20): every read returns the latest committed version.  FastPath and the number of processes are
   constants: TLC shows the property for one process or without the fast path, and produces the shortest stale-read
   history otherwise; checks/C20.py replays that history on the real code. *)
EXTENDS Naturals, Sequences, FiniteSets, TLC, Json

CONSTANTS Procs,       \* process names (strings)
          Nodes,       \* node names
          MaxVer,      \* bound on versions
          FastPath,    \* the pre-commit L1 fast path is used
          L2Coherent   \* every registry write also refreshes L2 (FALSE: the ignored SetStruct failure of finding F1)

NoV == 99           \* "absent" marker for cache entries

VARIABLES reg,     \* [Nodes -> version]
          l2,      \* [Nodes -> version or NoV]
          l1h,     \* [Procs -> [Nodes -> version or NoV]]
          l1n,     \* [Procs -> [Nodes -> SUBSET versions]]   node copies in the process's MRU
          view,    \* [Procs -> [Nodes -> version or NoV]]    what the process's open transaction has read
          stale,   \* a read returned something else than the committed version (history variable)
          hist     \* sequence of steps taken (history variable, for replay)

vars == <<reg, l2, l1h, l1n, view, stale, hist>>

Init ==
  /\ reg = [n \in Nodes |-> 1]
  /\ l2 = [n \in Nodes |-> NoV]
  /\ l1h = [p \in Procs |-> [n \in Nodes |-> NoV]]
  /\ l1n = [p \in Procs |-> [n \in Nodes |-> {}]]
  /\ view = [p \in Procs |-> [n \in Nodes |-> NoV]]
  /\ stale = FALSE
  /\ hist = <<>>

Step(a, p, n) == hist' = Append(hist, [a |-> a, p |-> p, n |-> n])

\* the handle as the slow path obtains it: L2 first, the registry on a miss (which refills L2, not L1)
SlowHandle(n) == IF l2[n] # NoV THEN l2[n] ELSE reg[n]

\* a transaction of p reads node n (first read of n in this transaction)
Read(p, n) ==
  /\ view[p][n] = NoV
  /\ LET fast == FastPath /\ l1h[p][n] # NoV /\ l1h[p][n] \in l1n[p][n]
         v == IF fast THEN l1h[p][n] ELSE SlowHandle(n)
     IN /\ view' = [view EXCEPT ![p][n] = v]
        /\ l2' = IF fast THEN l2 ELSE [l2 EXCEPT ![n] = v]
        /\ l1n' = [l1n EXCEPT ![p][n] = @ \cup {v}]
        /\ stale' = (stale \/ v # reg[n])
        /\ UNCHANGED <<reg, l1h>>
        /\ Step(IF fast THEN "readfast" ELSE "read", p, n)

\* the transaction ends without writing (reader): its view is dropped
EndRead(p) ==
  /\ \E n \in Nodes : view[p][n] # NoV
  /\ view' = [view EXCEPT ![p] = [n \in Nodes |-> NoV]]
  /\ UNCHANGED <<reg, l2, l1h, l1n, stale>>
  /\ Step("end", p, "")

\* the transaction commits an update of node n it has read: version check against the slow-path handle
Commit(p, n) ==
  /\ view[p][n] # NoV /\ reg[n] < MaxVer
  /\ LET h == SlowHandle(n) IN
     IF h = view[p][n] /\ h = reg[n]
     THEN /\ reg' = [reg EXCEPT ![n] = @ + 1]
          /\ l2' = IF L2Coherent THEN [l2 EXCEPT ![n] = reg[n] + 1] ELSE l2
          /\ l1h' = [l1h EXCEPT ![p][n] = reg[n] + 1]
          /\ l1n' = [l1n EXCEPT ![p][n] = @ \cup {reg[n] + 1}]
          /\ view' = [view EXCEPT ![p] = [m \in Nodes |-> NoV]]
          /\ UNCHANGED stale
          /\ Step("commit", p, n)
     ELSE \* conflict: refetch through the slow path and merge (the view is refreshed), commit retried later
          /\ view' = [view EXCEPT ![p][n] = h]
          /\ l2' = [l2 EXCEPT ![n] = h]
          /\ l1n' = [l1n EXCEPT ![p][n] = @ \cup {h}]
          /\ UNCHANGED <<reg, l1h, stale>>
          /\ Step("conflict", p, n)

\* environment: eviction / expiry / flush of L2 entries, eviction of L1 entries
EvictL2(n) == /\ l2[n] # NoV /\ l2' = [l2 EXCEPT ![n] = NoV]
              /\ UNCHANGED <<reg, l1h, l1n, view, stale>> /\ Step("evictl2", "", n)
EvictL1h(p, n) == /\ l1h[p][n] # NoV /\ l1h' = [l1h EXCEPT ![p][n] = NoV]
                  /\ UNCHANGED <<reg, l2, l1n, view, stale>> /\ Step("evictl1h", p, n)
EvictL1n(p, n) == /\ l1n[p][n] # {} /\ l1n' = [l1n EXCEPT ![p][n] = {}]
                  /\ UNCHANGED <<reg, l2, l1h, view, stale>> /\ Step("evictl1n", p, n)

Next == \/ \E p \in Procs, n \in Nodes : Read(p, n) \/ Commit(p, n) \/ EvictL1h(p, n) \/ EvictL1n(p, n)
        \/ \E p \in Procs : EndRead(p)
        \/ \E n \in Nodes : EvictL2(n)

Spec == Init /\ [][Next]_vars

-----------------------------------------------------------------------------
\* C20: no read ever returned anything but the committed version
ReadsLatest == ~stale

\* L2 never holds anything but the committed version (what makes the slow path sound)
L2IsCurrent == \A n \in Nodes : l2[n] = NoV \/ l2[n] = reg[n]

\* the version check at commit makes lost updates impossible whatever the caches hold
VersionsOnlyGrowByOne == [][\A n \in Nodes : reg'[n] = reg[n] \/ reg'[n] = reg[n] + 1]_vars

\* emit the stale-read history as JSON right before ReadsLatest fails (BFS: a shortest one)
EmitStale == stale => PrintT(<<"CEX", ToJson(hist)>>)

\* bound
Bounded == Len(hist) <= 7
View == <<reg, l2, l1h, l1n, view, stale>>
=============================================================================
