SPECIFICATION Spec
VIEW View
CONSTANTS
  Procs = {"w0"}
  Nodes = {"n1"}
  MaxVer = 3
  FastPath = FALSE
  L2Coherent = FALSE
INVARIANTS
  EmitStale
  ReadsLatest

PROPERTIES
  VersionsOnlyGrowByOne
CHECK_DEADLOCK FALSE
