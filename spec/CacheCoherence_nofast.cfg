SPECIFICATION Spec
VIEW View
CONSTANTS
  Procs = {"w0", "w1"}
  Nodes = {"n1"}
  MaxVer = 3
  FastPath = FALSE
  L2Coherent = TRUE
INVARIANTS
  EmitStale
  ReadsLatest
  L2IsCurrent
PROPERTIES
  VersionsOnlyGrowByOne
CHECK_DEADLOCK FALSE
