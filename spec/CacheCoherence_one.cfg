SPECIFICATION Spec
VIEW View
CONSTANTS
  Procs = {"w0"}
  Nodes = {"n1", "n2"}
  MaxVer = 4
  FastPath = TRUE
  L2Coherent = TRUE
INVARIANTS
  EmitStale
  ReadsLatest
  L2IsCurrent
PROPERTIES
  VersionsOnlyGrowByOne
CHECK_DEADLOCK FALSE
