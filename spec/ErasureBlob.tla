------------------------------ MODULE ErasureBlob ------------------------------
(* One erasure-coded blob of fs.BlobStoreWithEC (/repo/fs/blobstore.withec.go, /repo/fs/erasure):
   d data + p parity shard files, each "17 bytes of metadata (pad count, MD5 of the shard) + shard".

   State = what is on disk, per shard file, as a damage class:
     ok          complete file as written
     missing     no file (drive lost, or the shard write failed without leaving anything)
     truncShort  file shorter than the 17 metadata bytes
     truncLong   metadata complete, shard bytes cut short (17 <= length < full)
     corruptData a flipped bit in the shard bytes
     corruptMeta a changed byte in the metadata (pad count or checksum)
     bad         damaged in a way the model did not choose (only adopted from an observation, see the Inspect actions)

   Actions = the calls of the blob store and what the environment does to the files:
     Write(F, leaves, ok)   BlobStoreWithEC.Add of a new blob while the writes of the shards in F fail
     Damage(a, fresh)       the environment damages shard files
     Read(res, eq)          BlobStoreWithEC.GetOne (with or without RepairCorruptedShards)
     Inspect(intact)        an observer looks at every shard file
   The results (ok/error/crash, bytes equal or not) are parameters: the specification accepts exactly the
   results C25/C26 allow.  Behaviour of the code that contradicts the properties is modelled by the ...Deviates
   finding actions, enabled only when Tolerant = TRUE; what they did is marked (wdev, last.dev).             *)
EXTENDS Integers, Sequences, FiniteSets, TLC, Json

CONSTANTS Configs,      \* exhaustive model: the (d,p) explored, each written as the number 10*d + p
          MaxDamaged,   \* exhaustive model: the first damage step damages at most this many shards
          Tolerant      \* finding actions enabled

Kinds       == {"ok", "missing", "truncShort", "truncLong", "corruptData", "corruptMeta", "bad"}
DamageKinds == {"missing", "truncShort", "truncLong", "corruptData", "corruptMeta"}
WriteLeaves == {"missing", "truncShort", "truncLong"}     \* what a failing shard write leaves on the disk
Results     == {"ok", "error", "crash"}

VARIABLES d, p,       \* configuration of the blob table
          repair,     \* ErasureCodingConfig.RepairCorruptedShards
          phase,      \* "idle" (trace spec only) | "new" | "stored" | "failed"
          base,       \* shard states right after the write
          shard,      \* shard states now
          pre,        \* shard states before the last read
          last,       \* the last read: [res, eq, nd] or NoRead
          rounds,     \* damage steps since the files were last put back to their as-written state
          wdev        \* the write was taken by the finding action WriteDeviates

vars == <<d, p, repair, phase, base, shard, pre, last, rounds, wdev>>

Shards    == 1..(d + p)
NoRead    == [res |-> "none", eq |-> FALSE, nd |-> 0, dev |-> FALSE]
AllOk     == [i \in Shards |-> "ok"]
Damaged(s) == {i \in Shards : s[i] # "ok"}
NumDamaged == Cardinality(Damaged(shard))
Within    == NumDamaged <= p

Init == /\ \E c \in Configs : d = c \div 10 /\ p = c % 10
        /\ repair \in BOOLEAN
        /\ phase = "new" /\ base = <<>> /\ shard = <<>> /\ pre = <<>>
        /\ last = NoRead /\ rounds = 0 /\ wdev = FALSE

-----------------------------------------------------------------------------
(* BlobStoreWithEC.Add: the blob is split into d+p shards written in parallel; the write of every shard in F
   fails and leaves `leaves` behind.  Add tolerates up to p failed shard writes.                          *)
WriteEffect(F, leaves, ok) ==
  /\ base'  = [i \in Shards |-> IF i \in F THEN leaves ELSE "ok"]
  /\ shard' = base'
  /\ pre'   = base'
  /\ phase' = IF ok THEN "stored" ELSE "failed"
  /\ last' = NoRead
  /\ UNCHANGED <<d, p, repair, rounds>>

WriteExpected(F, ok) == ok = (Cardinality(F) <= p)

Write(F, leaves, ok) ==
  /\ phase = "new" /\ F \subseteq Shards /\ leaves \in WriteLeaves
  /\ WriteExpected(F, ok)
  /\ WriteEffect(F, leaves, ok) /\ wdev' = FALSE

\* finding action: Add reports success although more than p shard writes failed, or failure although at most p did
WriteDeviates(F, leaves, ok) ==
  /\ Tolerant
  /\ phase = "new" /\ F \subseteq Shards /\ leaves \in WriteLeaves
  /\ ~WriteExpected(F, ok)
  /\ WriteEffect(F, leaves, ok) /\ wdev' = TRUE

(* The environment damages shard files.  a[i] = "ok" leaves shard i alone (fresh = FALSE) or puts its as-written
   content back (fresh = TRUE); any other kind replaces the as-written file by a file damaged in that way.   *)
Damage(a, fresh) ==
  /\ phase = "stored"
  /\ DOMAIN a = Shards
  /\ \A i \in Shards : a[i] \in DamageKinds \cup {"ok"}
  /\ \A i \in Shards : a[i] # "ok" => base[i] = "ok"
  /\ shard' = [i \in Shards |-> IF a[i] # "ok" THEN a[i] ELSE IF fresh THEN base[i] ELSE shard[i]]
  /\ pre' = shard'
  /\ last' = NoRead /\ rounds' = IF fresh THEN 1 ELSE rounds + 1
  /\ UNCHANGED <<d, p, repair, phase, base, wdev>>

(* BlobStoreWithEC.GetOne.
   C25: at most p damaged shard files => exactly the stored bytes; more => an error, never other bytes
        (the exact bytes are tolerated there too: nothing wrong is returned); never a process crash.
   C26: with repair enabled a read that returns the data leaves every shard file intact.              *)
ReadReturnsData(res, eq) == res = "ok" /\ eq
ReadExpected(res, eq) ==
  IF Within THEN ReadReturnsData(res, eq)
            ELSE res = "error" \/ ReadReturnsData(res, eq)

ReadRecord(res, eq, dv) == [res |-> res, eq |-> eq, nd |-> NumDamaged, dev |-> dv]

ReadData(res, eq) ==        \* enough shards: decode (reconstructing the damaged ones), optionally rewrite them
  /\ phase = "stored" /\ Within /\ ReadReturnsData(res, eq)
  /\ pre' = shard
  /\ shard' = IF repair THEN AllOk ELSE shard
  /\ last' = ReadRecord(res, eq, FALSE)
  /\ UNCHANGED <<d, p, repair, phase, base, rounds, wdev>>

ReadRefused(res, eq) ==     \* too few good shards: an error
  /\ phase = "stored" /\ ~Within /\ res = "error"
  /\ pre' = shard
  /\ last' = ReadRecord(res, eq, FALSE)
  /\ UNCHANGED <<d, p, repair, phase, base, shard, rounds, wdev>>

ReadLucky(res, eq) ==       \* more than p files damaged, but the damage left enough information: harmless
  /\ phase = "stored" /\ ~Within /\ ReadReturnsData(res, eq)
  /\ pre' = shard
  /\ last' = ReadRecord(res, eq, FALSE)
  /\ UNCHANGED <<d, p, repair, phase, base, shard, rounds, wdev>>

Read(res, eq) == ReadData(res, eq) \/ ReadRefused(res, eq) \/ ReadLucky(res, eq)

\* finding action: any other result (wrong bytes, an error within parity, a crash)
ReadDeviates(res, eq) ==
  /\ Tolerant
  /\ phase = "stored" /\ res \in Results /\ ~ReadExpected(res, eq)
  /\ pre' = shard
  /\ last' = ReadRecord(res, eq, TRUE)
  /\ UNCHANGED <<d, p, repair, phase, base, shard, rounds, wdev>>

(* An observer inspects every shard file: intact[i] = the file is complete, its pad count and checksum are right
   and it holds the right shard.                                                                         *)
Observed(intact) == \A i \in Shards : intact[i] = (shard[i] = "ok")
Adopt(intact)    == [i \in Shards |-> IF intact[i] THEN "ok"
                                      ELSE IF shard[i] # "ok" THEN shard[i]
                                      ELSE IF pre[i] # "ok" THEN pre[i] ELSE "bad"]

\* the read before was not obliged to leave the files in any particular state (it failed, or was beyond parity)
ReadUnspecified == repair /\ last.res # "none" /\ (last.dev \/ ~(last.nd <= p /\ last.res = "ok" /\ last.eq))

Inspect(intact) ==
  /\ phase \in {"stored", "failed"} /\ DOMAIN intact = Shards
  /\ ~ReadUnspecified
  /\ Observed(intact)
  /\ UNCHANGED vars

InspectUnspecified(intact) ==
  /\ phase = "stored" /\ DOMAIN intact = Shards
  /\ ReadUnspecified
  /\ shard' = Adopt(intact)
  /\ UNCHANGED <<d, p, repair, phase, base, pre, last, rounds, wdev>>

\* finding action: files are not in the state the model says (a repairing read left damaged files, a write that
\* reported success for a shard left no intact file, ...).  The observation is adopted; the read is thereby accounted for.
InspectDeviates(intact) ==
  /\ Tolerant
  /\ phase \in {"stored", "failed"} /\ DOMAIN intact = Shards
  /\ ~ReadUnspecified
  /\ ~Observed(intact)
  /\ shard' = Adopt(intact)
  /\ last' = NoRead
  /\ UNCHANGED <<d, p, repair, phase, base, pre, rounds, wdev>>

-----------------------------------------------------------------------------
(* Exhaustive model: one write with every set of failing shard writes; after a fault-free write every damage
   assignment (up to MaxDamaged damaged shards); a read with every possible result; with repair, a second damage
   step that damages exactly p shards on top of what the repairing read left, and a read again.  Inspections
   report what the model expects or differ from it in one shard.                                          *)
NumBad(a)      == Cardinality({i \in Shards : a[i] # "ok"})
Assignments(k) == {a \in [Shards -> DamageKinds \cup {"ok"}] : NumBad(a) <= k}
ExactlyP       == {a \in Assignments(p) : NumBad(a) = p}
NearObservations == {f \in [Shards -> BOOLEAN] : Cardinality({i \in Shards : f[i] # (shard[i] = "ok")}) <= 1}

MCWrite  == /\ phase = "new"
            /\ \E F \in SUBSET Shards, lv \in WriteLeaves, ok \in BOOLEAN :
                  /\ (F = {} => lv = "missing")
                  /\ (Write(F, lv, ok) \/ WriteDeviates(F, lv, ok))
MCDamage == /\ rounds = 0 /\ last = NoRead /\ base = AllOk /\ shard = AllOk /\ ~wdev
            /\ \E a \in Assignments(MaxDamaged) : Damage(a, TRUE)
MCDamageAfterRepair ==
            /\ rounds = 1 /\ repair /\ ~last.dev /\ last.res = "ok" /\ last.eq /\ last.nd <= p /\ shard = AllOk
            /\ \E a \in ExactlyP : Damage(a, FALSE)
MCRead   == /\ last = NoRead /\ pre = shard
            /\ \E res \in Results, eq \in BOOLEAN :
                  (eq => res = "ok") /\ (Read(res, eq) \/ ReadDeviates(res, eq))
MCInspect == /\ phase \in {"stored", "failed"}
             /\ (pre = shard \/ (last.res # "none" /\ shard = AllOk))   \* not on top of an adopted observation
             /\ \E intact \in NearObservations :
                   \* observations that differ from the model: after the write, and after reads that may rewrite files
                   /\ \/ Observed(intact)
                      \/ rounds = 0 /\ last = NoRead
                      \/ repair /\ last.res # "none" /\ last.nd <= p + 1
                   /\ (Inspect(intact) \/ InspectUnspecified(intact) \/ InspectDeviates(intact))

Next == MCWrite \/ MCDamage \/ MCDamageAfterRepair \/ MCRead \/ MCInspect

Spec == Init /\ [][Next]_vars

-----------------------------------------------------------------------------
(* C25 / C26 as invariants over the last write / read; what a finding action did is exempt (it is the violation,
   reported from the implementation trace), everything else in every behaviour must satisfy them.       *)
TypeOK ==
  /\ d \in 0..8 /\ p \in 0..8 /\ repair \in BOOLEAN /\ wdev \in BOOLEAN /\ rounds \in Nat
  /\ phase \in {"idle", "new", "stored", "failed"}
  /\ phase \in {"stored", "failed"} => /\ DOMAIN shard = Shards /\ DOMAIN base = Shards
                                       /\ \A i \in Shards : shard[i] \in Kinds /\ base[i] \in Kinds
  /\ last.res \in Results \cup {"none"}

WriteSucceedsIffTolerable ==          \* C25, write clause
  (~wdev /\ phase \in {"stored", "failed"}) => ((phase = "stored") <=> (Cardinality(Damaged(base)) <= p))

WithinParityReadReturnsStoredBytes == \* C25, first clause
  (~last.dev /\ last.res # "none" /\ last.nd <= p) => (last.res = "ok" /\ last.eq)

BeyondParityNeverWrongBytes ==        \* C25, second clause
  (~last.dev /\ last.res # "none" /\ last.nd > p) => (last.res = "error" \/ (last.res = "ok" /\ last.eq))

ReadNeverCrashes ==                   \* C25
  (~last.dev /\ last.res # "none") => last.res # "crash"

RepairRestoresFullRedundancy ==       \* C26: as long as nothing else happened after a repairing read that returned the data
  (~last.dev /\ repair /\ phase = "stored" /\ last.res = "ok" /\ last.eq /\ last.nd <= p) => shard = AllOk

\* C26, second half ("the blob then tolerates p new failures") is WithinParityReadReturnsStoredBytes in the states
\* reached by MCDamageAfterRepair / a non-fresh Damage of the implementation traces.

-----------------------------------------------------------------------------
(* The exhaustive model hands its cases to the replay driver. *)
Pristine == ~wdev /\ last = NoRead /\ pre = shard
EmitWrite == (Pristine /\ rounds = 0 /\ ~repair /\ phase \in {"stored", "failed"}) =>
                PrintT(<<"WRITE", ToJson([d |-> d, p |-> p, kinds |-> base, stored |-> (phase = "stored")])>>)
EmitCase  == (Pristine /\ rounds = 1 /\ ~repair) =>
                PrintT(<<"CASE", ToJson([d |-> d, p |-> p, kinds |-> shard, within |-> Within])>>)
EmitCase2 == (Pristine /\ rounds = 2) =>
                PrintT(<<"CASE2", ToJson([d |-> d, p |-> p, kinds |-> shard, within |-> Within])>>)
=============================================================================
