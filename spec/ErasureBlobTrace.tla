--------------------------- MODULE ErasureBlobTrace ---------------------------
(* Trace validation: what the replay driver (harness/cmd/erasureblob) observed of the real fs.BlobStoreWithEC is
   consumed line by line; every line must be an enabled action of ErasureBlob.  With Tolerant = TRUE a result that
   contradicts C25/C26 is consumed by a finding action, which prints a DEV record (line, expected/observed, model
   state) for the verdict; with Tolerant = FALSE such a line has no successor and the trace is rejected there. *)
EXTENDS ErasureBlob

VARIABLE l          \* next trace line to consume

Trace == ndJsonDeserialize("trace.ndjson")

tvars == <<vars, l>>

IsEv(e) == l <= Len(Trace) /\ Trace[l].ev = e /\ l' = l + 1
ToSet(s) == {s[i] : i \in DOMAIN s}

Idle == /\ d' = 0 /\ p' = 0 /\ repair' = FALSE /\ phase' = "idle" /\ base' = <<>> /\ shard' = <<>> /\ pre' = <<>>
        /\ last' = NoRead /\ rounds' = 0 /\ wdev' = FALSE

TraceInit == /\ l = 1 /\ TLCSet(1, 1)
             /\ d = 0 /\ p = 0 /\ repair = FALSE /\ phase = "idle" /\ base = <<>> /\ shard = <<>> /\ pre = <<>>
             /\ last = NoRead /\ rounds = 0 /\ wdev = FALSE

TraceReset == IsEv("Reset") /\ Idle

TraceSetup == /\ IsEv("Setup") /\ phase = "idle"
              /\ d' = Trace[l].d /\ p' = Trace[l].p /\ repair' = Trace[l].repair /\ phase' = "new"
              /\ UNCHANGED <<base, shard, pre, last, rounds, wdev>>

Dev(op, want) ==
  PrintT(<<"DEV", ToJson([line |-> l, op |-> op, want |-> want, d |-> d, p |-> p, repair |-> repair,
                          rounds |-> rounds, nd |-> IF phase = "new" THEN 0 ELSE NumDamaged,
                          kinds |-> IF op = "write" THEN <<>> ELSE shard,
                          pre |-> IF op = "write" THEN <<>> ELSE pre])>>)

TraceWrite    == IsEv("Write") /\ Write(ToSet(Trace[l].fail), Trace[l].kind, Trace[l].ok)
TraceWriteDev == /\ IsEv("Write") /\ WriteDeviates(ToSet(Trace[l].fail), Trace[l].kind, Trace[l].ok)
                 /\ Dev("write", IF Trace[l].ok THEN "error" ELSE "ok")

TraceDamage == IsEv("Damage") /\ Damage(Trace[l].kinds, Trace[l].fresh)

TraceRead    == IsEv("Read") /\ Read(Trace[l].res, Trace[l].eq)
TraceReadDev == /\ IsEv("Read") /\ ReadDeviates(Trace[l].res, Trace[l].eq)
                /\ Dev("read", IF Within THEN "data" ELSE "error")

TraceInspect    == IsEv("Inspect") /\ (Inspect(Trace[l].intact) \/ InspectUnspecified(Trace[l].intact))
TraceInspectDev == /\ IsEv("Inspect") /\ InspectDeviates(Trace[l].intact)
                   /\ Dev("inspect", "intact")

TraceNext == \/ TraceReset \/ TraceSetup \/ TraceWrite \/ TraceWriteDev \/ TraceDamage
             \/ TraceRead \/ TraceReadDev \/ TraceInspect \/ TraceInspectDev

TraceSpec == TraceInit /\ [][TraceNext]_tvars

HighWater == IF l > TLCGet(1) THEN TLCSet(1, l) ELSE TRUE
TraceAccepted == /\ PrintT(<<"HWM", TLCGet(1) - 1>>)
                 /\ TLCGet(1) - 1 = Len(Trace)
=============================================================================
