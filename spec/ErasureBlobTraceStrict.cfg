SPECIFICATION TraceSpec
CONSTANTS
  Configs = {}
  MaxDamaged = 0
  Tolerant = FALSE
INVARIANTS TypeOK WriteSucceedsIffTolerable WithinParityReadReturnsStoredBytes BeyondParityNeverWrongBytes ReadNeverCrashes RepairRestoresFullRedundancy
CONSTRAINT HighWater
POSTCONDITION TraceAccepted
CHECK_DEADLOCK FALSE
