SPECIFICATION Spec
CONSTANTS
  Configs = {11, 21, 22}
  MaxDamaged = 6
  Tolerant = TRUE
INVARIANTS TypeOK WriteSucceedsIffTolerable WithinParityReadReturnsStoredBytes BeyondParityNeverWrongBytes ReadNeverCrashes RepairRestoresFullRedundancy EmitWrite EmitCase EmitCase2
CHECK_DEADLOCK FALSE
