------------------------------ MODULE KeyOrder ------------------------------
(* Key ordering of SOP (C29, C30).

   Part 1 (C29): the order axioms a comparison function has to satisfy, stated over a finite
   sign matrix M (M[i][j] = result of comparing value i with value j) and a rank vector (the
   natural order position of every value, computed independently of the code under test).
   The matrices come from /repo/btree/comparer.go (Compare, CoerceComparer) evaluated on edge values.

   Part 2 (C30): the comparer object of a JSON map-key store as a state machine.
   /repo/jsondb/mapkey.indexspec.go:Comparer and /repo/jsondb/mapkey.go:defaultComparer keep, per
   index field, the comparison function btree.CoerceComparer chose from the FIRST value they were
   asked to compare ("kind memory"); that function type-asserts both operands to its own type, so a
   later value of another dynamic type is replaced by the zero value of the remembered type.
   defaultComparer additionally remembers the (sorted) field names of the first key.
   Every Open of a store (every transaction, every process) owns a fresh comparer object = instance.

   Semantics = "memory"  : what /repo does (the step that meets a value whose kind differs from
                           the remembered kind is the named finding action CmpMismatch).
   Semantics = "dynamic" : repaired design, comparer chosen per comparison from the dynamic types
                           with the cross-type order  nil < bool < number < string.            *)
EXTENDS Integers, Sequences, FiniteSets, TLC, Json

CONSTANTS Vals,        \* value ids a field may hold (subset of DOMAIN VT)
          NF,          \* number of index fields (fields are 1..NF, compared in this order)
          Desc,        \* set of fields with descending sort order (index specification only)
          Mode,        \* "indexspec" | "default"
          Semantics,   \* "memory" | "dynamic"
          Insts,       \* comparer instances (processes / transactions that opened the store)
          MaxHist,     \* bound on the recorded history of one instance
          Emit         \* "beh": print every comparison step of the first instance (others fresh) as a behaviour to
                       \* replay on the real code; "wit": print a SameAnswer witness per state; "both"; "none"

VARIABLES mem,    \* mem[i][f]  : kind of the comparer instance i remembered for field f, or "unset"
          flds,   \* flds[i]    : field list instance i compares (NoFlds until the first key in default mode)
          hist,   \* hist[i]    : comparisons instance i answered so far (history variable)
          last    \* the last step taken (observation variable)

vars == <<mem, flds, hist, last>>

-----------------------------------------------------------------------------
(* Part 1: order axioms over a sign matrix *)

Sgn(n) == IF n < 0 THEN -1 ELSE IF n > 0 THEN 1 ELSE 0

TransOK(e1, e2, e3) ==      \* a<=b /\ b<=c => a<=c, strict if one premise is strict
  (e1 <= 0 /\ e2 <= 0) => (e3 <= 0 /\ ((e1 < 0 \/ e2 < 0) => e3 < 0))

BadRefl(M)  == {i \in DOMAIN M : Sgn(M[i][i]) # 0}
BadAnti(M)  == {p \in (DOMAIN M) \X (DOMAIN M) : p[1] < p[2] /\ Sgn(M[p[1]][p[2]]) # -Sgn(M[p[2]][p[1]])}
BadTrans(M) == {t \in (DOMAIN M) \X (DOMAIN M) \X (DOMAIN M) :
                  ~TransOK(Sgn(M[t[1]][t[2]]), Sgn(M[t[2]][t[3]]), Sgn(M[t[1]][t[3]]))}
BadAgree(M, rank) == {p \in (DOMAIN M) \X (DOMAIN M) : Sgn(M[p[1]][p[2]]) # Sgn(rank[p[1]] - rank[p[2]])}

Reflexive(M)        == BadRefl(M) = {}
Antisymmetric(M)    == BadAnti(M) = {}
Transitive(M)       == BadTrans(M) = {}
AgreesWith(M, rank) == BadAgree(M, rank) = {}
TotalOrderOn(M, rank) == Reflexive(M) /\ Antisymmetric(M) /\ Transitive(M) /\ AgreesWith(M, rank)

-----------------------------------------------------------------------------
(* The value pool.  k = JSON kind with the Go representation of numbers kept apart (a Go caller writes
   int literals, a decoded document holds float64), n = 2 x numeric value, s = bytewise order of the
   string, b = false<true, p = bytewise order of fmt.Sprintf("%v") (used by the fallback comparer). *)
VT == [ null |-> [k |-> "nil",    n |-> 0,  s |-> 0, b |-> 0, p |-> 0],
        miss |-> [k |-> "nil",    n |-> 0,  s |-> 0, b |-> 0, p |-> 0],   \* field absent from the key
        F    |-> [k |-> "bool",   n |-> 0,  s |-> 0, b |-> 0, p |-> 9],   \* "false"
        T    |-> [k |-> "bool",   n |-> 0,  s |-> 0, b |-> 1, p |-> 10],  \* "true"
        i0   |-> [k |-> "int",    n |-> 0,  s |-> 0, b |-> 0, p |-> 2],   \* "0"
        i1   |-> [k |-> "int",    n |-> 2,  s |-> 0, b |-> 0, p |-> 3],   \* "1"
        i2   |-> [k |-> "int",    n |-> 4,  s |-> 0, b |-> 0, p |-> 6],   \* "2"
        nm1  |-> [k |-> "float",  n |-> -2, s |-> 0, b |-> 0, p |-> 1],   \* "-1"
        n0   |-> [k |-> "float",  n |-> 0,  s |-> 0, b |-> 0, p |-> 2],
        n1   |-> [k |-> "float",  n |-> 2,  s |-> 0, b |-> 0, p |-> 3],
        n1h  |-> [k |-> "float",  n |-> 3,  s |-> 0, b |-> 0, p |-> 4],   \* "1.5"
        n2   |-> [k |-> "float",  n |-> 4,  s |-> 0, b |-> 0, p |-> 6],
        n10  |-> [k |-> "float",  n |-> 20, s |-> 0, b |-> 0, p |-> 5],   \* "10" < "2" bytewise
        se   |-> [k |-> "string", n |-> 0,  s |-> 0, b |-> 0, p |-> 0],   \* ""
        s10  |-> [k |-> "string", n |-> 0,  s |-> 1, b |-> 0, p |-> 5],   \* "10"
        sa   |-> [k |-> "string", n |-> 0,  s |-> 2, b |-> 0, p |-> 7],   \* "a"
        sb   |-> [k |-> "string", n |-> 0,  s |-> 3, b |-> 0, p |-> 8] ]  \* "b"

Pool  == DOMAIN VT
Kinds == {"int", "float", "string", "other"}      \* the comparers btree.CoerceComparer can return (for these values)

JK(v)    == VT[v].k                                           \* JSON kind
CK(v)    == IF JK(v) \in {"nil", "bool"} THEN "other" ELSE JK(v)   \* comparer CoerceComparer(v) returns: nil and bool reach its default branch
IsNil(v) == JK(v) = "nil"
IsNum(v) == JK(v) \in {"int", "float"}

(* func(x, y any) int returned by CoerceComparer for kind k:  x1, _ := x.(K); y1, _ := y.(K); cmp.Compare(x1, y1).
   A failed assertion yields the zero value (0, 0.0, ""), whose n / s is 0.  "other" is the default branch:
   nil first, then (no Comparer implementation among JSON values) the fmt.Sprintf("%v") strings. *)
CmpAs(k, x, y) ==
  CASE k = "int"    -> Sgn((IF JK(x) = "int" THEN VT[x].n ELSE 0) - (IF JK(y) = "int" THEN VT[y].n ELSE 0))
    [] k = "float"  -> Sgn((IF JK(x) = "float" THEN VT[x].n ELSE 0) - (IF JK(y) = "float" THEN VT[y].n ELSE 0))
    [] k = "string" -> Sgn((IF JK(x) = "string" THEN VT[x].s ELSE 0) - (IF JK(y) = "string" THEN VT[y].s ELSE 0))
    [] k = "other"  -> IF IsNil(x) /\ IsNil(y) THEN 0
                       ELSE IF IsNil(x) THEN -1
                       ELSE IF IsNil(y) THEN 1
                       ELSE Sgn(VT[x].p - VT[y].p)

\* btree.Compare(x, y) switches on the dynamic type of x and asserts y to it
BuiltinCompare(x, y) == CmpAs(CK(x), x, y)

(* Natural order, defined where the property demands a particular answer: two numbers, two strings,
   two absent/null values, or the same value.  For all other pairs (different JSON kinds, two different
   booleans) any answer is acceptable as long as the whole relation is a consistent total preorder. *)
NatDefined(x, y) == x = y \/ (IsNum(x) /\ IsNum(y)) \/ (JK(x) = "string" /\ JK(y) = "string") \/ (IsNil(x) /\ IsNil(y))
NatCmp(x, y) == IF IsNum(x) /\ IsNum(y) THEN Sgn(VT[x].n - VT[y].n)
                ELSE IF JK(x) = "string" /\ JK(y) = "string" THEN Sgn(VT[x].s - VT[y].s)
                ELSE 0

\* repaired design: comparison by dynamic type, documented cross-type order nil < bool < number < string
TypeRank(v) == CASE JK(v) = "nil" -> 0 [] JK(v) = "bool" -> 1 [] IsNum(v) -> 2 [] OTHER -> 3
DynCmp(x, y) == IF TypeRank(x) # TypeRank(y) THEN Sgn(TypeRank(x) - TypeRank(y))
                ELSE IF JK(x) = "bool" THEN Sgn(VT[x].b - VT[y].b)
                ELSE NatCmp(x, y)

(* C29 at design level: the type-switched comparison restricted to values of ONE kind is a total order
   that agrees with the natural order; over values of mixed kinds it is not even antisymmetric, which is
   why the jsondb comparers (part 2) matter. *)
KindSeq(k) == CASE k = "int"    -> <<"i0", "i1", "i2">>
                [] k = "float"  -> <<"nm1", "n0", "n1", "n1h", "n2", "n10">>
                [] k = "string" -> <<"se", "s10", "sa", "sb">>
MatrixOf(vs, C(_, _)) == [i \in DOMAIN vs |-> [j \in DOMAIN vs |-> C(vs[i], vs[j])]]
NatRank(vs) == [i \in DOMAIN vs |-> IF IsNum(vs[i]) THEN VT[vs[i]].n ELSE VT[vs[i]].s]
BuiltinTotalOrderPerKind ==
  \A k \in {"int", "float", "string"} :
     /\ TotalOrderOn(MatrixOf(KindSeq(k), BuiltinCompare), NatRank(KindSeq(k)))
     /\ TotalOrderOn(MatrixOf(KindSeq(k), LAMBDA x, y : CmpAs(k, x, y)), NatRank(KindSeq(k)))
BuiltinMixedKindsNotAntisymmetric == ~Antisymmetric(MatrixOf(<<"n1", "sa">>, BuiltinCompare))

ASSUME BuiltinTotalOrderPerKind
ASSUME BuiltinMixedKindsNotAntisymmetric

-----------------------------------------------------------------------------
(* Part 2: keys, comparer instances *)

Fields == 1..NF
Keys   == [Fields -> Vals]
AllFields == [f \in Fields |-> f]                      \* <<1, .., NF>>
PresentFields(x) == SelectSeq(AllFields, LAMBDA f : x[f] # "miss")   \* sorted names of the fields of map x

Dir(f, c) == IF Mode = "indexspec" /\ f \in Desc THEN -c ELSE c

(* Walk the field list fl from position n with memory m.  Returns the sign, the memory afterwards and
   the mismatches met: <<field, remembered kind, kind of x, kind of y>> for every compared field where an
   operand's dynamic kind is not the remembered one.  A field's comparer is coerced only when the walk
   reaches the field (all earlier fields compared equal). *)
RECURSIVE Walk(_, _, _, _, _, _)
Walk(m, fl, x, y, n, mm) ==
  IF n > Len(fl) THEN [r |-> 0, m |-> m, mism |-> mm]
  ELSE LET f  == fl[n]
           k  == IF m[f] = "unset" THEN CK(x[f]) ELSE m[f]
           m2 == [m EXCEPT ![f] = k]
           c  == CmpAs(k, x[f], y[f])
           mm2 == IF CK(x[f]) # k \/ CK(y[f]) # k THEN mm \cup {<<f, k, CK(x[f]), CK(y[f])>>} ELSE mm
       IN IF c # 0 THEN [r |-> Dir(f, c), m |-> m2, mism |-> mm2]
          ELSE Walk(m2, fl, x, y, n + 1, mm2)

RECURSIVE DynWalk(_, _, _, _)
DynWalk(fl, x, y, n) ==
  IF n > Len(fl) THEN 0
  ELSE LET c == DynCmp(x[fl[n]], y[fl[n]]) IN IF c # 0 THEN Dir(fl[n], c) ELSE DynWalk(fl, x, y, n + 1)

\* field list an instance with field memory fl uses for (x, y)
NoFlds == <<0>>                                        \* "no key seen yet" (0 is not a field)
FieldList(fl, x) == IF fl # NoFlds THEN fl ELSE PresentFields(x)

(* Answer of a comparer instance in state (m, fl) to Compare(x, y): sign, new state, mismatches. *)
Answer(m, fl, x, y) ==
  IF Semantics = "memory"
  THEN LET fl2 == FieldList(fl, x)
           w   == Walk(m, fl2, x, y, 1, {})
       IN [r |-> w.r, m |-> w.m, fl |-> fl2, mism |-> w.mism]
  ELSE \* "dynamic": no memory at all; default mode compares the sorted union of both keys' fields
       LET fl2 == IF Mode = "indexspec" THEN AllFields
                  ELSE SelectSeq(AllFields, LAMBDA f : x[f] # "miss" \/ y[f] # "miss")
       IN [r |-> DynWalk(fl2, x, y, 1), m |-> m, fl |-> fl, mism |-> {}]

\* In default mode the remembered field list ignores fields the first key did not have: also a memory
\* effect.  A step is "uniform" if it meets no kind mismatch and no key field outside the field list.
IgnoredFields(fl, x, y) == {f \in Fields : (x[f] # "miss" \/ y[f] # "miss") /\ ~\E n \in DOMAIN fl : fl[n] = f}
Uniform(a, x, y) == \/ Semantics = "dynamic"             \* no memory, nothing to mismatch
                    \/ a.mism = {} /\ (Mode = "default" => IgnoredFields(a.fl, x, y) = {})

FreshMem  == [f \in Fields |-> "unset"]
FreshFlds == IF Mode = "indexspec" THEN AllFields ELSE NoFlds

Init == /\ mem  = [i \in Insts |-> FreshMem]
        /\ flds = [i \in Insts |-> FreshFlds]
        /\ hist = [i \in Insts |-> <<>>]
        /\ last = [a |-> "init"]

\* A process opens the store (again): new comparer object.
New(i) == /\ mem'  = [mem  EXCEPT ![i] = FreshMem]
          /\ flds' = [flds EXCEPT ![i] = FreshFlds]
          /\ hist' = [hist EXCEPT ![i] = <<>>]
          /\ last' = [a |-> "New", i |-> i]

HRec(x, y, r) == [x |-> x, y |-> y, r |-> r]

\* state change of one comparison (shared with the trace specification, which keeps no history)
Step(i, x, y, a) ==
  /\ mem'  = [mem  EXCEPT ![i] = a.m]
  /\ flds' = [flds EXCEPT ![i] = a.fl]
  /\ last' = [a |-> "Cmp", i |-> i, x |-> x, y |-> y, r |-> a.r, uniform |-> Uniform(a, x, y)]

\* Behaviours of ONE comparer object: printed for the first instance while every other instance is still fresh.
OthersFresh(i) == \A j \in Insts \ {i} : mem[j] = FreshMem /\ flds[j] = FreshFlds
FirstInst == CHOOSE j \in Insts : \A k \in Insts : j <= k
EmitStep(i, x, y, a) ==
  (Emit \in {"beh", "both"} /\ i = FirstInst /\ OthersFresh(i)) =>
     PrintT(<<"BEH", ToJson([h |-> hist[i], x |-> x, y |-> y, r |-> a.r, uniform |-> Uniform(a, x, y)])>>)

\* instance i answers Compare(x, y) (the sign is last.r); every operand has the kind the instance remembers
CmpUniform(i, x, y) ==
  LET a == Answer(mem[i], flds[i], x, y) IN
  /\ Len(hist[i]) < MaxHist
  /\ Uniform(a, x, y)
  /\ Step(i, x, y, a)
  /\ hist' = [hist EXCEPT ![i] = Append(@, HRec(x, y, a.r))]
  /\ EmitStep(i, x, y, a)

(* FINDING ACTION (memory semantics only): an operand's dynamic kind differs from the kind remembered
   from the first key (it is then compared as the zero value of the remembered type, or by its printed
   form), or the key has a field the remembered field list lacks (it is then ignored). *)
CmpMismatch(i, x, y) ==
  LET a == Answer(mem[i], flds[i], x, y) IN
  /\ Semantics = "memory"
  /\ Len(hist[i]) < MaxHist
  /\ ~Uniform(a, x, y)
  /\ Step(i, x, y, a)
  /\ hist' = [hist EXCEPT ![i] = Append(@, HRec(x, y, a.r))]
  /\ EmitStep(i, x, y, a)

Next == \/ \E i \in Insts : New(i)
        \/ \E i \in Insts, x \in Keys, y \in Keys : CmpUniform(i, x, y)
        \/ \E i \in Insts, x \in Keys, y \in Keys : CmpMismatch(i, x, y)

Spec == Init /\ [][Next]_vars

View == <<mem, flds>>          \* configs that do not need the history explore memory states only

-----------------------------------------------------------------------------
(* Properties (C30) *)

TypeOK == /\ mem \in [Insts -> [Fields -> Kinds \cup {"unset"}]]
          /\ \A i \in Insts : flds[i] = NoFlds \/ flds[i] \in Seq(Fields)
          /\ \A i \in Insts : Len(hist[i]) <= MaxHist

\* what instance i would answer now
Ans(i, x, y) == Answer(mem[i], flds[i], x, y)

\* natural order of two keys over field list fl, defined when every field up to the deciding one is NatDefined
RECURSIVE NatWalk(_, _, _, _)
NatWalk(fl, x, y, n) ==
  IF n > Len(fl) THEN [def |-> TRUE, r |-> 0]
  ELSE LET f == fl[n] IN
       IF ~NatDefined(x[f], y[f]) THEN [def |-> FALSE, r |-> 0]
       ELSE IF NatCmp(x[f], y[f]) # 0 THEN [def |-> TRUE, r |-> Dir(f, NatCmp(x[f], y[f]))]
       ELSE NatWalk(fl, x, y, n + 1)
NatKey(x, y) == NatWalk(AllFields, x, y, 1)

(* Every process sees one order: the same two keys get the same answer from every instance whatever
   each instance compared before.  Under memory semantics this is claimed for uniform steps only
   (behaviours that do not use the finding action); the full form is SameAnswer. *)
AnsAll(x, y) == [i \in Insts |-> Ans(i, x, y)]        \* evaluated once per pair
SameAnswerUniform ==
  \A x \in Keys, y \in Keys :
     LET as == AnsAll(x, y)
         u  == {i \in Insts : Uniform(as[i], x, y)}
     IN \A i \in u, j \in u : as[i].r = as[j].r
SameAnswer ==
  \A x \in Keys, y \in Keys : LET as == AnsAll(x, y) IN \A i \in Insts, j \in Insts : as[i].r = as[j].r

\* the order given by the index specification: uniform steps on naturally ordered keys give the natural order
NaturalOnUniform ==
  \A x \in Keys, y \in Keys :
     LET nk == NatKey(x, y) IN
     nk.def => \A i \in Insts : LET a == Ans(i, x, y) IN Uniform(a, x, y) => a.r = nk.r
NaturalAlways ==
  \A x \in Keys, y \in Keys :
     LET nk == NatKey(x, y) IN nk.def => \A i \in Insts : Ans(i, x, y).r = nk.r

(* Per instance the answers given so far form a consistent total preorder (history-based). *)
HIdx(i) == DOMAIN hist[i]
InstancePreorder ==
  \A i \in Insts :
     /\ \A a \in HIdx(i) : hist[i][a].x = hist[i][a].y => hist[i][a].r = 0
     /\ \A a \in HIdx(i), b \in HIdx(i) :
          /\ (hist[i][a].x = hist[i][b].x /\ hist[i][a].y = hist[i][b].y) => hist[i][a].r = hist[i][b].r
          /\ (hist[i][a].x = hist[i][b].y /\ hist[i][a].y = hist[i][b].x) => hist[i][a].r = -hist[i][b].r
     /\ \A a \in HIdx(i), b \in HIdx(i), c \in HIdx(i) :
          (hist[i][a].y = hist[i][b].x /\ hist[i][a].x = hist[i][c].x /\ hist[i][b].y = hist[i][c].y)
             => TransOK(hist[i][a].r, hist[i][b].r, hist[i][c].r)

(* Witness of a SameAnswer violation between instances 1 and 2 in this state, for replay on the real code. *)
Disagree == {p \in Keys \X Keys : LET as == AnsAll(p[1], p[2]) IN \E i \in Insts, j \in Insts : as[i].r # as[j].r}
EmitWitness ==
  (Emit \in {"wit", "both"} /\ Disagree # {}) =>
     LET p == CHOOSE p \in Disagree : TRUE
     IN PrintT(<<"WIT", ToJson([hs |-> [i \in Insts |-> hist[i]], x |-> p[1], y |-> p[2], n |-> Cardinality(Disagree)])>>)
=============================================================================
