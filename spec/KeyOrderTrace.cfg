SPECIFICATION TraceSpec
CONSTANTS
  Vals = {"null", "miss", "F", "T", "i0", "i1", "i2", "nm1", "n0", "n1", "n1h", "n2", "n10", "se", "s10", "sa", "sb"}
  NF = 3
  Desc = {2}
  Mode = "indexspec"
  Semantics = "memory"
  Insts = {1, 2, 3}
  MaxHist = 0
  Emit = "none"
  TraceSem = "open"
INVARIANTS TraceTypeOK
CONSTRAINT HighWater
POSTCONDITION TraceAccepted
CHECK_DEADLOCK FALSE
