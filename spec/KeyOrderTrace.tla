--------------------------- MODULE KeyOrderTrace ---------------------------
(* Trace validation for KeyOrder: logs of the real code are consumed line by line.

   Events (ndjson, written by harness/cmd/keyorder):
     Matrix  grp fn m rank      C29: sign matrix of btree.Compare / btree.CoerceComparer(v) over the edge values
                                of one key type, and the independently computed natural rank of every value
     New     i                  C30: a fresh comparer object (IndexSpecification / JsonDBMapKey) = instance i
     Cmp     i x y xi yi r      C30: instance i answered Compare(x, y) = r   (keys are arrays of value ids, see VT;
                                xi, yi = number of the key within the trace, an index for the observation table only:
                                the table kt checks that one number always names the same key)
     Scan    i keys             C30: a transaction of process i scanned the store: keys in scan order
     Find    i x found at       C30: Find(x, first=TRUE) in that transaction; at = key the cursor landed on
     EndStore                   C30: all scans and finds of one store scenario have been logged

   TraceSem = "open"   : property level.  Nothing is assumed about the comparer except what C29 / C30 state:
                         the answers must form ONE consistent total preorder over all instances and times
                         (same answer, antisymmetric, transitive, reflexive), equal to the natural order
                         wherever that is defined.  For pairs of different JSON kinds any sign is accepted.
                         A contradiction does not block the trace: it is printed as a <<"VIOL", json>> line
                         (with the trace lines involved) and counted in nviol, so that one run classifies
                         every event of every trace.
   TraceSem = "memory" : the trace is replayed on the KeyOrder state machine with the semantics of /repo
                         ("memory").  A step that uses the finding action CmpMismatch is printed as
                         <<"MISM", line, json>>; an answer different from the model's as <<"DIFF", ...>>.
                         Used to decide whether a contradiction found by the "open" run is the recorded
                         kind-memory finding (MISM on the lines involved, no DIFF) or something else.      *)
EXTENDS KeyOrder

CONSTANT TraceSem

VARIABLES l,       \* next trace line to consume
          obs,     \* observed relation: obs[xi][yi] = [r, l] first observation of the pair over all instances (l = 0: none)
          kt,      \* kt[xi] = the key numbered xi (<<>>: not seen yet)
          scans,   \* instance -> scan order logged by Scan
          ties,    \* <<i, x, at>> : in instance i's transaction Find(x) landed on key at
          nviol    \* number of contradictions printed so far

Trace == ndJsonDeserialize("trace.ndjson")

tvars == <<vars, l, obs, kt, scans, ties, nviol>>

IsEv(e) == l <= Len(Trace) /\ Trace[l].ev = e /\ l' = l + 1

EmptyFn == [p \in {} |-> 0]
NoObs == [r |-> 0, l |-> 0]

Fresh == /\ mem  = [i \in Insts |-> FreshMem]
         /\ flds = [i \in Insts |-> FreshFlds]
         /\ hist = [i \in Insts |-> <<>>]
         /\ last = [a |-> "init"]
         /\ obs = <<>> /\ kt = <<>> /\ scans = EmptyFn /\ ties = {} /\ nviol = 0

TraceInit == l = 1 /\ TLCSet(1, 1) /\ Fresh

TraceReset == /\ IsEv("Reset")
              /\ mem'  = [i \in Insts |-> FreshMem]
              /\ flds' = [i \in Insts |-> FreshFlds]
              /\ hist' = [i \in Insts |-> <<>>]
              /\ last' = [a |-> "init"]
              /\ obs' = [a \in 1..Trace[l].nk |-> [b \in 1..Trace[l].nk |-> NoObs]]    \* nk = number of keys in the trace
              /\ kt' = [a \in 1..Trace[l].nk |-> <<>>]
              /\ scans' = EmptyFn /\ ties' = {}
              /\ UNCHANGED nviol

V(ax, w1, w2, exp) == [ax |-> ax, l |-> l, w1 |-> w1, w2 |-> w2, exp |-> exp]
Report(viol) == /\ (viol # {} => PrintT(<<"VIOL", ToJson(viol)>>))
                /\ nviol' = nviol + Cardinality(viol)

-----------------------------------------------------------------------------
(* C29 *)
TraceMatrix ==
  /\ IsEv("Matrix")
  /\ LET M == Trace[l].m
         rk == Trace[l].rank
         v1 == IF Reflexive(M) THEN {} ELSE LET i == CHOOSE i \in BadRefl(M) : TRUE IN {V("reflexivity", i, i, 0)}
         v2 == IF Antisymmetric(M) THEN {} ELSE LET p == CHOOSE p \in BadAnti(M) : TRUE IN {V("antisymmetry", p[1], p[2], 0)}
         v3 == IF Transitive(M) THEN {} ELSE LET t == CHOOSE t \in BadTrans(M) : TRUE IN {V("transitivity", t[1], t[2], t[3])}
         v4 == IF AgreesWith(M, rk) THEN {} ELSE LET p == CHOOSE p \in BadAgree(M, rk) : TRUE
                                                 IN {V("natural-order", p[1], p[2], Sgn(rk[p[1]] - rk[p[2]]))}
     IN Report(v1 \cup v2 \cup v3 \cup v4)
  /\ UNCHANGED <<vars, obs, kt, scans, ties>>

-----------------------------------------------------------------------------
(* C30, comparer level *)
TraceNew == /\ IsEv("New") /\ New(Trace[l].i)
            /\ UNCHANGED <<obs, kt, scans, ties, nviol>>

TraceCmpOpen ==
  /\ TraceSem = "open"
  /\ IsEv("Cmp")
  /\ LET x == Trace[l].x
         y == Trace[l].y
         xi == Trace[l].xi
         yi == Trace[l].yi
         r == Sgn(Trace[l].r)
         nk == NatKey(x, y)
         K == DOMAIN obs
         conflict == obs[xi][yi].l > 0 /\ obs[xi][yi].r # r
         obs2 == IF obs[xi][yi].l > 0 THEN obs ELSE [obs EXCEPT ![xi][yi] = [r |-> r, l |-> l]]
         Known(a, b) == obs2[a][b].l > 0
         G(a, b) == obs2[a][b].r
         L(a, b) == obs2[a][b].l
         \* triangles that contain the new edge (x, y): as first premise, second premise, conclusion
         bad1 == {z \in K : Known(yi, z) /\ Known(xi, z) /\ ~TransOK(r, G(yi, z), G(xi, z))}
         bad2 == {z \in K : Known(z, xi) /\ Known(z, yi) /\ ~TransOK(G(z, xi), r, G(z, yi))}
         bad3 == {z \in K : Known(xi, z) /\ Known(z, yi) /\ ~TransOK(G(xi, z), G(z, yi), r)}
         v0 == IF x = y /\ r # 0 THEN {V("reflexivity", 0, 0, 0)} ELSE {}
         v1 == IF nk.def /\ r # nk.r THEN {V("natural-order", 0, 0, nk.r)} ELSE {}
         v2 == IF conflict THEN {V("same-answer", obs[xi][yi].l, 0, obs[xi][yi].r)} ELSE {}
         v3 == IF xi # yi /\ obs[yi][xi].l > 0 /\ obs[yi][xi].r # -r THEN {V("antisymmetry", obs[yi][xi].l, 0, -obs[yi][xi].r)} ELSE {}
         v4 == IF conflict THEN {}
               ELSE IF bad1 # {} THEN LET z == CHOOSE z \in bad1 : TRUE IN {V("transitivity", L(yi, z), L(xi, z), 0)}
               ELSE IF bad2 # {} THEN LET z == CHOOSE z \in bad2 : TRUE IN {V("transitivity", L(z, xi), L(z, yi), 0)}
               ELSE IF bad3 # {} THEN LET z == CHOOSE z \in bad3 : TRUE IN {V("transitivity", L(xi, z), L(z, yi), 0)}
               ELSE {}
     IN /\ kt[xi] \in {<<>>, x} /\ kt[yi] \in {<<>>, y} /\ (xi = yi <=> x = y)     \* the numbering is a bijection
        /\ kt[xi] = <<>> => \A a \in DOMAIN kt : kt[a] # x
        /\ kt[yi] = <<>> => \A a \in DOMAIN kt : kt[a] # y
        /\ kt' = [kt EXCEPT ![xi] = x, ![yi] = y]
        /\ Report(v0 \cup v1 \cup v2 \cup v3 \cup v4)
        /\ obs' = obs2
  /\ UNCHANGED <<vars, scans, ties>>

MismOf(a, x, y) == a.mism \cup {<<f, "absent", CK(x[f]), CK(y[f])>> : f \in IF Mode = "default" THEN IgnoredFields(a.fl, x, y) ELSE {}}

TraceCmpMem ==
  /\ TraceSem = "memory"
  /\ IsEv("Cmp")
  /\ LET i == Trace[l].i
         x == Trace[l].x
         y == Trace[l].y
         a == Answer(mem[i], flds[i], x, y)
     IN /\ (~Uniform(a, x, y) => PrintT(<<"MISM", l, ToJson(MismOf(a, x, y))>>))
        /\ (a.r # Sgn(Trace[l].r) => PrintT(<<"DIFF", l, a.r, Trace[l].r>>))
        /\ Step(i, x, y, a)
  /\ UNCHANGED <<hist, obs, kt, scans, ties, nviol>>

-----------------------------------------------------------------------------
(* C30, store level: what transactions of different processes see of one store *)
Range(s) == {s[n] : n \in DOMAIN s}
Pos(s, k) == CHOOSE n \in DOMAIN s : s[n] = k

TraceScan ==
  /\ IsEv("Scan")
  /\ LET ks == Trace[l].keys
         bad == {p \in (DOMAIN ks) \X (DOMAIN ks) :
                   p[1] < p[2] /\ LET nk == NatKey(ks[p[1]], ks[p[2]]) IN nk.def /\ nk.r > 0}
     IN /\ Report(IF TraceSem = "open" /\ bad # {}
                  THEN LET p == CHOOSE p \in bad : TRUE IN {V("scan-order", p[1], p[2], 0)} ELSE {})
        /\ scans' = (Trace[l].i :> ks) @@ scans
  /\ UNCHANGED <<vars, obs, kt, ties>>

TraceFind ==
  /\ IsEv("Find")
  /\ LET i == Trace[l].i
         x == Trace[l].x
     IN /\ Report(IF TraceSem = "open" /\ i \in DOMAIN scans /\ x \in Range(scans[i]) /\ ~Trace[l].found
                  THEN {V("find-miss", 0, 0, 0)} ELSE {})
        /\ ties' = IF Trace[l].found THEN ties \cup {<<i, x, Trace[l].at>>} ELSE ties
  /\ UNCHANGED <<vars, obs, kt, scans>>

Tied(i, u, v) == \E t \in ties : t[1] = i /\ t[2] = u /\ \E t2 \in ties : t2[1] = i /\ t2[2] = v /\ t2[3] = t[3]

TraceEndStore ==
  /\ IsEv("EndStore")
  /\ LET bad == {q \in (DOMAIN scans) \X (DOMAIN scans) :
                   /\ q[1] < q[2] /\ Range(scans[q[1]]) = Range(scans[q[2]])
                   /\ \E u \in Range(scans[q[1]]), v \in Range(scans[q[1]]) :
                        /\ Pos(scans[q[1]], u) < Pos(scans[q[1]], v)
                        /\ Pos(scans[q[2]], v) < Pos(scans[q[2]], u)
                        /\ ~Tied(q[1], u, v) /\ ~Tied(q[2], u, v)}
     IN Report(IF TraceSem = "open" /\ bad # {}
               THEN LET q == CHOOSE q \in bad : TRUE IN {V("scan-disagree", q[1], q[2], 0)} ELSE {})
  /\ UNCHANGED <<vars, obs, kt, scans, ties>>

-----------------------------------------------------------------------------
TraceNext == \/ TraceReset \/ TraceMatrix \/ TraceNew \/ TraceCmpOpen \/ TraceCmpMem
             \/ TraceScan \/ TraceFind \/ TraceEndStore

TraceSpec == TraceInit /\ [][TraceNext]_tvars

TraceTypeOK == /\ mem \in [Insts -> [Fields -> Kinds \cup {"unset"}]]
               /\ nviol \in Nat

HighWater == IF l > TLCGet(1) THEN TLCSet(1, l) ELSE TRUE
TraceAccepted == /\ PrintT(<<"HWM", TLCGet(1) - 1>>)
                 /\ TLCGet(1) - 1 = Len(Trace)
=============================================================================
