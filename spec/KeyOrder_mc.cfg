SPECIFICATION Spec
CONSTANTS
  Vals = {"null", "F", "T", "n1", "n2", "n1h", "sa", "sb"}
  NF = 2
  Desc = {2}
  Mode = "indexspec"
  Semantics = "memory"
  Insts = {1, 2}
  MaxHist = 3
  Emit = "both"
VIEW View
INVARIANTS TypeOK SameAnswerUniform NaturalOnUniform InstancePreorder EmitWitness
CHECK_DEADLOCK FALSE
