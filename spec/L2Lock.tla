------------------------------- MODULE L2Lock -------------------------------
(* The lock services behind sop.Locker, modelled step by step as the code executes them:

     variant "mem"   = cache.L2InMemoryCache       (/repo/cache/l2inmemorycache.go, l2inmemorycache.sharded_map.go)
     variant "redis" = adapters/redis client        (/repo/adapters/redis/locker.go)

   tab[k] = (owner lock id, remaining time) is the lock table (one shard of the in-memory `locks` map / the
   Redis key space).  Time is kept *relative*: x = expiry - now, decremented by Tick, so that the state space is
   finite without bounding the clock; an entry is live iff x > 0 (the code: not time.Now().After(expiration)).
   Expired in-memory entries keep counting down to Floor (their order matters for the eviction victim).  One *step* of the specification is
   one atomic access of the implementation to the table:
     mem   : loadOrStore / compareAndSwap / compareAndDelete / load on one key (under the shard mutex);
             Lock's take-over of an expired entry is two accesses (loadOrStore sees it, compareAndSwap replaces it)
     redis : one Redis command on one key (SET NX PX, GET, GETEX) or one multi-key DEL
   A public call is Begin ; Step* ; Return.  `FNext` interleaves the steps of several owners and clock ticks
   arbitrarily (exhaustive model: any interleaving, expiry at any point).  `ACall` is a whole call executed
   without interleaving (the fold of the very same steps); it is what the trace specification consumes for calls
   recorded from serial executions of the real code.

   Differences between the two implementations that the model keeps (read from the code):
     * mem Lock sorts the keys, acquires key by key and *releases what it newly acquired* on failure;
       redis Lock SETNXes every key, then GETs the failed ones; on failure it leaves the acquired keys in place
       (callers then call Unlock, which relies on the client side LockKey.IsLockOwner flags = `flag`).
     * neither refreshes the TTL on re-entry.
     * mem IsLockedTTL checks every key first (deleting an expired own entry) and refreshes only if all are owned;
       redis IsLockedTTL GETEXes every key, i.e. refreshes the TTL of every live key *whoever owns it*.
     * mem Unlock deletes entries whose lock id is the caller's; redis Unlock DELetes every key whose client side
       flag is set, without looking at the stored owner   (finding action, guarded by AllowForeignDelete).
     * redis IsLockedTTL by a non-owner with a shorter duration cuts the holder's TTL
       (finding action, guarded by AllowForeignShorten); lengthening it is harmless and always modelled.
     * mem inserts into a full table (shard) evict the entry with the earliest expiry, live or not
       (finding action, guarded by AllowEvictLive); expired entries stay in the table until taken over.
   With all guards FALSE the model is the implementation with these steps repaired (evict expired entries
   only, else grow; compare-and-delete; no TTL cut by non-owners) and must satisfy MutualExclusion and
   OnlyOwnerReleases outright.  With a guard TRUE the finding step is possible *in addition* to the repaired
   one (so the same model accepts the code as it is and the code once repaired); `taints` records which
   finding steps happened and the invariants are asserted for untainted behaviours, so that any *other* way
   to break them stays visible.  Exhaustive runs follow a behaviour up to its first finding step.  *)
EXTENDS Integers, Sequences, FiniteSets, TLC, Json

CONSTANTS Owners,             \* lock ids (strings)
          Keys,               \* lock keys, integers; the integer order is the sort order of the key names
          TTLs,               \* lock durations, in clock units
          FloorN,             \* expired entries keep counting down to -FloorN
          Variants,           \* subset of {"mem", "redis"}
          Caps,               \* table capacities (entries); Inf for unbounded
          AllowEvictLive,     \* finding action: mem insert into a full table evicts a live lock
          AllowForeignDelete, \* finding action: redis Unlock deletes a live lock of another owner
          AllowForeignShorten,\* finding action: redis IsLockedTTL of a non-owner shortens the holder's TTL
          MaxHist             \* bound on the recorded history (atomic model with history only)

VARIABLES variant, cap,       \* configuration, fixed by Init
          tab,                \* [Keys -> [o: owner or None, x: remaining time]]
          flag,               \* [Owners -> [Keys -> BOOLEAN]]  client side LockKey.IsLockOwner (redis only; read by Unlock)
          call,               \* [Owners -> call record]  the public call in progress
          grant,              \* ghost: [Owners -> [Keys -> expiry or 0]]  what each owner was told it holds
          taints,             \* ghost: the finding actions taken so far (set of "evict", "delete", "shorten")
          hist                \* ghost: history of calls (atomic model; hidden by VIEW)

vars == <<variant, cap, tab, flag, call, grant, taints, hist>>
tainted == taints # {}
view == <<variant, cap, tab, flag, call, grant, taints>>

None  == "-"
Floor == 0 - FloorN
Inf   == 99
Empty == [o |-> None, x |-> 0]
Ops   == {"Lock", "DualLock", "IsLocked", "IsLockedTTL", "Unlock"}

Live(e)   == e.o # None /\ e.x > 0
Range(s)  == {s[i] : i \in 1..Len(s)}
Min(a, b) == IF a < b THEN a ELSE b
Max(a, b) == IF a < b THEN b ELSE a

NoGx == [k \in Keys |-> 0]
Idle == [op |-> "idle", all |-> <<>>, ks |-> <<>>, ttl |-> 0, ph |-> "idle", acq |-> <<>>, failed |-> <<>>,
         ok |-> TRUE, other |-> None, gx |-> NoGx, nx |-> 0, seen |-> Empty]

-----------------------------------------------------------------------------
(* A "local state" st = [tab, fl, c, taint, v, cap] is the part of the state one owner's step reads and writes:
   the table, that owner's flags, its call record, the taint bit, and the configuration.
   StepSet(st, o) is the set of possible results of the next step of owner o's call.  *)

Ret(st, ok, other) == [st EXCEPT !.c.ph = "ret", !.c.ok = ok, !.c.other = other, !.c.ks = <<>>,
                               !.c.acq = <<>>, !.c.failed = <<>>, !.c.nx = 0]

\* --- mem: insertion of entry e under absent key k (shardedMap.loadOrStore, "Eviction logic")
MemInsert(st, k, e) ==
  LET t       == st.tab
      present == {j \in Keys : t[j].o # None}
      n       == Cardinality(present)
      m       == Min(n, 5)                                     \* sampleSize = 5
      \* the code: earliest expiry of a sample of m entries in map order (any order) => v is a possible victim
      \* iff at least m-1 other entries expire no earlier
      codeVictims == {v \in present : Cardinality({j \in present \ {v} : t[j].x >= t[v].x}) >= m - 1}
      expired == {v \in present : ~Live(t[v])}
      put(v, tnt) == [tab |-> [[t EXCEPT ![v] = Empty] EXCEPT ![k] = e], taint |-> tnt]
      grow    == [tab |-> [t EXCEPT ![k] = e], taint |-> {}]
      \* repaired: only expired entries go; the table grows when the sample holds live locks only
      good    == {put(v, {}) : v \in expired} \cup (IF Cardinality(present \ expired) >= m THEN {grow} ELSE {})
      \* as it is: the sampled entry with the earliest expiry goes, live or not
      asIs    == {put(v, IF Live(t[v]) THEN {"evict"} ELSE {}) : v \in codeVictims}
  IN IF n < st.cap THEN {grow}
     ELSE IF AllowEvictLive THEN good \cup asIs ELSE good

MemLockStep(st, o) ==                         \* L2InMemoryCache.Lock, one key per step
  LET c == st.c IN
  IF c.ks = <<>>
  THEN {IF c.op = "DualLock" THEN [st EXCEPT !.c.ph = "vchk", !.c.ks = c.all] ELSE Ret(st, TRUE, None)}
  ELSE LET k == Head(c.ks)  e == st.tab[k]  new == [o |-> o, x |-> c.ttl] IN
       IF e.o = None                          \* loadOrStore stored
       THEN {[st EXCEPT !.tab = r.tab, !.taint = st.taint \cup r.taint, !.c.ks = Tail(@),
                        !.c.acq = Append(@, k), !.c.gx[k] = new.x] : r \in MemInsert(st, k, new)}
       ELSE IF ~(e.x > 0)                     \* loaded an expired entry (also an own one): compareAndSwap is next
       THEN {[st EXCEPT !.c.ph = "cas", !.c.seen = e]}
       ELSE IF e.o = o                        \* re-entry, TTL not refreshed
       THEN {[st EXCEPT !.c.ks = Tail(@), !.c.gx[k] = e.x]}
       ELSE {[st EXCEPT !.c.ph = "rb", !.c.ks = c.acq, !.c.ok = FALSE, !.c.other = e.o]}

MemCasStep(st, o) ==                          \* compareAndSwap(key, the expired entry loaded before, new entry)
  LET c == st.c  k == Head(c.ks)  new == [o |-> o, x |-> c.ttl] IN
  IF st.tab[k] = c.seen
  THEN {[st EXCEPT !.tab[k] = new, !.c.ph = "lock", !.c.seen = Empty, !.c.ks = Tail(@),
                   !.c.acq = Append(@, k), !.c.gx[k] = new.x]}
  ELSE {[st EXCEPT !.c.ph = "rb", !.c.ks = c.acq, !.c.ok = FALSE,      \* someone else took it: fail, reporting the
                   !.c.other = c.seen.o, !.c.seen = Empty]}           \* owner of the *expired* entry (as the code does)

MemRollbackStep(st, o) ==                     \* release of the newly acquired keys
  LET c == st.c IN
  IF c.ks = <<>> THEN {Ret(st, FALSE, c.other)}
  ELSE LET k == Head(c.ks) IN
       {[st EXCEPT !.tab[k] = IF st.tab[k].o = o THEN Empty ELSE @, !.c.ks = Tail(@)]}

MemCheckStep(st, o) ==                        \* L2InMemoryCache.IsLocked (read only)
  LET c == st.c IN
  IF c.ks = <<>> THEN {Ret(st, TRUE, None)}
  ELSE LET e == st.tab[Head(c.ks)] IN
       IF e.o = o /\ e.x > 0 THEN {[st EXCEPT !.c.ks = Tail(@)]} ELSE {Ret(st, FALSE, None)}

MemTTLCheckStep(st, o) ==                     \* IsLockedTTL part 1
  LET c == st.c IN
  IF c.ks = <<>> THEN {[st EXCEPT !.c.ph = "tref", !.c.ks = c.all, !.c.nx = c.ttl]}
  ELSE LET k == Head(c.ks)  e == st.tab[k] IN
       IF e.o # o THEN {Ret(st, FALSE, None)}
       ELSE IF ~(e.x > 0) THEN {Ret([st EXCEPT !.tab[k] = Empty], FALSE, None)}   \* compareAndDelete
       ELSE {[st EXCEPT !.c.ks = Tail(@)]}

MemTTLRefreshStep(st, o) ==                   \* IsLockedTTL part 2
  LET c == st.c IN
  IF c.ks = <<>> THEN {Ret([st EXCEPT !.c.gx = [k \in Keys |-> IF k \in Range(c.all) THEN c.nx ELSE 0]], TRUE, None)}
  ELSE LET k == Head(c.ks)  e == st.tab[k] IN
       IF e.o # o THEN {Ret(st, FALSE, None)}
       ELSE {[st EXCEPT !.tab[k].x = c.nx, !.c.ks = Tail(@)]}

MemUnlockStep(st, o) ==                       \* Unlock: compareAndDelete when the lock id is the caller's
  LET c == st.c IN
  IF c.ks = <<>> THEN {Ret(st, TRUE, None)}
  ELSE LET k == Head(c.ks) IN
       {[st EXCEPT !.tab[k] = IF st.tab[k].o = o THEN Empty ELSE @, !.c.ks = Tail(@)]}

\* --- redis
RedisSetNXStep(st, o) ==                      \* client.Lock, pipeline 1: SET k id PX ttl NX
  LET c == st.c IN
  IF c.ks = <<>>
  THEN {IF c.failed = <<>>
        THEN (IF c.op = "DualLock" THEN [st EXCEPT !.c.ph = "vchk", !.c.ks = c.all] ELSE Ret(st, TRUE, None))
        ELSE [st EXCEPT !.c.ph = "get", !.c.ks = c.failed]}
  ELSE LET k == Head(c.ks)  e == st.tab[k]  new == [o |-> o, x |-> c.ttl] IN
       IF ~Live(e)
       THEN {[st EXCEPT !.tab[k] = new, !.fl[k] = TRUE, !.c.gx[k] = new.x, !.c.ks = Tail(@)]}
       ELSE {[st EXCEPT !.c.failed = Append(@, k), !.c.ks = Tail(@)]}

RedisGetStep(st, o) ==                        \* client.Lock, pipeline 2: GET of the keys whose SETNX failed
  LET c == st.c IN
  IF c.ks = <<>>
  THEN {IF c.op = "DualLock" THEN [st EXCEPT !.c.ph = "vchk", !.c.ks = c.all] ELSE Ret(st, TRUE, None)}
  ELSE LET k == Head(c.ks)  e == st.tab[k] IN
       IF ~Live(e) THEN {Ret(st, FALSE, None)}                   \* gone in the interim
       ELSE IF e.o = o THEN {[st EXCEPT !.fl[k] = TRUE, !.c.gx[k] = e.x, !.c.ks = Tail(@)]}
       ELSE {Ret(st, FALSE, e.o)}                                \* acquired keys stay (no release)

RedisCheckStep(st, o) ==                      \* client.IsLocked: GET every key, sets the flags
  LET c == st.c IN
  IF c.ks = <<>> THEN {Ret(st, c.ok, None)}
  ELSE LET k == Head(c.ks)  e == st.tab[k]  mine == Live(e) /\ e.o = o IN
       {[st EXCEPT !.fl[k] = mine, !.c.ok = c.ok /\ mine, !.c.ks = Tail(@)]}

RedisGetExStep(st, o) ==                      \* client.IsLockedTTL: GETEX every key, ownership compared afterwards:
  LET c == st.c IN                            \* the TTL of every live key is set, whoever owns it
  IF c.ks = <<>> THEN {Ret(st, c.ok, None)}
  ELSE LET k == Head(c.ks)  e == st.tab[k]  mine == Live(e) /\ e.o = o
           shortens == Live(e) /\ ~mine /\ c.ttl < e.x           \* a non-owner cuts the holder's TTL (finding)
           upd(nx, tnt) == [st EXCEPT !.tab[k].x = nx, !.taint = st.taint \cup tnt,
                                      !.fl[k] = mine, !.c.ok = c.ok /\ mine,
                                      !.c.gx[k] = IF mine THEN c.ttl ELSE 0, !.c.ks = Tail(@)]
       IN IF ~Live(e) THEN {upd(e.x, {})}
          ELSE IF mine THEN {upd(c.ttl, {})}
          ELSE IF ~shortens THEN {upd(c.ttl, {}), upd(e.x, {})}    \* lengthening another owner's TTL: harmless
          ELSE {upd(e.x, {})} \cup (IF AllowForeignShorten THEN {upd(c.ttl, {"shorten"})} ELSE {})

RedisDelStep(st, o) ==                        \* client.Unlock: one DEL of the flagged keys
  LET c == st.c
      D       == {k \in Range(c.all) : st.fl[k]}
      foreign == {k \in D : Live(st.tab[k]) /\ st.tab[k].o # o}
      del(S, tnt) == Ret([st EXCEPT !.tab = [k \in Keys |-> IF k \in S THEN Empty ELSE st.tab[k]],
                                   !.taint = st.taint \cup tnt], TRUE, None)
  IN {del(D \ foreign, {})}                                        \* repaired: compare-and-delete
     \cup (IF AllowForeignDelete /\ foreign # {} THEN {del(D, {"delete"})} ELSE {})   \* as it is: delete by key

StepSet(st, o) ==
  LET ph == st.c.ph IN
  IF st.v = "mem"
  THEN CASE ph = "lock" -> MemLockStep(st, o)
         [] ph = "cas"  -> MemCasStep(st, o)
         [] ph = "rb"   -> MemRollbackStep(st, o)
         [] ph = "chk"  -> MemCheckStep(st, o)
         [] ph = "vchk" -> MemCheckStep(st, o)
         [] ph = "tchk" -> MemTTLCheckStep(st, o)
         [] ph = "tref" -> MemTTLRefreshStep(st, o)
         [] ph = "unl"  -> MemUnlockStep(st, o)
         [] OTHER       -> {}
  ELSE CASE ph = "setnx" -> RedisSetNXStep(st, o)
         [] ph = "get"   -> RedisGetStep(st, o)
         [] ph = "chk"   -> RedisCheckStep(st, o)
         [] ph = "vchk"  -> RedisCheckStep(st, o)
         [] ph = "getex" -> RedisGetExStep(st, o)
         [] ph = "del"   -> RedisDelStep(st, o)
         [] OTHER        -> {}

FirstPhase(v, op) ==
  IF v = "mem"
  THEN CASE op \in {"Lock", "DualLock"} -> "lock" [] op = "IsLocked" -> "chk"
         [] op = "IsLockedTTL" -> "tchk" [] op = "Unlock" -> "unl"
  ELSE CASE op \in {"Lock", "DualLock"} -> "setnx" [] op = "IsLocked" -> "chk"
         [] op = "IsLockedTTL" -> "getex" [] op = "Unlock" -> "del"

NewCall(v, op, K, ttl) ==
  LET ks == IF v = "mem" /\ op \in {"Lock", "DualLock"} THEN SortSeq(K, LAMBDA a, b : a < b) ELSE K IN
  [Idle EXCEPT !.op = op, !.all = ks, !.ks = ks, !.ttl = ttl, !.ph = FirstPhase(v, op)]

Local(o, c) == [tab |-> tab, fl |-> flag[o], c |-> c, taint |-> taints, v |-> variant, cap |-> cap]

\* what the owner is told by the returned call
GrantAfter(g, o, c) ==
  IF c.ok /\ c.op \in {"Lock", "DualLock", "IsLockedTTL"}
  THEN [g EXCEPT ![o] = [k \in Keys |-> IF k \in Range(c.all) THEN c.gx[k] ELSE g[o][k]]]
  ELSE g
\* calling Unlock gives the keys up, whatever the service does with the request
\* ... and asking for a TTL of d from now on means not counting on more than that
GrantBegin(g, o, op, K, ttl) ==
  CASE op = "Unlock"      -> [g EXCEPT ![o] = [k \in Keys |-> IF k \in Range(K) THEN 0 ELSE g[o][k]]]
    [] op = "IsLockedTTL" -> [g EXCEPT ![o] = [k \in Keys |-> IF k \in Range(K) THEN Min(g[o][k], ttl) ELSE g[o][k]]]
    [] OTHER              -> g

RECURSIVE RunSet(_, _)
RunSet(S, o) == IF \A s \in S : s.c.ph = "ret" THEN S
                ELSE RunSet(UNION {IF s.c.ph = "ret" THEN {s} ELSE StepSet(s, o) : s \in S}, o)

-----------------------------------------------------------------------------
Init == /\ variant \in Variants /\ cap \in Caps /\ (variant = "redis" => cap = Inf)     \* capacity is an in-memory matter
        /\ tab = [k \in Keys |-> Empty]
        /\ flag = [o \in Owners |-> [k \in Keys |-> FALSE]]
        /\ call = [o \in Owners |-> Idle]
        /\ grant = [o \in Owners |-> NoGx]
        /\ taints = {} /\ hist = <<>>

\* one unit of time passes (at any point, also in the middle of calls); Redis drops keys at expiry
Dec0(x) == Max(x - 1, 0)
Tick == /\ tab' = [k \in Keys |-> IF tab[k].o = None THEN Empty
                                  ELSE IF variant = "redis" /\ tab[k].x <= 1 THEN Empty
                                  ELSE [tab[k] EXCEPT !.x = Max(@ - 1, Floor)]]
        /\ grant' = [o \in Owners |-> [k \in Keys |-> Dec0(grant[o][k])]]
        /\ call' = [o \in Owners |-> [call[o] EXCEPT !.gx = [k \in Keys |-> Dec0(@[k])],
                                                     !.nx = IF call[o].ph = "tref" THEN Max(@ - 1, Floor) ELSE @,
                                                     !.seen = IF @.o = None THEN @ ELSE [@ EXCEPT !.x = Max(@ - 1, Floor)]]]
        /\ UNCHANGED <<variant, cap, flag, taints>>

\* ---- fine grained model
Begin(o, op, K, ttl) ==
  /\ call[o].ph = "idle"
  /\ call' = [call EXCEPT ![o] = NewCall(variant, op, K, ttl)]
  /\ grant' = GrantBegin(grant, o, op, K, ttl)
  /\ UNCHANGED <<variant, cap, tab, flag, taints, hist>>

Step(o) ==
  /\ call[o].ph \notin {"idle", "ret"}
  /\ \E s \in StepSet(Local(o, call[o]), o) :
        /\ tab' = s.tab /\ flag' = [flag EXCEPT ![o] = s.fl] /\ call' = [call EXCEPT ![o] = s.c]
        /\ taints' = s.taint
  /\ UNCHANGED <<variant, cap, grant, hist>>

Return(o, ok, other) ==
  /\ call[o].ph = "ret" /\ call[o].ok = ok /\ call[o].other = other
  /\ grant' = GrantAfter(grant, o, call[o])
  /\ call' = [call EXCEPT ![o] = Idle]
  /\ UNCHANGED <<variant, cap, tab, flag, taints, hist>>

FTick == ~tainted /\ Tick /\ UNCHANGED hist

\* ---- the same with the purely local steps merged into their neighbours (exhaustive model): the invocation is
\* merged with the call's first table access, the return with its last one, phase changes with the access before.
Bookkeeping(s) == /\ s.c.ph \notin {"ret", "idle"}
                  /\ IF s.c.ph = "del" THEN {k \in Range(s.c.all) : s.fl[k]} = {} ELSE s.c.ks = <<>>
RECURSIVE Norm(_, _)
Norm(s, o) == IF Bookkeeping(s) THEN Norm(CHOOSE n \in StepSet(s, o) : TRUE, o) ELSE s

Apply(o, s, g) ==
  /\ tab' = s.tab /\ flag' = [flag EXCEPT ![o] = s.fl] /\ taints' = s.taint
  /\ IF s.c.ph = "ret" THEN call' = [call EXCEPT ![o] = Idle] /\ grant' = GrantAfter(g, o, s.c)
                        ELSE call' = [call EXCEPT ![o] = s.c] /\ grant' = g
  /\ UNCHANGED <<variant, cap, hist>>

MBegin(o, op, K, ttl) ==
  /\ ~tainted /\ call[o].ph = "idle"
  /\ \E s \in StepSet(Norm(Local(o, NewCall(variant, op, K, ttl)), o), o) :
        Apply(o, Norm(s, o), GrantBegin(grant, o, op, K, ttl))

MStep(o) ==
  /\ ~tainted /\ call[o].ph # "idle"
  /\ \E s \in StepSet(Local(o, call[o]), o) : Apply(o, Norm(s, o), grant)

\* ---- for traces of interleaved executions: invocation / one table access (= one Redis command) / return
TBegin(o, op, K, ttl) ==
  /\ call[o].ph = "idle"
  /\ call' = [call EXCEPT ![o] = Norm(Local(o, NewCall(variant, op, K, ttl)), o).c]
  /\ grant' = GrantBegin(grant, o, op, K, ttl)
  /\ UNCHANGED <<variant, cap, tab, flag, taints, hist>>

TStep(o) ==
  /\ call[o].ph \notin {"idle", "ret"}
  /\ \E s \in StepSet(Local(o, call[o]), o) :
        LET n == Norm(s, o) IN
        /\ tab' = n.tab /\ flag' = [flag EXCEPT ![o] = n.fl] /\ call' = [call EXCEPT ![o] = n.c]
        /\ taints' = n.taint
  /\ UNCHANGED <<variant, cap, grant, hist>>

\* ---- a whole call without interleaving (serial executions)
CallRec(o, op, K, ttl, ok, other) == [o |-> o, op |-> op, ks |-> K, ttl |-> ttl, ok |-> ok, other |-> other]

\* the outcomes of a whole call: final local states of running its steps to completion
Outcomes(o, op, K, ttl) == RunSet({Local(o, NewCall(variant, op, K, ttl))}, o)

Effect(o, op, K, ttl, s) ==
  /\ tab' = s.tab /\ flag' = [flag EXCEPT ![o] = s.fl] /\ taints' = s.taint
  /\ grant' = GrantAfter(GrantBegin(grant, o, op, K, ttl), o, s.c)
  /\ UNCHANGED <<variant, cap, call>>

ACall(o, op, K, ttl, ok, other) ==
  /\ \A p \in Owners : call[p].ph = "idle"
  /\ \E s \in Outcomes(o, op, K, ttl) : s.c.ok = ok /\ s.c.other = other /\ Effect(o, op, K, ttl, s)

\* the same, recording the history (behaviour generation), result not given but computed
AStep(o, op, K, ttl) ==
  /\ ~tainted /\ Len(hist) < MaxHist
  /\ \A p \in Owners : call[p].ph = "idle"
  /\ \E s \in Outcomes(o, op, K, ttl) :
        /\ Effect(o, op, K, ttl, s)
        /\ hist' = Append(hist, CallRec(o, op, K, ttl, s.c.ok, s.c.other))

ATick == /\ ~tainted /\ Len(hist) < MaxHist /\ Tick
         /\ hist' = Append(hist, CallRec(None, "Tick", <<>>, 0, TRUE, None))

\* ... and without recording it (exhaustive atomic model)
AStepNoHist(o, op, K, ttl) ==
  /\ ~tainted /\ \A p \in Owners : call[p].ph = "idle"
  /\ \E s \in Outcomes(o, op, K, ttl) : Effect(o, op, K, ttl, s)
  /\ UNCHANGED hist

\* key sequences tried by the exhaustive models: every non-empty subset, ascending
RECURSIVE SeqOf(_)
SeqOf(S) == IF S = {} THEN <<>>
            ELSE LET m == CHOOSE x \in S : \A y \in S : x <= y IN <<m>> \o SeqOf(S \ {m})
KeySeqs == {SeqOf(S) : S \in SUBSET Keys \ {{}}}

\* IsLocked and Unlock take no duration
TTLsOf(op) == IF op \in {"IsLocked", "Unlock"} THEN {0} ELSE TTLs

\* Behaviours are followed up to the first finding step (every action of the exhaustive models is guarded by
\* ~tainted): what the code does after one is judged per trace by the trace specification, not explored here
\* (the ghost `grant` is meaningless once a lock has been lost).
FNext == \/ \E o \in Owners, op \in Ops, K \in KeySeqs : \E ttl \in TTLsOf(op) : MBegin(o, op, K, ttl)
         \/ \E o \in Owners : MStep(o)
         \/ FTick

ANext == \/ \E o \in Owners, op \in Ops, K \in KeySeqs : \E ttl \in TTLsOf(op) : AStep(o, op, K, ttl)
         \/ ATick

ANoHistNext == \/ \E o \in Owners, op \in Ops, K \in KeySeqs : \E ttl \in TTLsOf(op) : AStepNoHist(o, op, K, ttl)
               \/ FTick

FSpec == Init /\ [][FNext]_vars
ASpec == Init /\ [][ANext]_vars
ASpecNoHist == Init /\ [][ANoHistNext]_vars

-----------------------------------------------------------------------------
(* C28 *)
Valid(o, k) == grant[o][k] > 0

\* at any moment a key is held, unexpired, by at most one owner
MutualExclusionRaw == \A k \in Keys : \A o1, o2 \in Owners : (Valid(o1, k) /\ Valid(o2, k)) => o1 = o2
\* nobody but the holder (and nothing but the passing of its TTL) takes the holder's lock away
OnlyOwnerReleasesRaw == \A o \in Owners, k \in Keys : Valid(o, k) => (tab[k].o = o /\ tab[k].x >= grant[o][k])

MutualExclusion   == ~tainted => MutualExclusionRaw
OnlyOwnerReleases == ~tainted => OnlyOwnerReleasesRaw
\* with the finding actions switched off nothing can taint
NeverTainted == (~AllowEvictLive /\ ~AllowForeignDelete /\ ~AllowForeignShorten) => ~tainted

TypeOK == /\ variant \in {"mem", "redis"} /\ cap \in Nat \ {0}
          /\ \A k \in Keys : tab[k].o \in Owners \cup {None} /\ tab[k].x \in Int
          /\ \A o \in Owners : call[o].ph \in {"idle", "ret", "lock", "cas", "rb", "chk", "vchk", "tchk", "tref", "unl",
                                                "setnx", "get", "getex", "del"}
          /\ (variant = "mem" => \A o \in Owners, k \in Keys : ~flag[o][k])

\* owners are interchangeable
Sym == Permutations(Owners)
\* behaviour emission (atomic model with history, hist hidden by VIEW): TLC evaluates an invariant once per distinct
\* state, so this prints one shortest call sequence for every distinct reachable state
EmitAll == PrintT(<<"BEH", ToJson([variant |-> variant, cap |-> cap, tainted |-> tainted, taints |-> taints,
                                   broken |-> ~(MutualExclusionRaw /\ OnlyOwnerReleasesRaw), hist |-> hist])>>)
=============================================================================
