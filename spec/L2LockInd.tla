----------------------------- MODULE L2LockInd -----------------------------
(* Bonus for C28 (no verdict depends on it): the key-level core of L2Lock -- the repaired model, one table
   access per step -- written for Apalache, with an inductive invariant.  TLC explores L2Lock from Init within
   bounds on owners/keys; here IndInv is shown to be preserved by every step from *any* state satisfying it
   (apalache-mc check --init=IndInit --inv=IndInv --length=1), which removes the bound on the length of
   behaviours and on how the state was reached; owners/keys are fixed by CInit (5 owners, 3 keys).

   tab[k]   = (owner, remaining time), live iff x > 0;  grant[<<o,k>>] = remaining time owner o was told it holds k.
   Steps (cf. MemLockStep/MemCasStep/RedisSetNXStep, MemTTLRefreshStep/RedisGetExStep, MemUnlockStep/RedisDelStep):
     Acquire   absent or expired entry -> (o, ttl); the caller is granted ttl
     Reenter   own live entry: granted what the entry has left (no refresh)
     Refresh   own live entry -> ttl (IsLockedTTL), grant follows
     Extend    anybody lengthens a live entry of another owner (redis GETEX by a non-owner, harmless)
     Release   the owner's Unlock: entry deleted only if it is the caller's; the caller's grant is dropped
     Drop      an expired entry disappears (redis expiry, in-memory eviction of expired entries)
     Tick      one unit of time passes  *)
EXTENDS Integers

CONSTANTS
    \* @type: Set(Str);
    Owners,
    \* @type: Set(Int);
    Keys

VARIABLES
    \* @type: Int -> { o: Str, x: Int };
    tab,
    \* @type: <<Str, Int>> -> Int;
    grant

None   == "none"
MaxTTL == 3
Floor  == -1

CInit == Owners = {"A", "B", "C", "D", "E"} /\ Keys = {1, 2, 3}

Max(a, b) == IF a < b THEN b ELSE a

TypeOK == /\ tab \in [Keys -> [o : Owners \union {None}, x : Floor..MaxTTL]]
          /\ grant \in [Owners \X Keys -> 0..MaxTTL]
          /\ \A k \in Keys : tab[k].o = None => tab[k].x = 0

Init == /\ tab = [k \in Keys |-> [o |-> None, x |-> 0]]
        /\ grant = [p \in Owners \X Keys |-> 0]

Live(k) == tab[k].o /= None /\ tab[k].x > 0

Acquire(o, k, ttl) ==
    /\ ~Live(k)
    /\ tab' = [tab EXCEPT ![k] = [o |-> o, x |-> ttl]]
    /\ grant' = [grant EXCEPT ![<<o, k>>] = ttl]

Reenter(o, k) ==
    /\ Live(k) /\ tab[k].o = o
    /\ grant' = [grant EXCEPT ![<<o, k>>] = tab[k].x]
    /\ UNCHANGED tab

Refresh(o, k, ttl) ==
    /\ Live(k) /\ tab[k].o = o
    /\ tab' = [tab EXCEPT ![k] = [o |-> o, x |-> ttl]]
    /\ grant' = [grant EXCEPT ![<<o, k>>] = ttl]

Extend(k, ttl) ==
    /\ Live(k) /\ ttl >= tab[k].x
    /\ tab' = [tab EXCEPT ![k] = [o |-> tab[k].o, x |-> ttl]]
    /\ UNCHANGED grant

Release(o, k) ==
    /\ tab' = IF tab[k].o = o THEN [tab EXCEPT ![k] = [o |-> None, x |-> 0]] ELSE tab
    /\ grant' = [grant EXCEPT ![<<o, k>>] = 0]

Drop(k) ==
    /\ tab[k].o /= None /\ tab[k].x <= 0
    /\ tab' = [tab EXCEPT ![k] = [o |-> None, x |-> 0]]
    /\ UNCHANGED grant

Tick ==
    /\ tab' = [k \in Keys |-> IF tab[k].o = None THEN tab[k] ELSE [o |-> tab[k].o, x |-> Max(tab[k].x - 1, Floor)]]
    /\ grant' = [p \in Owners \X Keys |-> Max(grant[p] - 1, 0)]

Next == \/ \E o \in Owners, k \in Keys, ttl \in 1..MaxTTL : Acquire(o, k, ttl) \/ Refresh(o, k, ttl)
        \/ \E o \in Owners, k \in Keys : Reenter(o, k) \/ Release(o, k)
        \/ \E k \in Keys, ttl \in 1..MaxTTL : Extend(k, ttl)
        \/ \E k \in Keys : Drop(k)
        \/ Tick

\* nobody but the holder (and nothing but the passing of its TTL) takes the holder's lock away
OnlyOwnerReleases == \A o \in Owners, k \in Keys : grant[<<o, k>>] > 0 => (tab[k].o = o /\ tab[k].x >= grant[<<o, k>>])
\* at any moment a key is held, unexpired, by at most one owner  (follows from OnlyOwnerReleases)
MutualExclusion == \A k \in Keys : \A o1, o2 \in Owners : (grant[<<o1, k>>] > 0 /\ grant[<<o2, k>>] > 0) => o1 = o2

IndInv  == TypeOK /\ OnlyOwnerReleases
IndInit == IndInv
=============================================================================
