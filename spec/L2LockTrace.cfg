SPECIFICATION TraceSpec
CONSTANTS
  Owners = {"A","B","C","D"}
  Keys = {1,2,3,4,5,6,7,8}
  TTLs = {1,2,3}
  FloorN = 1000
  Variants = {"mem","redis"}
  Caps = {99}
  AllowEvictLive = TRUE
  AllowForeignDelete = TRUE
  AllowForeignShorten = TRUE
  MaxHist = 0
INVARIANTS MutualExclusion OnlyOwnerReleases NeverTainted
CONSTRAINT HighWater
POSTCONDITION TraceAccepted
CHECK_DEADLOCK FALSE
