---------------------------- MODULE L2LockTrace ----------------------------
(* Trace validation for C28: calls recorded from the real lock services (cache.L2InMemoryCache, adapters/redis
   against the RESP server of harness/lib/resp) are consumed line by line; every line must be an enabled action
   of L2Lock with exactly the logged result, and the C28 invariants are evaluated after every line.

   Events (all fields present in every line, see checks/C28.py norm()):
     Setup   variant cap silent      configuration of the trace
     Call    o op ks ttl ok other    a whole call, executed without interleaving          -> ACall
     Tick                            one unit of time has passed                           -> Tick
     Begin   o op ks ttl             invocation of a call that runs interleaved            -> TBegin
     Step    o cmd                   one Redis command of o's call was executed            -> TStep
     Return  o ok other              the interleaved call returned                         -> Return
     End     id                      end of the trace                                      -> TraceEnd
   In "silent" traces (concurrent goroutines on the in-memory cache, whose table accesses cannot be observed)
   the steps of pending calls are taken without consuming a line.  *)
EXTENDS L2Lock

VARIABLES l,        \* next trace line to consume
          silent    \* table accesses are unobserved

Trace == ndJsonDeserialize("trace.ndjson")

tvars == <<vars, l, silent>>

IsEv(e) == l <= Len(Trace) /\ Trace[l].ev = e /\ l' = l + 1
Ev == Trace[l]

Blank == /\ variant = "unset" /\ cap = Inf /\ tab = [k \in Keys |-> Empty]
         /\ flag = [o \in Owners |-> [k \in Keys |-> FALSE]] /\ call = [o \in Owners |-> Idle]
         /\ grant = [o \in Owners |-> NoGx] /\ taints = {} /\ hist = <<>> /\ silent = FALSE

TraceInit == l = 1 /\ TLCSet(1, 1) /\ Blank

Configured == variant \in {"mem", "redis"}

ToBlank == /\ variant' = "unset" /\ cap' = Inf /\ tab' = [k \in Keys |-> Empty]
           /\ flag' = [o \in Owners |-> [k \in Keys |-> FALSE]] /\ call' = [o \in Owners |-> Idle]
           /\ grant' = [o \in Owners |-> NoGx] /\ taints' = {} /\ hist' = <<>> /\ silent' = FALSE

TraceReset == IsEv("Reset") /\ ToBlank

\* end of a trace: report which finding actions this way of explaining the trace needed (the check takes, per
\* trace, the explanations with the fewest: none = the trace conforms to the repaired model), then forget
TraceEnd == /\ IsEv("End") /\ Configured /\ \A o \in Owners : call[o].ph = "idle"
            /\ PrintT(<<"END", Ev.id, taints>>)
            /\ ToBlank

TraceSetup == /\ IsEv("Setup") /\ variant = "unset"
              /\ variant' = Ev.variant /\ cap' = Ev.cap /\ silent' = Ev.silent
              /\ UNCHANGED <<tab, flag, call, grant, taints, hist>>

TraceCall == /\ IsEv("Call") /\ Configured
             /\ ACall(Ev.o, Ev.op, Ev.ks, Ev.ttl, Ev.ok, Ev.other)
             /\ UNCHANGED <<hist, silent>>

TraceTick == IsEv("Tick") /\ Configured /\ Tick /\ UNCHANGED <<hist, silent>>

TraceBegin == /\ IsEv("Begin") /\ Configured
              /\ TBegin(Ev.o, Ev.op, Ev.ks, Ev.ttl) /\ UNCHANGED silent

\* a GET that the client had already pipelined when an earlier reply decided the call has no effect
TraceStep == /\ IsEv("Step") /\ Configured /\ UNCHANGED silent
             /\ \/ TStep(Ev.o)
                \/ call[Ev.o].ph = "ret" /\ Ev.cmd = "GET" /\ UNCHANGED vars

TraceReturn == /\ IsEv("Return") /\ Configured
               /\ Return(Ev.o, Ev.ok, Ev.other) /\ UNCHANGED silent

TraceSilent == /\ silent /\ l <= Len(Trace) /\ UNCHANGED <<l, silent>>
               /\ \E o \in Owners : TStep(o)

TraceNext == TraceReset \/ TraceEnd \/ TraceSetup \/ TraceCall \/ TraceTick \/ TraceBegin \/ TraceStep \/ TraceReturn \/ TraceSilent

TraceSpec == TraceInit /\ [][TraceNext]_tvars

HighWater == IF l > TLCGet(1) THEN TLCSet(1, l) ELSE TRUE
TraceAccepted == /\ PrintT(<<"HWM", TLCGet(1) - 1>>)
                 /\ TLCGet(1) - 1 = Len(Trace)
=============================================================================
