SPECIFICATION ASpec
CONSTANTS
  A = A
  B = B
  C = C
  Owners = {A,B,C}
  Keys = {1,2}
  TTLs = {1,2}
  FloorN = 1
  Variants = {"mem","redis"}
  Caps = {1,99}
  AllowEvictLive = TRUE
  AllowForeignDelete = TRUE
  AllowForeignShorten = TRUE
  MaxHist = 14
INVARIANTS TypeOK MutualExclusion OnlyOwnerReleases NeverTainted EmitAll
VIEW view
SYMMETRY Sym
CHECK_DEADLOCK FALSE
