SPECIFICATION ASpec
CONSTANTS
  A = A
  B = B
  Owners = {A,B}
  Keys = {1,2,3}
  TTLs = {1,2}
  FloorN = 1
  Variants = {"mem"}
  Caps = {2}
  AllowEvictLive = TRUE
  AllowForeignDelete = TRUE
  AllowForeignShorten = TRUE
  MaxHist = 18
INVARIANTS TypeOK MutualExclusion OnlyOwnerReleases NeverTainted EmitAll
VIEW view
SYMMETRY Sym
CHECK_DEADLOCK FALSE
