SPECIFICATION ASpecNoHist
CONSTANTS
  Owners = {"A","B","C"}
  Keys = {1,2,3}
  TTLs = {1,2}
  FloorN = 1
  Variants = {"mem","redis"}
  Caps = {1,2,99}
  AllowEvictLive = FALSE
  AllowForeignDelete = FALSE
  AllowForeignShorten = FALSE
  MaxHist = 0
INVARIANTS TypeOK MutualExclusion OnlyOwnerReleases NeverTainted 
VIEW view
CHECK_DEADLOCK FALSE
