SPECIFICATION FSpec
CONSTANTS
  A = A
  B = B
  Owners = {A,B}
  Keys = {1,2}
  TTLs = {1}
  FloorN = 1
  Variants = {"mem","redis"}
  Caps = {1,99}
  AllowEvictLive = TRUE
  AllowForeignDelete = TRUE
  AllowForeignShorten = TRUE
  MaxHist = 0
INVARIANTS TypeOK MutualExclusion OnlyOwnerReleases NeverTainted
VIEW view
SYMMETRY Sym
CHECK_DEADLOCK FALSE
