SPECIFICATION ASpecNoHist
CONSTANTS
  A = A
  B = B
  C = C
  Owners = {A,B,C}
  Keys = {1,2}
  TTLs = {1,2}
  FloorN = 1
  Variants = {"mem","redis"}
  Caps = {1,99}
  AllowEvictLive = FALSE
  AllowForeignDelete = FALSE
  AllowForeignShorten = FALSE
  MaxHist = 0
INVARIANTS TypeOK MutualExclusion OnlyOwnerReleases NeverTainted
VIEW view
SYMMETRY Sym
CHECK_DEADLOCK FALSE
